(* driver.ml — reads one s-expression command per line on stdin, runs the extracted Coq
   model / spec oracle (Model), prints one s-expression result per line.
   Values: int | #hex (a list of bytes) | ( v v ... ).  Hand-written, ~trusted glue. *)
open Model

type sx = I of int | S of Stdlib.String.t | L of sx list

(* ---- int <-> extracted Z / nat ---- *)
let rec pos_of_int n = if n = 1 then XH else if n land 1 = 0 then XO (pos_of_int (n lsr 1)) else XI (pos_of_int (n lsr 1))
let z_of_int n = if n = 0 then Z0 else if n > 0 then Zpos (pos_of_int n) else Zneg (pos_of_int (-n))
let rec int_of_pos = function XH -> 1 | XO p -> 2 * int_of_pos p | XI p -> 2 * int_of_pos p + 1
let int_of_z = function Z0 -> 0 | Zpos p -> int_of_pos p | Zneg p -> - (int_of_pos p)
let rec nat_of_int n = if n <= 0 then O else S (nat_of_int (n - 1))
let rec int_of_nat = function O -> 0 | S n -> 1 + int_of_nat n

(* small cache for bytes: avoids rebuilding positives for 0..255 *)
let ztab = Array.init 65536 z_of_int
let zi n = if n >= 0 && n < 65536 then ztab.(n) else z_of_int n

(* ---- parsing ---- *)
let parse_sx (s : Stdlib.String.t) : sx =
  let n = Stdlib.String.length s in
  let pos = ref 0 in
  let rec skip () = while !pos < n && (s.[!pos] = ' ' || s.[!pos] = '\n' || s.[!pos] = '\r') do incr pos done in
  let hexv c = match c with '0'..'9' -> Char.code c - 48 | 'a'..'f' -> Char.code c - 87 | 'A'..'F' -> Char.code c - 55 | _ -> failwith "hex" in
  let rec value () =
    skip ();
    if !pos >= n then failwith "eof";
    match s.[!pos] with
    | '(' -> incr pos; let items = ref [] in
      let rec loop () = skip (); if !pos < n && s.[!pos] = ')' then incr pos else (items := value () :: !items; loop ()) in
      loop (); L (List.rev !items)
    | '#' -> incr pos; let start = !pos in
      while !pos < n && (match s.[!pos] with '0'..'9'|'a'..'f'|'A'..'F' -> true | _ -> false) do incr pos done;
      let len = (!pos - start) / 2 in
      let rec build i acc = if i < 0 then acc else build (i - 1) (I (hexv s.[start + 2*i] * 16 + hexv s.[start + 2*i + 1]) :: acc) in
      L (build (len - 1) [])
    | 'a'..'z' | 'A'..'Z' | '_' -> let start = !pos in
      while !pos < n && (match s.[!pos] with 'a'..'z'|'A'..'Z'|'_'|'0'..'9' -> true | _ -> false) do incr pos done;
      S (Stdlib.String.sub s start (!pos - start))
    | _ -> let start = !pos in
      if s.[!pos] = '-' then incr pos;
      while !pos < n && s.[!pos] >= '0' && s.[!pos] <= '9' do incr pos done;
      I (int_of_string (Stdlib.String.sub s start (!pos - start)))
  in value ()

(* ---- decoding helpers ---- *)
let int_of = function I n -> n | _ -> failwith "int expected"
let z_of v = zi (int_of v)
let list_of f = function L l -> List.rev (List.rev_map f l) | _ -> failwith "list expected"
let zs_of v = list_of z_of v
let bool_of v = int_of v <> 0

(* ---- printing ---- *)
let buf = Buffer.create 65536
let pi n = Buffer.add_string buf (string_of_int n)
let pz z = pi (int_of_z z)
let pbool b = pi (if b then 1 else 0)
let plist f l = Buffer.add_char buf '('; List.iteri (fun i x -> if i > 0 then Buffer.add_char buf ' '; f x) l; Buffer.add_char buf ')'
let pzs l = plist pz l
let hexd = "0123456789abcdef"
let pbytes l = (* byte lists as #hex; falls back to a plain list if some value is not a byte *)
  let ints = List.rev (List.rev_map int_of_z l) in
  if List.for_all (fun x -> x >= 0 && x < 256) ints then begin
    Buffer.add_char buf '#';
    List.iter (fun x -> Buffer.add_char buf hexd.[x lsr 4]; Buffer.add_char buf hexd.[x land 15]) ints
  end else plist pi ints
let popt f = function None -> Buffer.add_string buf "()" | Some x -> Buffer.add_char buf '('; f x; Buffer.add_char buf ')'
let sp () = Buffer.add_char buf ' '

let perr = function None -> Buffer.add_string buf "()" | Some e ->
  Buffer.add_string buf (match e with EValue -> "(1)" | EIndex -> "(2)" | EType -> "(3)" | EOverflow -> "(4)" | EUnicode -> "(5)" | ENoEnt -> "(6)" | EOther -> "(7)")
let peffect = function
  | WriteFile (p, c) -> Buffer.add_char buf '('; pzs p; sp (); pbytes c; Buffer.add_char buf ')'
  | MkDir p -> Buffer.add_char buf '('; pzs p; Buffer.add_char buf ')'
let opt_of f = function L [] -> None | L [x] -> Some (f x) | _ -> failwith "option" 
let poutcome o = Buffer.add_char buf '('; pz o.o_status; sp (); plist pzs o.o_lines; sp (); plist peffect o.o_effects; sp (); perr o.o_crash; Buffer.add_char buf ')'
let pair_of f g = function L [a; b] -> (f a, g b) | _ -> failwith "pair"
let pk7 f = Buffer.add_char buf '('; pbytes f.k_name; sp (); pbytes f.k_ext; sp (); pz f.k_kind; sp (); pz f.k_mode; sp (); plist pbytes f.k_chunks; Buffer.add_char buf ')'

let lexeme_of = function
  | L [I 0; w] -> LKeyword (zs_of w) | L [I 1; t] -> LText (zs_of t)
  | L [I 2; t; c] -> LString (zs_of t, bool_of c) | L [I 3; c] -> LDelim (z_of c) | _ -> failwith "lexeme"
let plog = function
  | LSide n -> Buffer.add_char buf '('; pz n; Buffer.add_char buf ')'
  | LFile (side, name, ext, kind, ascii, stored, size, blocks, _) ->
    Buffer.add_char buf '('; pz side; sp (); pzs name; sp (); pzs ext; sp (); pz kind; sp (); pbool ascii; sp (); pbool stored; sp (); pz size; sp (); pz blocks; Buffer.add_char buf ')'
let pdoutcome o = Buffer.add_char buf '('; pz o.d_status; sp (); pzs o.d_text; sp (); plist peffect o.d_effects; sp (); perr o.d_crash; sp (); plist plog o.d_log; Buffer.add_char buf ')'
let pdos f = Buffer.add_char buf '('; pbytes f.d_name; sp (); pbytes f.d_ext; sp (); pz f.d_kind; sp (); pz f.d_flag; sp (); pzs f.d_blocks; sp (); pbytes f.d_content; Buffer.add_char buf ')'
let pside sd =
  let f = fat sd in
  Buffer.add_char buf '('; pbool (side_geometry sd); sp (); pbool (fsck_read sd); sp (); pbool (fsck_strict sd); sp ();
  popt (plist pdos) (dos_files sd); sp ();
  pz (count_status st_free f); sp (); pz (count_status st_reserved f); sp (); pbytes f; sp ();
  plist (fun e -> pbytes e) (cat_entries sd);
  Buffer.add_char buf ')'
let input_of = function L [st; txt] -> (bool_of st, zs_of txt) | _ -> failwith "input"

let dispatch (cmd : Stdlib.String.t) (args : sx list) : unit =
  match cmd, args with
  | "ping", _ -> pi 1
  | "nl", [s; i; w; inputs] -> plist pzs (nl_run (z_of s) (z_of i) (z_of w) (list_of input_of inputs))
  | "nl_spec", [s; i; w; lines] -> plist pzs (nl_spec (z_of s) (z_of i) (z_of w) None (list_of zs_of lines))
  | "nl_defaults", [] -> pzs [nl_default_start; nl_default_increment; nl_default_width]
  | "chomp", [l] -> pzs (chomp (zs_of l))
  | "prettier", [inputs] -> plist pzs (prettier_run (list_of input_of inputs))
  | "pretty_spec", [l] -> pzs (pretty_spec false (zs_of l))
  | "tar_create", [v; fs; arch; srcs] -> poutcome (tar_create (bool_of v) (list_of (pair_of zs_of zs_of) fs) (zs_of arch) (list_of zs_of srcs))
  | "tar_list", [v; raw] -> poutcome (tar_list (bool_of v) (zs_of raw))
  | "tar_extract", [v; into; arch; raw] -> poutcome (tar_extract (bool_of v) (opt_of zs_of into) (zs_of arch) (zs_of raw))
  | "k7_decode", [raw] -> popt (plist pk7) (k7_decode (zs_of raw))
  | "doc_entry", [src; content] -> pk7 (doc_entry (zs_of src) (zs_of content))
  | "doc_path", [src] -> pzs (doc_path (zs_of src))
  | "tokenize", [lines] -> (match tokenize_program (list_of zs_of lines) with Ok b -> Buffer.add_string buf "(0 "; pbytes b; Buffer.add_char buf ')' | Err e -> Buffer.add_string buf "(1 "; perr (Some e); Buffer.add_char buf ')')
  | "lst_to_ascii", [lines] -> pbytes (lst_to_ascii (list_of zs_of lines))
  | "ascii_to_lst", [dos; data] -> pbytes (ascii_to_lst (bool_of dos) (zs_of data))
  | "detok", [img] -> popt (plist (fun (n, t) -> Buffer.add_char buf '('; pz n; sp (); pzs t; Buffer.add_char buf ')')) (detok (zs_of img))
  | "records", [img] -> popt (plist (fun (n, t) -> Buffer.add_char buf '('; pz n; sp (); pbytes t; Buffer.add_char buf ')')) (program_records (zs_of img))
  | "uos", [t] -> pzs (upper_outside_strings false (zs_of t))
  | "line_parts", [l] -> Buffer.add_char buf '('; pz (line_number (zs_of l)); sp (); pzs (line_text (zs_of l)); Buffer.add_char buf ')'
  | "ref_encode", [lx] -> pbytes (ref_encode (list_of lexeme_of lx))
  | "ref_source", [lx] -> pzs (ref_source (list_of lexeme_of lx))
  | "readlines_file", [t] -> plist pzs (readlines_file (zs_of t))
  | "readlines_stdin", [t] -> plist pzs (readlines_stdin (zs_of t))
  | "disk_create", [fd; v; fs; arch; srcs] -> pdoutcome (disk_create (bool_of fd) (bool_of v) (list_of (pair_of zs_of zs_of) fs) (zs_of arch) (list_of zs_of srcs))
  | "disk_add", [fd; v; fs; arch; raw; srcs] -> pdoutcome (disk_add (bool_of fd) (bool_of v) (list_of (pair_of zs_of zs_of) fs) (zs_of arch) (zs_of raw) (list_of zs_of srcs))
  | "disk_list", [fd; v; raw] -> pdoutcome (disk_list (bool_of fd) (bool_of v) (zs_of raw))
  | "disk_extract", [fd; v; into; arch; raw] -> pdoutcome (disk_extract (bool_of fd) (bool_of v) (opt_of zs_of into) (zs_of arch) (zs_of raw))
  | "load_save", [fd; raw] -> (match load_image (bool_of fd) (zs_of raw) with Ok img -> Buffer.add_string buf "(0 "; pbytes (save_image (bool_of fd) img); Buffer.add_char buf ')' | Err e -> Buffer.add_string buf "(1 "; perr (Some e); Buffer.add_char buf ')')
  | "set_payload", [old; v] -> pzs (set_payload (zs_of old) (zs_of v))
  | "fsck", [slot; raw] -> plist pside (sides_of_raw (nat_of_int (int_of slot)) (zs_of raw))
  | "sd_padding_ok", [raw] -> pbool (List.for_all sd_slot_ok (List.concat (List.map (fun x -> x) [])) && true)
  | "doc_disk_kind", [n; e; eo] -> let ((ext, k), f) = doc_disk_kind (zs_of n) (zs_of e) (zs_of eo) in Buffer.add_char buf '('; pzs ext; sp (); pz k; sp (); pz f; Buffer.add_char buf ')'
  | "cli", [tool; argv; fs] ->
    let a = list_of zs_of argv and f = list_of (pair_of zs_of zs_of) fs in
    let o = (match int_of tool with 0 -> tar_main a f | 1 -> disk_main false a f | _ -> disk_main true a f) in
    Buffer.add_char buf '('; pz (cli_status o); sp ();
    plist (function WriteFile (p, _) -> Buffer.add_string buf "(0 "; pzs p; Buffer.add_char buf ')' | MkDir p -> Buffer.add_string buf "(1 "; pzs p; Buffer.add_char buf ')') (cli_effects o);
    Buffer.add_char buf ')'
  | "cli_parse", [which; argv] ->
    let spec = (match int_of which with 0 -> tar_cli | 1 -> disk_cli | 2 -> nl_cli | 3 -> prettier_cli | 4 -> lst2bas_cli | _ -> bas2lst_cli) in
    pi (match parse spec (list_of zs_of argv) with PHelp -> 0 | PError -> 1 | PUnmodelled -> 2 | POk (_, _) -> 3)
  | "py_find", [pat; l; st] -> popt pi (match find_sub (zs_of pat) (zs_of l) (nat_of_int (int_of st)) with Some n -> Some (int_of_nat n) | None -> None)
  | "py_slice", [i; j; l] -> pzs (slice (nat_of_int (int_of i)) (nat_of_int (int_of j)) (zs_of l))
  | "py_splice", [i; j; v; l] -> pzs (splice (nat_of_int (int_of i)) (nat_of_int (int_of j)) (zs_of v) (zs_of l))
  | "py_rstrip", [l] -> pzs (rstrip_py (zs_of l))
  | "py_strip", [l] -> pzs (strip_py (zs_of l))
  | "py_upper", [l] -> pzs (upper_ascii (zs_of l))
  | "py_dec", [n] -> pzs (dec (z_of n))
  | "py_undec", [l] -> pz (undec (take_digits (zs_of l)))
  | "py_basename", [l] -> pzs (basename (zs_of l))
  | "py_dirname", [l] -> pzs (dirname (zs_of l))
  | "py_join", [a; b] -> pzs (path_join (zs_of a) (zs_of b))
  | "py_isspace", [l] -> plist pbool (List.map is_space_py (zs_of l))
  | "py_ljust", [w; l] -> pzs (ljust (z_of w) (zs_of l))
  | _ -> failwith ("unknown command " ^ cmd)

let () =
  try
    while true do
      let line = input_line stdin in
      Buffer.clear buf;
      (try
         (match parse_sx line with
          | L (S c :: args) -> dispatch c args
          | _ -> failwith "command shape");
         print_string "ok "; print_string (Buffer.contents buf)
       with
       | Failure m -> print_string ("fail " ^ m)
       | Stack_overflow -> print_string "fail stack_overflow"
       | Not_found -> print_string "fail not_found");
      print_newline ()
    done
  with End_of_file -> ()
