#!/bin/sh
# built up as the framework grows
cd "$(dirname "$0")" && exec ./check --setup
