#!/bin/sh
# soak.sh <seeds...> : run every registered quick check with each seed on the current tree; report alarms
cd "$(dirname "$0")/.." || exit 2
IDS=$(python3 -c "import json;print(' '.join(c['property_id'] for c in json.load(open('MANIFEST.json'))['checks']))")
./check --setup >/dev/null 2>&1
for S in "$@"; do
  for P in $IDS; do
    OUT=$(VERIF_SEED=$S timeout 3000 ./check $P --tier quick 2>&1); RC=$?
    echo "seed=$S $P rc=$RC $(echo "$OUT" | tail -1)"
    [ $RC -ne 0 ] && echo "$OUT" | grep -E "VIOLATION|MACHINERY" | head -3
  done
done
