"""C16 — moto_nl numbers exactly the unnumbered lines, consistently with their neighbours"""
import re

from framework import scale, CaseResult, text_points, points_text
from props.textcommon import run_text_tool, model_inputs, out_lines, input_lines, repeat_a_source

GEN_FILES = ["GenText"]
RULE = ("texts of 0..8 lines drawn from {numbered (1-9 then digits, up to 25 digits), digits-only, starting with 0, blank, leading blanks, "
        "plain, non-ASCII, holding VT/FF/FS/GS/RS/NEL/LS/PS (which are not line ends), 255..8193 characters long}; 1..3 inputs as files (LF/CRLF/CR, with/without final newline) and/or stdin; start/increment in 1..10^4 "
        "(boundary values first), width 0..12; options given or left to their defaults. signature = sorted feature set "
        "{numbered, unnumbered, unnumbered-after-numbered, zero-led, blank, pad, multi-input, stdin, crlf, no-final-nl, defaults, big-number}; "
        "non-trivial = contains both a numbered and an unnumbered line, or more than one input")
ASSUMPTIONS = ["in-process run of NumberLineCli().run() with sys.stdin rebuilt as CPython does on POSIX (newline=LF); cross-checked by C19's real subprocess runs",
               "line numbers of more than 4300 digits (int() conversion limit) are outside the generated domain"]


def features(case):
    f = set()
    inputs = case["inputs"]
    lines = []
    for i in inputs:
        t = i["text"]
        if i["stdin"]:
            f.add("stdin")
        if "\r\n" in t:
            f.add("crlf")
        if t and not t.endswith("\n"):
            f.add("no-final-nl")
    if len(inputs) > 1:
        f.add("multi-input")
    lines = input_lines(inputs)
    prev_num = False
    for l in lines:
        if re.match("[1-9]", l):
            f.add("numbered")
            prev_num = True
            if len(re.match("[0-9]+", l).group(0)) > 12:
                f.add("big-number")
        else:
            f.add("unnumbered")
            if prev_num:
                f.add("unnumbered-after-numbered")
            if l.startswith("0"):
                f.add("zero-led")
            if l.strip() == "":
                f.add("blank")
    if case.get("width") is None or case.get("start") is None or case.get("inc") is None:
        f.add("defaults")
    if (case.get("width") or 0) > 2:
        f.add("pad")
    return sorted(f)


def gen_line(rng):
    r = rng.random()
    body = rng.choice(["", " PRINT X", " rem é ü", "A=1", " ", "  FOR I=1 TO 3", "\t", "x"])
    if r < 0.35:
        nd = rng.choice([1, 1, 2, 2, 3, 4, 5, 9, 15, 25])
        return rng.choice("123456789") + "".join(rng.choice("0123456789") for _ in range(nd - 1)) + body
    if r < 0.45:
        return "0" + "".join(rng.choice("0123456789") for _ in range(rng.choice([0, 1, 3]))) + body
    if r < 0.55:
        return ""
    if r < 0.65:
        return rng.choice([" ", "  ", "\t"]) + rng.choice(["10 X", "", "REM"])
    if r < 0.70:
        # characters str.splitlines() cuts on but a text file read line by line does not, inside and at the end of a line
        x = rng.choice(["\x0b", "\x0c", "\x1c", "\x1d", "\x1e", "\x85", "\u2028", "\u2029"])
        return rng.choice(["PRINT \"a" + x + "b\"", "10 REM" + x, x + "20 X", "A" + x + "30 B" + x])
    if r < 0.71:
        # an ASCII number directly followed by decimal digits of other scripts (fullwidth, arabic-indic, devanagari): they are text, not part of the number
        return rng.choice("123456789") + rng.choice(["", "0", "25"]) + rng.choice(["\uff10", "\uff19\uff11", "\u0663", "\u0967\u0966", "\u0e52"]) + rng.choice(["", " REM", "x"])
    if r < 0.73:
        n = rng.choice([255, 256, 257, 1024, 4096, 8192, 8193])
        return (rng.choice(["", "10 ", "REM "]) + "x" * n)[:n]
    return rng.choice(["PRINT 1", "REM x", "é", "A$=\"1\"", "GOTO 10", "-5", "+3", "٣٤"]) + body


def gen_text(rng, files):
    lines = [gen_line(rng) for _ in range(rng.choice([0, 1, 2, 3, 5, 8]))]
    term = rng.choice(["\n", "\n", "\n", "\r\n", "\r"]) if files else "\n"
    t = term.join(lines)
    if lines and rng.random() < 0.8:
        t += term
    return t


BOUND = [1, 2, 9, 10, 11, 99, 100, 101, 999, 1000, 9999, 10000]


def gen_cases(rng, tier):
    n = scale(tier, 500, 8000)
    cases = []
    hist = {"random": 0, "defaults": 0}
    for _ in range(n):
        k = rng.choice([1, 1, 1, 2, 3])
        inputs = []
        for j in range(k):
            st = rng.random() < 0.25
            inputs.append({"stdin": st, "text": gen_text(rng, not st)})
        if rng.random() < 0.12:
            repeat_a_source(rng, inputs)
        c = {"inputs": inputs,
             "start": rng.choice(BOUND) if rng.random() < 0.6 else rng.randint(1, 10000),
             "inc": rng.choice(BOUND) if rng.random() < 0.6 else rng.randint(1, 10000),
             "width": rng.randint(0, 12)}
        if rng.random() < 0.15:
            for key in ("start", "inc", "width"):
                if rng.random() < 0.5:
                    c[key] = None
            hist["defaults"] += 1
        cases.append(c)
        hist["random"] += 1
    return cases, hist


def opts_of(case, long=False):
    o = []
    if case.get("start") is not None:
        o += ["--starting-line-number" if long else "-v", str(case["start"])]
    if case.get("inc") is not None:
        o += ["--line-increment" if long else "-i", str(case["inc"])]
    if case.get("width") is not None:
        o += ["--number-width" if long else "-w", str(case["width"])]
    return o


def run_case(case, ctx):
    inputs = case["inputs"]
    d_start, d_inc, d_width = ctx.model.call("nl_defaults")
    start = case["start"] if case.get("start") is not None else d_start
    inc = case["inc"] if case.get("inc") is not None else d_inc
    width = case["width"] if case.get("width") is not None else d_width
    r, out = run_text_tool(ctx, "nl", opts_of(case, long=case.get("long", False)), inputs)
    impl_lines = out_lines(out)
    model = [points_text(l) for l in ctx.model.call("nl", start, inc, width, model_inputs(inputs))]
    status_ok = r.get("status") == 0 and r.get("exc") is None
    agree = status_ok and impl_lines == model
    oracle_ok, why = status_ok, None
    if not status_ok:
        why = {"status": r.get("status"), "exc": r.get("exc"), "msg": r.get("msg")}
    elif sum(1 for i in inputs if i["stdin"]) <= 1:
        # the oracle uses the documented defaults (10, 10, 0), not the generated ones
        s0 = case["start"] if case.get("start") is not None else 10
        i0 = case["inc"] if case.get("inc") is not None else 10
        w0 = case["width"] if case.get("width") is not None else 0
        src_lines = input_lines(inputs)
        want = [points_text(l) for l in ctx.model.call("nl_spec", s0, i0, w0, [text_points(l) for l in src_lines])]
        if want != impl_lines:
            oracle_ok = False
            k = next((j for j in range(min(len(want), len(impl_lines))) if want[j] != impl_lines[j]), min(len(want), len(impl_lines)))
            why = {"first_diff_line": k, "want": want[k:k + 2], "got": impl_lines[k:k + 2], "n_want": len(want), "n_got": len(impl_lines)}
        elif impl_lines and "\r" not in out:
            # renumbering the output changes nothing; several files behave as their concatenation
            r2, out2 = run_text_tool(ctx, "nl", opts_of(case), [{"stdin": False, "text": out}])
            if out2 != out:
                oracle_ok, why = False, {"not idempotent": out[:200], "second": out2[:200]}
            elif len(inputs) > 1 and all(i["text"].endswith("\n") and "\r" not in i["text"] for i in inputs[:-1]) and "\r" not in inputs[-1]["text"]:
                cat = "".join(i["text"] for i in inputs)
                r3, out3 = run_text_tool(ctx, "nl", opts_of(case), [{"stdin": False, "text": cat}])
                if out3 != out:
                    oracle_ok, why = False, {"concatenation differs": out[:200], "cat": out3[:200]}
    f = features(case)
    nontrivial = ("numbered" in f and "unnumbered" in f) or "multi-input" in f
    detail = None if (agree and oracle_ok) else {"why": why, "impl": impl_lines[:6], "model": model[:6]}
    return CaseResult(agree, oracle_ok, detail, f, nontrivial)


def shrink_candidates(case):
    inputs = case["inputs"]
    if len(inputs) > 1:
        for k in range(len(inputs)):
            yield dict(case, inputs=inputs[:k] + inputs[k + 1:])
    for k, i in enumerate(inputs):
        t = i["text"]
        lines = t.split("\n")
        if len(lines) > 1:
            for j in range(len(lines)):
                yield dict(case, inputs=inputs[:k] + [dict(i, text="\n".join(lines[:j] + lines[j + 1:]))] + inputs[k + 1:])
        if len(t) < 60:
            for j in range(len(t)):
                yield dict(case, inputs=inputs[:k] + [dict(i, text=t[:j] + t[j + 1:])] + inputs[k + 1:])
    for key, small in (("start", 1), ("inc", 1), ("width", 0)):
        if case.get(key) not in (None, small):
            yield dict(case, **{key: small})


def violation_class(case, detail):
    return "nl-mismatch"
