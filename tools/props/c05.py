"""C05 — disk file system stays consistent across every history of additions"""
import os

from framework import scale, CaseResult, text_points
from props import c02
from props.diskcommon import (FULL, argv_sources, compare_action, dmodel_outcome, expected_entry, ext_of, fsck, gen_dcontent, gen_dname, model_srcs,
                              run_disk, setup_sources)
from props.tapecommon import CaseDir

GEN_FILES = ["GenDisk"]
RULE = ("histories of 1 create + 0..5 add invocations over the size-class alphabet {0, 1 sector, 1 block, 1 block+1, tens of blocks, exactly the free space of the current side, "
        "one block more than the free space, larger than a side} and batch shapes {one file, several files, more files than a catalogue holds (113+), --eos}, until sides fill up, "
        "refusals at every position, catalogue names of earlier steps given again (both entries then live), names that cannot be encoded; both flavours. After EVERY step the real image is decoded by the extracted Spec: fsck_strict on every side, free + used + reserved = 160, "
        "used blocks = the disjoint union of the chains, the files of each side = the files before + the files reported stored there (so a refused file changed nothing: same "
        "catalogue, same contents, free count lowered only by the stored files), every stored file reads back. Each step is also compared with the extracted model. "
        "signature = (flavour, n steps, size classes, flags {refusal-blocks, refusal-catalog, eos, exact-fit, dropped-after-side-3}); non-trivial = a refusal or at least two steps")
ASSUMPTIONS = ["names are ASCII, except the fixed cases whose names cannot be encoded (the model refuses them with the side untouched: C05_unencodable_name_changes_nothing); "
               "the scratch directory is private; what open()/makedirs() and the kernel do is observed, not modelled"]


def gen_step(rng, state, many_ok=True):
    """a batch; 'state' tracks an estimate of free blocks on the current side to aim at the boundaries"""
    r = rng.random()
    batch = []
    used = set()
    if r < 0.08 and many_ok:
        for k in range(rng.choice([113, 120])):
            batch.append({"arg": f"m{state['k']}_{k}.d", "content": {"hex": "41"}})
        state["k"] += 1
        return batch
    for _ in range(rng.choice([1, 1, 2, 3, 6])):
        if rng.random() < 0.12:
            batch.append({"eos": "--eos"})
            state["free"] = 157
            continue
        c = rng.random()
        free_bytes = state["free"] * 2040
        if c < 0.15:
            size = 0
        elif c < 0.3:
            size = rng.choice([1, 255])
        elif c < 0.45:
            size = rng.choice([2040, 2041])
        elif c < 0.6:
            size = rng.choice([20400, 40800, 61200])
        elif c < 0.72:
            size = max(free_bytes, 0)
        elif c < 0.84:
            size = free_bytes + 1
        elif c < 0.92:
            size = FULL + rng.choice([1, 2040])
        else:
            size = rng.randint(0, 9000)
        blocks = max(1, (max(size, 1) + 2039) // 2040)
        if blocks <= state["free"]:
            state["free"] -= blocks
        else:
            state["free"] = 157 - blocks if blocks <= 157 else 157
        batch.append({"arg": gen_dname(rng, used), "content": gen_dcontent(rng, size)})
    return batch


def gen_cases(rng, tier):
    n = scale(tier, 24, 500)
    cases = []
    for _ in range(n):
        state = {"free": 157, "k": 0}
        steps = [gen_step(rng, state) for _ in range(rng.choice([1, 2, 3, 4, 6]))]
        # names must stay distinct per side across steps: prefix with the step number
        for i, st in enumerate(steps):
            for s in st:
                if "arg" in s and not s["arg"].startswith("m"):
                    b = s["arg"]
                    s["arg"] = (f"{i}" + b)[:8] if "." not in b else (f"{i}" + b.split(".")[0])[:8] + "." + b.split(".", 1)[1]
        if len(steps) >= 2 and rng.random() < 0.35:
            # a catalogue name of an earlier step given again later (a newer version of the same file): both entries then live on the side
            k = rng.randrange(len(steps) - 1)
            olds = [x["arg"] for x in steps[k] if "arg" in x and not x["arg"].startswith("m")]
            if olds:
                steps[rng.randrange(k + 1, len(steps))].insert(0, {"arg": rng.choice(olds), "content": {"rand": rng.randint(0, 1 << 30), "len": rng.choice([0, 1, 300, 2041, 30000])}})
        cases.append({"is_fd": rng.random() < 0.5, "steps": steps, "verbose": rng.random() < 0.25})
    for is_fd in (True, False):
        cases.append({"is_fd": is_fd, "verbose": False, "steps": [[{"arg": "prog.dat", "content": {"rand": 8, "len": 5000}}, {"arg": "x.bas", "content": {"hex": "41"}}],
                                                                  [{"arg": "prog.dat", "content": {"rand": 9, "len": 30000}}], [{"arg": "y.bas", "content": {"hex": "42"}}, {"arg": "PROG.DAT", "content": {"hex": ""}}]]})
    # one file taking a whole empty side (157 blocks), first on side 0, then after --eos, then a one-byte file refused by the full side
    for is_fd in (True, False):
        cases.append({"is_fd": is_fd, "verbose": False, "steps": [[{"arg": "w0.dat", "content": {"rand": 41, "len": 320240}}],
                                                                  [{"arg": "s.txt", "content": {"hex": "31"}}, {"eos": "--eos"}, {"arg": "w2.dat", "content": {"rand": 42, "len": 318241}}, {"arg": "one.d", "content": {"hex": "32"}}]]})
    for is_fd, k in ((True, 39), (False, 39), (True, 38), (False, 40)):
        # blocks 1..k, then a file of 3+ blocks: the reserved blocks 40/41 of the catalogue track are never handed out
        cases.append({"is_fd": is_fd, "verbose": False, "steps": [[{"arg": "head.dat", "content": {"rand": 50 + k, "len": k * 2040}}, {"arg": "next.dat", "content": {"rand": 60 + k, "len": 3 * 2040}},
                                                                   {"arg": "tail.txt", "content": {"hex": "31"}}]]})
    tiny = [{"arg": f"t{k}.d", "content": {"hex": "2a"}} for k in range(112)]
    for is_fd in (True, False):
        cases.append({"is_fd": is_fd, "verbose": False, "steps": [tiny, [{"arg": "big.dat", "content": {"rand": 3, "len": 5000}}], [{"arg": "one.d", "content": {"hex": "31"}}],
                                                                  [{"arg": "b2.dat", "content": {"rand": 4, "len": 2041}}, {"arg": "b3.dat", "content": {"rand": 5, "len": 40000}}]]})
    # a name the catalogue cannot encode (not 7-bit): it is refused on every side; a refusal changes nothing
    for is_fd in (True, False):
        cases.append({"is_fd": is_fd, "verbose": is_fd, "steps": [[{"arg": "a.dat", "content": {"rand": 6, "len": 3000}}],
                                                                   [{"arg": "\u00c9T\u00c9.DAT", "content": {"hex": "414243"}}],
                                                                   [{"arg": "c.dat", "content": {"rand": 7, "len": 300}}, {"arg": "N.\u20ac", "content": {"hex": "31"}}]]})
    return cases, {"random": n, "fixed": 12}


def run_case(case, ctx):
    cd = CaseDir(ctx)
    try:
        is_fd, v = case["is_fd"], case["verbose"]
        arch = "img" + ext_of(is_fd)
        dis = bad = None
        raw_prev = None
        expect = [[], [], [], []]  # per side: (name, ext, kind, flag, content)
        free_prev = None
        f = {"fd" if is_fd else "sd", "steps:%d" % len(case["steps"])}
        for k, batch in enumerate(case["steps"]):
            sub = "s%d" % k
            items = [dict(s, arg=os.path.join(sub, s["arg"])) if "arg" in s else s for s in batch]
            fs, contents = setup_sources(cd, items)
            act = "-c" if k == 0 else "-r"
            r = run_disk(ctx, is_fd, [act] + (["-v"] if v else []) + [arch] + argv_sources(items), cd, timeout=120)
            after = cd.snapshot()
            raw = cd.get(arch)
            if k == 0:
                m = dmodel_outcome(ctx.model.call("disk_create", is_fd, v, fs, text_points(arch), model_srcs(items)))
            else:
                m = dmodel_outcome(ctx.model.call("disk_add", is_fd, v, fs, text_points(arch), raw_prev, model_srcs(items)))
            dis = dis or compare_action(r, m, cd, after, f"step {k}")
            if r.get("status") != 0 or r.get("exc") or raw is None:
                bad = {"step failed": k, "why": [r.get("status"), r.get("exc"), r.get("msg")]}
                break
            sides = fsck(ctx, is_fd, raw)
            rep = c02.parse_update(r["text"], v)
            pending = [(expected_entry(s["arg"]), c) for s, c in zip(items, contents) if "eos" not in s]
            pos = 0
            if "too big" in r["text"]:
                f.add("refusal")
            if any("eos" in s for s in batch):
                f.add("eos")
            if len(batch) > 112:
                f.add("catalog-overflow")
            for i, sd in enumerate(sides):
                if not sd["strict"]:
                    bad = {"fsck_strict rejects side": i, "after step": k}
                    break
                for label, outcome, size, blocks in (rep[i] if i < len(rep) else []):
                    if outcome != "ok":
                        continue
                    j = next((j for j in range(pos, len(pending)) if pending[j][0] is not None and label == pending[j][0][0].decode().rstrip() + "." + pending[j][0][1].decode().rstrip()), None)
                    if j is None:
                        bad = {"reported file matches no remaining source": label, "step": k}
                        break
                    pos = j + 1
                    e, c = pending[j]
                    expect[i].append((e[0], e[1], e[2], e[3], c))
                if bad:
                    break
                got = sorted((x["name"], x["ext"], x["kind"], x["flag"], x["content"]) for x in sd["files"])
                if got != sorted(expect[i]):
                    bad = {"files of side differ from what was stored so far": i, "after step": k, "n": [len(got), len(expect[i])]}
                    break
                usedb = sum(len(x["blocks"]) for x in sd["files"])
                if sd["free"] + sd["reserved"] + usedb != 160:
                    bad = {"free + used + reserved != 160": [i, sd["free"], sd["reserved"], usedb], "after step": k}
                    break
                want_used = sum(max(1, (max(len(x[4]), 1) + 2039) // 2040) for x in expect[i])
                if usedb != want_used:
                    bad = {"used blocks differ from what the stored files need": [i, usedb, want_used], "after step": k}
                    break
            if bad:
                break
            raw_prev = raw
        if bad is None and raw_prev is not None:
            # every stored file still reads back intact THROUGH THE TOOL: extract the final image, compare side by side (the last entry of a name wins its path)
            rx = run_disk(ctx, is_fd, ["-x", "--into", "xout", arch], cd, timeout=120)
            if rx.get("status") != 0 or rx.get("exc"):
                bad = {"extraction of the final image failed": [rx.get("status"), rx.get("exc"), rx.get("msg")]}
            else:
                snap = cd.snapshot()
                for i in range(4):
                    final = {}
                    for (nm, ex, kd, fl, c) in expect[i]:
                        final[nm.decode().rstrip() + "." + ex.decode().rstrip()] = c
                    for label, c in final.items():
                        got = snap.get(cd.rel(os.path.join("xout", "side%d" % i, label)))
                        if got != c:
                            bad = {"a stored file does not read back intact through the tool": [i, label], "want_len": len(c), "got_len": None if got is None else len(got)}
                            break
                    if bad:
                        break
        nontrivial = "refusal" in f or len(case["steps"]) >= 2
        detail = {"disagreement": dis, "oracle": bad} if (dis or bad) else None
        return CaseResult(dis is None, bad is None, detail, sorted(f), nontrivial)
    finally:
        cd.close()


def shrink_candidates(case):
    st = case["steps"]
    if len(st) > 1:
        yield dict(case, steps=st[:-1])
    for i, b in enumerate(st):
        for k in range(len(b)):
            if len(b) > 1:
                yield dict(case, steps=st[:i] + [b[:k] + b[k + 1:]] + st[i + 1:])
    if case["verbose"]:
        yield dict(case, verbose=False)


def summarise(case):
    return {"is_fd": case["is_fd"], "steps": [[(s.get("eos") or [s["arg"], s["content"].get("len", 0)]) for s in b][:5] for b in case["steps"]][:4]}


def violation_class(case, detail):
    o = (detail or {}).get("oracle") or {}
    return sorted(o)[0] if o else "c05"
