"""PY — the coq/Py micro-models against CPython itself (not a property: the validation of the trusted glue)"""
import os
import posixpath
import random

from framework import scale, CaseResult, text_points, points_text

GEN_FILES = []
NO_PROOF = True
RULE = ("bytes.find(pat, start) on marker-like haystacks; slicing and slice assignment with clamped and size-changing bounds; str.rstrip()/strip() and str.isspace() "
        "exhaustively over U+0000..U+3100; ASCII str.upper(); str(int)/int(str) incl. negatives and 30-digit numbers; str.ljust through the nl padding expression; "
        "posixpath.basename/dirname/join on paths with '.', '..', repeated and trailing slashes; universal-newline readlines() through a real text file and LF-only "
        "iteration through a stdin-like wrapper. non-trivial = every case (each compares one model function with CPython on one input)")
ASSUMPTIONS = ["CPython 3.12 as installed in /venv"]


def gen_cases(rng, tier):
    n = scale(tier, 400, 6000)
    cases = [{"k": "isspace", "lo": lo, "hi": min(lo + 1024, 0x3100)} for lo in range(0, 0x3100, 1024)]
    alpha = [0x01, 0x01, 0x3C, 0x5A, 0x00, 0xFF, 0x41]
    for _ in range(n):
        k = rng.choice(["find", "slice", "splice", "strip", "upper", "dec", "path", "join", "lines", "ljust"])
        if k == "find":
            cases.append({"k": k, "pat": [rng.choice(alpha) for _ in range(rng.choice([0, 1, 2, 5]))], "l": [rng.choice(alpha) for _ in range(rng.randint(0, 30))], "st": rng.randint(0, 34)})
        elif k in ("slice", "splice"):
            cases.append({"k": k, "i": rng.randint(0, 12), "j": rng.randint(0, 12), "v": [rng.randrange(256) for _ in range(rng.randint(0, 8))], "l": [rng.randrange(256) for _ in range(rng.randint(0, 10))]})
        elif k == "strip":
            ws = " \t\n\r\x0b\x0c\x1c\x1d\x1e\x1f\x85\xa0 　  "
            cases.append({"k": k, "s": "".join(rng.choice(ws + "ab\x00é") for _ in range(rng.randint(0, 8)))})
        elif k == "upper":
            cases.append({"k": k, "s": "".join(chr(rng.randrange(128)) for _ in range(rng.randint(0, 10)))})
        elif k == "dec":
            cases.append({"k": k, "n": rng.choice([0, 1, 9, 10, 99, 100, -1, -10, 65535, 10 ** 30 + 7, rng.randint(-10 ** 6, 10 ** 12)])})
        elif k in ("path", "join"):
            parts = ["", "a", "b.c", ".", "..", "/", "//", "x/", "/abs", "d.x/e.f", "side0"]
            cases.append({"k": k, "a": rng.choice(parts) + rng.choice(["", "/", "//"]) + rng.choice(parts), "b": rng.choice(parts) + rng.choice(["", "/"]) + rng.choice(parts)})
        elif k == "lines":
            cases.append({"k": k, "s": "".join(rng.choice(["a", "b", "\n", "\r", "\r\n", "\n\r", " ", "é"]) for _ in range(rng.randint(0, 12)))})
        else:
            cases.append({"k": k, "w": rng.randint(0, 12), "n": rng.choice([1, 10, 100, 12345, 10 ** 9])})
    return cases, {"cases": len(cases)}


def run_case(case, ctx):
    k = case["k"]
    m = ctx.model
    bad = None
    if k == "isspace":
        pts = list(range(case["lo"], case["hi"]))
        got = m.call("py_isspace", pts)
        for c, g in zip(pts, got):
            if bool(g) != chr(c).isspace():
                bad = {"isspace": hex(c), "model": bool(g)}
                break
    elif k == "find":
        want = bytes(case["l"]).find(bytes(case["pat"]), case["st"])
        got = m.call("py_find", bytes(case["pat"]) if case["pat"] else [], bytes(case["l"]) if case["l"] else [], case["st"])
        g = got[0] if got else -1
        if g != want:
            bad = {"find": case, "model": g, "python": want}
    elif k == "slice":
        want = list(bytes(case["l"])[case["i"]:case["j"]])
        got = list(m.call("py_slice", case["i"], case["j"], list(case["l"])))
        if got != want:
            bad = {"slice": case, "model": got, "python": want}
    elif k == "splice":
        b = bytearray(case["l"])
        b[case["i"]:case["j"]] = bytes(case["v"])
        got = list(m.call("py_splice", case["i"], case["j"], list(case["v"]), list(case["l"])))
        if got != list(b):
            bad = {"splice": case, "model": got, "python": list(b)}
    elif k == "strip":
        s = case["s"]
        if points_text(m.call("py_rstrip", text_points(s))) != s.rstrip() or points_text(m.call("py_strip", text_points(s))) != s.strip():
            bad = {"strip": [hex(ord(c)) for c in s]}
    elif k == "upper":
        if points_text(m.call("py_upper", text_points(case["s"]))) != case["s"].upper():
            bad = {"upper": case["s"]}
    elif k == "dec":
        n = case["n"]
        if abs(n) < 2 ** 62:
            if points_text(m.call("py_dec", n)) != str(n):
                bad = {"dec": n}
        if n >= 0 and m.call("py_undec", text_points(str(n) + "x")) != n and abs(n) < 2 ** 62:
            bad = {"undec": n}
    elif k == "path":
        a = case["a"]
        if points_text(m.call("py_basename", text_points(a))) != posixpath.basename(a) or points_text(m.call("py_dirname", text_points(a))) != posixpath.dirname(a):
            bad = {"path": a, "model": [points_text(m.call("py_basename", text_points(a))), points_text(m.call("py_dirname", text_points(a)))], "python": [posixpath.basename(a), posixpath.dirname(a)]}
    elif k == "join":
        a, b = case["a"], case["b"]
        if points_text(m.call("py_join", text_points(a), text_points(b))) != posixpath.join(a, b):
            bad = {"join": [a, b], "model": points_text(m.call("py_join", text_points(a), text_points(b))), "python": posixpath.join(a, b)}
    elif k == "lines":
        import io
        import tempfile
        s = case["s"]
        p = os.path.join(ctx.tmp, "l.txt")
        with open(p, "wb") as f:
            f.write(s.encode("utf-8"))
        with open(p, "rt", encoding="utf-8") as f:
            want = f.readlines()
        got = [points_text(l) for l in m.call("readlines_file", text_points(s))]
        w2 = list(io.TextIOWrapper(io.BytesIO(s.encode("utf-8")), encoding="utf-8", newline="\n"))
        g2 = [points_text(l) for l in m.call("readlines_stdin", text_points(s))]
        if got != want or g2 != w2:
            bad = {"lines": repr(s), "model": [got, g2], "python": [want, w2]}
    else:
        n, w = case["n"], case["w"]
        s = str(n)
        want = s + "".join([" " for i in range(len(s), w)]) if len(s) < w else s
        if points_text(m.call("py_ljust", w, text_points(s))) != want:
            bad = {"ljust": case}
    detail = {"disagreement": bad} if bad else None
    return CaseResult(bad is None, True, detail, [k, str(sorted(case.items()))[:60]], True)


def violation_class(case, detail):
    return case["k"]
