"""C02 — disk archive round trip (.sd and .fd): create, then list/extract, is lossless"""
import os
import re

from framework import scale, CaseResult, text_points
from props.diskcommon import (FULL, argv_sources, compare_action, dmodel_outcome, expected_entry, ext_of, gen_sources, model_srcs,
                              run_disk, setup_sources)
from props.tapecommon import CaseDir

GEN_FILES = ["GenDisk"]
RULE = ("source lists of 0..14 items with pairwise distinct 8.3 ASCII names per side (any case, names 1..8, extensions 0..3, ',a' on BAS, AUTO.BAT, "
        "reached through plain/dotted/'./' directories), '--eos' markers anywhere, contents boundary-first (0,1,254..256,509..511,2039..2041,2294..2296, k*255+-1, "
        "k*2040+-1, a full side 320280 +-1 and beyond); both flavours; quiet/verbose. Flow: create -> list -v -> extract, each compared with the extracted model "
        "(exit class, stdout with percent fields checked numerically, every written file) and judged by the C02 oracle on the real files. "
        "signature = (flavour, verbose, sorted size classes, n sides used, flags {eos, overflow, empty-file, no-ext, dir-dot, ascii-bas, auto.bat}); "
        "non-trivial = a file of at least one block or an --eos or an overflow to the next side")
ASSUMPTIONS = ["names are ASCII; the scratch directory is private; what open()/makedirs() and the kernel do is observed, not modelled"]

OK_Q = re.compile(r"^  (.*)\.\.\.(ok|ignored|too big)$")
OK_V = re.compile(r"^  (.*?)  (\S+) +(\S+) *\.\.\.\.\.\.(?:too big|  *(\d+) Bytes?  *(\d+) blocks? ?)$")


def parse_update(text, verbose):
    """-> list of sides; each a list of (label, outcome, size, blocks)"""
    sides = []
    cur = None
    for line in text.split("\n"):
        m = re.match(r"^Side (\d+)$", line)
        if m:
            cur = []
            sides.append(cur)
            continue
        if cur is None or line in ("---", "TOTAL", ""):
            if line == "TOTAL":
                cur = None
            continue
        if verbose:
            m = OK_V.match(line)
            if m:
                if m.group(4) is None:
                    cur.append((m.group(1), "too big", None, None))
                else:
                    cur.append((m.group(1), "ok", int(m.group(4)), int(m.group(5))))
        else:
            m = OK_Q.match(line)
            if m:
                cur.append((m.group(1), m.group(2), None, None))
    return sides


LIST_V = re.compile(r"^  (.{8})\.(.{3})  (\S+) +(\S+) +(\d+) Bytes? +(\d+) blocks? ?$")


def parse_list_verbose(text):
    sides = []
    cur = None
    for line in text.split("\n"):
        m = re.match(r"^Side (\d+)$", line)
        if m:
            cur = []
            sides.append(cur)
            continue
        m = LIST_V.match(line)
        if m and cur is not None:
            cur.append({"name": m.group(1), "ext": m.group(2), "kind": m.group(3), "data": m.group(4), "size": int(m.group(5)), "blocks": int(m.group(6))})
    return sides


KIND = {0: "BASIC", 1: "DATA", 2: "MODULE", 3: "TEXT"}


def gen_case(rng, tier):
    big = 0.08 if tier == "thorough" else 0.04
    srcs = gen_sources(rng, rng.choice([0, 1, 2, 3, 5, 8, 14]), eos_rate=0.12, big_rate=big)
    return {"is_fd": rng.random() < 0.5, "verbose": rng.random() < 0.5, "sources": srcs}


def gen_cases(rng, tier):
    n = scale(tier, 64, 480)
    cases = [gen_case(rng, tier) for _ in range(n)]
    cases.append({"is_fd": True, "verbose": True, "sources": [{"arg": "empty.dat", "content": {"hex": ""}}, {"arg": "noext", "content": {"pat": "41", "len": 300}},
                                                              {"arg": "full.bin", "content": {"rand": 3, "len": FULL - 2 * 2040}}, {"arg": "next.txt", "content": {"pat": "42", "len": 2041}}]})
    # a file needing all 157 blocks of a side, first on a side / after --eos / after a spill; and one block less
    for is_fd in (True, False):
        cases.append({"is_fd": is_fd, "verbose": is_fd, "sources": [{"arg": "full.dat", "content": {"rand": 11, "len": FULL}}, {"eos": "--eos"},
                                                                   {"arg": "small.txt", "content": {"pat": "42", "len": 300}}, {"arg": "most.bin", "content": {"rand": 12, "len": FULL - 2040}},
                                                                   {"arg": "edge.bin", "content": {"rand": 13, "len": FULL - 2039}}]})
    # beyond a full side: refused everywhere, first on an empty image, after a small file, and followed by files that fit
    for is_fd in (True, False):
        cases.append({"is_fd": is_fd, "verbose": not is_fd, "sources": [{"arg": "small.txt", "content": {"pat": "41", "len": 11}}, {"arg": "over.dat", "content": {"rand": 14, "len": FULL + 1}},
                                                                       {"arg": "tail.bin", "content": {"pat": "42", "len": 300}}]})
    cases.append({"is_fd": rng.random() < 0.5, "verbose": False, "sources": [{"arg": "over2.bin", "content": {"rand": 15, "len": rng.choice([FULL + 1, FULL + 255, FULL + 2040, 400000])}}]})
    # one base name under several extensions on one side, and again on the next side
    g = lambda a, n: {"arg": a, "content": {"rand": 20 + n, "len": n}}
    for is_fd in (True, False):
        cases.append({"is_fd": is_fd, "verbose": is_fd, "sources": [g("menu.bas", 700), g("game.bas", 3000), g("notes.txt", 11), g("game.bin", 2041), g("game", 5), g("GAME.txt", 300),
                                                                   {"eos": "--eos"}, g("s+/game.bas", 10), g("s+/game.dat", 0)]})
    return cases, {"random": n, "fixed": 8}


def flow(case, ctx, cd):
    is_fd, v = case["is_fd"], case["verbose"]
    fs, contents = setup_sources(cd, case["sources"])
    arch = "img" + ext_of(is_fd)
    vf = ["-v"] if v else []
    obs = {"contents": contents, "arch": arch}
    r = run_disk(ctx, is_fd, ["-c"] + vf + [arch] + argv_sources(case["sources"]), cd)
    after = cd.snapshot()
    obs["create"] = r
    raw = cd.get(arch)
    obs["raw"] = raw
    m = dmodel_outcome(ctx.model.call("disk_create", is_fd, v, fs, text_points(arch), model_srcs(case["sources"])))
    obs["dis"] = compare_action(r, m, cd, after, "create")
    if r.get("status") == 0 and raw is not None:
        rl = run_disk(ctx, is_fd, ["-t", "-v", arch], cd)
        ml = dmodel_outcome(ctx.model.call("disk_list", is_fd, True, raw))
        obs["list"] = rl
        obs["dis"] = obs["dis"] or compare_action(rl, ml, cd, None, "list")
        mx = dmodel_outcome(ctx.model.call("disk_extract", is_fd, v, [], text_points(arch), raw))
        # earlier results may already lie in the sideN directories (longer, shorter): extraction replaces them entirely
        for n_, (p_, c_) in enumerate(mx["effects"]):
            q = os.path.normpath(os.path.join(cd.cwd, p_))
            if n_ % 2 == 0 and q.startswith(cd.root) and not os.path.lexists(q):
                os.makedirs(os.path.dirname(q), exist_ok=True)
                with open(q, "wb") as f_:
                    f_.write(b"earlier result " * (len(c_) // 10 + 50) if n_ % 4 == 0 else b"e")
        before = cd.snapshot()
        rx = run_disk(ctx, is_fd, ["-x"] + vf + [arch], cd)
        after = cd.snapshot()
        obs["extract"] = rx
        obs["changed"] = {k: after[k] for k in after if before.get(k) != after[k]}
        obs["after"] = after
        obs["dis"] = obs["dis"] or compare_action(rx, mx, cd, after, "extract")
    return obs


def oracle(case, obs, cd):
    r = obs["create"]
    if r.get("status") != 0 or r.get("exc") or obs["raw"] is None:
        return {"create failed": [r.get("status"), r.get("exc"), r.get("msg")]}
    rep = parse_update(r["text"], case["verbose"])
    # sources in order, with their documented catalogue entry
    pending = [(expected_entry(s["arg"]), c) for s, c in zip(case["sources"], obs["contents"]) if "eos" not in s]
    pos = 0
    stored = []  # per side: list of (entry, content)
    for side in rep:
        cur = []
        for label, outcome, size, blocks in side:
            if outcome != "ok":
                continue
            # the report line names the catalogue entry: find it among the sources not yet consumed
            k = next((j for j in range(pos, len(pending)) if pending[j][0] is not None and label == (pending[j][0][0].decode().rstrip() + "." + pending[j][0][1].decode().rstrip())), None)
            if k is None:
                return {"reported file matches no remaining source": label}
            pos = k + 1
            cur.append(pending[k])
            if size is not None and size != len(pending[k][1]):
                return {"reported size differs": label, "got": size, "want": len(pending[k][1])}
        stored.append(cur)
    rl = obs.get("list")
    if rl is None or rl.get("status") != 0:
        return {"list failed": None if rl is None else [rl.get("status"), rl.get("exc"), rl.get("msg")]}
    listed = parse_list_verbose(rl["text"])
    for i, cur in enumerate(stored):
        got = listed[i] if i < len(listed) else []
        want = [{"name": e[0].decode(), "ext": e[1].decode(), "kind": KIND[e[2]], "data": "ASCII" if e[3] else ("TOKEN" if e[2] == 0 else "BINARY"), "size": len(c)} for e, c in cur]
        if [{k: g[k] for k in ("name", "ext", "kind", "data", "size")} for g in got] != want:
            return {"listing of side": i, "got": got[:4], "want": want[:4]}
    rx = obs.get("extract")
    if rx is None or rx.get("status") != 0 or rx.get("exc"):
        return {"extract failed": None if rx is None else [rx.get("status"), rx.get("exc"), rx.get("msg")]}
    adir = os.path.dirname(cd.rel(obs["arch"]))
    allowed = set()
    for i, cur in enumerate(stored):
        for e, c in cur:
            p = os.path.normpath(os.path.join(adir, f"side{i}", e[0].decode().rstrip() + "." + e[1].decode().rstrip()))
            allowed.add(p)
            if obs["after"].get(p) != c:
                got = obs["after"].get(p)
                return {"extracted bytes differ": p, "want_len": len(c), "got_len": None if got is None else len(got)}
    extra = [k for k in obs["changed"] if k not in allowed]
    if extra:
        return {"unexpected files written by extract": extra[:4]}
    return None


def features(case, obs):
    f = {"fd" if case["is_fd"] else "sd", "v" if case["verbose"] else "q"}
    for s, c in zip(case["sources"], obs["contents"]):
        if "eos" in s:
            f.add("eos")
            continue
        n = len(c)
        f.add("sz:" + ("0" if n == 0 else "<=255" if n <= 255 else "1block" if n <= 2040 else "k2040" if n % 2040 == 0 else "k255" if n % 255 == 0 else "side" if n >= FULL - 4080 else "multi"))
        b = os.path.basename(s["arg"])
        if "." not in b:
            f.add("no-ext")
        if "." in os.path.dirname(s["arg"]):
            f.add("dir-dot")
        if b.upper().endswith(",A"):
            f.add("ascii-bas")
        if b.upper() == "AUTO.BAT":
            f.add("auto.bat")
    if "too big" in obs["create"].get("text", ""):
        f.add("overflow")
    return sorted(f)


def run_case(case, ctx):
    cd = CaseDir(ctx)
    try:
        obs = flow(case, ctx, cd)
        bad = oracle(case, obs, cd)
        f = features(case, obs)
        nontrivial = bool({"eos", "overflow", "sz:1block", "sz:multi", "sz:k2040", "sz:k255", "sz:side"} & set(f))
        detail = {"disagreement": obs["dis"], "oracle": bad} if (obs["dis"] or bad) else None
        return CaseResult(obs["dis"] is None, bad is None, detail, f, nontrivial)
    finally:
        cd.close()


def shrink_candidates(case):
    s = case["sources"]
    for k in range(len(s)):
        yield dict(case, sources=s[:k] + s[k + 1:])
    for k, x in enumerate(s):
        if "content" in x:
            n = x["content"].get("len", 0)
            for m in (0, 1, 255, n // 2):
                if m < n:
                    yield dict(case, sources=s[:k] + [dict(x, content={"pat": "41", "len": m})] + s[k + 1:])
            b = os.path.basename(x["arg"])
            if b != x["arg"]:
                yield dict(case, sources=s[:k] + [dict(x, arg=b)] + s[k + 1:])
    if case["verbose"]:
        yield dict(case, verbose=False)


def summarise(case):
    return {"is_fd": case["is_fd"], "verbose": case["verbose"], "sources": [(s.get("eos") or [s["arg"], s["content"]]) for s in case["sources"]][:8]}


def violation_class(case, detail):
    o = (detail or {}).get("oracle") or {}
    return sorted(o)[0] if o else "c02"
