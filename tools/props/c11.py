"""C11 — both disk flavours hold the same disk; load/save is identity; geometry is fixed"""
import os

from framework import scale, CaseResult, text_points, REPO
from props import c02
from props.diskcommon import (SIDE_FD, SIDE_SD, argv_sources, compare_action, dmodel_outcome, ext_of, gen_sources, gen_third_party, model_srcs, payloads,
                              run_disk, sd_padding_ok, setup_sources, write_third_party)
from props.tapecommon import CaseDir

GEN_FILES = ["GenDisk"]
RULE = ("(a) the same source list given to moto_sdar and moto_fdar (in an interpreter that, in two cases out of three, has just made another archive with one of the two tools only): the .sd must be the .fd with 256 bytes FF after every sector; (b) every valid 4-sided image (tool-made, "
        "independent-writer-made with any filler / table bytes / padding bytes, the bundled real image) through a no-op --add: byte-identical (.sd: payload-identical, padding "
        "normalised to FF); (c) library-level payload assignments of every length 0..600 at any sector of either flavour: the sector keeps its size, the first min(n,256) bytes "
        "are replaced, the rest kept, the saved image keeps its length. signature = (kind, flavour, flags); non-trivial = (a) with data, (b) with files, (c) with length > 256 or == 0")
ASSUMPTIONS = c02.ASSUMPTIONS

LIB_CODE = r'''
from moto_lib.fs_disk.image import DiskSector, DiskTrack, DiskSide, DiskImage, TypeOfDiskImage
t = TypeOfDiskImage.EMULATOR_FLOPPY_IMAGE if args["is_fd"] else TypeOfDiskImage.SDDRIVE_FLOPPY_IMAGE
old = bytes.fromhex(args["old"])
s = DiskSector(old, typeOfDiskImage=t) if old else DiskSector(typeOfDiskImage=t)
out = []
buf = bytearray()
for k, v in enumerate(args["values"]):
    if args.get("recycle"):
        # a copier loop: one working buffer, refilled for every sector and touched again after the assignment
        buf.clear(); buf.extend(bytes.fromhex(v))
        s.dataOfPayload = buf
        buf.extend(b"later"); buf[0:1] = b""
    else:
        s.dataOfPayload = bytes.fromhex(v) if k % 2 else bytearray.fromhex(v)
    out.append([s.dataOfSector.hex(), s.dataOfPayload.hex()])
result = out
'''


def gen_cases(rng, tier):
    n = scale(tier, 30, 600)
    cases = []
    for _ in range(n):
        r = rng.random()
        if r < 0.35:
            cases.append({"kind": "pair", "sources": gen_sources(rng, rng.choice([0, 1, 3, 6]), eos_rate=0.12, big_rate=0.03), "verbose": rng.random() < 0.3, "history": rng.choice([None, "fd", "sd"])})
        elif r < 0.7:
            q = rng.random()
            base = {"spec": gen_third_party(rng, nsides=4, max_files=4)} if q < 0.55 else {"spec": gen_third_party(rng, is_fd=True, nsides=rng.choice([1, 2]), max_files=3), "with_source": rng.random() < 0.5} if q < 0.75 else {"bundled": rng.choice(["fd", "sd"])}
            if "spec" in base and not base["spec"]["is_fd"]:
                base["sd_padding"] = rng.choice([0xFF, 0xFF, 0x00, 0xE5])
            cases.append(dict(base, kind="noop"))
        else:
            is_fd = rng.random() < 0.5
            ssz = 256 if is_fd else 512
            old = "" if rng.random() < 0.3 else rng.randbytes(ssz).hex()
            vals = [rng.randbytes(rng.choice([0, 1, 255, 256, 257, 300, 511, 512, 600, rng.randint(0, 600)])).hex() for _ in range(rng.choice([1, 2, 4]))]
            cases.append({"kind": "lib", "is_fd": is_fd, "old": old, "values": vals, "recycle": rng.random() < 0.4})
    for ns in (1, 2):
        for ws in (False, True):
            cases.append({"kind": "noop", "spec": gen_third_party(rng, is_fd=True, nsides=ns, max_files=2), "with_source": ws})
    # more files than a catalogue holds, given to both tools: payloads stay identical sector for sector, free sectors included
    cases.append({"kind": "pair", "verbose": False, "sources": [{"arg": "p%03d.d" % k, "content": {"pat": "5a", "len": 1 + 255 * (k % 2)}} for k in range(114)]})
    # an independent-writer image whose unused sectors are zero-filled (trailing all-zero sectors): saved back with its full length
    for is_fd in (True, False):
        sp = gen_third_party(rng, is_fd=is_fd, nsides=4, max_files=2)
        for sd_ in sp["sides"]:
            sd_["filler"] = 0x00
        sp["sides"][3]["files"] = []
        cases.append({"kind": "noop", "spec": sp})
    # sources named like the archives themselves (kept in another directory): both tools store them all
    cases.append({"kind": "pair", "verbose": True, "sources": [{"arg": "s+/img.sd", "content": {"pat": "53", "len": 700}}, {"arg": "s+/a.dat", "content": {"hex": "41"}}, {"arg": "s+/IMG.FD", "content": {"pat": "46", "len": 2041}}]})
    return cases, {"random": n, "1- and 2-sided emulator images": 4, "114 files to both tools": 1, "sources named like the archive": 1}


def run_case(case, ctx):
    dis = bad = None
    f = {case["kind"]}
    nontrivial = False
    if case["kind"] == "lib":
        r = ctx.impl.call({"kind": "py", "code": LIB_CODE, "args": case})
        ssz = 256 if case["is_fd"] else 512
        old = bytes.fromhex(case["old"])
        payload = old[:256] if old else bytes([0xE5]) * 256
        if r.get("exc"):
            bad = {"library call failed": [r.get("exc"), r.get("msg")]}
        else:
            for v, (sec, pay) in zip(case["values"], r["result"]):
                v = bytes.fromhex(v)
                sec, pay = bytes.fromhex(sec), bytes.fromhex(pay)
                mp = bytes(ctx.model.call("set_payload", payload, v))
                n = min(len(v), 256)
                want = v[:n] + payload[n:]
                if len(sec) != ssz or len(pay) != 256:
                    bad = {"sector size changed": [len(sec), len(pay)], "assigned_len": len(v)}
                    break
                if pay != want or (not case["is_fd"] and sec[256:] != b"\xff" * 256):
                    bad = {"payload after assignment differs": len(v)}
                    break
                if mp != pay:
                    dis = {"set_payload model": mp.hex()[:40], "impl": pay.hex()[:40], "assigned_len": len(v)}
                payload = pay
                if len(v) > 256 or len(v) == 0:
                    nontrivial = True
        f.add("fd" if case["is_fd"] else "sd")
        f.add("lens:" + ",".join(sorted({("0" if len(x) == 0 else "<256" if len(x) < 512 else "256" if len(x) == 512 else ">256") for x in case["values"]})))
        detail = {"disagreement": dis, "oracle": bad} if (dis or bad) else None
        return CaseResult(dis is None, bad is None, detail, sorted(f), nontrivial)
    cd = CaseDir(ctx)
    try:
        if case["kind"] == "pair":
            fs, contents = setup_sources(cd, case["sources"])
            v = case["verbose"]
            raws = {}
            if case.get("history"):
                # the interpreter that makes the pair has just made another archive with ONE of the two tools: what a tool writes does not depend on what it wrote before
                hfd = case["history"] == "fd"
                os.makedirs(os.path.join(cd.cwd, "earlier"), exist_ok=True)
                with open(os.path.join(cd.cwd, "earlier", "e.dat"), "wb") as f_:
                    f_.write(bytes(range(1, 256)) * 40)
                run_disk(ctx, hfd, ["-c", "earlier/e" + ext_of(hfd), "earlier/e.dat"], cd, timeout=120)
                f.add("history:" + case["history"])
            for is_fd in (True, False):
                arch = "img" + ext_of(is_fd)
                r = run_disk(ctx, is_fd, ["-c"] + (["-v"] if v else []) + [arch] + argv_sources(case["sources"]), cd, timeout=120)
                after = cd.snapshot()
                raws[is_fd] = cd.get(arch)
                m = dmodel_outcome(ctx.model.call("disk_create", is_fd, v, fs, text_points(arch), model_srcs(case["sources"])))
                dis = dis or compare_action(r, m, cd, after, "create " + ext_of(is_fd))
                if r.get("status") != 0 or raws[is_fd] is None:
                    bad = {"create failed": [ext_of(is_fd), r.get("status"), r.get("exc"), r.get("msg")]}
            if bad is None:
                fd, sd = raws[True], raws[False]
                if len(fd) != 4 * SIDE_FD or len(sd) != 4 * SIDE_SD:
                    bad = {"lengths": [len(fd), len(sd)]}
                elif payloads(False, sd) != fd:
                    p = payloads(False, sd)
                    d = next(i for i in range(len(fd)) if fd[i] != p[i])
                    bad = {"payloads differ between flavours at": d, "sector": d // 256}
                elif not sd_padding_ok(sd):
                    bad = {"sd is not fd + FF padding": True}
            nontrivial = any(c for c in contents if c)
            f.add("n:%d" % min(len(case["sources"]), 4))
        else:
            if "bundled" in case:
                is_fd = case["bundled"] == "fd"
                raw0 = open(os.path.join(REPO, "tests", "data", "10_lsystem_mo5__2023-10-14." + case["bundled"]), "rb").read()
                nontrivial = True
            else:
                is_fd = case["spec"]["is_fd"]
                raw0, truth = write_third_party(case["spec"])
                pad = case.get("sd_padding", 0xFF)
                if not is_fd and pad != 0xFF:
                    b = bytearray(raw0)
                    for i in range(0, len(b), 512):
                        b[i + 256:i + 512] = bytes([pad]) * 256
                    raw0 = bytes(b)
                    f.add("sd-padding-%02x" % pad)
                nontrivial = any(t for t in truth)
            arch = "img" + ext_of(is_fd)
            cd.put(arch, raw0)
            short = "spec" in case and case["spec"]["nsides"] < 4
            extra, fs = [], []
            if case.get("with_source"):
                cd.put("new.dat", b"0123456789")
                extra, fs = ["new.dat"], [[text_points("new.dat"), b"0123456789"]]
            r = run_disk(ctx, is_fd, ["-r", arch] + extra, cd, timeout=120)
            after = cd.snapshot()
            raw1 = cd.get(arch)
            m = dmodel_outcome(ctx.model.call("disk_add", is_fd, False, fs, text_points(arch), raw0, [text_points(a) for a in extra]))
            dis = compare_action(r, m, cd, after, "no-op add")
            if short:
                # an emulator image embedding 1 or 2 sides is a valid image: whatever the tool does with it (refuse, or add), its length and boundaries never move
                f.add("sides:%d" % case["spec"]["nsides"])
                if raw1 is None or len(raw1) != len(raw0):
                    bad = {"length changed": [len(raw0), None if raw1 is None else len(raw1)]}
                elif not extra and raw1 != raw0:
                    bad = {"load/save is not the identity on a short image": True}
                elif extra and (r.get("status") != 0 or r.get("exc")) and raw1 != raw0:
                    bad = {"a refused add modified the archive": True}
            elif r.get("status") != 0 or r.get("exc") or raw1 is None:
                bad = {"no-op add failed": [r.get("status"), r.get("exc"), r.get("msg")]}
            elif len(raw1) != len(raw0):
                bad = {"length changed": [len(raw0), len(raw1)]}
            elif is_fd and raw1 != raw0:
                d = next(i for i in range(len(raw0)) if raw0[i] != raw1[i])
                bad = {"load/save is not the identity at offset": d, "sector": (d % SIDE_FD) // 256, "byte": d % 256}
            elif not is_fd and (payloads(False, raw1) != payloads(False, raw0) or not sd_padding_ok(raw1)):
                bad = {"sd load/save changed a payload or left a non-FF padding": True}
            f.add("fd" if is_fd else "sd")
            f.add("bundled" if "bundled" in case else "writer")
        detail = {"disagreement": dis, "oracle": bad} if (dis or bad) else None
        return CaseResult(dis is None, bad is None, detail, sorted(f), nontrivial)
    finally:
        cd.close()


def shrink_candidates(case):
    if case["kind"] == "pair":
        s = case["sources"]
        for k in range(len(s)):
            yield dict(case, sources=s[:k] + s[k + 1:])
        if case.get("history"):
            yield dict(case, history=None)
    elif case["kind"] == "lib":
        v = case["values"]
        for k in range(len(v)):
            if len(v) > 1:
                yield dict(case, values=v[:k] + v[k + 1:])
        if case["old"]:
            yield dict(case, old="")
    elif "spec" in case:
        sp = case["spec"]
        for i, sd in enumerate(sp["sides"]):
            if sd["files"] or sd["deleted"]:
                yield dict(case, spec=dict(sp, sides=sp["sides"][:i] + [dict(sd, files=[], deleted=0)] + sp["sides"][i + 1:]))


def summarise(case):
    if case["kind"] == "lib":
        return {"kind": "lib", "is_fd": case["is_fd"], "lens": [len(x) // 2 for x in case["values"]]}
    if case["kind"] == "pair":
        return {"kind": "pair", "sources": [(s.get("eos") or [s["arg"], s["content"].get("len", 0)]) for s in case["sources"]][:6]}
    return {"kind": "noop", "base": case.get("bundled") or {"seed": case["spec"]["seed"], "is_fd": case["spec"]["is_fd"]}}


def violation_class(case, detail):
    o = (detail or {}).get("oracle") or {}
    return sorted(o)[0] if o else "c11"
