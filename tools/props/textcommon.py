"""shared by c16 (moto_nl) and c17 (moto_prettier)"""
import base64
import os
import shutil
import tempfile

from framework import text_points, points_text


def split_lines_file(text):
    """independent of the model: universal-newline line sequence, terminators removed"""
    t = text.replace("\r\n", "\n").replace("\r", "\n")
    ls = t.split("\n")
    if ls and ls[-1] == "":
        ls.pop()
    return ls


def split_lines_stdin(text):
    ls = text.split("\n")
    if ls and ls[-1] == "":
        ls.pop()
    return ls


def input_lines(inputs):
    out = []
    for i in inputs:
        out += split_lines_stdin(i["text"]) if i["stdin"] else split_lines_file(i["text"])
    return out


def run_text_tool(ctx, tool, opts, inputs):
    """run the real tool in process: files written under a scratch dir, at most one input on stdin"""
    d = tempfile.mkdtemp(dir=ctx.tmp)
    try:
        argv = list(opts)
        stdin = b""
        seen_stdin = False
        for k, i in enumerate(inputs):
            if i["stdin"]:
                argv.append("-")
                if not seen_stdin:
                    stdin = i["text"].encode("utf-8")
                    seen_stdin = True
            else:
                nm = i.get("path") or f"in{k}.lst"   # the same path may be given several times: it is read each time
                p = os.path.join(d, nm)
                with open(p, "wb") as f:
                    f.write(i["text"].encode("utf-8"))
                argv.append(nm)
        r = ctx.impl.call({"kind": "cli", "tool": tool, "argv": argv, "stdin_b64": base64.b64encode(stdin).decode(), "cwd": d})
        out = base64.b64decode(r.get("stdout_b64", "")).decode("utf-8", "surrogateescape")
        return r, out
    finally:
        shutil.rmtree(d, ignore_errors=True)


def model_inputs(inputs):
    """second and later '-' read an exhausted stdin"""
    seen = False
    out = []
    for i in inputs:
        if i["stdin"]:
            out.append([1, text_points("" if seen else i["text"])])
            seen = True
        else:
            out.append([0, text_points(i["text"])])
    return out


def out_lines(out):
    """what print() wrote, as lines (each print adds one LF)"""
    ls = out.split("\n")
    if ls and ls[-1] == "":
        ls.pop()
    return ls


def repeat_a_source(rng, inputs):
    """give one of the file inputs a second (third) time on the command line, under the very same path"""
    files = [k for k, i in enumerate(inputs) if not i["stdin"]]
    if not files:
        return
    j = rng.choice(files)
    inputs[j]["path"] = "again%d.lst" % j
    for _ in range(rng.choice([1, 1, 2])):
        inputs.insert(rng.randint(j + 1, len(inputs)), dict(inputs[j]))
