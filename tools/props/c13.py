"""C13 — tokenized BASIC output is a well-formed MO5 program with the right token codes"""
import re

from framework import scale, CaseResult, text_points, points_text
from props.basiccommon import run_lst2bas, vocabulary, split_listing_lines
from props.tapecommon import CaseDir, run_tool

GEN_FILES = ["GenBasic"]
RULE = ("numbered listings generated from lexeme lists over the full frozen vocabulary (statements, operators, functions; any letter case): keywords, "
        "identifiers and numbers containing no keyword, string literals (closed, unterminated at the end of the line, containing keywords), delimiters "
        "(blank . , ( ) : ;) and one-character operators (+ - * / ^ < = > '), arranged so that every keyword is delimited on both sides by a delimiter, an operator, "
        "a literal or the line boundary; 0..8 lines, numbers 1..65535. The oracle is structural (Spec.program_records: FF, 16-bit length, records with link "
        "pointers advancing from 25A4 by each record's size, final 00 00) and byte-exact (Spec.ref_encode of the lexemes: the reference encoder). "
        "signature = (sorted lexeme-shape features, n lines bucket); non-trivial = at least one keyword next to an operator/literal/punctuation other than a blank")
ASSUMPTIONS = ["the reference vocabulary is the 152-entry table frozen in Spec/Mo5Basic.v"]

DELIMS = " .,():;"
OPS = "+-*/^<=>'"
IDENTS = ["A", "B1", "X", "Y2", "ZZ", "I", "J", "K9", "A$", "B$", "N%", "Q", "W1", "H", "HH", "M", "V"]


def ok_ident(s, vocab_words):
    u = s.upper()
    return not any(w in u for w in vocab_words if w not in DELIMS + OPS and len(w) > 0)


def gen_line_lexemes(rng, vocab):
    words = [w for w, _ in vocab if w not in OPS]
    kw_words = words
    idents = [i for i in IDENTS if ok_ident(i, [w for w, _ in vocab if len(w) > 1])]
    lx = []
    n = rng.choice([0, 1, 2, 3, 5, 8, 12])
    prev = "delim"  # line boundary counts as a delimiter
    for k in range(n):
        r = rng.random()
        if r < 0.30 and prev in ("delim", "string"):
            w = rng.choice(kw_words)
            w = w if rng.random() < 0.6 else w.lower() if rng.random() < 0.6 else w.capitalize()
            lx.append([0, w])
            prev = "kw"
        elif r < 0.45 and prev in ("delim", "string"):
            t = rng.choice(idents) if rng.random() < 0.6 else str(rng.choice([0, 1, 10, 255, 65535]))
            t = t.lower() if rng.random() < 0.3 else t
            lx.append([1, t])
            prev = "text"
        elif r < 0.60:
            inner = rng.choice(["", "A", "hello", "PRINT", "goto 10", "a;b", "x'y", "é"[:0] + "ok", " ", "\x0c30 points", "a\x0bb", "\x1c", "x\x1d\x1e7", "\x7f~", "tab\there"])
            lx.append([2, inner, 1])
            prev = "string"
        else:
            c = rng.choice(DELIMS + OPS) if rng.random() < 0.7 else " "
            lx.append([3, c])
            prev = "delim"
    if rng.random() < 0.15:
        lx.append([2, rng.choice(["", "open", "PRINT x"]), 0])  # unterminated, last on the line
    # a keyword or a text run must be followed by a delimiter, a literal or the end of the line
    out = []
    for i, x in enumerate(lx):
        out.append(x)
        if x[0] in (0, 1) and i + 1 < len(lx) and lx[i + 1][0] in (0, 1):
            out.append([3, " "])
    return out


def source_of(lx):
    s = ""
    for x in lx:
        if x[0] in (0, 1):
            s += x[1]
        elif x[0] == 2:
            s += '"' + x[1] + ('"' if x[2] else "")
        else:
            s += x[1]
    return s


def gen_case(rng):
    vocab = vocabulary()
    n = rng.choice([0, 1, 1, 2, 3, 5, 8])
    lines = []
    num = 0
    for _ in range(n):
        num = rng.choice([1, 65535, rng.randint(1, 65535)]) if rng.random() < 0.3 else min(65535, num + 10)
        lx = gen_line_lexemes(rng, vocab)
        # the single blank after the number is dropped: make the text start unambiguous
        lines.append({"num": num, "lx": lx, "sep": 1})
    return {"lines": lines, "final_nl": rng.random() < 0.8}


def systematic_cases(rng):
    """Every keyword of the vocabulary in every left context and in every right context (delimiters, operators, a closed literal, the line boundary)."""
    cases = []
    for w, _ in vocabulary():
        if w in OPS or w in DELIMS:
            continue
        form = rng.choice([w, w, w.lower(), w.capitalize()])
        left = []
        for c in DELIMS + OPS:
            left += [[3, c], [0, form], [3, " "], [1, "A"]]
        left += [[2, "s", 1], [0, form]]
        right = []
        for c in DELIMS + OPS:
            right += [[3, " "], [0, form], [3, c], [1, "B1"]]
        right += [[3, " "], [0, form], [2, "t", 1]]
        cases.append({"lines": [{"num": 10, "lx": [[0, form]], "sep": 1}, {"num": 20, "lx": left, "sep": 1}, {"num": 30, "lx": right, "sep": 1}], "final_nl": True})
    return cases


def gen_cases(rng, tier):
    n = scale(tier, 600, 20000)
    sysc = systematic_cases(rng)
    T, O, S, K = (lambda t: [1, t]), (lambda c: [3, c]), (lambda t: [2, t, 1]), (lambda w: [0, w])
    fixed = [{"lines": [{"num": 10, "lx": [T("X"), O("="), T("1E"), O("+"), T("5")], "sep": 1},
                        {"num": 20, "lx": [T("Y"), O("="), T("2"), O("."), T("5D"), O("-"), T("3"), O(":"), T("Z"), O("="), T("1e"), O("-"), T("7")], "sep": 1},
                        {"num": 30, "lx": [K("IF"), O(" "), T("R$"), O("="), S("o"), O(" "), K("THEN"), O(" "), T("100")], "sep": 1},
                        {"num": 40, "lx": [K("IF"), O(" "), T("R$"), O("="), S("O"), O(" "), K("THEN"), O(" "), T("100")], "sep": 1},
                        {"num": 50, "lx": [K("CLS"), O(":"), O("'"), K("END")], "sep": 1},
                        {"num": 60, "lx": [O("'"), K("DEFINT"), O(" "), T("A")], "sep": 1}], "final_nl": True}]
    sysc = sysc + fixed
    nm = scale(tier, 30, 500)
    multi = [{"multi": [gen_case(rng) for _ in range(rng.choice([2, 2, 3]))]} for _ in range(nm)]
    return sysc + [gen_case(rng) for _ in range(n)] + multi, {"random": n, "every keyword x every left/right context": len(sysc), "several listings in one run": nm}


def text_of(case):
    ls = [f"{l['num']} {source_of(l['lx'])}" for l in case["lines"]]
    t = "\n".join(ls)
    if ls and case["final_nl"]:
        t += "\n"
    return t


def sx_lex(lx):
    out = []
    for x in lx:
        if x[0] in (0, 1):
            out.append([x[0], text_points(x[1])])
        elif x[0] == 2:
            out.append([2, text_points(x[1]), x[2]])
        else:
            out.append([3, ord(x[1])])
    return out


def run_multi(case, ctx):
    """several listings given to ONE invocation: every image is the image of a run on that listing alone"""
    cd = CaseDir(ctx)
    try:
        dis = bad = None
        texts = [text_of(c) for c in case["multi"]]
        names = []
        for k, t in enumerate(texts):
            cd.put("p%d.lst" % k, t.encode("utf-8"))
            names.append("p%d.lst" % k)
        r = run_tool(ctx, "lst2bas", names, cd)
        ms = [ctx.model.call("tokenize", ctx.model.call("readlines_file", text_points(t))) for t in texts]
        if all(m[0] == 0 for m in ms):
            if r.get("status") != 0 or r.get("exc"):
                bad = {"tool failed": [r.get("status"), r.get("exc"), r.get("msg")]}
            else:
                for k, m in enumerate(ms):
                    out = cd.get("p%d.bas" % k)
                    if out != bytes(m[1]):
                        bad = {"image of source differs from a run on it alone": k}
                        dis = {"source": k, "impl": (out or b"").hex()[:160], "model": bytes(m[1]).hex()[:160]}
                        break
        elif r.get("status") == 0 and not r.get("exc"):
            dis = {"model refuses a listing the tool accepts": [m[0] for m in ms]}
        detail = {"disagreement": dis, "oracle": bad} if (dis or bad) else None
        return CaseResult(dis is None, bad is None, detail, ["multi", "n:%d" % len(texts)], True)
    finally:
        cd.close()


def run_case(case, ctx):
    if "multi" in case:
        return run_multi(case, ctx)
    text = text_of(case)
    r, out = run_lst2bas(ctx, text)
    m = ctx.model.call("tokenize", ctx.model.call("readlines_file", text_points(text)))
    impl_ok = r.get("status") == 0 and r.get("exc") is None and out is not None
    agree = (impl_ok and out == bytes(m[1])) if m[0] == 0 else (not impl_ok)
    dis = None if agree else {"impl": [r.get("status"), r.get("exc"), r.get("msg"), out.hex()[:200] if out else None], "model": [m[0], bytes(m[1]).hex()[:200] if m[0] == 0 else m[1]]}
    bad = None
    if not impl_ok:
        bad = {"tool failed": [r.get("status"), r.get("exc"), r.get("msg")]}
    else:
        recs = ctx.model.call("records", out)
        if not recs:
            bad = {"not a well-formed program image": out.hex()[:160]}
        else:
            recs = recs[0]
            if [n for n, _ in recs] != [l["num"] for l in case["lines"]]:
                bad = {"line numbers": [n for n, _ in recs][:6]}
            else:
                for (n, enc), l in zip(recs, case["lines"]):
                    want = bytes(ctx.model.call("ref_encode", sx_lex(l["lx"])))
                    if bytes(enc) != want:
                        bad = {"encoded text differs on line": n, "source": source_of(l["lx"]), "got": bytes(enc).hex(), "want": want.hex()}
                        break
    f = set()
    for l in case["lines"]:
        prev = None
        for x in l["lx"]:
            if x[0] == 0:
                f.add("kw")
                if prev and prev[0] == 3 and prev[1] in "+-*/^<=>'":
                    f.add("op-kw")
                if prev and prev[0] == 3 and prev[1] in ".,():;":
                    f.add("punct-kw")
                if prev and prev[0] == 2:
                    f.add("string-kw")
                if x[1] != x[1].upper():
                    f.add("lower-kw")
                if x[1].upper() == "ELSE":
                    f.add("else")
                if "$" in x[1]:
                    f.add("dollar-kw")
            if x[0] == 2:
                f.add("string" if x[2] else "unterminated")
            if x[0] == 3 and x[1] == ";":
                f.add("semicolon")
            if prev and prev[0] == 0 and x[0] in (2, 3) and x[1] != " ":
                f.add("kw-then-nonblank")
            prev = x
    f.add("n:" + str(min(len(case["lines"]), 3)))
    nontrivial = bool(f & {"op-kw", "punct-kw", "string-kw", "kw-then-nonblank"})
    detail = {"disagreement": dis, "oracle": bad} if (dis or bad) else None
    return CaseResult(dis is None, bad is None, detail, sorted(f), nontrivial)


def shrink_candidates(case):
    if "multi" in case:
        m = case["multi"]
        for k in range(len(m)):
            if len(m) > 1:
                yield {"multi": m[:k] + m[k + 1:]}
        return
    ls = case["lines"]
    for k in range(len(ls)):
        yield dict(case, lines=ls[:k] + ls[k + 1:])
    for k, l in enumerate(ls):
        for j in range(len(l["lx"])):
            lx = l["lx"][:j] + l["lx"][j + 1:]
            # keep the delimiting discipline
            okay = all(not (lx[i][0] in (0, 1) and lx[i + 1][0] in (0, 1)) for i in range(len(lx) - 1))
            if okay:
                yield dict(case, lines=ls[:k] + [dict(l, lx=lx)] + ls[k + 1:])


def summarise(case):
    if "multi" in case:
        return {"texts": [text_of(c)[:120] for c in case["multi"]]}
    return {"text": text_of(case)[:300]}


def violation_class(case, detail):
    o = (detail or {}).get("oracle") or {}
    return sorted(o)[0] if o else "c13"
