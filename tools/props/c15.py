"""C15 — ASCII BASIC conversion round-trips listings line for line"""
from framework import scale, CaseResult, text_points, points_text
from props.basiccommon import run_lst2bas, run_bas2lst, split_listing_lines
from props.tapecommon import CaseDir, run_tool

GEN_FILES = ["GenBasic"]
RULE = ("(a) text listings of 0..8 lines over 7-bit characters, blank lines, trailing blanks of every Python whitespace kind (space, tab, VT, FF, FS..US, NEL, NBSP, "
        "U+2003, U+3000), non-ASCII characters, CR/LF/CRLF terminators, with/without final newline -> lst2bas ',a'; (b) ASCII BASIC byte files of 0..60 bytes over "
        "{CR, LF, printable, 00, 80..FF} with any mix of separators -> bas2lst ',a' with and without --dos; (c) the composition on (a). Oracles, independent of the model: "
        "(a) output = CR + for each line (keep-7-bit(rstrip(line)) + CR); (b) output = the non-empty CR/LF-separated pieces, each followed by the selected line ending, never an empty line; "
        "(c) = the non-blank lines of (a)'s right-trimmed 7-bit lines; (d) several sources given to ONE invocation of either tool: every output equals the output of a run on that source alone. signature = sorted features {blank-line, trailing-ws, unicode-ws, non-ascii, crlf, cr, no-final-nl, dos, "
        "sep-run, leading-sep, high-bytes}; non-trivial = at least two features")
ASSUMPTIONS = ["listings are valid UTF-8 (the tool opens them in text mode with the strict handler)"]

WS = [" ", "\t", "\x0b", "\x0c", "\x1c", "\x1d", "\x1e", "\x1f", "\x85", "\xa0", " ", "　", " ", " "]


def gen_listing(rng):
    lines = []
    for _ in range(rng.choice([0, 1, 2, 3, 5, 8])):
        r = rng.random()
        if r < 0.15:
            l = ""
        elif r < 0.25:
            l = "".join(rng.choice(WS) for _ in range(rng.randint(1, 3)))
        else:
            l = rng.choice(["10 PRINT \"A\"", "20 béc", "30 X=1", "REM", " 40 leading", "50 a\tb", "é", "60 €5", "70 \x7f\x01"])
            if rng.random() < 0.5:
                l += "".join(rng.choice(WS) for _ in range(rng.randint(1, 3)))
        lines.append(l)
    term = rng.choice(["\n", "\n", "\r\n", "\r"])
    # a line may not contain the characters universal newlines treats as terminators, except as terminators
    lines = [l.replace("\r", "").replace("\n", "") for l in lines]
    t = term.join(lines)
    if lines and rng.random() < 0.8:
        t += term
    return t


def gen_ascii_file(rng):
    n = rng.choice([0, 1, 2, 5, 10, 30, 60])
    return bytes(rng.choice([13, 13, 10, 10, 65, 66, 32, 34, 48, 0, 0x80, 0xFF, rng.randrange(256)]) for _ in range(n))


BUFFER_SIZES = [256, 512, 1024, 2048, 4096, 8192, 16384, 32768, 65536]


def gen_long_lines(rng):
    """Lines whose separators fall on, just before and just after the usual buffer sizes (a conversion done block by block must not show)."""
    b = rng.choice(BUFFER_SIZES)
    sep = rng.choice(["\r", "\n", "\r\n", "\r\r"])
    off = rng.choice([-1, 0, 0, 0, 1])
    lines = []
    pos = rng.choice([0, 0, 1])  # lst2bas output starts with a CR
    lead = pos
    target = b + off
    while pos < 2 * b + 40:
        # next separator start: the next multiple of b (shifted by off) when reachable with a line of 1..200 characters, else a random line
        nxt = ((pos // b) + 1) * b + off
        ln = nxt - pos if 1 <= nxt - pos <= 200 else rng.randint(1, 200)
        num = str(10 + len(lines))
        body = (num + " REM " + "v" * 200)[:ln] if ln > len(num) else "x" * ln
        lines.append(body)
        pos += ln + len(sep)
    return lines, sep, lead


def gen_cases(rng, tier):
    n = scale(tier, 300, 6000)
    nb = scale(tier, 24, 300)
    cases = []
    for _ in range(n):
        cases.append({"kind": "lst", "text": gen_listing(rng), "dos": rng.random() < 0.5})
        cases.append({"kind": "bas", "hex": gen_ascii_file(rng).hex(), "dos": rng.random() < 0.5})
    for _ in range(nb):
        lines, sep, lead = gen_long_lines(rng)
        data = ("\r" * lead + sep.join(lines) + (sep if rng.random() < 0.7 else "")).encode("latin1")
        cases.append({"kind": "bas", "hex": data.hex(), "dos": rng.random() < 0.5})
        lines, sep, lead = gen_long_lines(rng)
        term = rng.choice(["\n", "\r\n", "\r"])
        cases.append({"kind": "lst", "text": term.join(lines) + term, "dos": rng.random() < 0.5})
    nm = scale(tier, 40, 600)
    for _ in range(nm):
        # several sources in ONE invocation: every output is what a run on that source alone gives
        if rng.random() < 0.5:
            cases.append({"kind": "multi", "tool": "bas2lst", "dos": rng.random() < 0.5, "items": [gen_ascii_file(rng).hex() for _ in range(rng.choice([2, 2, 3, 4]))]})
        else:
            cases.append({"kind": "multi", "tool": "lst2bas", "dos": False, "items": [gen_listing(rng) for _ in range(rng.choice([2, 2, 3]))]})
    cases.append({"kind": "multi", "tool": "bas2lst", "dos": False, "items": [b"10 A".hex(), b"\r10 CLS\r20 END\r".hex(), b"".hex(), b"\n\n5 X".hex(), b"\r\n7 Y\r\n".hex()]})
    return cases, {"listings": n, "ascii files": n, "long ascii files with separators at buffer-size offsets": nb, "long listings": nb, "several sources in one run": nm + 1}


def py_isspace_strip(l):
    return l.rstrip()  # CPython's own notion, on the harness side (independent of the model's is_space_py)


def want_ascii(text):
    out = b"\r"
    for l in split_listing_lines_keep(text):
        out += bytes(ord(c) for c in py_isspace_strip(l) if ord(c) < 128) + b"\r"
    return out


def split_listing_lines_keep(text):
    t = text.replace("\r\n", "\n").replace("\r", "\n")
    ls = t.split("\n")
    if ls and ls[-1] == "":
        ls.pop()
    return ls


def want_lst(data, dos):
    eol = b"\r\n" if dos else b"\n"
    out = b""
    for piece in data.replace(b"\r", b"\n").split(b"\n"):
        if piece:
            out += piece + eol
    return out


def run_multi(case, ctx):
    cd = CaseDir(ctx)
    try:
        dis = bad = None
        tool = case["tool"]
        names = []
        for k, it in enumerate(case["items"]):
            nm = "f%d.%s" % (k, "bas" if tool == "bas2lst" else "lst")
            cd.put(nm, bytes.fromhex(it) if tool == "bas2lst" else it.encode("utf-8", "surrogateescape"))
            names.append(nm)
        r = run_tool(ctx, tool, (["--dos"] if case["dos"] else []) + [n + ",a" for n in names], cd)
        if r.get("status") != 0 or r.get("exc"):
            bad = {"tool failed": [r.get("status"), r.get("exc"), r.get("msg")]}
        else:
            for k, (nm, it) in enumerate(zip(names, case["items"])):
                out = cd.get(nm[:-3] + ("lst" if tool == "bas2lst" else "bas"))
                if tool == "bas2lst":
                    data = bytes.fromhex(it)
                    w = want_lst(data, case["dos"])
                    m = bytes(ctx.model.call("ascii_to_lst", case["dos"], data))
                else:
                    w = want_ascii(it)
                    m = bytes(ctx.model.call("lst_to_ascii", ctx.model.call("readlines_file", text_points(it))))
                if out != w:
                    bad = {"output of source differs from a run on it alone": k, "got": (out or b"").hex()[:80], "want": w.hex()[:80]}
                    break
                if out != m:
                    dis = {"source": k, "impl": (out or b"").hex()[:80], "model": m.hex()[:80]}
        f = ["multi", tool, "n:%d" % len(case["items"])] + (["dos"] if case["dos"] else [])
        detail = {"disagreement": dis, "oracle": bad} if (dis or bad) else None
        return CaseResult(dis is None, bad is None, detail, f, True)
    finally:
        cd.close()


def run_case(case, ctx):
    if case["kind"] == "multi":
        return run_multi(case, ctx)
    f = set()
    dis = bad = None
    if case["kind"] == "lst":
        text = case["text"]
        r, out = run_lst2bas(ctx, text, ascii_mode=True)
        m = bytes(ctx.model.call("lst_to_ascii", ctx.model.call("readlines_file", text_points(text))))
        ok = r.get("status") == 0 and r.get("exc") is None and out is not None
        if not ok or out != m:
            dis = {"impl": [r.get("status"), r.get("exc"), r.get("msg"), out.hex()[:120] if out else None], "model": m.hex()[:120]}
        if not ok:
            bad = {"tool failed": [r.get("status"), r.get("exc"), r.get("msg")]}
        else:
            w = want_ascii(text)
            if out != w:
                bad = {"ascii basic differs": out.hex()[:120], "want": w.hex()[:120]}
            elif any(b >= 128 for b in out):
                bad = {"not 7-bit": True}
            else:
                # composition
                r2, back = run_bas2lst(ctx, out, dos=case["dos"])
                eol = "\r\n" if case["dos"] else "\n"
                lines7 = ["".join(c for c in py_isspace_strip(l) if ord(c) < 128) for l in split_listing_lines_keep(text)]
                wantback = "".join(l + eol for l in lines7 if l != "").encode("latin1")
                if r2.get("status") != 0 or back != wantback:
                    bad = {"round trip differs": (back or b"").hex()[:120], "want": wantback.hex()[:120], "status": r2.get("status")}
                m2 = bytes(ctx.model.call("ascii_to_lst", case["dos"], out))
                if dis is None and back != m2:
                    dis = {"bas2lst impl": (back or b"").hex()[:120], "model": m2.hex()[:120]}
        ls = split_listing_lines_keep(text)
        if any(l.strip() == "" for l in ls):
            f.add("blank-line")
        if any(l != l.rstrip(" ") for l in ls):
            f.add("trailing-ws")
        if any(l.rstrip() != l.rstrip(" \t") for l in ls):
            f.add("unicode-ws")
        if any(ord(c) > 127 for c in text):
            f.add("non-ascii")
        if "\r\n" in text:
            f.add("crlf")
        elif "\r" in text:
            f.add("cr")
        if text and text[-1] not in "\r\n":
            f.add("no-final-nl")
        if case["dos"]:
            f.add("dos")
    else:
        data = bytes.fromhex(case["hex"])
        r, out = run_bas2lst(ctx, data, dos=case["dos"])
        m = bytes(ctx.model.call("ascii_to_lst", case["dos"], data))
        ok = r.get("status") == 0 and r.get("exc") is None and out is not None
        if not ok or out != m:
            dis = {"impl": [r.get("status"), r.get("exc"), r.get("msg"), out.hex()[:120] if out else None], "model": m.hex()[:120]}
        if not ok:
            bad = {"tool failed": [r.get("status"), r.get("exc"), r.get("msg")]}
        else:
            w = want_lst(data, case["dos"])
            if out != w:
                bad = {"listing differs": out.hex()[:120], "want": w.hex()[:120]}
        if b"\r\r" in data or b"\n\n" in data or b"\r\n" in data or b"\n\r" in data:
            f.add("sep-run")
        if data[:1] in (b"\r", b"\n"):
            f.add("leading-sep")
        if data and data[-1:] not in (b"\r", b"\n"):
            f.add("no-final-sep")
        if any(b >= 128 for b in data):
            f.add("high-bytes")
        if case["dos"]:
            f.add("dos")
        f.add("bas")
    detail = {"disagreement": dis, "oracle": bad} if (dis or bad) else None
    return CaseResult(dis is None, bad is None, detail, sorted(f), len(f) >= 2)


def shrink_candidates(case):
    if case["kind"] == "multi":
        it = case["items"]
        for k in range(len(it)):
            if len(it) > 1:
                yield dict(case, items=it[:k] + it[k + 1:])
        return
    if case["kind"] == "lst":
        t = case["text"]
        for j in range(len(t)):
            yield dict(case, text=t[:j] + t[j + 1:])
    else:
        d = case["hex"]
        for j in range(0, len(d), 2):
            yield dict(case, hex=d[:j] + d[j + 2:])
    if case["dos"]:
        yield dict(case, dos=False)


def violation_class(case, detail):
    o = (detail or {}).get("oracle") or {}
    return sorted(o)[0] if o else "c15"
