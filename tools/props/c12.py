"""C12 — what the tools print is what the archive contains (names, order, sizes, counts)"""
import os
import re

from framework import scale, CaseResult, text_points
from props import c01, c02
from props.diskcommon import (argv_sources, compare_action, dmodel_outcome, expected_entry, ext_of, fsck, gen_sources, model_srcs, run_disk, setup_sources)
from props.tapecommon import CaseDir, model_outcome, run_tool

GEN_FILES = ["GenDisk", "GenTape"]
RULE = ("disk: source lists as in C02 (8.3 names, --eos, overflow) through create, list, extract and a second add, quiet and verbose, both flavours; tape: source lists as in "
        "C01 through create, list, extract. The whole stdout is parsed (not only the file lines): every stored/read file exactly once, in order, under its catalogue name; "
        "per-side and TOTAL file counts = number of files actually in the image (decoded by the extracted Spec), 'file' / 'files' and 'block' / 'blocks' agreeing with the number; "
        "verbose byte sizes = content lengths; verbose block counts = chain lengths (disk) / data-block counts and first-block indices (tape); percentages = a correct rounding of "
        "blocks/160; create, list and extract report the same sizes and block counts for the same file. signature = (medium, flavour, verbose, flags {eos, overflow, "
        "single-file-side, empty-side, one-block-file}); non-trivial = a side or a total with exactly one file or one block, or an overflow")
ASSUMPTIONS = c02.ASSUMPTIONS

COUNT_Q = re.compile(r"^(\d+) file(s?)$")
COUNT_V = re.compile(r"^(?:empty|(\d+) file(s?)), (?:\((\d+) \+ (\d+)\) block(s?) used|(\d+) block(s?) (read|written)) \((\d+)\.(\d)%\)$")
TOTAL_V = re.compile(r"^(\d+) file(s?), (\d+) block(s?) (read|written)$")


def plural_ok(n, s):
    return (s == "") == (n == 1)


def parse_sections(text, verbose, listing):
    """-> list of dict(side, files=[(label,stored,size,blocks)], count_line=..., raw lines) and the TOTAL block; None on a line that fits nothing"""
    from props.diskcommon import parse_report
    secs = []
    cur = None
    total = None
    lines = text.split("\n")
    i = 0
    while i < len(lines):
        line = lines[i]
        i += 1
        if line == "" or line == "---" or line.startswith("has into"):
            continue
        m = re.match(r"^Side (\d+)$", line)
        if m:
            cur = {"side": int(m.group(1)), "count": None}
            secs.append(cur)
            continue
        if line == "TOTAL":
            total = lines[i] if i < len(lines) else None
            i += 1
            cur = None
            continue
        if cur is not None and not line.startswith("  "):
            cur["count"] = line
    files = parse_report(text, verbose, listing)
    for s, f in zip(secs, files):
        s["files"] = f
    return secs, total


def check_disk_report(text, verbose, listing, action, truth_sides):
    """truth_sides: per side list of (label, size, blocks) that the action stored/read there"""
    secs, total = parse_sections(text, verbose, listing)
    if [s["side"] for s in secs] != list(range(len(secs))):
        return {"side headers": [s["side"] for s in secs]}
    tot_files = tot_blocks = 0
    for s in secs:
        t = truth_sides[s["side"]] if s["side"] < len(truth_sides) else []
        stored = [f for f in s.get("files", []) if f[1]]
        if [f[0] for f in stored] != [x[0] for x in t]:
            return {"files of side": s["side"], "printed": [f[0] for f in stored][:5], "actual": [x[0] for x in t][:5]}
        if verbose:
            for f, x in zip(stored, t):
                if f[2] != x[1]:
                    return {"size printed": f[2], "actual": x[1], "file": f[0], "action": action}
                if f[3] != x[2]:
                    return {"blocks printed": f[3], "actual": x[2], "file": f[0], "action": action}
        nb = sum(x[2] for x in t)
        tot_files += len(t)
        tot_blocks += nb
        c = s["count"]
        if listing and not verbose:
            if c is not None:
                return {"unexpected count line in a quiet listing": c}
            continue
        if c is None:
            return {"missing count line on side": s["side"]}
        if verbose:
            m = COUNT_V.match(c)
            if not m:
                return {"count line": c}
            n = int(m.group(1)) if m.group(1) else 0
            if n != len(t) or (m.group(1) and not plural_ok(n, m.group(2))):
                return {"file count": c, "actual": len(t)}
            if m.group(6) is not None:
                b = int(m.group(6))
                if b != nb or not plural_ok(b, m.group(7)):
                    return {"block count": c, "actual": nb}
                tenth = int(m.group(9)) * 10 + int(m.group(10))
                if 2 * abs(tenth * 160 - 1000 * nb) > 160:
                    return {"percentage": c, "blocks": nb}
        else:
            m = COUNT_Q.match(c)
            if not m or int(m.group(1)) != len(t) or not plural_ok(int(m.group(1)), m.group(2)):
                return {"count line": c, "actual": len(t)}
    if not listing:
        if total is None:
            return {"missing TOTAL": True}
        if verbose:
            m = TOTAL_V.match(total)
            if not m or int(m.group(1)) != tot_files or not plural_ok(tot_files, m.group(2)) or int(m.group(3)) != tot_blocks or not plural_ok(tot_blocks, m.group(4)):
                return {"TOTAL line": total, "actual": [tot_files, tot_blocks]}
            if (m.group(5) == "read") != (action == "extract"):
                return {"TOTAL verb": total}
        else:
            m = COUNT_Q.match(total)
            if not m or int(m.group(1)) != tot_files or not plural_ok(tot_files, m.group(2)):
                return {"TOTAL line": total, "actual": tot_files}
    return None


def gen_cases(rng, tier):
    n = scale(tier, 40, 300)
    cases = []
    for _ in range(n):
        if rng.random() < 0.65:
            srcs = gen_sources(rng, rng.choice([0, 1, 1, 2, 3, 6, 10]), eos_rate=0.15, big_rate=0.04)
            add = gen_sources(rng, rng.choice([0, 1, 2]), eos_rate=0.1, dirs=False)
            for k, s in enumerate(add):
                if "arg" in s:
                    s["arg"] = f"z{k}." + (s["arg"].split(".")[-1] if "." in s["arg"] else "d")
            if rng.random() < 0.25:
                # a catalogue name already stored, given again with another length (a newer version): both entries live, each reported with its own figures
                olds = [x["arg"] for x in srcs if "arg" in x and "/" not in x["arg"]]
                if olds:
                    tgt = add if rng.random() < 0.6 else srcs
                    tgt.insert(rng.randint(0, len(tgt)), {"arg": "v2+/" + rng.choice(olds), "content": {"pat": "56", "len": rng.choice([0, 5000, 300, 2041])}})
            cases.append({"medium": "disk", "is_fd": rng.random() < 0.5, "verbose": rng.random() < 0.6, "sources": srcs, "add": add})
        else:
            c = c01.gen_case(rng)
            c["medium"] = "tape"
            cases.append(c)
    for bl in RAW_TAPES:
        for vb in (True, False):
            cases.append({"medium": "rawtape", "blocks": bl, "verbose": vb})
    for is_fd in (True, False):
        cases.append({"medium": "disk", "is_fd": is_fd, "verbose": True, "add": [{"arg": "z0.dat", "content": {"pat": "43", "len": 2500}}],
                      "sources": [{"arg": "a.dat", "content": {"pat": "41", "len": 3000}}, {"arg": "b.txt", "content": {"pat": "42", "len": 700}},
                                  {"arg": "big.bin", "content": {"rand": 9, "len": 315900}}, {"arg": "c.dat", "content": {"pat": "44", "len": 2500}}]})
    # verbose totals when the LAST side holds files: three --eos first, an overflow chain reaching side 3, files on every side
    e = {"eos": "--eos"}
    f = lambda a, n: {"arg": a, "content": {"pat": "45", "len": n}}
    for is_fd in (True, False):
        cases.append({"medium": "disk", "is_fd": is_fd, "verbose": True, "add": [f("z0.dat", 2500)], "sources": [f("a.dat", 3000), e, e, e, f("b.txt", 700), f("c.bin", 5000)]})
        cases.append({"medium": "disk", "is_fd": is_fd, "verbose": True, "add": [e, e, e, f("z0.dat", 2500), f("z1.dat", 1)],
                      "sources": [f("a.dat", 300000), f("b.dat", 300000), f("c.dat", 300000), f("d.dat", 300000), f("e.dat", 10)]})
        cases.append({"medium": "disk", "is_fd": is_fd, "verbose": True, "add": [], "sources": [f("a.dat", 1), e, f("b.dat", 2041), e, f("c.dat", 0), e, f("d.dat", 4081), f("e.dat", 255)]})
    for is_fd in (True, False):
        cases.append({"medium": "disk", "is_fd": is_fd, "verbose": True, "sources": [f("prog.bas", 11), f("v2+/prog.bas", 5000), f("other.dat", 300)], "add": [f("v3+/PROG.BAS", 2041), f("z.txt", 1)]})
    # names starting with characters that mean something elsewhere (a '*' marks deleted entries on some DOS tools): reported by create AND by list/extract
    for is_fd in (True, False):
        cases.append({"medium": "disk", "is_fd": is_fd, "verbose": is_fd, "sources": [f("*star.txt", 700), f("plain.dat", 300), f("?q.bas", 10), f(",c.bin", 2041)], "add": [f("*two.dat", 5)]})
    # extensions of 4..8 characters: refused by create/add, hence absent from every later report as well
    for is_fd in (True, False):
        cases.append({"medium": "disk", "is_fd": is_fd, "verbose": not is_fd, "sources": [f("first.bas", 11), f("notes.text", 300), f("second.txt", 5), f("page.html", 1), f("t.extensio", 2)], "add": [f("table.data", 7), f("z.txt", 1)]})
    return cases, {"random": n, "fixed": 14}


def raw_tape(blocks):
    out = b""
    for ty, hexp in blocks:
        pl = bytes.fromhex(hexp)
        out += b"\x01" * 16 + b"\x3c\x5a" + bytes([ty, (len(pl) + 2) & 255]) + pl + bytes([(-sum(pl)) & 255])
    return out + bytes(64)


def _leader(name, ext, kind=2):
    return [0, (name.ljust(8).encode() + ext.ljust(3).encode() + bytes([kind, 0, 0])).hex()]


def _data(n, b=0x41):
    return [1, (bytes([b]) * n).hex()]


_EOF = [255, ""]
RAW_TAPES = [
    [_leader("OLD", "BAS", 0), _data(254), _leader("PROG", "BAS", 0), _data(254, 0x42), _data(254, 0x43), _data(92, 0x44), _EOF, _leader("NOTES", "DAT"), _data(10), _EOF],
    [_leader("A", "BIN"), _data(100), _EOF, _data(77, 0x45), _data(5, 0x46), _leader("B", "BIN"), _data(200), _EOF],
    [_leader("C", "BIN"), _EOF, _leader("D", "BIN"), _data(1), _EOF, _data(9)],
]


def run_case(case, ctx):
    cd = CaseDir(ctx)
    try:
        dis = bad = None
        f = {case["medium"]}
        nontrivial = False
        if case["medium"] == "rawtape":
            # a tape whose blocks are not all enclosed leader..end (an interrupted SAVE, stray data blocks): what list and extract print for a file is
            # what extract wrote for it
            raw = raw_tape(case["blocks"])
            cd.put("t.k7", raw)
            v = case["verbose"]
            vf = ["-v"] if v else []
            rl = run_tool(ctx, "tar", ["-t"] + vf + ["t.k7"], cd)
            rx = run_tool(ctx, "tar", ["-x"] + vf + ["t.k7"], cd)
            ml = model_outcome(ctx.model.call("tar_list", v, raw))
            mx = model_outcome(ctx.model.call("tar_extract", v, [], text_points("t.k7"), raw))
            for nm, r, m in (("list", rl, ml), ("extract", rx, mx)):
                if (r.get("status") == 0) != (m["status"] == 0) or r["lines"] != m["lines"]:
                    dis = dis or {nm + " lines": r["lines"][:4], "model": m["lines"][:4], "status": [r.get("status"), m["status"]]}
            if rl.get("status") != 0 or rx.get("status") != 0:
                bad = {"status": [rl.get("status"), rx.get("status"), rx.get("msg")]}
            elif rl["lines"] != rx["lines"]:
                bad = {"list and extract reports differ": [rl["lines"][:3], rx["lines"][:3]]}
            else:
                for l in rx["lines"]:
                    p = l.split("\t")
                    got = cd.get(p[0])
                    if got is None:
                        bad = {"a reported file was not written": p[0]}
                    elif v and (len(p) != 6 or p[4] != f"{len(got)} octets" or p[5] != f"{(len(got) + 253) // 254} blocks."):
                        bad = {"reported": l, "the file written holds": len(got)}
            f.add("v" if v else "q")
            nontrivial = True
        elif case["medium"] == "tape":
            obs = c01.flow(case, ctx, cd)
            dis = c01.compare(obs, cd)
            r = obs["create"]
            if r.get("status") == 0 and "list" in obs:
                contents = obs["contents"]
                names = c01.expected_names(case)
                v = case["verbose"]
                want = []
                idx = 0
                for (n, e), c in zip(names, contents):
                    nb = (len(c) + 253) // 254
                    want.append((f"{n}.{e}", len(c), nb, idx + 1))
                    idx += 2 + nb
                for act in ("create", "list", "extract"):
                    lines = obs[act]["lines"]
                    if len(lines) != len(want):
                        bad = {act + " prints a different number of files": [len(lines), len(want)]}
                        break
                    for l, w in zip(lines, want):
                        p = l.split("\t")
                        if p[0] != w[0]:
                            bad = {act + " name": p[0], "want": w[0]}
                        elif v and (len(p) != 6 or p[3] != f"#{w[3]}" or p[4] != f"{w[1]} octets" or p[5] != f"{w[2]} blocks."):
                            bad = {act + " line": l, "want": w}
                    if bad:
                        break
                if bad is None and not (obs["create"]["lines"] == obs["list"]["lines"] == obs["extract"]["lines"]):
                    bad = {"create / list / extract reports differ": True}
                nontrivial = len(want) > 0
            f.add("v" if case["verbose"] else "q")
        else:
            is_fd, v = case["is_fd"], case["verbose"]
            arch = "img" + ext_of(is_fd)
            vf = ["-v"] if v else []
            fs, contents = setup_sources(cd, case["sources"])
            r = run_disk(ctx, is_fd, ["-c"] + vf + [arch] + argv_sources(case["sources"]), cd, timeout=120)
            after = cd.snapshot()
            raw = cd.get(arch)
            m = dmodel_outcome(ctx.model.call("disk_create", is_fd, v, fs, text_points(arch), model_srcs(case["sources"])))
            dis = compare_action(r, m, cd, after, "create")

            def truth_of(raw_):
                out = []
                for sd in fsck(ctx, is_fd, raw_):
                    out.append([(x["name"].decode("latin1").rstrip() + "." + x["ext"].decode("latin1").rstrip(), len(x["content"]), len(x["blocks"])) for x in (sd["files"] or [])])
                return out

            if r.get("status") != 0 or raw is None:
                bad = {"create failed": [r.get("status"), r.get("exc"), r.get("msg")]}
            else:
                truth = truth_of(raw)
                bad = check_disk_report(r["text"], v, False, "create", truth)
                if bad:
                    bad["action"] = "create"
                for act, argv, listing in (("list", ["-t"] + vf + [arch], True), ("extract", ["-x"] + vf + [arch], False)):
                    if bad:
                        break
                    rr = run_disk(ctx, is_fd, argv, cd, timeout=120)
                    mm = dmodel_outcome(ctx.model.call("disk_list", is_fd, v, raw) if act == "list" else ctx.model.call("disk_extract", is_fd, v, [], text_points(arch), raw))
                    dis = dis or compare_action(rr, mm, cd, None, act)
                    if rr.get("status") != 0:
                        bad = {act + " failed": [rr.get("status"), rr.get("exc"), rr.get("msg")]}
                    else:
                        bad = check_disk_report(rr["text"], v, listing, act, truth)
                        if bad:
                            bad["action"] = act
                if bad is None and case["add"]:
                    fs2, contents2 = setup_sources(cd, case["add"])
                    ra = run_disk(ctx, is_fd, ["-r"] + vf + [arch] + argv_sources(case["add"]), cd, timeout=120)
                    after = cd.snapshot()
                    raw2 = cd.get(arch)
                    ma = dmodel_outcome(ctx.model.call("disk_add", is_fd, v, fs2, text_points(arch), raw, model_srcs(case["add"])))
                    dis = dis or compare_action(ra, ma, cd, after, "add")
                    if ra.get("status") != 0 or raw2 is None:
                        bad = {"add failed": [ra.get("status"), ra.get("exc"), ra.get("msg")]}
                    else:
                        t2 = truth_of(raw2)
                        gained = []
                        for a, b in zip(truth, t2):
                            g = list(b)
                            for x in a:
                                if x in g:
                                    g.remove(x)
                            gained.append(g)
                        bad = check_disk_report(ra["text"], v, False, "add", gained)
                        if bad:
                            bad["action"] = "add"
                if any(len(t) == 1 for t in truth) or any(x[2] == 1 for t in truth for x in t) or "too big" in r["text"]:
                    nontrivial = True
                if any(len(t) == 0 for t in truth):
                    f.add("empty-side")
                if any(len(t) == 1 for t in truth):
                    f.add("single-file-side")
            f |= {"fd" if is_fd else "sd", "v" if v else "q"}
            if any("eos" in s for s in case["sources"]):
                f.add("eos")
            if "too big" in r.get("text", ""):
                f.add("overflow")
        detail = {"disagreement": dis, "oracle": bad} if (dis or bad) else None
        return CaseResult(dis is None, bad is None, detail, sorted(f), nontrivial)
    finally:
        cd.close()


def shrink_candidates(case):
    if case["medium"] == "rawtape":
        b = case["blocks"]
        for k in range(len(b)):
            yield dict(case, blocks=b[:k] + b[k + 1:])
        return
    s = case["sources"]
    for k in range(len(s)):
        yield dict(case, sources=s[:k] + s[k + 1:])
    if case.get("add"):
        yield dict(case, add=[])


def summarise(case):
    if case["medium"] == "rawtape":
        return {"medium": "rawtape", "verbose": case["verbose"], "blocks": [[t, len(h) // 2] for t, h in case["blocks"]]}
    return {"medium": case["medium"], "verbose": case.get("verbose"), "sources": [(s.get("eos") or [s["arg"], s["content"].get("len", 0)]) for s in case["sources"]][:6]}


def violation_class(case, detail):
    o = (detail or {}).get("oracle") or {}
    return [case["medium"]] + sorted(k for k in o if k != "action")[:1]
