"""C14 — tokenizing a listing never loses, duplicates or reorders program text"""
import re

from framework import scale, CaseResult, text_points, points_text
from props.basiccommon import run_lst2bas, vocabulary, split_listing_lines

GEN_FILES = ["GenBasic"]
RULE = ("numbered listings over printable ASCII: per line a random mix of vocabulary words (any case), keyword-after-keyword runs (GOTO, GOSUB, ONERRORGOTO), "
        "identifiers embedding keywords (TOTO, SCORE, FORK), digits, operators, punctuation incl. ';', quotes in runs of 1..3 (unterminated included), "
        "apostrophes, REM/DATA tails, arbitrary printable characters, blanks anywhere; 0..8 lines, last line with/without newline, line numbers 1..65535. "
        "The oracle is the extracted Spec detokenizer (program_records + expand over the frozen vocabulary) applied to the bytes the real tool wrote, compared with "
        "(line number, text upper-cased outside string literals). signature = sorted feature set {kw-run, kw-in-ident, quote, unterminated, apostrophe, "
        "operator-before-kw, semicolon, no-final-nl, else, two-byte-token, lower}; non-trivial = a keyword adjacent to a letter/digit/keyword, or a quote")
ASSUMPTIONS = ["listing characters are printable ASCII (str.upper and utf-8 are modelled beyond ASCII but C14 quantifies over ASCII)"]

GLUE = ["GOTO", "GOSUB", "ONERRORGOTO", "TOTO", "SCORE", "FORK", "FORI=1TO10", "IFA=1THENPRINTELSEGOTO", "ELSEPRINT", "ONXGOTO", "PRINTTAB(5)", "Y=-SIN(X)",
        "=DSKIN", "DEFINT", "DEFSTRA", "LOCATE", "LOCATION", "ERROR", "ERRL", "TRONTROFF", "STRING$(3)", "MID$(A$,1)", "INKEY$", "DSKO$", "XOR", "ORX", "NOTA", "TOX", "ATOB", "INPUTA$"]


def gen_text_run(rng, vocab):
    parts = []
    for _ in range(rng.choice([0, 1, 2, 3, 5, 8])):
        r = rng.random()
        if r < 0.25:
            w = rng.choice(vocab)[0]
            parts.append(w if rng.random() < 0.7 else w.lower() if rng.random() < 0.6 else w.capitalize())
        elif r < 0.40:
            parts.append(rng.choice(GLUE))
        elif r < 0.50:
            parts.append('"' * rng.choice([1, 1, 1, 2, 3]))
        elif r < 0.58:
            parts.append(rng.choice(["abc", "x", "Name$", "i%", "a1", "Z9", "hello world"]))
        elif r < 0.68:
            parts.append(rng.choice(["1", "10", "100", "3.14", "&HFF", "65535"]))
        elif r < 0.80:
            parts.append(rng.choice(["+", "-", "*", "/", "^", "<", "=", ">", "'", "<>", "<=", "=-", "=+"]))
        elif r < 0.92:
            parts.append(rng.choice([" ", " ", "  ", ",", ";", ":", "(", ")", ".", ";"]))
        else:
            parts.append(rng.choice(["REM for you", "DATA 1,to,\"x", "!#$%&?@[]\\_`{|}~", "'comment goto"]))
    return "".join(parts)


def gen_case(rng):
    vocab = vocabulary()
    n = rng.choice([0, 1, 1, 2, 3, 5, 8])
    lines = []
    num = 0
    for _ in range(n):
        num = rng.choice([1, 10, 65535, rng.randint(1, 65535)]) if rng.random() < 0.3 else num + rng.choice([1, 10])
        num = max(1, min(num, 65535))
        sep = rng.choice([" ", " ", " ", "", "  "])
        body = gen_text_run(rng, vocab)
        if sep == "" and body[:1].isdigit():
            sep = " "
        lines.append(f"{num}{sep}{body}")
        if rng.random() < 0.12:
            # the same statement again, equal up to the letter case (inside literals too), or with signed exponents: each line is encoded for itself
            num = max(1, min(num + 1, 65535))
            lines.append(f"{num}{sep}{body.swapcase() if rng.random() < 0.6 else body.upper()}")
    if rng.random() < 0.08:
        num = max(1, min(num + 1, 65535))
        lines.append(f"{num} " + rng.choice(['IF R$="o" THEN 100', 'X=1E+5:Y=2.5D-3', 'a=1e-7+b', 'REM mixed Case remark', "10 CLS:'END", "'DEFINT A", 'PRINT "~";A~B', 'A$="abc   ', 'Z=1E5']))
        if rng.random() < 0.5:
            num = max(1, min(num + 1, 65535))
            lines.append(f"{num} " + rng.choice(['IF R$="O" THEN 100', 'x=1e+5:y=2.5d-3', 'rem MIXED case REMARK']))
    text = "\n".join(lines)
    if lines and rng.random() < 0.8:
        text += "\n"
    return {"text": text}


def gen_cases(rng, tier):
    n = scale(tier, 600, 20000)
    return [gen_case(rng) for _ in range(n)], {"random": n}


def features(text):
    f = set()
    if text and not text.endswith("\n"):
        f.add("no-final-nl")
    for w in ("GOTO", "GOSUB", "TOTO", "SCORE", "FORK", "ELSE"):
        if w in text.upper():
            f.add("kw:" + w)
    if '"' in text:
        f.add("quote")
    for l in text.split("\n"):
        if l.count('"') % 2:
            f.add("unterminated")
    if "'" in text:
        f.add("apostrophe")
    if ";" in text:
        f.add("semicolon")
    if re.search(r"[-+*/^<=>][A-Za-z]", text):
        f.add("operator-before-letter")
    if re.search(r"[a-z]", text):
        f.add("lower")
    if "$" in text:
        f.add("dollar")
    return sorted(f)


def expected_lines(text, ctx):
    out = []
    for l in split_listing_lines(text):
        m = re.match(r"([1-9][0-9]*)( ?)(.*)$", l, re.S)
        if not m:
            return None
        out.append((int(m.group(1)), points_text(ctx.model.call("uos", text_points(m.group(3))))))
    return out


def run_case(case, ctx):
    text = case["text"]
    r, out = run_lst2bas(ctx, text)
    lines = ctx.model.call("readlines_file", text_points(text))
    m = ctx.model.call("tokenize", lines)
    impl_ok = r.get("status") == 0 and r.get("exc") is None and out is not None
    if m[0] == 0:
        agree = impl_ok and out == bytes(m[1])
    else:
        agree = not impl_ok
    dis = None if agree else {"impl": [r.get("status"), r.get("exc"), r.get("msg"), out.hex()[:200] if out else None], "model": [m[0], bytes(m[1]).hex()[:200] if m[0] == 0 else m[1]]}
    exp = expected_lines(text, ctx)
    bad = None
    if exp is not None:
        if not impl_ok:
            bad = {"tool failed": [r.get("status"), r.get("exc"), r.get("msg")]}
        else:
            d = ctx.model.call("detok", out)
            if not d:
                bad = {"the program image does not decode": out.hex()[:120]}
            else:
                got = [(n, points_text(t)) for n, t in d[0]]
                if got != exp:
                    k = next((i for i in range(min(len(got), len(exp))) if got[i] != exp[i]), min(len(got), len(exp)))
                    bad = {"line": k, "got": got[k] if k < len(got) else None, "want": exp[k] if k < len(exp) else None}
    f = features(text)
    nontrivial = bool(set(f) & {"quote", "operator-before-letter"} or any(x.startswith("kw:") for x in f))
    detail = {"disagreement": dis, "oracle": bad} if (dis or bad) else None
    return CaseResult(dis is None, bad is None, detail, f, nontrivial, skipped=exp is None)


def shrink_candidates(case):
    t = case["text"]
    ls = t.split("\n")
    if len(ls) > 1:
        for j in range(len(ls)):
            yield {"text": "\n".join(ls[:j] + ls[j + 1:])}
    if len(t) < 200:
        for j in range(len(t)):
            yield {"text": t[:j] + t[j + 1:]}


def violation_class(case, detail):
    o = (detail or {}).get("oracle") or {}
    return sorted(o)[0] if o else "c14"
