"""C09 — tape creation is all-or-nothing and never over- or under-estimates capacity"""
import os

from framework import scale, CaseResult, text_points
from props import c01
from props.tapecommon import CaseDir, TAPE, encoded_size, gen_content, gen_source_path, materialize, real_path_of, run_tool, model_outcome, status_class

GEN_FILES = ["GenTape"]
RULE = ("source lists whose encoded size (35 per leader, 21 per block) is placed at 21504 + d for d in -40..+40 and far beyond, the overflow falling "
        "in a sync sequence, a leader, a data block or an end block of the first, a middle or the last file; a missing source at every position; "
        "a directory given as source; target absent or pre-existing with random bytes (compared byte for byte afterwards). "
        "signature = (delta bucket, n files, where the frontier falls, missing position, pre-existing); non-trivial = within 64 bytes of the frontier or with a missing source")
ASSUMPTIONS = ["that a path nobody opened for writing keeps its bytes is the operating system's doing: it is observed (bytes before/after), not modelled"]


def gen_case(rng):
    n = rng.choice([1, 1, 2, 3, 5, 8])
    used = set()
    # choose contents then stretch one file so that the total lands near the frontier
    lens = [rng.choice([0, 1, 100, 253, 254, 255, 508, 1000]) for _ in range(n)]
    delta = rng.choice(list(range(-40, 41)) + [-3000, -500, 500, 3000, 20000])
    k = rng.randrange(n)

    def total(ls):
        return sum(35 + 21 * ((x + 253) // 254) + x + 21 for x in ls)

    # adjust file k
    base = total(lens[:k] + lens[k + 1:])
    want = TAPE + delta - base
    best = None
    for x in range(0, 26000):
        t = 35 + 21 * ((x + 253) // 254) + x + 21
        if t >= want:
            best = x
            break
    lens[k] = best if best is not None else lens[k]
    # names longer than 8.3 (cut to fit the leader fields) must not change the capacity: a leader is 14 bytes whatever the host name
    longn = rng.random() < 0.3
    srcs = [{"arg": gen_source_path(rng, used, longnames=longn), "content": gen_content(rng, size=x)} for x in lens]
    case = {"sources": srcs, "verbose": rng.random() < 0.3, "archive": rng.choice(["t.k7", "o+/t.k7"])}
    r = rng.random()
    if r < 0.25:
        case["missing"] = rng.randrange(n)
    if rng.random() < 0.5:
        case["old"] = {"rand": rng.randint(0, 1 << 20), "len": rng.choice([0, 10, 21504, 30000])}
    return case


def gen_cases(rng, tier):
    n = scale(tier, 150, 3000)
    cases = [gen_case(rng) for _ in range(n)]
    for size in (19808, 19809, 19810, 19811):  # one file: 21502 / 21503 / 21504 / 21505 encoded
        cases.append({"sources": [{"arg": "big.bin", "content": {"rand": size, "len": size}}], "verbose": False, "archive": "t.k7", "old": {"rand": 1, "len": 21504}})
    for size, nm in ((19432, "levels.data"), (19432, "README_FIRST_OF_ALL"), (19433, "notes.text"), (19434, "x.json5")):  # 300-byte intro + this file: 21503 / 21504 / 21505 encoded
        cases.append({"sources": [{"arg": "intro.bas", "content": {"pat": "41", "len": 300}}, {"arg": nm, "content": {"rand": size, "len": size}}], "verbose": False, "archive": "t.k7"})
    return cases, {"random": n, "one-file frontier": 4, "long names at the frontier": 4}


def run_case(case, ctx):
    cd = CaseDir(ctx)
    try:
        fs, contents, arch = c01.setup(case, cd)
        miss = case.get("missing")
        if miss is not None:
            p = os.path.normpath(os.path.join(cd.cwd, real_path_of(case["sources"][miss]["arg"])))
            os.remove(p)
            fs = [e for i, e in enumerate(fs) if i != miss]
        old = materialize(case["old"]) if "old" in case else None
        if old is not None:
            cd.put(arch, old)
        srcfiles = {os.path.relpath(os.path.normpath(os.path.join(cd.cwd, real_path_of(s["arg"]))), cd.root) for s in case["sources"]}
        before = cd.snapshot()
        v = case["verbose"]
        args = ["-c"] + (["-v"] if v else []) + [arch] + [s["arg"] for s in case["sources"]]
        r = run_tool(ctx, "tar", args, cd)
        after = cd.snapshot()
        m = model_outcome(ctx.model.call("tar_create", v, fs, text_points(arch), [text_points(s["arg"]) for s in case["sources"]]))
        archrel = cd.rel(arch)
        # --- correspondence
        dis = None
        if status_class(r.get("status")) != status_class(m["status"]):
            dis = {"status": [r.get("status"), r.get("exc"), r.get("msg")], "model": [m["status"], m["crash"]]}
        elif r["lines"] != m["lines"]:
            dis = {"lines": r["lines"][-3:], "model": m["lines"][-3:]}
        else:
            mw = {cd.rel(p): c for p, c in m["effects"]}
            changed = {k: after[k] for k in after if before.get(k) != after[k]}
            # a rewrite with identical bytes is a write too: use the audit trail for the keys
            iw = {p: after.get(p) for p in r["writes"]}
            if mw != iw:
                dis = {"writes": sorted(iw), "model": sorted(mw)}
        # --- oracle, on the implementation alone
        bad = None
        enc = encoded_size(contents)
        ok = r.get("status") == 0 and r.get("exc") is None
        others = {k for k in set(before) | set(after) if before.get(k) != after.get(k) and k != archrel}
        if others:
            bad = {"files other than the archive changed": sorted(others)[:4]}
        elif ok:
            raw = after.get(archrel)
            if miss is not None:
                bad = {"status 0 although a source is missing": miss}
            elif raw is None or len(raw) != TAPE:
                bad = {"status 0 but archive length": None if raw is None else len(raw)}
            else:
                dec = ctx.model.call("k7_decode", raw)
                want = [ctx.model.call("doc_entry", text_points(s["arg"]), c) for s, c in zip(case["sources"], contents)]
                norm = lambda e: [bytes(e[0]), bytes(e[1]), e[2], e[3], b"".join(bytes(c) for c in e[4])]
                if not dec or [norm(e) for e in dec[0]] != [norm(e) for e in want]:
                    bad = {"status 0 but the archive does not hold every source completely": len(dec[0]) if dec else None}
            if bad is None and enc > TAPE:
                bad = {"accepted although encoded size exceeds the tape": enc}
        else:
            if r.get("exc") == "Timeout":
                bad = {"timeout": True}
            elif after.get(archrel) != before.get(archrel):
                bad = {"failed but the archive path was written": archrel, "had_old": old is not None}
            elif archrel in r["writes"]:
                bad = {"failed but the archive path was opened for writing": archrel}
            elif miss is None and enc < TAPE:
                bad = {"refused although it fits": enc, "status": r.get("status"), "exc": r.get("exc"), "msg": r.get("msg")}
            elif not r["lines"] and not r.get("stderr_tail") and not r.get("tb"):
                bad = {"failure without any diagnostic": True}
        d = enc - TAPE
        sig = ["d:" + (str(d) if abs(d) <= 3 else "<64" if abs(d) < 64 else "far") + ("+" if d > 0 else "-"), "n:" + str(len(contents)),
               "miss:" + str(miss), "old:" + str(None if old is None else len(old)), "v" if v else "q"]
        nontrivial = abs(d) < 64 or miss is not None
        detail = {"disagreement": dis, "oracle": bad, "encoded": enc} if (dis or bad) else None
        return CaseResult(dis is None, bad is None, detail, sig, nontrivial)
    finally:
        cd.close()


def shrink_candidates(case):
    s = case["sources"]
    if case.get("missing") is None:
        for k in range(len(s)):
            yield dict(case, sources=s[:k] + s[k + 1:])
    if "old" in case:
        c = dict(case)
        del c["old"]
        yield c
    if case["verbose"]:
        yield dict(case, verbose=False)


summarise = c01.summarise


def violation_class(case, detail):
    o = (detail or {}).get("oracle") or {}
    return sorted(o)[0] if o else "c09"
