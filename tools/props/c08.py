"""C08 — any well-formed third-party tape is read exactly; list and extract agree"""
import os

from framework import scale, CaseResult, text_points
from props.tapecommon import CaseDir, gen_content, materialize, model_outcome, run_tool, status_class

GEN_FILES = ["GenTape"]
RULE = ("tapes emitted by an independent writer (this file, written from the format text: it shares no code with the tool or the model): "
        "leader runs of 3..64 bytes 01, gaps of 0..40 bytes over {00,01,3C,5A,FF,random} that do not contain 01 01 01 3C 5A, 0..6 files, "
        "0..5 data blocks per file with payloads of 0..254 bytes (non-maximal blocks included, 254 = length byte 0), adversarial payloads, "
        "kind 0..2 and other values, mode 0/FFFF/random, trailing garbage, total length from unpadded to > 64 KiB; names 1..8 + 0..3 printable ASCII, space padded, possibly the same NAME.EXT several times on one tape (extraction keeps the last). "
        "signature = (n files, block-size classes, gap classes, run classes, flags); non-trivial = at least one file with data and a gap or a run != 16")
ASSUMPTIONS = ["name fields are 7-bit ASCII without '/', NUL or leading blank (other bytes are C18's business)"]

MARK = b"\x01\x01\x01\x3c\x5a"


def ck(p):
    return (256 - sum(p) % 256) % 256


def gen_gap(rng):
    n = rng.choice([0, 0, 1, 2, 3, 4, 5, 8, 17, 40])
    while True:
        g = bytes(rng.choice([0, 1, 1, 0x3C, 0x5A, 0xFF, rng.randrange(256)]) for _ in range(n))
        if MARK not in g:
            return g


def block(rng, ty, payload, meta):
    run = rng.choice([3, 3, 4, 5, 15, 16, 16, 17, 33, 64])
    gap = gen_gap(rng)
    meta["runs"].add(run)
    meta["gaps"].add(min(len(gap), 9))
    return gap + b"\x01" * run + b"\x3c\x5a" + bytes([ty, (len(payload) + 2) % 256]) + payload + bytes([ck(payload)])


NAMECH = "ABCDEFGHIJKLMNOPQRSTUVWXYZ0123456789_-+!#$%&'()@^`{}~abc ."


def gen_case(rng):
    nfiles = rng.choice([0, 1, 1, 2, 3, 4, 6]) if rng.random() > 0.06 else rng.choice([30, 45, 60])   # long tapes: files well past the 21504th byte
    files = []
    for _ in range(nfiles):
        name = rng.choice(NAMECH[:36]) + "".join(rng.choice(NAMECH) for _ in range(rng.randint(0, 7)))
        name = name.rstrip(" ") or "A"
        ext = "".join(rng.choice(NAMECH[:40]) for _ in range(rng.randint(0, 3)))
        kind = rng.choice([0, 0, 1, 2, 2, 3, 0x7F, 0xFF])
        mode = rng.choice([0, 0, 0xFFFF, 0xFFFF, 1, 0x1234, 0xFF00])
        nb = rng.choice([0, 1, 1, 2, 3, 5])
        chunks = []
        for _ in range(nb):
            size = rng.choice([0, 1, 2, 100, 253, 254, 254, rng.randint(0, 254)])
            chunks.append(gen_content(rng, size=size))
        if files and rng.random() < 0.15:
            # the same NAME.EXT again further down the tape (a program saved twice): extraction keeps the last one
            name, ext = rng.choice(files)["name"], rng.choice(files)["ext"] if rng.random() < 0.3 else None
            src = rng.choice(files)
            name, ext = src["name"], src["ext"]
        files.append({"name": name, "ext": ext, "kind": kind, "mode": mode, "chunks": chunks})
    return {"files": files, "wseed": rng.randint(0, 1 << 30), "tail": rng.choice([0, 0, 1, 7, 100, 21504, 70000]), "verbose": rng.random() < 0.5,
            "archive": rng.choice(["t.k7", "o+/t.k7"]), "tailfill": rng.choice([0, 0, 0xFF, 1])}


def write_tape(case):
    import random
    rng = random.Random(case["wseed"])
    meta = {"runs": set(), "gaps": set()}
    out = b""
    for f in case["files"]:
        name = f["name"].encode("latin1").ljust(8)[:8]
        ext = f["ext"].encode("latin1").ljust(3)[:3]
        lead = name + ext + bytes([f["kind"], f["mode"] >> 8, f["mode"] & 255])
        out += block(rng, 0, lead, meta)
        for c in f["chunks"]:
            out += block(rng, 1, materialize(c), meta)
        out += block(rng, 0xFF, b"", meta)
    tail = bytes([case["tailfill"]]) * case["tail"]
    if MARK in tail:
        tail = b""
    return out + gen_gap(rng) + tail, meta


def gen_cases(rng, tier):
    n = scale(tier, 250, 5000)
    cases = [gen_case(rng) for _ in range(n)]
    twice = {"files": [{"name": "SCORES", "ext": "DAT", "kind": 1, "mode": 0, "chunks": [{"pat": "41", "len": 254}, {"pat": "42", "len": 46}]},
                       {"name": "MENU", "ext": "BAS", "kind": 0, "mode": 0, "chunks": [{"pat": "43", "len": 10}]},
                       {"name": "SCORES", "ext": "DAT", "kind": 1, "mode": 0, "chunks": [{"pat": "44", "len": 120}]}],
             "wseed": 5, "tail": 100, "verbose": True, "archive": "t.k7", "tailfill": 0}
    cases.append(twice)
    return cases, {"random": n, "same name twice": 1}


def expected(case):
    """what the property demands: names (fields stripped), order, bytes, sizes, block counts, first-block positions"""
    out = []
    idx = 0
    for f in case["files"]:
        content = b"".join(materialize(c) for c in f["chunks"])
        out.append({"label": f["name"].strip() + "." + f["ext"].strip(), "content": content, "nblocks": len(f["chunks"]), "first": idx + 1, "kind": f["kind"], "mode": f["mode"]})
        idx += 2 + len(f["chunks"])
    return out


def parse_verbose(line):
    p = line.split("\t")
    if len(p) != 6:
        return None
    return {"label": p[0], "type": p[1], "mode": p[2], "first": p[3], "size": p[4], "nblocks": p[5]}


def run_case(case, ctx):
    cd = CaseDir(ctx)
    try:
        raw, meta = write_tape(case)
        arch = case["archive"]
        cd.put(arch, raw)
        v = case["verbose"]
        vf = ["-v"] if v else []
        rl = run_tool(ctx, "tar", ["-t"] + vf + [arch], cd)
        before = cd.snapshot()
        rx = run_tool(ctx, "tar", ["-x"] + vf + [arch], cd)
        after = cd.snapshot()
        ml = model_outcome(ctx.model.call("tar_list", v, raw))
        mx = model_outcome(ctx.model.call("tar_extract", v, [], text_points(arch), raw))
        dis = None
        for nm, r, m in (("list", rl, ml), ("extract", rx, mx)):
            if status_class(r.get("status")) != status_class(m["status"]):
                dis = {nm + " status": [r.get("status"), r.get("exc"), r.get("msg")], "model": [m["status"], m["crash"]]}
            elif r["lines"] != m["lines"]:
                dis = {nm + " lines": r["lines"][:4], "model": m["lines"][:4]}
        if dis is None:
            mw = [cd.rel(p) for p, c in mx["effects"]]
            if mw != rx["writes"]:
                dis = {"extract writes": rx["writes"][:5], "model": mw[:5]}
            else:
                final = {}
                for p, c in mx["effects"]:
                    final[cd.rel(p)] = c
                for p, c in final.items():
                    if after.get(p) != c:
                        dis = {"extract content": p}
        # oracle on the implementation alone
        exp = expected(case)
        bad = None
        adir = os.path.dirname(cd.rel(arch))
        if rl.get("status") != 0 or rl.get("exc") or rx.get("status") != 0 or rx.get("exc"):
            bad = {"status": [rl.get("status"), rl.get("exc"), rx.get("status"), rx.get("exc"), rx.get("msg")]}
        elif rl["lines"] != rx["lines"]:
            bad = {"list and extract report differently": [rl["lines"][:3], rx["lines"][:3]]}
        else:
            names = [l.split("\t")[0] for l in rl["lines"]]
            if names != [e["label"] for e in exp]:
                bad = {"names": names[:5], "want": [e["label"] for e in exp][:5]}
            elif v:
                for l, e in zip(rl["lines"], exp):
                    pv = parse_verbose(l)
                    if pv is None or pv["first"] != f"#{e['first']}" or pv["size"] != f"{len(e['content'])} octets" or pv["nblocks"] != f"{e['nblocks']} blocks.":
                        bad = {"verbose line": l, "want": [e["first"], len(e["content"]), e["nblocks"]]}
                        break
            if bad is None:
                final = {}
                for e in exp:
                    final[os.path.normpath(os.path.join(adir, e["label"]))] = e["content"]
                for p, c in final.items():
                    if after.get(p) != c:
                        bad = {"extracted bytes differ": p, "want_len": len(c), "got_len": None if after.get(p) is None else len(after[p])}
                        break
                extra = [k for k in after if before.get(k) != after[k] and k not in final]
                if bad is None and extra:
                    bad = {"unexpected files": extra[:4]}
        sizes = sorted({("0" if c["len"] == 0 else "254" if c["len"] == 254 else "253" if c["len"] == 253 else "mid") for f in case["files"] for c in f["chunks"]})
        sig = ["n:" + str(len(case["files"])), "sz:" + ",".join(sizes), "runs:" + ",".join(str(x) for x in sorted(meta["runs"]))[:20],
               "gaps:" + ",".join(str(x) for x in sorted(meta["gaps"]))[:20], "tail:" + str(min(case["tail"], 2)), "v" if v else "q"]
        nontrivial = any(f["chunks"] for f in case["files"]) and (meta["runs"] != {16} or meta["gaps"] != {0})
        detail = {"disagreement": dis, "oracle": bad} if (dis or bad) else None
        return CaseResult(dis is None, bad is None, detail, sig, nontrivial)
    finally:
        cd.close()


def shrink_candidates(case):
    fs = case["files"]
    for k in range(len(fs)):
        yield dict(case, files=fs[:k] + fs[k + 1:])
    for k, f in enumerate(fs):
        for j in range(len(f["chunks"])):
            yield dict(case, files=fs[:k] + [dict(f, chunks=f["chunks"][:j] + f["chunks"][j + 1:])] + fs[k + 1:])
    if case["tail"]:
        yield dict(case, tail=0)
    if case["verbose"]:
        yield dict(case, verbose=False)


def summarise(case):
    return {"files": [[f["name"], f["ext"], f["kind"], f["mode"], f["chunks"]] for f in case["files"]][:4], "tail": case["tail"], "verbose": case["verbose"]}


def violation_class(case, detail):
    o = (detail or {}).get("oracle") or {}
    return sorted(o)[0] if o else "c08"
