"""C04 — created disk images conform to the Thomson DOS layout (independent decoder/fsck)"""
import os

from framework import scale, CaseResult, text_points
from props import c02
from props.diskcommon import (SIDE_FD, SIDE_SD, argv_sources, compare_action, dmodel_outcome, expected_entry, ext_of, fsck, gen_sources, model_srcs,
                              run_disk, sd_padding_ok, setup_sources)
from props.tapecommon import CaseDir, materialize

GEN_FILES = ["GenDisk"]
RULE = ("source lists as in C02 (all sizes incl. 0 and a full side, --eos, names too long for 8.3 which must be skipped), both flavours. The oracle is the extracted "
        "Spec/ThomsonDos.v: image length 4 sides x 80 x 16 x (256|512), .sd upper halves FF, fsck_strict on every side (table byte 0 zero, valid statuses, blocks 40/41 reserved, "
        "every live entry's chain acyclic ending in C1..C8, chains pairwise disjoint and equal to the set of used blocks, 16 FF bytes after each live record), and dos_files(side) "
        "= the files the report says were stored there, with kind/flag per the README table and content laid out 255 bytes per sector. "
        "signature = C02's features; non-trivial = as C02")
ASSUMPTIONS = c02.ASSUMPTIONS


def gen_cases(rng, tier):
    n = scale(tier, 64, 1200)
    cases = []
    for _ in range(n):
        srcs = gen_sources(rng, rng.choice([0, 1, 2, 3, 5, 8, 14]), eos_rate=0.12, big_rate=0.05)
        if rng.random() < 0.2 and srcs:
            srcs.insert(rng.randrange(len(srcs)), {"arg": rng.choice(["toolongname.bas", "x.extension", "verylongname12.dat"]), "content": {"pat": "41", "len": 10}})
        cases.append({"is_fd": rng.random() < 0.5, "verbose": rng.random() < 0.3, "sources": srcs, "old": rng.choice([None, None, None, 0, 100, 1310720, 2621440, 3000000])})
    # names that spell the keys of the documented rules, without any extension: they are 'other files'
    keys = [{"arg": a, "content": {"pat": "41", "len": 10 + k}} for k, a in enumerate(["bas", "BIN", "txt", "Bat", "auto", "bas.bas", "auto.bat", "AUTO.txt", "bat.auto", "bin.", "x.bas,a", "noauto.bat", "my.auto.bat", "xbas", "atxt", "Auto.Bat,a", "t.txt,a"])]
    for is_fd in (True, False):
        cases.append({"is_fd": is_fd, "verbose": is_fd, "sources": keys})
    # more files than a catalogue holds: the 113th is refused on side 0 (catalogue full) and goes to side 1
    many = [{"arg": "f%03d.%s" % (k, ["dat", "bas", "txt", "bin"][k % 4]), "content": {"pat": "41", "len": 1 + (k % 3) * 300}} for k in range(114)]
    for is_fd in (True, False):
        cases.append({"is_fd": is_fd, "verbose": False, "sources": many + [{"arg": "last.bas,a", "content": {"pat": "42", "len": 2041}}]})
    return cases, {"random": n, "rule keys as whole names": 2, "114 files": 2}


def run_case(case, ctx):
    cd = CaseDir(ctx)
    try:
        is_fd, v = case["is_fd"], case["verbose"]
        fs, contents = setup_sources(cd, case["sources"])
        arch = "img" + ext_of(is_fd)
        if case.get("old") is not None:
            # a file already lies at the archive path (shorter, as long, longer than an image): create overwrites it
            cd.put(arch, materialize({"rand": 77, "len": case["old"]}))
        r = run_disk(ctx, is_fd, ["-c"] + (["-v"] if v else []) + [arch] + argv_sources(case["sources"]), cd)
        after = cd.snapshot()
        raw = cd.get(arch)
        m = dmodel_outcome(ctx.model.call("disk_create", is_fd, v, fs, text_points(arch), model_srcs(case["sources"])))
        dis = compare_action(r, m, cd, after, "create")
        bad = None
        if r.get("status") != 0 or r.get("exc") or raw is None:
            bad = {"create failed": [r.get("status"), r.get("exc"), r.get("msg")]}
        elif len(raw) != 4 * (SIDE_FD if is_fd else SIDE_SD):
            bad = {"image length": len(raw)}
        elif not is_fd and not sd_padding_ok(raw):
            bad = {"sd padding is not all FF": True}
        else:
            sides = fsck(ctx, is_fd, raw)
            rep = c02.parse_update(r["text"], v)
            pending = [(expected_entry(s["arg"]), c) for s, c in zip(case["sources"], contents) if "eos" not in s]
            pos = 0
            for i, sd in enumerate(sides):
                if not sd["strict"]:
                    bad = {"fsck_strict rejects side": i, "geometry": sd["geometry"], "read": sd["read"], "files_decoded": sd["files"] is not None}
                    break
                want = []
                for label, outcome, size, blocks in (rep[i] if i < len(rep) else []):
                    if outcome != "ok":
                        continue
                    k = next((j for j in range(pos, len(pending)) if pending[j][0] is not None and label == pending[j][0][0].decode().rstrip() + "." + pending[j][0][1].decode().rstrip()), None)
                    if k is None:
                        bad = {"reported file matches no remaining source": label}
                        break
                    pos = k + 1
                    want.append(pending[k])
                if bad:
                    break
                got = [(f["name"], f["ext"], f["kind"], f["flag"], f["content"]) for f in sd["files"]]
                exp = [(e[0], e[1], e[2], e[3], c) for e, c in want]
                if got != exp:
                    k = next((j for j in range(min(len(got), len(exp))) if got[j] != exp[j]), min(len(got), len(exp)))
                    bad = {"decoded files of side": i, "index": k, "got": str(got[k][:4]) if k < len(got) else None, "want": str(exp[k][:4]) if k < len(exp) else None,
                           "n": [len(got), len(exp)], "content_equal": (got[k][4] == exp[k][4]) if k < min(len(got), len(exp)) else None}
                    break
                if sd["free"] + sd["reserved"] + sum(len(f["blocks"]) for f in sd["files"]) != 160:
                    bad = {"free + used + reserved != 160 on side": i}
                    break
        obs = {"contents": contents, "create": r}
        f = c02.features(case, obs)
        if any("arg" in s and expected_entry(s["arg"]) is None for s in case["sources"]):
            f.append("too-long-skipped")
        nontrivial = bool({"eos", "overflow", "sz:1block", "sz:multi", "sz:k2040", "sz:k255", "sz:side"} & set(f))
        detail = {"disagreement": dis, "oracle": bad} if (dis or bad) else None
        return CaseResult(dis is None, bad is None, detail, sorted(f), nontrivial)
    finally:
        cd.close()


def shrink_candidates(case):
    yield from c02.shrink_candidates(case)
    if case.get("old") is not None:
        yield dict(case, old=None)
summarise = c02.summarise


def violation_class(case, detail):
    o = (detail or {}).get("oracle") or {}
    return sorted(o)[0] if o else "c04"
