"""C07 — any well-formed third-party disk image is listed and extracted exactly"""
import os

from framework import scale, CaseResult, text_points
from props import c02
from props.diskcommon import compare_action, dmodel_outcome, ext_of, fsck, gen_third_party, run_disk, write_third_party
from props.tapecommon import CaseDir

GEN_FILES = ["GenDisk"]
RULE = ("images emitted by an independent writer (diskcommon.write_third_party, written from the format text): emulator images of 1, 2 or 4 sides and 4-sided SDDrive "
        "images, blocks allocated ascending / descending / in random order and fragmented, chains of 1..157 blocks, last-block sector counts 1..8, last-sector byte counts "
        "0..255 (incl. a last sector holding 0 bytes), deleted and never-used entries interleaved over all 14 catalogue sectors, extra reserved blocks, fillers 00/E5/FF/41, "
        "table byte 0 and tail 00/FF; plus the bundled real-world image. The writer's images are first cross-checked by the extracted Spec decoder (fsck_read + dos_files). "
        "Oracle: list -v and extract report exactly the live files of every side (kind, flag, true size) and extract writes exactly their bytes, also where the sideN directories already hold longer or shorter files of the same names (two files in three). "
        "signature = (flavour, nsides, allocation orders, flags {frag, deleted, spread, lastbytes0, extra-reserved, filler, multi-block}); non-trivial = a multi-block or fragmented file, or deleted entries")
ASSUMPTIONS = ["names are printable ASCII without '/', and deleted entries keep a first-block byte below 160 (other bytes are C18's business)"]
KIND = {0: "BASIC", 1: "DATA", 2: "MODULE", 3: "TEXT"}


def gen_cases(rng, tier):
    n = scale(tier, 60, 450)
    cases = [{"spec": gen_third_party(rng), "verbose": rng.random() < 0.5} for _ in range(n)]
    for is_fd in (True, False):
        full = {"name": "FULL", "ext": "DAT", "kind": 1, "flag": 0, "content": {"rand": 21, "len": 320280}}
        edge = {"name": "EDGE", "ext": "", "kind": 2, "flag": 0, "content": {"rand": 22, "len": 318241}}
        side = lambda f, order: {"files": [f], "deleted": 0, "extra_reserved": [], "filler": 0xE5, "fat0": 0, "fat_tail": 0, "order": order, "frag": False, "spread": True}
        cases.append({"spec": {"is_fd": is_fd, "nsides": 4, "seed": 5, "sides": [side(full, "asc"), side(edge, "desc"), side(full, "random"), side(edge, "asc")]}, "verbose": is_fd})
    cases.append({"bundled": "fd", "verbose": True})
    cases.append({"bundled": "sd", "verbose": False})
    return cases, {"random": n, "bundled": 2}


def image_of(case):
    if "bundled" in case:
        from framework import REPO
        p = os.path.join(REPO, "tests", "data", "10_lsystem_mo5__2023-10-14." + case["bundled"])
        return case["bundled"] == "fd", open(p, "rb").read(), None
    raw, truth = write_third_party(case["spec"])
    return case["spec"]["is_fd"], raw, truth


def run_case(case, ctx):
    cd = CaseDir(ctx)
    try:
        is_fd, raw, truth = image_of(case)
        v = case["verbose"]
        arch = "img" + ext_of(is_fd)
        cd.put(arch, raw)
        sides = fsck(ctx, is_fd, raw)
        if truth is None:
            # the bundled image: only its formatted sides are file systems; the truth is the Spec decoder's reading
            truth = [([{"name": f["name"], "ext": f["ext"], "kind": f["kind"], "flag": f["flag"], "content": f["content"]} for f in s["files"]] if s["read"] else None) for s in sides]
        else:
            for i, (s, t) in enumerate(zip(sides, truth)):
                got = None if s["files"] is None else [(f["name"], f["ext"], f["kind"], f["flag"], f["content"]) for f in s["files"]]
                if not s["read"] or got != [(f["name"], f["ext"], f["kind"], f["flag"], f["content"]) for f in t]:
                    raise RuntimeError(f"independent writer and Spec decoder disagree on side {i}: read={s['read']}")
        rl = run_disk(ctx, is_fd, ["-t", "-v", arch], cd)
        ml = dmodel_outcome(ctx.model.call("disk_list", is_fd, True, raw))
        dis = compare_action(rl, ml, cd, None, "list")
        mx = dmodel_outcome(ctx.model.call("disk_extract", is_fd, v, [], text_points(arch), raw))
        # the sideN directories may already hold results of an earlier extraction (of this image or of another revision kept beside it), longer or shorter
        # than the files of this image: extract writes exactly the bytes of the image
        for n_, (p_, c_) in enumerate(mx["effects"]):
            q = os.path.normpath(os.path.join(cd.cwd, p_))
            if n_ % 3 != 2 and q.startswith(cd.root) and not os.path.lexists(q):
                os.makedirs(os.path.dirname(q), exist_ok=True)
                with open(q, "wb") as f_:
                    f_.write(b"earlier revision " * (len(c_) // 10 + 50) if n_ % 3 == 0 else c_[:len(c_) // 2])
        before = cd.snapshot()
        rx = run_disk(ctx, is_fd, ["-x"] + (["-v"] if v else []) + [arch], cd)
        after = cd.snapshot()
        dis = dis or compare_action(rx, mx, cd, after, "extract")
        bad = None
        if all(t is not None for t in truth):
            if rl.get("status") != 0 or rl.get("exc") or rx.get("status") != 0 or rx.get("exc"):
                bad = {"status": [rl.get("status"), rl.get("exc"), rl.get("msg"), rx.get("status"), rx.get("exc"), rx.get("msg")]}
            else:
                listed = c02.parse_list_verbose(rl["text"])
                for i, t in enumerate(truth):
                    want = [{"name": f["name"].decode("latin1"), "ext": f["ext"].decode("latin1"), "kind": KIND.get(f["kind"], "DATA"),
                             "data": "ASCII" if f["flag"] == 255 else ("TOKEN" if f["kind"] == 0 else "BINARY"), "size": len(f["content"])} for f in t]
                    got = [{k: g[k] for k in ("name", "ext", "kind", "data", "size")} for g in (listed[i] if i < len(listed) else [])]
                    if got != want:
                        bad = {"listing of side": i, "got": got[:3], "want": want[:3], "n": [len(got), len(want)]}
                        break
                    final = {}
                    for f in t:
                        final[os.path.join(f"side{i}", f["name"].decode("latin1").rstrip() + "." + f["ext"].decode("latin1").rstrip())] = f["content"]
                    for p, c in final.items():
                        if after.get(os.path.join("w", p)) != c:
                            g = after.get(os.path.join("w", p))
                            bad = {"extracted bytes differ": p, "want_len": len(c), "got_len": None if g is None else len(g)}
                            break
                    if bad:
                        break
                if bad is None:
                    allowed = {os.path.join("w", f"side{i}", f["name"].decode("latin1").rstrip() + "." + f["ext"].decode("latin1").rstrip()) for i, t in enumerate(truth) for f in t}
                    extra = [k for k in after if before.get(k) != after[k] and k not in allowed]
                    if extra:
                        bad = {"unexpected files": extra[:4]}
        if "spec" in case:
            sp = case["spec"]
            f = {"fd" if sp["is_fd"] else "sd", "sides:%d" % sp["nsides"]}
            for sd in sp["sides"]:
                f.add("order:" + sd["order"])
                for k in ("frag", "spread"):
                    if sd.get(k):
                        f.add(k)
                if sd["deleted"]:
                    f.add("deleted")
                if sd["extra_reserved"]:
                    f.add("extra-reserved")
                for fl in sd["files"]:
                    if fl.get("lastbytes") == 0:
                        f.add("lastbytes0")
                    if fl["content"]["len"] > 2040:
                        f.add("multi-block")
            nontrivial = bool(f & {"frag", "deleted", "multi-block"})
        else:
            f, nontrivial = {"bundled:" + case["bundled"]}, True
        detail = {"disagreement": dis, "oracle": bad} if (dis or bad) else None
        return CaseResult(dis is None, bad is None, detail, sorted(f), nontrivial)
    finally:
        cd.close()


def shrink_candidates(case):
    if "spec" not in case:
        return
    sp = case["spec"]
    for i, sd in enumerate(sp["sides"]):
        for j in range(len(sd["files"])):
            nsd = dict(sd, files=sd["files"][:j] + sd["files"][j + 1:])
            yield dict(case, spec=dict(sp, sides=sp["sides"][:i] + [nsd] + sp["sides"][i + 1:]))
        for key, val in (("deleted", 0), ("frag", False), ("spread", False), ("extra_reserved", []), ("order", "asc")):
            if sd.get(key) != val:
                yield dict(case, spec=dict(sp, sides=sp["sides"][:i] + [dict(sd, **{key: val})] + sp["sides"][i + 1:]))


def summarise(case):
    if "bundled" in case:
        return case
    sp = case["spec"]
    return {"is_fd": sp["is_fd"], "nsides": sp["nsides"], "sides": [{"files": [[f["name"], f["ext"], f["content"]] for f in sd["files"]][:3], "order": sd["order"], "deleted": sd["deleted"]} for sd in sp["sides"]][:2]}


def violation_class(case, detail):
    o = (detail or {}).get("oracle") or {}
    return sorted(o)[0] if o else "c07"
