"""C20 — archive creation is a pure function of its sources; reading modifies nothing"""
import os
import shutil
import subprocess

from framework import scale, CaseResult, text_points, REPO, PY
from props import c01, c02
from props.diskcommon import argv_sources, dmodel_outcome, ext_of, gen_sources, gen_third_party, model_srcs, run_disk, write_third_party
from props.tapecommon import CaseDir, gen_content, gen_source_path, materialize, model_outcome, real_path_of, run_tool

GEN_FILES = ["GenDisk", "GenTape"]
RULE = ("source lists as in C01/C02 (tape and both disk flavours). The same ordered list of (catalogue name, kind, content) is presented in up to six ways: twice in a row, "
        "quiet and verbose, sources reached by cwd-relative paths, by absolute paths, from directories whose names contain dots, from a side0 directory next to the archive (where extraction will write), target absent or present with arbitrary old "
        "bytes (shorter, equal, longer than an archive), and again as three separate processes (python -m <tool>) under other string-hash seeds and time zones. Oracle on the real files: all the archives are byte-identical; every source file is byte-identical after every action; "
        "list and extract (run twice) leave the archive byte-identical and never open it for writing - also on archives the tools did not write (independent writer, 1/2/4 sides, non-FF .sd padding, trailing bytes, bit flips, whether the tool reports or refuses). One variant is also compared with the extracted model. "
        "signature = (medium, n sources, flags {abs, dotted, old-target, verbose, eos}); non-trivial = at least one data-bearing source")
ASSUMPTIONS = ["purity with respect to the environment (clock, locale, hash seed) is observed on repeated real runs, not proved; the byte-level dependence on the sources alone is the theorem"]


def gen_cases(rng, tier):
    n = scale(tier, 30, 600)
    cases = []
    for _ in range(n):
        r = rng.random()
        if r < 0.45:
            used = set()
            srcs = []
            total = 0
            for _ in range(rng.choice([0, 1, 2, 4, 7])):
                spec = gen_content(rng)
                size = 35 + 21 * ((spec["len"] + 253) // 254) + spec["len"] + 21
                if total + size >= 21504:
                    break
                total += size
                srcs.append({"arg": os.path.basename(gen_source_path(rng, used, dirs=False)), "content": spec})
            if srcs and rng.random() < 0.3:
                srcs.insert(rng.randint(0, len(srcs)), dict(rng.choice(srcs)))   # the same (name, kind, content) twice in the list: stored twice
            cases.append({"medium": "tape", "sources": srcs, "old": rng.choice([None, 0, 100, 21504, 30000])})
        else:
            srcs = gen_sources(rng, rng.choice([0, 1, 3, 6]), eos_rate=0.15, dirs=False, big_rate=0.03)
            files_ = [x for x in srcs if "arg" in x]
            if files_ and rng.random() < 0.3:
                srcs.insert(rng.randint(0, len(srcs)), dict(rng.choice(files_)))
            cases.append({"medium": "disk", "is_fd": rng.random() < 0.5, "sources": srcs, "old": rng.choice([None, 0, 100, 1310720, 2000000, 3000000])})
    nr = scale(tier, 16, 300)
    for _ in range(nr):
        # archives the tools did not write themselves, read by every reading action
        if rng.random() < 0.3:
            cases.append({"medium": "tape", "read": True, "sources": [{"arg": "a.bin", "content": gen_content(rng)}, {"arg": "b.bas", "content": gen_content(rng)}],
                          "old": None, "trail": rng.choice([0, 1, 7, 300]), "flips": rng.choice([0, 0, 1, 3]), "mseed": rng.randint(0, 1 << 30), "verbose": rng.random() < 0.5})
        else:
            spec = gen_third_party(rng, max_files=3)
            cases.append({"medium": "disk", "read": True, "is_fd": spec["is_fd"], "spec": spec, "sources": [], "old": None, "pad": rng.choice([0xFF, 0x00, 0xE5, "random"]),
                          "trail": rng.choice([0, 0, 1, 7, 300]) if spec["nsides"] == 4 else 0, "flips": rng.choice([0, 0, 0, 2]), "mseed": rng.randint(0, 1 << 30), "verbose": rng.random() < 0.5})
    # finding F18's witness (Props/C20: C20_tape_extract_keeps_archive_refuted): a tape holding a member named like the archive itself
    cases.append({"medium": "tape", "read": True, "self_member": True, "sources": [{"arg": "x/IN.K7", "content": {"hex": "68656c6c6f"}}], "old": None,
                  "trail": 0, "flips": 0, "mseed": 0, "verbose": False})
    # sources named like the scratch files a 'safe save' would use beside the archive of one variant: they are sources like any other, and stay untouched
    for med, ex, fd_ in (("tape", ".k7", None), ("disk", ".fd", True), ("disk", ".sd", False)):
        c_ = {"medium": med, "old": None, "sources": [{"arg": "out_again" + ex + sfx, "content": {"pat": "54", "len": 40 + k}} for k, sfx in enumerate([".tmp", ".bak", "~", ".part", ".new"])] + [{"arg": "plain.bin", "content": {"hex": "41"}}]}
        if fd_ is not None:
            c_["is_fd"] = fd_
        cases.append(c_)
    # the documented special names under every spelling of the ',a' option: one rule applies, always the same
    for is_fd in (True, False):
        cases.append({"medium": "disk", "is_fd": is_fd, "old": None, "sources": [{"arg": a, "content": {"pat": "31302050520d0a", "len": 30 + k}} for k, a in enumerate(["menu.bas", "auto.bat,a", "tools.bin"])]})
        cases.append({"medium": "disk", "is_fd": is_fd, "old": None, "sources": [({"eos": a} if a == "--eos" else {"arg": a, "content": {"pat": "31302050520d0a", "len": 30 + k}}) for k, a in enumerate(["AUTO.BAT,A", "--eos", "auto.bat", "--eos", "list.bas,a", "note.txt,a", "bin.bin,A"])]})
    cases.append({"medium": "tape", "old": None, "sources": [{"arg": a, "content": {"pat": "31302050520d0a", "len": 30 + k}} for k, a in enumerate(["auto.bat", "list.bas,a", "d.csv", "x.bin"])]})
    twice = [{"arg": "x.bin", "content": {"pat": "41", "len": 300}}, {"arg": "y.bas", "content": {"pat": "42", "len": 10}}, {"arg": "x.bin", "content": {"pat": "41", "len": 300}}]
    cases.append({"medium": "tape", "sources": twice, "old": None})
    cases.append({"medium": "disk", "is_fd": True, "sources": twice, "old": None})
    cases.append({"medium": "disk", "is_fd": False, "sources": twice, "old": 100})
    cases.append({"medium": "tape", "sources": [{"arg": "b.bin", "content": {"pat": "42", "len": 300}}], "old": 43008})
    cases.append({"medium": "disk", "is_fd": True, "sources": [{"arg": "b.bin", "content": {"pat": "42", "len": 300}}], "old": 1400000})
    cases.append({"medium": "disk", "is_fd": False, "sources": [{"arg": "b.bin", "content": {"pat": "42", "len": 300}}], "old": 2700000})
    return cases, {"random": n, "foreign archives read (non-FF padding, trailing bytes, flips)": nr, "fixed": 3}


# "repeated runs" of a command are separate processes: each one starts with its own string-hash randomisation and may see another time zone
PROCESS_ENVS = [("1", "UTC"), ("2", "Asia/Tokyo"), ("random", "America/Lima")]


def real_create(tape, is_fd, arch, args, cwd, hashseed, tz):
    env = dict(os.environ, PYTHONPATH=os.path.join(REPO, "src"), PYTHONHASHSEED=hashseed, TZ=tz, PYTHONDONTWRITEBYTECODE="1", PYTHONUTF8="1")
    tool = "moto_tar" if tape else ("moto_fdar" if is_fd else "moto_sdar")
    argv = ["-c", arch] + ([] if tape else ["--"]) + args
    try:
        p = subprocess.run([PY, "-m", tool] + argv, cwd=cwd, stdout=subprocess.PIPE, stderr=subprocess.PIPE, env=env, timeout=120)
        return p.returncode, p.stderr.decode("utf-8", "replace")[-300:]
    except subprocess.TimeoutExpired:
        return "timeout", ""


VARIANTS = [("rel", "", False), ("rel-verbose", "", True), ("dotted", "d.ot/x.y/", False), ("abs", "ABS", True), ("again", "", False), ("elsewhere", "", False), ("mixed", "MIX", True), ("insides", "side0/", False)]


def run_read_case(case, ctx):
    """list and extract, quiet and verbose, twice, on an archive that is not laid out as the tools would write it: nothing is modified, whatever the outcome"""
    import random
    cd = CaseDir(ctx)
    try:
        tape = case["medium"] == "tape"
        is_fd = case.get("is_fd", True)
        rng = random.Random(case["mseed"])
        bad = None
        if tape:
            arch = "IN.K7" if case.get("self_member") else "in.k7"
            args = []
            for s in case["sources"]:
                cd.put(s["arg"], materialize(s["content"]))
                args.append(s["arg"])
            r = run_tool(ctx, "tar", ["-c", arch] + args, cd)
            raw = cd.get(arch)
            if r.get("status") != 0 or raw is None:
                return CaseResult(True, True, None, ["read", "tape", "create-refused"], False, skipped=True)
        else:
            arch = "in" + ext_of(is_fd)
            raw, _truth = write_third_party(case["spec"])
            if not is_fd and case["pad"] != 0xFF:
                b = bytearray(raw)
                for i in range(0, len(b), 512):
                    b[i + 256:i + 512] = rng.randbytes(256) if case["pad"] == "random" else bytes([case["pad"]]) * 256
                raw = bytes(b)
        b = bytearray(raw)
        for _ in range(case["flips"]):
            if b:
                b[rng.randrange(len(b))] ^= 1 << rng.randrange(8)
        raw = bytes(b) + rng.randbytes(case["trail"])
        cd.put(arch, raw)
        vf = ["-v"] if case["verbose"] else []
        for act in ("-t", "-x", "-x", "-t"):
            if tape:
                r = run_tool(ctx, "tar", [act] + vf + [arch], cd)
            else:
                r = run_disk(ctx, is_fd, [act] + vf + [arch], cd, timeout=120)
            if cd.get(arch) != raw:
                now = cd.get(arch)
                bad = {"the archive changed during": act, "lens": [len(raw), None if now is None else len(now)], "status": r.get("status")}
                if tape and act == "-x" and now is not None and any(now == materialize(s["content"]) and os.path.basename(s["arg"]).upper() == os.path.basename(arch).upper() for s in case["sources"]):
                    bad["overwritten by its own member"] = os.path.basename(arch)
                break
            if cd.rel(arch) in r["writes"]:
                bad = {"the archive was opened for writing by": act}
                break
        f = ["read", case["medium"], "trail:%d" % min(case["trail"], 2), "flips:%d" % min(case["flips"], 1)]
        if not tape:
            f += ["pad:" + str(case["pad"]), "sides:%d" % case["spec"]["nsides"], ext_of(is_fd)]
        return CaseResult(True, bad is None, {"disagreement": None, "oracle": bad} if bad else None, sorted(f), True)
    finally:
        cd.close()


def run_case(case, ctx):
    if case.get("read"):
        return run_read_case(case, ctx)
    cd = CaseDir(ctx)
    try:
        tape = case["medium"] == "tape"
        is_fd = case.get("is_fd", True)
        ext = ".k7" if tape else ext_of(is_fd)
        archives = {}
        dis = bad = None
        src_bytes = {}
        rel_args = None
        for vname, prefix, verbose in VARIANTS:
            pre = os.path.join(cd.root, "absdir") + "/" if prefix == "ABS" else prefix
            args = []
            fs = []
            for k_, s in enumerate(case["sources"]):
                if prefix == "MIX":
                    # one command line mixing the spellings: bare, absolute, dotted directory, in turn
                    pre = ["", os.path.join(cd.root, "absdir") + "/", "d.ot/x.y/"][k_ % 3]
                if "eos" in s:
                    args.append(s["eos"])
                    continue
                data = materialize(s["content"])
                arg = pre + s["arg"]
                rp = (arg[:-2] if arg[-2:].upper() == ",A" else arg) if not tape else real_path_of(arg)
                p = rp if os.path.isabs(rp) else os.path.join(cd.cwd, rp)
                os.makedirs(os.path.dirname(p), exist_ok=True)
                with open(p, "wb") as f:
                    f.write(data)
                src_bytes[p] = data
                if vname in ("again", "dotted", "mixed"):
                    # the same bytes with another modification date (more than a year apart): an archive does not depend on it
                    os.utime(p, (1000000000 + 86400 * 400 * (k_ % 3), 1000000000 + 86400 * 400 * (k_ % 3)))
                args.append(arg)
                fs.append([text_points(rp), data])
            arch = f"out_{vname}{ext}"
            if vname == "rel":
                rel_args = list(args)
            if vname == "elsewhere":
                # the archive in another directory, which holds files named like the (bare) sources but with other bytes: they are not sources
                arch = "arc.d/" + arch
                os.makedirs(os.path.join(cd.cwd, "arc.d"), exist_ok=True)
                for p, c in list(src_bytes.items()):
                    if os.path.dirname(os.path.relpath(p, cd.cwd)) == "":
                        q = os.path.join(cd.cwd, "arc.d", os.path.basename(p))
                        with open(q, "wb") as f:
                            f.write(b"decoy " + c[::-1])
            if case["old"] is not None and vname != "rel":
                # the reference variant writes to an absent target; the others over arbitrary old bytes of various lengths
                k = [v[0] for v in VARIANTS].index(vname)
                cd.put(arch, materialize({"rand": 5 + k, "len": case["old"] + (k - 2) * 1000 if case["old"] > 3000 else case["old"]}))
            vf = ["-v"] if verbose else []
            if tape:
                r = run_tool(ctx, "tar", ["-c"] + vf + [arch] + args, cd)
            else:
                r = run_disk(ctx, is_fd, ["-c"] + vf + [arch, "--"] + args, cd, timeout=120)
            if r.get("status") != 0:
                bad = {"create failed in variant": vname, "why": [r.get("status"), r.get("exc"), r.get("msg")]}
                break
            archives[vname] = cd.get(arch)
            for p, c in src_bytes.items():
                if not os.path.isfile(p) or open(p, "rb").read() != c:
                    bad = {"a source file was altered or removed by create": os.path.relpath(p, cd.root), "variant": vname}
            if vname == "dotted":
                if tape:
                    m = model_outcome(ctx.model.call("tar_create", verbose, fs, text_points(arch), [text_points(a) for a in args]))
                    got = m["effects"][0][1] if m["effects"] else None
                else:
                    m = dmodel_outcome(ctx.model.call("disk_create", is_fd, verbose, fs, text_points(arch), [text_points(a) for a in args]))
                    got = m["effects"][0][1] if m["effects"] else None
                if got != archives[vname]:
                    dis = {"model archive differs from the tool's in variant": vname}
        if bad is None and rel_args is not None:
            # the same command again as separate processes, the way a user repeats it: other string-hash seeds, another time zone
            for hs, tz in (PROCESS_ENVS if case.get("procs", True) else []):
                arch = f"out_proc_{hs}{ext}"
                st, err = real_create(tape, is_fd, arch, rel_args, cd.cwd, hs, tz)
                if st != 0:
                    bad = {"create failed as a separate process": [st, err], "hashseed": hs}
                    break
                archives["process, PYTHONHASHSEED=%s TZ=%s" % (hs, tz)] = cd.get(arch)
        if bad is None:
            ref = archives["rel"]
            for k, v in archives.items():
                if v != ref:
                    d = next((i for i in range(min(len(v), len(ref))) if v[i] != ref[i]), None)
                    bad = {"archive differs between variants": ["rel", k], "first_diff": d, "lens": [len(ref), len(v)]}
                    break
        if bad is None:
            arch = f"out_rel{ext}"
            ref = archives["rel"]
            # files that are not in the archive lie where extraction writes (the sources of the 'insides' variant live in side0/ already): they are none of its business
            for q_ in ("side0/zz keep.me", "side1/notes.txt", "side3/.hidden", "keep.me"):
                p_ = os.path.join(cd.cwd, q_)
                if not os.path.lexists(p_):
                    os.makedirs(os.path.dirname(p_), exist_ok=True)
                    with open(p_, "wb") as f_:
                        f_.write(b"not in the archive")
                    src_bytes[p_] = b"not in the archive"
            # where extraction writes: NAME.EXT of every source, beside the archive (tape) or in its sideN directories (disk). A source that happens to live
            # exactly there (side0/AUTO.BAT when another source, auto.BAT, is stored under that name) is legitimately replaced by the member of that name
            labels = set()
            for s_ in case["sources"]:
                if "arg" in s_:
                    b_ = os.path.basename(s_["arg"])
                    b_ = b_[:-2] if b_[-2:].upper() == ",A" else b_
                    n_, _, e_ = b_.rpartition(".") if "." in b_ else (b_, "", "")
                    labels.add(n_.upper()[:8] + "." + e_.upper()[:3])
            overwritable = {os.path.join(cd.cwd, lab) for lab in labels} | {os.path.join(cd.cwd, f"side{i}", lab) for i in range(4) for lab in labels}
            for act in ("-t", "-x", "-x", "-t"):
                if tape:
                    r = run_tool(ctx, "tar", [act, arch], cd)
                else:
                    r = run_disk(ctx, is_fd, [act, arch], cd, timeout=120)
                if cd.get(arch) != ref:
                    bad = {"the archive changed during": act}
                    break
                if cd.rel(arch) in r["writes"]:
                    bad = {"the archive was opened for writing by": act}
                    break
                for p, c in src_bytes.items():
                    if not os.path.exists(p) or (open(p, "rb").read() != c and p not in overwritable):
                        # extraction next to the archive may legitimately rewrite a same-named file with the same bytes
                        bad = {"a source file (or a file that is not in the archive) was altered or removed by": act, "file": os.path.relpath(p, cd.root)}
                        break
                if bad:
                    break
        f = {case["medium"], "old:" + str(case["old"])}
        if any("eos" in s for s in case["sources"]):
            f.add("eos")
        f.add("n:%d" % min(len(case["sources"]), 4))
        nontrivial = any("content" in s and s["content"].get("len", len(s["content"].get("hex", ""))) for s in case["sources"])
        detail = {"disagreement": dis, "oracle": bad} if (dis or bad) else None
        return CaseResult(dis is None, bad is None, detail, sorted(f), bool(nontrivial))
    finally:
        cd.close()


def shrink_candidates(case):
    if case.get("read"):
        for k in ("trail", "flips"):
            if case[k]:
                yield dict(case, **{k: 0})
        if case.get("pad", 0xFF) != 0xFF:
            yield dict(case, pad=0xFF)
        return
    s = case["sources"]
    for k in range(len(s)):
        yield dict(case, sources=s[:k] + s[k + 1:])
    if case["old"] is not None:
        yield dict(case, old=None)


def summarise(case):
    if case.get("read"):
        return {k: case.get(k) for k in ("medium", "read", "is_fd", "pad", "trail", "flips", "verbose")}
    return {"medium": case["medium"], "old": case["old"], "sources": [(s.get("eos") or [s["arg"], s["content"].get("len", 0)]) for s in case["sources"]][:6]}


def violation_class(case, detail):
    o = (detail or {}).get("oracle") or {}
    return [case["medium"]] + (["self-member"] if "overwritten by its own member" in o else []) + sorted(o)[:1]


def _kf_self_member(case, detail):
    """F18: a tape extracted beside itself (no --into) while holding a member whose NAME.EXT is the archive's own file name"""
    o = (detail or {}).get("oracle") or {}
    return case.get("medium") == "tape" and bool(case.get("read")) and "overwritten by its own member" in o


known_predicates = {"tape_member_named_like_the_archive": _kf_self_member}
