"""C03 — created tapes conform to the MO5 .k7 format as read by an independent decoder"""
import os

from framework import scale, CaseResult, text_points
from props import c01
from props.tapecommon import CaseDir, TAPE, encoded_size, gen_content, gen_source_path, materialize, real_path_of, run_tool

GEN_FILES = ["GenTape"]
RULE = ("as C01 but names and extensions longer than 8.3 are included (fields must still be 8 and 3 bytes) and duplicates are allowed; "
        "the oracle is the extracted strict decoder Spec.K7.k7_decode (written from the format description) applied to the bytes the real tool wrote, "
        "compared with Spec.doc_entry of every source (documented kind/mode table), plus the 21504-byte length. "
        "signature = C01's features + {long-name, long-ext}; non-trivial = a data-bearing file with a long name, a ',a' marker, a CSV, or several blocks")
ASSUMPTIONS = c01.ASSUMPTIONS + ["for the source names outside ASCII (a separate stream of cases) 'upper case' is what Python's str.upper() answers and the fields hold the first 8 and 3 bytes of its UTF-8 form; "
                                  "the model (ASCII names only) is not consulted on them, only the extracted decoder Spec.K7.k7_decode and Spec.doc_entry are"]

# letters outside ASCII, among them those whose upper-case form is longer than the letter (the position of the last dot then differs between the name and its upper-case form)
WIDE = ["\u00df", "\u0149", "\u01f0", "\ufb01", "\ufb02", "\ufb00", "\ufb03", "\ufb06", "\u0390", "\u00e9", "\u00c9", "\u00e0", "\u00fc", "\u00f1", "\u00ff", "\u00b5", "\u0131", "\u0434", "\u03c9"]


def gen_wide_name(rng):
    n = rng.choice([1, 2, 3, 5, 7, 8, 9])
    s = "".join(rng.choice(WIDE) if rng.random() < 0.35 else rng.choice("abcxyzABC019_") for _ in range(n))
    if s.isascii():
        s = s[:-1] + rng.choice(WIDE[:9])
    r = rng.random()
    if r < 0.12:
        return s
    ext = rng.choice(["bas", "BAS", "bas,a", "Bas,A", "csv", "CSV", "bin", "dat", "txt", "b", ""])
    if r < 0.3:
        ext = rng.choice(["ba\u00df", "\ufb01", "c\u00df", "\u00e9", "ba\u017f", "\u00dfas", "\u00e9t\u00e9"])
    return s + "." + ext


def doc_points(arg):
    """what Spec.doc_entry is given for a source: its code points, or for a name outside ASCII the UTF-8 bytes of its upper-case form"""
    if arg.isascii():
        return text_points(arg)
    b = os.path.basename(arg)
    return list((arg[:len(arg) - len(b)] + b.upper()).encode("utf-8"))


def gen_cases(rng, tier):
    n = scale(tier, 200, 4000)
    cases = []
    for _ in range(n):
        k = rng.choice([0, 1, 1, 2, 3, 5, 8])
        used = set()
        srcs, total = [], 0
        for _ in range(k):
            spec = gen_content(rng)
            size = 35 + 21 * ((spec["len"] + 253) // 254) + spec["len"] + 21
            if total + size >= TAPE:
                break
            total += size
            srcs.append({"arg": gen_source_path(rng, used, longnames=True), "content": spec})
        cases.append({"sources": srcs, "verbose": rng.random() < 0.3, "archive": rng.choice(["t.k7", "o+/t.k7"]), "old": rng.choice([None, None, None, 0, 100, 21504, 32768, 70000])})
    # both sides of the capacity: the last usable byte is TAPE - 1; one byte more must not produce an archive at all
    nf = scale(tier, 24, 400)
    for _ in range(nf):
        cases.append(c01.gen_frontier_case(rng, slacks=[-3, -2, -1, -1, 0, 0, 1, 2, 21, 22]))
    for ln in (19809, 19810, 19811, 19812):
        cases.append({"sources": [{"arg": "edge.bin", "content": {"rand": ln, "len": ln}}], "verbose": False, "archive": "t.k7"})
    # contents full of line ends, Ctrl-Z and byte order marks under every kind: content is never rewritten on its way to the tape
    eol = "31302050520d0a3230200d0a0d0a1a"
    cases.append({"sources": [{"arg": a, "content": {"pat": pz, "len": 200 + 17 * k}} for k, (a, pz) in enumerate([("list.bas,a", eol), ("prog.bas", eol), ("data.csv", eol), ("bin.bin", eol), ("noext", eol),
                                                                                                             ("bom.bas,a", "efbbbf" + eol), ("LF.BAS,A", "0a0d0a0a"), ("cr.csv", "0d0d0a")])],
                  "verbose": False, "archive": "t.k7"})
    # blanks at the ends of the name and of the extension are characters of the field like any other ("name padded to 8"): the field is the upper-cased text followed by blanks
    blanks = [" intro.bas", "  x.bin", " list.bas,a", "a. b", "nm\t.bas", "in ner.csv", " .bas", "x.b ", "\tt.csv", " lead", "d+.x/ in.bas"]
    cases.append({"sources": [{"arg": a, "content": {"pat": "4243", "len": 5 + 60 * k}} for k, a in enumerate(blanks)], "verbose": False, "archive": "t.k7"})
    for k, a in enumerate(blanks):
        cases.append({"sources": [{"arg": a, "content": {"pat": "42", "len": 1 + k}}], "verbose": k % 2 == 1, "archive": "t.k7"})
    nw = scale(tier, 40, 600)
    fixed_wide = ["stra\u00dfe.bas", "gru\u00df.csv", "\u00e9t\u00e9.bas,a", "\ufb01le.bin", "\u00c9T\u00c9.dat", "\u0149.bas", "a\u00dfb\u00dfc\u00dfd\u00df.bas", "\u00df", "\u00df.\u00df", "x.ba\u00df", "\ufb03.\ufb01", "d+.x/\u00df.csv"]
    for k, a in enumerate(fixed_wide):
        cases.append({"wide": True, "sources": [{"arg": a, "content": {"pat": "4142", "len": 3 + 100 * k}}], "verbose": k % 2 == 0, "archive": "t.k7"})
    for _ in range(nw):
        cases.append({"wide": True, "sources": [{"arg": rng.choice(["", "", "s+/", "d+.x/"]) + gen_wide_name(rng), "content": gen_content(rng) if rng.random() < 0.5 else {"pat": "41", "len": rng.choice([0, 1, 254, 300])}}
                                                   for _ in range(rng.choice([1, 1, 2, 3]))], "verbose": rng.random() < 0.3, "archive": "t.k7"})
    return cases, {"random": n, "capacity frontier (-3..+22 bytes)": nf, "fixed": 4, "names with blanks at their ends": 12, "names outside ASCII (oracle only)": nw + len(fixed_wide)}


def oracle(case, obs, ctx):
    contents = obs["contents"]
    raw = obs["archive_bytes"]
    if encoded_size(contents) >= TAPE:
        # the sources do not fit: whatever the tool answers, it must not leave a file that claims to be an archive of them
        if raw is not None:
            return {"an archive was written although the sources do not fit": len(raw), "encoded size": encoded_size(contents)}
        return None
    if obs["create"].get("status") != 0 or raw is None:
        return {"create failed": [obs["create"].get("status"), obs["create"].get("exc"), obs["create"].get("msg")]}
    if len(raw) != TAPE:
        return {"archive length": len(raw)}
    dec = ctx.model.call("k7_decode", raw)
    if not dec:
        return {"strict decoder rejects the archive": True}
    want = [ctx.model.call("doc_entry", doc_points(s["arg"]), c) for s, c in zip(case["sources"], contents)]
    got = dec[0]
    norm = lambda e: [bytes(e[0]), bytes(e[1]), e[2], e[3], [bytes(c) for c in e[4]]]
    if [norm(e) for e in got] != [norm(e) for e in want]:
        k = next((i for i in range(min(len(got), len(want))) if norm(got[i]) != norm(want[i])), min(len(got), len(want)))
        return {"decoded file differs": k, "got": str(norm(got[k])[:4]) if k < len(got) else None, "want": str(norm(want[k])[:4]) if k < len(want) else None,
                "n_got": len(got), "n_want": len(want)}
    return None


def run_wide_case(case, ctx):
    """names outside ASCII: the real tool creates the archive, the extracted decoder and the documented entry judge it; the model is not consulted"""
    cd = CaseDir(ctx)
    try:
        contents = []
        for s in case["sources"]:
            data = materialize(s["content"])
            contents.append(data)
            cd.put(real_path_of(s["arg"]), data)
        if encoded_size(contents) >= TAPE:
            return CaseResult(True, True, None, ["wide-name", "does-not-fit"], False)
        r = run_tool(ctx, "tar", ["-c"] + (["-v"] if case["verbose"] else []) + [case["archive"]] + [s["arg"] for s in case["sources"]], cd)
        obs = {"contents": contents, "create": r, "archive_bytes": cd.get(case["archive"])}
        bad = oracle(case, obs, ctx)
        f = sorted(set(c01.features(case, contents)) | {"wide-name"} | ({"upper-is-longer"} if any(len(os.path.basename(s["arg"]).upper()) != len(os.path.basename(s["arg"])) for s in case["sources"]) else set()))
        return CaseResult(True, bad is None, {"oracle": bad} if bad else None, f, True)
    finally:
        cd.close()


def run_case(case, ctx):
    if case.get("wide"):
        return run_wide_case(case, ctx)
    cd = CaseDir(ctx)
    try:
        if case.get("old") is not None:
            # a file already lies at the archive path (shorter, as long, longer than a tape): create replaces it
            cd.put(c01.arch_path(case, cd), materialize({"rand": 5, "len": case["old"]}))
        obs = c01.flow(case, ctx, cd)
        dis = c01.compare(obs, cd)
        bad = oracle(case, obs, ctx)
        f = c01.features(case, obs["contents"])
        for s in case["sources"]:
            b = os.path.basename(s["arg"])
            nm, _, ex = b.partition(".") if "." in b else (b, "", "")
            if len(b.rsplit(".", 1)[0]) > 8:
                f.append("long-name")
            if "." in b and len(b.rsplit(".", 1)[1]) > 3 and b.rsplit(".", 1)[1].upper() != "BAS,A":
                f.append("long-ext")
        f = sorted(set(f))
        nontrivial = any(len(c) > 0 for c in obs["contents"]) and any(x in f for x in ("long-name", "long-ext", "ext:BAS,A", "ext:CSV", "sz:multi", "sz:k254"))
        detail = {"disagreement": dis, "oracle": bad} if (dis or bad) else None
        return CaseResult(dis is None, bad is None, detail, f, nontrivial)
    finally:
        cd.close()


shrink_candidates = c01.shrink_candidates
summarise = c01.summarise


def violation_class(case, detail):
    o = (detail or {}).get("oracle") or {}
    return sorted(o)[0] if o else "c03"
