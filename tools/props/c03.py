"""C03 — created tapes conform to the MO5 .k7 format as read by an independent decoder"""
import os

from framework import scale, CaseResult, text_points
from props import c01
from props.tapecommon import CaseDir, TAPE, encoded_size, gen_content, gen_source_path, materialize, real_path_of

GEN_FILES = ["GenTape"]
RULE = ("as C01 but names and extensions longer than 8.3 are included (fields must still be 8 and 3 bytes) and duplicates are allowed; "
        "the oracle is the extracted strict decoder Spec.K7.k7_decode (written from the format description) applied to the bytes the real tool wrote, "
        "compared with Spec.doc_entry of every source (documented kind/mode table), plus the 21504-byte length. "
        "signature = C01's features + {long-name, long-ext}; non-trivial = a data-bearing file with a long name, a ',a' marker, a CSV, or several blocks")
ASSUMPTIONS = c01.ASSUMPTIONS


def gen_cases(rng, tier):
    n = scale(tier, 200, 4000)
    cases = []
    for _ in range(n):
        k = rng.choice([0, 1, 1, 2, 3, 5, 8])
        used = set()
        srcs, total = [], 0
        for _ in range(k):
            spec = gen_content(rng)
            size = 35 + 21 * ((spec["len"] + 253) // 254) + spec["len"] + 21
            if total + size >= TAPE:
                break
            total += size
            srcs.append({"arg": gen_source_path(rng, used, longnames=True), "content": spec})
        cases.append({"sources": srcs, "verbose": rng.random() < 0.3, "archive": rng.choice(["t.k7", "o+/t.k7"]), "old": rng.choice([None, None, None, 0, 100, 21504, 32768, 70000])})
    # both sides of the capacity: the last usable byte is TAPE - 1; one byte more must not produce an archive at all
    nf = scale(tier, 24, 400)
    for _ in range(nf):
        cases.append(c01.gen_frontier_case(rng, slacks=[-3, -2, -1, -1, 0, 0, 1, 2, 21, 22]))
    for ln in (19809, 19810, 19811, 19812):
        cases.append({"sources": [{"arg": "edge.bin", "content": {"rand": ln, "len": ln}}], "verbose": False, "archive": "t.k7"})
    # contents full of line ends, Ctrl-Z and byte order marks under every kind: content is never rewritten on its way to the tape
    eol = "31302050520d0a3230200d0a0d0a1a"
    cases.append({"sources": [{"arg": a, "content": {"pat": pz, "len": 200 + 17 * k}} for k, (a, pz) in enumerate([("list.bas,a", eol), ("prog.bas", eol), ("data.csv", eol), ("bin.bin", eol), ("noext", eol),
                                                                                                             ("bom.bas,a", "efbbbf" + eol), ("LF.BAS,A", "0a0d0a0a"), ("cr.csv", "0d0d0a")])],
                  "verbose": False, "archive": "t.k7"})
    return cases, {"random": n, "capacity frontier (-3..+22 bytes)": nf, "fixed": 4}


def oracle(case, obs, ctx):
    contents = obs["contents"]
    raw = obs["archive_bytes"]
    if encoded_size(contents) >= TAPE:
        # the sources do not fit: whatever the tool answers, it must not leave a file that claims to be an archive of them
        if raw is not None:
            return {"an archive was written although the sources do not fit": len(raw), "encoded size": encoded_size(contents)}
        return None
    if obs["create"].get("status") != 0 or raw is None:
        return {"create failed": [obs["create"].get("status"), obs["create"].get("exc"), obs["create"].get("msg")]}
    if len(raw) != TAPE:
        return {"archive length": len(raw)}
    dec = ctx.model.call("k7_decode", raw)
    if not dec:
        return {"strict decoder rejects the archive": True}
    want = [ctx.model.call("doc_entry", text_points(s["arg"]), c) for s, c in zip(case["sources"], contents)]
    got = dec[0]
    norm = lambda e: [bytes(e[0]), bytes(e[1]), e[2], e[3], [bytes(c) for c in e[4]]]
    if [norm(e) for e in got] != [norm(e) for e in want]:
        k = next((i for i in range(min(len(got), len(want))) if norm(got[i]) != norm(want[i])), min(len(got), len(want)))
        return {"decoded file differs": k, "got": str(norm(got[k])[:4]) if k < len(got) else None, "want": str(norm(want[k])[:4]) if k < len(want) else None,
                "n_got": len(got), "n_want": len(want)}
    return None


def run_case(case, ctx):
    cd = CaseDir(ctx)
    try:
        if case.get("old") is not None:
            # a file already lies at the archive path (shorter, as long, longer than a tape): create replaces it
            cd.put(c01.arch_path(case, cd), materialize({"rand": 5, "len": case["old"]}))
        obs = c01.flow(case, ctx, cd)
        dis = c01.compare(obs, cd)
        bad = oracle(case, obs, ctx)
        f = c01.features(case, obs["contents"])
        for s in case["sources"]:
            b = os.path.basename(s["arg"])
            nm, _, ex = b.partition(".") if "." in b else (b, "", "")
            if len(b.rsplit(".", 1)[0]) > 8:
                f.append("long-name")
            if "." in b and len(b.rsplit(".", 1)[1]) > 3 and b.rsplit(".", 1)[1].upper() != "BAS,A":
                f.append("long-ext")
        f = sorted(set(f))
        nontrivial = any(len(c) > 0 for c in obs["contents"]) and any(x in f for x in ("long-name", "long-ext", "ext:BAS,A", "ext:CSV", "sz:multi", "sz:k254"))
        detail = {"disagreement": dis, "oracle": bad} if (dis or bad) else None
        return CaseResult(dis is None, bad is None, detail, f, nontrivial)
    finally:
        cd.close()


shrink_candidates = c01.shrink_candidates
summarise = c01.summarise


def violation_class(case, detail):
    o = (detail or {}).get("oracle") or {}
    return sorted(o)[0] if o else "c03"
