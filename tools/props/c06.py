"""C06 — adding files to an existing disk image never disturbs what is already there"""
import os

from framework import scale, CaseResult, text_points, REPO
from props import c02
from props.diskcommon import (argv_sources, compare_action, dmodel_outcome, expected_entry, ext_of, fsck, gen_sources, gen_third_party, model_srcs,
                              payloads, run_disk, sd_padding_ok, setup_sources, write_third_party)
from props.tapecommon import CaseDir

GEN_FILES = ["GenDisk"]
RULE = ("pre-existing 4-sided images: built by the independent writer (any allocation order, fragmentation, deleted and never-used entries interleaved, extra reserved "
        "blocks, fillers, table byte 0 / tail 00 or FF), created by the tool itself, or the bundled real-world image; x batches of 0..8 added files (sizes boundary-first, --eos, "
        "overflow); both flavours. Oracle on the real image before/after (decoded by the extracted Spec): old files keep name, kind, flag, content and relative order; files "
        "reported stored are present with their bytes; every sector of a block used or reserved before is byte-identical (allocation-table and catalogue sectors excepted, and "
        "there only statuses of formerly free blocks and the 32 bytes of formerly free/deleted entries may change); adding nothing leaves the image byte-identical. "
        "signature = (flavour, origin, flags {frag, deleted, fat-tail-ff, fat0-ff, eos, overflow, empty-batch, extra-reserved}); non-trivial = a non-empty old image and a non-empty batch")
ASSUMPTIONS = c02.ASSUMPTIONS


def gen_cases(rng, tier):
    n = scale(tier, 48, 1000)
    cases = []
    for _ in range(n):
        r = rng.random()
        if r < 0.6:
            base = {"spec": gen_third_party(rng, nsides=4, max_files=5)}
        elif r < 0.85:
            base = {"created": gen_sources(rng, rng.choice([0, 2, 5, 9]), eos_rate=0.15), "is_fd": rng.random() < 0.5}
        else:
            base = {"bundled": rng.choice(["fd", "sd"])}
        nb = rng.choice([0, 0, 1, 2, 4, 8])
        batch = gen_sources(rng, nb, eos_rate=0.0 if "bundled" in base else 0.15, dirs=False, big_rate=0.05 if "bundled" not in base else 0.0)
        for k, s in enumerate(batch):
            if "arg" in s:
                s["arg"] = f"n{k}" + s["arg"][-4:] if "." in s["arg"][-4:] else f"n{k}{s['arg'][:3]}"
        if rng.random() < 0.3:
            # a name that is already on the image, given again (a newer version of that file): adding never replaces, the old entry stays
            olds = []
            if "spec" in base:
                olds = [f["name"].lower() + ("." + f["ext"].lower() if f["ext"] else "") for f in base["spec"]["sides"][0]["files"] if f["name"].isalnum() and f["ext"].isalnum() | (f["ext"] == "")]
            elif "created" in base:
                olds = [os.path.basename(x["arg"]) for x in base["created"] if "arg" in x and not x["arg"].upper().endswith(",A")]
            elif "bundled" in base:
                olds = ["0001.bas", "0011.bas"]
            if olds:
                batch.insert(0, {"arg": rng.choice(olds), "content": {"rand": rng.randint(0, 1 << 30), "len": rng.choice([0, 1, 700, 4000])}})
        has_deleted = "spec" in base and any(sd.get("deleted") for sd in base["spec"]["sides"])
        if rng.random() < (0.5 if has_deleted else 0.2):
            # a name that cannot be written in the catalogue's character set (upper-case or caseless letters: the model's upper-casing is ASCII only): refused on every side, and the sides stay as they were (entries reused next to live ones included)
            batch.insert(rng.randint(0, len(batch)), {"arg": rng.choice(["\u00c9.bas", "\u00d11.dat", "A\u00c9.txt", "\u00c9T\u00c9.BIN", "x.B\u00c9", "\u00c9\u00c9\u00c9\u00c9\u00c9\u00c9\u00c9\u00c9.bas", "\u20ac.bin"]),
                                                     "content": {"rand": rng.randint(0, 1 << 30), "len": rng.choice([0, 1, 300, 2041, 5000])}})
        cases.append(dict(base, batch=batch, verbose=rng.random() < 0.3))
    for is_fd in (True, False):
        cases.append({"created": [{"arg": "notes.txt", "content": {"pat": "41", "len": 600}}, {"arg": "other.dat", "content": {"pat": "42", "len": 3000}}], "is_fd": is_fd, "verbose": False,
                      "batch": [{"arg": "notes.txt", "content": {"pat": "43", "len": 4000}}, {"arg": "fresh.dat", "content": {"pat": "44", "len": 700}}]})
    # a side whose 112 entries are all live but which still has free blocks: an added multi-block file goes to the next side and leaves this one untouched, table included
    full = [{"arg": "q%03d.d" % k, "content": {"hex": "51"}} for k in range(112)]
    for is_fd in (True, False):
        cases.append({"created": full, "is_fd": is_fd, "verbose": False, "batch": [{"arg": "big.bin", "content": {"rand": 71, "len": 5000}}, {"arg": "one.txt", "content": {"hex": "31"}}]})
    return cases, {"random": n, "fixed": 4}


def base_image(case, ctx, cd):
    if "spec" in case:
        raw, _ = write_third_party(case["spec"])
        return case["spec"]["is_fd"], raw
    if "bundled" in case:
        p = os.path.join(REPO, "tests", "data", "10_lsystem_mo5__2023-10-14." + case["bundled"])
        return case["bundled"] == "fd", open(p, "rb").read()
    is_fd = case["is_fd"]
    sub = CaseDir(ctx)
    try:
        setup_sources(sub, case["created"])
        arch = "b" + ext_of(is_fd)
        r = run_disk(ctx, is_fd, ["-c", arch] + argv_sources(case["created"]), sub)
        raw = sub.get(arch)
        if r.get("status") != 0 or raw is None:
            raise RuntimeError("could not create the base image: " + str(r.get("msg")))
        return is_fd, raw
    finally:
        sub.close()


def frame_check(is_fd, before, after, sides_b, sides_a):
    pb, pa = payloads(is_fd, before), payloads(is_fd, after)
    if len(before) != len(after):
        return {"image length changed": [len(before), len(after)]}
    for i, (sb, sa) in enumerate(zip(sides_b, sides_a)):
        base = i * 327680
        fat_b = sb["fat"]
        for b in range(160):
            if fat_b[b] == 0xFF:
                continue  # free before: may be handed to a new file
            for j in range(8):
                s = b * 8 + j
                if s == 321 or 322 <= s <= 335:
                    continue
                o = base + s * 256
                if pb[o:o + 256] != pa[o:o + 256]:
                    return {"sector of a used/reserved block modified": [i, b, j]}
        o = base + 321 * 256
        tb, ta = pb[o:o + 256], pa[o:o + 256]
        for k in range(256):
            if tb[k] != ta[k] and not (1 <= k <= 160 and tb[k] == 0xFF):
                return {"allocation table byte changed": [i, k, tb[k], ta[k]]}
        for e, (eb, ea) in enumerate(zip(sb["entries"], sa["entries"])):
            if eb != ea and eb[0] not in (0x00, 0xFF):
                return {"live catalogue entry changed": [i, e]}
    return None


def run_case(case, ctx):
    cd = CaseDir(ctx)
    try:
        is_fd, raw0 = base_image(case, ctx, cd)
        v = case["verbose"]
        arch = "img" + ext_of(is_fd)
        cd.put(arch, raw0)
        fs, contents = setup_sources(cd, case["batch"])
        r = run_disk(ctx, is_fd, ["-r"] + (["-v"] if v else []) + [arch] + argv_sources(case["batch"]), cd)
        after = cd.snapshot()
        raw1 = cd.get(arch)
        m = dmodel_outcome(ctx.model.call("disk_add", is_fd, v, fs, text_points(arch), raw0, model_srcs(case["batch"])))
        dis = compare_action(r, m, cd, after, "add")
        bad = None
        sides_b = fsck(ctx, is_fd, raw0)
        valid_before = all(s["read"] for s in sides_b) or "bundled" in case
        if valid_before:
            if r.get("status") != 0 or r.get("exc") or raw1 is None:
                bad = {"add failed": [r.get("status"), r.get("exc"), r.get("msg")]}
            else:
                sides_a = fsck(ctx, is_fd, raw1)
                bad = frame_check(is_fd, raw0, raw1, sides_b, sides_a)
                if bad is None:
                    # a table byte of a formerly free block may change only to describe an added file: no block is left in use without an owner
                    for i, (sb, sa) in enumerate(zip(sides_b, sides_a)):
                        if sb["files"] is None or sa["files"] is None:
                            continue
                        orphans = lambda sd: (160 - sd["free"] - sd["reserved"]) - len({b for f in sd["files"] for b in f["blocks"]})
                        if orphans(sb) == 0 and orphans(sa) != 0:
                            bad = {"blocks marked used on a side although they belong to no file": [i, orphans(sa)]}
                            break
                        if sb["strict"] and not sa["strict"]:
                            bad = {"a side that passed the strict check no longer does": i}
                            break
                if bad is None and not case["batch"]:
                    same = raw1 == raw0 if (is_fd or sd_padding_ok(raw0)) else payloads(False, raw1) == payloads(False, raw0)
                    if not same:
                        d = next(i for i in range(len(raw0)) if raw0[i] != raw1[i])
                        bad = {"adding nothing changed the image at offset": d}
                if bad is None:
                    rep = c02.parse_update(r["text"], v)
                    pending = [(expected_entry(s["arg"]), c) for s, c in zip(case["batch"], contents) if "eos" not in s]
                    pos = 0
                    for i, (sb, sa) in enumerate(zip(sides_b, sides_a)):
                        if not sb["read"]:
                            continue
                        if not sa["read"]:
                            bad = {"side no longer a valid file system": i}
                            break
                        old = [(f["name"], f["ext"], f["kind"], f["flag"], f["content"]) for f in sb["files"]]
                        new = [(f["name"], f["ext"], f["kind"], f["flag"], f["content"]) for f in sa["files"]]
                        # old files, in their relative order, must be a subsequence of the new list
                        it = iter(new)
                        if not all(any(o == x for x in it) for o in old):
                            bad = {"an old file changed or disappeared on side": i}
                            break
                        added = []
                        for label, outcome, size, blocks in (rep[i] if i < len(rep) else []):
                            if outcome != "ok":
                                continue
                            k = next((j for j in range(pos, len(pending)) if pending[j][0] is not None and label == pending[j][0][0].decode().rstrip() + "." + pending[j][0][1].decode().rstrip()), None)
                            if k is None:
                                bad = {"reported file matches no remaining source": label}
                                break
                            pos = k + 1
                            added.append((pending[k][0][0], pending[k][0][1], pending[k][0][2], pending[k][0][3], pending[k][1]))
                        if bad:
                            break
                        rest = list(new)
                        for o in old:
                            rest.remove(o)
                        if sorted(rest) != sorted(added):
                            bad = {"files added to side": i, "reported": [str(a[:2]) for a in added][:4], "found": [str(a[:2]) for a in rest][:4]}
                            break
        f = {"fd" if is_fd else "sd", "origin:" + ("writer" if "spec" in case else "bundled" if "bundled" in case else "tool")}
        if not case["batch"]:
            f.add("empty-batch")
        if any("eos" in s for s in case["batch"]):
            f.add("eos")
        if "too big" in r.get("text", ""):
            f.add("overflow")
        if "spec" in case:
            for sd in case["spec"]["sides"]:
                for k in ("frag",):
                    if sd.get(k):
                        f.add(k)
                if sd["deleted"]:
                    f.add("deleted")
                if sd["fat_tail"] == 0xFF:
                    f.add("fat-tail-ff")
                if sd["fat0"] == 0xFF:
                    f.add("fat0-ff")
                if sd["extra_reserved"]:
                    f.add("extra-reserved")
        nonempty_old = any(s["files"] for s in sides_b if s["files"])
        nontrivial = nonempty_old and bool(case["batch"])
        detail = {"disagreement": dis, "oracle": bad} if (dis or bad) else None
        return CaseResult(dis is None, bad is None, detail, sorted(f), nontrivial)
    finally:
        cd.close()


def shrink_candidates(case):
    b = case["batch"]
    for k in range(len(b)):
        yield dict(case, batch=b[:k] + b[k + 1:])
    if "spec" in case:
        sp = case["spec"]
        for i, sd in enumerate(sp["sides"]):
            if sd["files"] or sd["deleted"]:
                yield dict(case, spec=dict(sp, sides=sp["sides"][:i] + [dict(sd, files=[], deleted=0)] + sp["sides"][i + 1:]))
            for key, val in (("fat_tail", 0), ("fat0", 0), ("extra_reserved", []), ("frag", False), ("spread", False)):
                if sd.get(key) != val:
                    yield dict(case, spec=dict(sp, sides=sp["sides"][:i] + [dict(sd, **{key: val})] + sp["sides"][i + 1:]))
    if case["verbose"]:
        yield dict(case, verbose=False)


def summarise(case):
    base = "bundled:" + case["bundled"] if "bundled" in case else ("tool-created" if "created" in case else {"writer seed": case["spec"]["seed"], "is_fd": case["spec"]["is_fd"]})
    return {"base": base, "batch": [(s.get("eos") or [s["arg"], s["content"]]) for s in case["batch"]][:6], "verbose": case["verbose"]}


def violation_class(case, detail):
    o = (detail or {}).get("oracle") or {}
    return sorted(o)[0] if o else "c06"
