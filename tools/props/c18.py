"""C18 — hostile or corrupt archives cannot hang the tools or escape the destination"""
import os
import random

from framework import scale, CaseResult, text_points
from props import c08
from props.diskcommon import compare_action, dmodel_outcome, ext_of, gen_third_party, run_disk, write_third_party
from props.tapecommon import CaseDir, model_outcome, run_tool, status_class

GEN_FILES = ["GenDisk", "GenTape"]
RULE = ("valid archives (independent writers of C07/C08) mutated: random flips in table / catalogue / leader bytes; allocation-table self-links, 2- and n-cycles, links to "
        "free or reserved blocks, random tables; first-block bytes 160..255; last-sector counts up to 65535; names holding '/', '..', a leading '/', NUL, bytes >= 80, and UTF-8 sequences of characters that fold to '.' or '/' (two dot leader, fullwidth solidus...), percent and backslash spellings, also on a tape damaged inside that member with a file lying where the raw name would lead; truncations; "
        "wholly random catalogues; tapes with garbage type bytes, truncated blocks, thousands of markers; both disk flavours and tapes. Oracle on the real tool only: list and "
        "extract return (report or error) within the time limit and without MemoryError under a 3 GiB address-space limit; every file or directory extract creates or opens for "
        "writing resolves inside the destination (its sideN sub-directories for disks); nothing outside the destination changes. The extracted model is compared too (exit class, effects, "
        "report) except where a name is not 7-bit (text decoding is not modelled for tapes). signature = (kind, mutation classes); non-trivial = at least one structural mutation")
ASSUMPTIONS = ["a catalogue NAME.EXT spelling exactly '.' or '..' makes open() fail on the directory (IsADirectoryError): the model's open() knows no directories, so these cases are judged by the oracle on the real tool only (skipped_unmodelled for the correspondence)",
               "wall-clock and memory behaviour are observed under limits, not proved: the theorems bound loop iterations, buffer sizes and path shapes",
               "the destination directory itself holds no symbolic links"]

TIME_LIMIT = 20

EVIL_NAMES = ["../d", "../side0", "../side1", "../../PW", "..", ".", "a/b", "/ABS", "x\x00y", "..\\..", "....//", "A/../B", "\x00", "/", "//", "é", "\xff\xfe", " / ", "CON", "a\nb"]
EVIL_PAIR_NAMES = [".", "", "..", "A/..", "/", "../..", "..//", "X/", "../d", "../side0", "../side3", "d/../..", "./../d", "../../PW", "../x", "/tmp/zz1", "a/../../y"]
EVIL_PAIR_EXTS = ["/AB", "./A", "/..", "/", "..", ".", "/.", "A/B", "//A", "", "X", "BIN"]


def _u(s):
    """the UTF-8 bytes of s, written as the str whose latin-1 bytes they are (names are stored through .encode('latin1'))"""
    return s.encode("utf-8").decode("latin1")


# bytes that hold no '/' and no '.', but become one under a normalisation a reader might apply to names (compatibility folding, percent or backslash
# conventions): U+2025 two dot leader, U+FF0F fullwidth solidus, U+FF0E fullwidth full stop, U+2215 division slash, U+2044 fraction slash
EVIL_PAIR_NAMES += [_u("\u2025\uff0fAB"), _u("\uff0fABCDE"), _u("\u2025\uff0fA"), _u("\uff0e\uff0e/A"), _u("..\u2215A"), _u("\u2025/A"), "..\\x", "..%2fA", "%2e%2e/A"]
EVIL_PAIR_EXTS += [_u("\uff0f"), _u("\u2215")]


def mutate_disk(rng, is_fd, raw, muts):
    b = bytearray(raw)
    ssz = 256 if is_fd else 512
    nsides = len(raw) // (1280 * ssz)
    side = rng.randrange(max(nsides, 1))
    base = side * 1280 * ssz
    fat = base + 321 * ssz

    def cat_off(k):
        return base + (322 + k // 8) * ssz + (k % 8) * 32

    for _ in range(rng.choice([1, 1, 2, 3])):
        m = rng.choice(["selflink", "cycle2", "cyclen", "dangling", "first", "lastbytes", "name", "flipfat", "flipcat", "randfat", "randcat", "status", "truncate"])
        muts.add(m)
        used = [x for x in range(160) if b[fat + 1 + x] < 160 or 0xC1 <= b[fat + 1 + x] <= 0xC8]
        if m == "selflink":
            x = rng.choice(used) if used else rng.randrange(160)
            b[fat + 1 + x] = x
        elif m == "cycle2":
            x, y = (rng.sample(used, 2) if len(used) >= 2 else rng.sample(range(160), 2))
            b[fat + 1 + x], b[fat + 1 + y] = y, x
        elif m == "cyclen":
            xs = rng.sample(range(160), rng.randint(3, 12))
            for i, x in enumerate(xs):
                b[fat + 1 + x] = xs[(i + 1) % len(xs)]
            k = rng.randrange(112)
            o = cat_off(k)
            b[o:o + 16] = b"CYCLE   BIN" + bytes([2, 0, xs[0], 0, 10])
        elif m == "dangling":
            x = rng.choice(used) if used else rng.randrange(160)
            b[fat + 1 + x] = rng.choice([y for y in range(160)])
        elif m == "first":
            o = cat_off(rng.randrange(112))
            if b[o] == 0xFF:
                b[o:o + 16] = b"GHOST   BAS" + bytes([0, 0, 0, 0, 1])
            b[o + 13] = rng.choice([160, 161, 200, 254, 255, rng.randrange(160, 256)])
        elif m == "lastbytes":
            o = cat_off(rng.randrange(112))
            if b[o] == 0xFF:
                b[o:o + 16] = b"BIGLAST BIN" + bytes([2, 0, rng.choice(used) if used else 1, 0, 1])
            b[o + 14], b[o + 15] = rng.choice([(1, 0), (0xFF, 0xFF), (0x80, 0), (0, 0)])
        elif m == "name":
            o = cat_off(rng.randrange(112))
            if b[o] == 0xFF:
                b[o:o + 16] = b"X       BIN" + bytes([2, 0, rng.choice(used) if used else 1, 0, 1])
            nm = rng.choice(EVIL_NAMES).encode("latin1", "replace")
            r = rng.random()
            if r < 0.4:
                b[o:o + 8] = nm.ljust(8)[:8]
            elif r < 0.7:
                b[o + 8:o + 11] = nm.ljust(3)[:3]
            else:
                # the name and the extension fields cooperating: NAME + '.' + EXT spelling a path out of the destination
                b[o:o + 8] = rng.choice(EVIL_PAIR_NAMES).encode("latin1").ljust(8)[:8]
                b[o + 8:o + 11] = rng.choice(EVIL_PAIR_EXTS).encode("latin1").ljust(3)[:3]
        elif m == "flipfat":
            for _ in range(rng.randint(1, 6)):
                b[fat + rng.randrange(256)] ^= 1 << rng.randrange(8)
        elif m == "flipcat":
            for _ in range(rng.randint(1, 8)):
                o = cat_off(rng.randrange(112))
                b[o + rng.randrange(32)] ^= 1 << rng.randrange(8)
        elif m == "randfat":
            b[fat:fat + 256] = rng.randbytes(256) if rng.random() < 0.5 else bytes(rng.choice([0, 1, 5, 0xC1, 0xFE, 0xFF, rng.randrange(160)]) for _ in range(256))
        elif m == "randcat":
            for k in range(14):
                o = base + (322 + k) * ssz
                b[o:o + 256] = rng.randbytes(256)
        elif m == "status":
            b[fat + 1 + rng.randrange(160)] = rng.choice([160, 192, 201, 253, 0xA0, 0xC9])
        elif m == "truncate":
            cut = rng.choice([0, 1, 255, len(b) // 2, len(b) - 1, len(b) - ssz, 3 * 1280 * ssz])
            b = b[:cut]
            break
    return bytes(b)


def gen_cases(rng, tier):
    n = scale(tier, 80, 2500)
    cases = []
    for _ in range(n):
        if rng.random() < 0.6:
            cases.append({"kind": "disk", "spec": gen_third_party(rng, max_files=4), "mseed": rng.randint(0, 1 << 30), "verbose": rng.random() < 0.3})
        else:
            t = c08.gen_case(rng)
            t["tail"] = min(t["tail"], 100)
            cases.append({"kind": "tape", "tape": t, "mseed": rng.randint(0, 1 << 30), "verbose": rng.random() < 0.3})
    # the name and extension fields cooperating (NAME + '.' + EXT spelling a path): every pair on a tape, a sample of them on disks
    pairs = [(a, b) for a in EVIL_PAIR_NAMES for b in EVIL_PAIR_EXTS]
    for a, b in pairs:
        t = {"files": [{"name": a, "ext": b, "kind": 1, "mode": 0, "chunks": [{"pat": "41", "len": 5}]}], "wseed": 1, "tail": 0, "tailfill": 0}
        cases.append({"kind": "tape", "tape": t, "mseed": 0, "verbose": False, "pair": [a, b]})
    # the same pairs on a tape damaged INSIDE that member (an unknown block type after the leader), with a file already lying where the raw NAME.EXT
    # would lead: an error path must not touch anything outside the destination either
    for a, b in pairs:
        if "/" in a + b or ".." in a + b or "\\" in a + b:
            t = {"files": [{"name": a, "ext": b, "kind": 1, "mode": 0, "chunks": [{"pat": "41", "len": 5}, {"pat": "42", "len": 300}]}], "wseed": 1, "tail": 0, "tailfill": 0}
            cases.append({"kind": "tape", "tape": t, "mseed": 0, "verbose": False, "pair": [a, b], "damage": True})
    dp = pairs if tier == "thorough" else rng.sample(pairs, 48)
    for a, b in dp:
        cases.append({"kind": "disk", "spec": gen_third_party(rng, nsides=rng.choice([1, 4]), is_fd=rng.random() < 0.6, max_files=2), "mseed": 0, "verbose": False, "pair": [a, b]})
    return cases, {"random": n, "name/extension pairs on tapes": len(pairs), "name/extension pairs on disks": len(dp)}


def mutate_tape(rng, raw, muts):
    b = bytearray(raw)
    for _ in range(rng.choice([1, 1, 2, 3])):
        m = rng.choice(["name", "type", "len", "flip", "truncate", "markers", "random", "append"])
        muts.add(m)
        idx = [i for i in range(len(b) - 20) if b[i:i + 5] == b"\x01\x01\x01\x3c\x5a" and b[i + 5] == 0]
        if m == "name" and idx:
            i = rng.choice(idx) + 7
            nm = rng.choice(EVIL_NAMES).encode("latin1", "replace")
            r = rng.random()
            if r < 0.4:
                b[i:i + 8] = nm.ljust(8)[:8]
            elif r < 0.65:
                b[i + 8:i + 11] = nm.ljust(3)[:3]
            else:
                b[i:i + 8] = rng.choice(EVIL_PAIR_NAMES).encode("latin1").ljust(8)[:8]
                b[i + 8:i + 11] = rng.choice(EVIL_PAIR_EXTS).encode("latin1").ljust(3)[:3]
            # the leader block's checksum is left wrong half of the time (the tools do not verify it)
        elif m == "type" and len(b) > 10:
            j = [i for i in range(len(b) - 6) if b[i:i + 5] == b"\x01\x01\x01\x3c\x5a"]
            if j:
                b[rng.choice(j) + 5] = rng.choice([2, 3, 0x7F, 0xFE, rng.randrange(256)])
        elif m == "len" and len(b) > 10:
            j = [i for i in range(len(b) - 7) if b[i:i + 5] == b"\x01\x01\x01\x3c\x5a"]
            if j:
                b[rng.choice(j) + 6] = rng.choice([0, 1, 2, 255, rng.randrange(256)])
        elif m == "flip" and b:
            for _ in range(rng.randint(1, 10)):
                b[rng.randrange(len(b))] ^= 1 << rng.randrange(8)
        elif m == "truncate" and b:
            b = b[:rng.randrange(len(b))]
        elif m == "markers":
            b += b"\x01\x01\x01\x3c\x5a" * rng.choice([10, 1000, 4000])
        elif m == "random":
            b = bytearray(rng.randbytes(rng.choice([0, 1, 100, 5000])))
        elif m == "append":
            b += rng.randbytes(rng.choice([1, 50])) + b"\x01\x01\x01\x3c\x5a\x00"
    return bytes(b)


def inside(p, dest):
    rp = os.path.realpath(p)
    return rp == dest or rp.startswith(dest + os.sep)


def run_case(case, ctx):
    cd = CaseDir(ctx)
    try:
        rng = random.Random(case["mseed"])
        muts = set()
        v = case["verbose"]
        vf = ["-v"] if v else []
        os.makedirs(os.path.join(cd.cwd, "d"))
        outside_before = None
        dis = bad = None
        skipped = False
        if case["kind"] == "disk":
            sp = case["spec"]
            is_fd = sp["is_fd"]
            raw, _ = write_third_party(sp)
            if "pair" in case:
                # one live entry carrying the pair, on side 0 (slot 0), pointing at block 1
                muts.add("pair")
                b = bytearray(raw)
                o = (20 * 16 + 2) * (256 if is_fd else 512)
                b[o:o + 32] = case["pair"][0].encode("latin1").ljust(8)[:8] + case["pair"][1].encode("latin1").ljust(3)[:3] + bytes([1, 0, 1, 0, 5]) + bytes(16)
                fat = (20 * 16 + 1) * (256 if is_fd else 512)
                b[fat + 2] = 0xC1
                raw = bytes(b)
            else:
                raw = mutate_disk(rng, is_fd, raw, muts)
            arch = "d/img" + ext_of(is_fd)
            cd.put(arch, raw)
            before = cd.snapshot()
            rl = run_disk(ctx, is_fd, ["-t"] + vf + [arch], cd, timeout=TIME_LIMIT)
            rx = run_disk(ctx, is_fd, ["-x"] + vf + [arch], cd, timeout=TIME_LIMIT)
            after = cd.snapshot()
            ml = dmodel_outcome(ctx.model.call("disk_list", is_fd, v, raw))
            mx = dmodel_outcome(ctx.model.call("disk_extract", is_fd, v, [], text_points(arch), raw))
            if rx.get("exc") == "IsADirectoryError" and any(os.path.basename(e[0]) in (".", "..") for e in mx["effects"]):
                skipped = True
            else:
                dis = compare_action(rl, ml, cd, None, "list") or compare_action(rx, mx, cd, after, "extract")
            dest = os.path.realpath(os.path.join(cd.cwd, "d"))
            allowed = lambda p: any(inside(p, os.path.join(dest, f"side{i}")) for i in range(4))
        else:
            raw, _ = c08.write_tape(case["tape"])
            if "pair" in case:
                muts.add("pair")
                if case.get("damage"):
                    muts.add("damage")
                    bb = bytearray(raw)
                    marks = [i for i in range(len(bb) - 6) if bb[i:i + 5] == b"\x01\x01\x01\x3c\x5a"]
                    if len(marks) > 2:
                        bb[marks[2] + 5] = 0x7F      # the second data block of the member gets an unknown type
                    raw = bytes(bb)
                    try:
                        label = case["pair"][0].encode("latin1").ljust(8)[:8].decode("utf-8").strip() + "." + case["pair"][1].encode("latin1").ljust(3)[:3].decode("utf-8").strip()
                        q = os.path.normpath(os.path.join(cd.cwd, "d", label))
                        if q.startswith(cd.root + os.sep) and not os.path.lexists(q) and "\x00" not in q:
                            os.makedirs(os.path.dirname(q), exist_ok=True)
                            with open(q, "wb") as f_:
                                f_.write(b"keep me")
                    except (UnicodeDecodeError, OSError):
                        pass
            else:
                raw = mutate_tape(rng, raw, muts)
            arch = "d/t.k7"
            cd.put(arch, raw)
            before = cd.snapshot()
            rl = run_tool(ctx, "tar", ["-t"] + vf + [arch], cd, timeout=TIME_LIMIT)
            rx = run_tool(ctx, "tar", ["-x"] + vf + [arch], cd, timeout=TIME_LIMIT)
            after = cd.snapshot()
            ml = model_outcome(ctx.model.call("tar_list", v, raw))
            mx = model_outcome(ctx.model.call("tar_extract", v, [], text_points(arch), raw))
            if 5 in (ml["crash"], mx["crash"]):
                skipped = True  # a name that is not 7-bit: text decoding is not modelled
            elif rx.get("exc") == "IsADirectoryError" and any(os.path.basename(e[0]) in (".", "..") for e in mx["effects"]):
                skipped = True  # NAME.EXT spelling '.' or '..': the model's open() knows no directories; the kernel refuses, the tool stops with an error
            else:
                for nm, r, m in (("list", rl, ml), ("extract", rx, mx)):
                    if status_class(r.get("status")) != status_class(m["status"]):
                        dis = dis or {nm + " status": [r.get("status"), r.get("exc"), r.get("msg")], "model": [m["status"], m["crash"]]}
                    elif m["crash"] is None and "\n".join(r["lines"]) != "\n".join(m["lines"]):  # a name may hold a newline
                        dis = dis or {nm + " lines": r["lines"][:4], "model": m["lines"][:4]}
                if dis is None:
                    mw = [cd.rel(p) for p, c in mx["effects"]]
                    if mw != rx["writes"]:
                        dis = {"extract writes": rx["writes"][:5], "model": mw[:5]}
            dest = os.path.realpath(os.path.join(cd.cwd, "d"))
            allowed = lambda p: inside(p, dest)
        # ---- oracle, on the implementation alone
        for nm, r in (("list", rl), ("extract", rx)):
            if r.get("exc") == "Timeout":
                bad = {nm + " did not return within the time limit": TIME_LIMIT}
            elif r.get("exc") == "MemoryError":
                bad = {nm + " exhausted memory": True}
            elif r.get("exc") == "WorkerDied" or r.get("status") == "died":
                bad = {nm + " killed the interpreter": True}
        if bad is None:
            for ev in rx.get("effects", []):
                if ev[0] in ("open_w", "os.mkdir", "os.remove", "os.rename", "os.rmdir", "os.unlink", "os.truncate", "os.symlink", "os.link", "os.chmod"):
                    p = os.path.join(cd.cwd, ev[1])
                    if ev[0] == "open_w" and os.path.isdir(p):
                        continue  # opening a directory for writing is refused by the kernel (IsADirectoryError): an error, nothing created or modified
                    if not allowed(p):
                        bad = {"extract touched a path outside the destination": [ev[0], ev[1]]}
                        break
            for ev in rl.get("effects", []):
                if ev[0] != "open_r":
                    bad = bad or {"list modified the file system": ev[:2]}
        if bad is None:
            for k in set(before) | set(after):
                if before.get(k) != after.get(k) and not allowed(os.path.join(cd.root, k)):
                    bad = {"a file outside the destination changed": k}
                    break
        sig = [case["kind"]] + sorted(muts)
        nontrivial = bool(muts - {"flip", "flipfat", "flipcat"})
        detail = {"disagreement": dis, "oracle": bad, "mutations": sorted(muts)} if (dis or bad) else None
        return CaseResult(dis is None, bad is None, detail, sig, nontrivial, skipped=skipped)
    finally:
        cd.close()


def summarise(case):
    return {"kind": case["kind"], "mseed": case["mseed"], "verbose": case["verbose"], "pair": case.get("pair")}


def violation_class(case, detail):
    o = (detail or {}).get("oracle") or {}
    return [case["kind"]] + sorted(o)[:1]
