"""C19 — every documented command starts, checks its arguments, writes where documented"""
import os
import re
import shutil
import subprocess
import sys
import tempfile

from framework import scale, CaseResult, REPO, PY, text_points

GEN_FILES = ["GenCli"]
RULE = ("real subprocesses. For each of the 7 documented tools x {python -m <tool>, every console script declared in pyproject.toml (run through the shim the packaging "
        "backend generates: from <module> import <func>; sys.exit(<func>()))}: --help (status 0, usage text); for the archivers: no action, two different actions, an unknown "
        "option, a wrong archive extension (disk tools) -> non-zero status and no file created or modified (whole scratch tree compared before/after); for the text tools: an "
        "unknown option. For the archivers x {create, add, list, extract} x {with, without --into} x {first, repeated extraction}: outputs beside the archive by default, under "
        "--into when given; a second extraction over the first succeeds and rewrites the files; create with and without source files, on a free path and over an older file. Argument orders and option spellings (short/long, clustered) vary with the seed. "
        "The argument-parsing decisions are also compared with the Coq model of the parsers (tables regenerated from the createArgParser calls). "
        "signature = (tool, launcher, scenario); non-trivial = every scenario but --help")
ASSUMPTIONS = ["that the interpreter finds and starts a package, and what console-script generation does at install time, are not facts about a pure function: they are observed on real processes",
               "argparse itself is modelled (on canonical command lines), not verified"]

TOOLS = ["moto_tar", "moto_sdar", "moto_fdar", "moto_nl", "moto_prettier", "moto_bas2lst", "moto_lst2bas"]
ARCHIVERS = {"moto_tar": ".k7", "moto_sdar": ".sd", "moto_fdar": ".fd"}


def declared_scripts():
    txt = open(os.path.join(REPO, "pyproject.toml")).read()
    m = re.search(r"\[project\.scripts\](.*?)(\n\[|\Z)", txt, re.S)
    out = {}
    if m:
        for line in m.group(1).splitlines():
            mm = re.match(r'\s*([\w-]+)\s*=\s*"([\w.]+):(\w+)"', line)
            if mm:
                out[mm.group(1)] = (mm.group(2), mm.group(3))
    return out


def launch(tool, launcher, argv, cwd, stdin=b"", timeout=60):
    env = dict(os.environ, PYTHONPATH=os.path.join(REPO, "src"), PYTHONHASHSEED="0", PYTHONDONTWRITEBYTECODE="1", PYTHONUTF8="1")
    if launcher == "module":
        cmd = [PY, "-m", tool] + argv
    else:
        mod, func = declared_scripts()[tool]
        cmd = [PY, "-c", f"import sys; from {mod} import {func}; sys.argv[0] = {tool!r}; sys.exit({func}())"] + argv
    try:
        p = subprocess.run(cmd, cwd=cwd, input=stdin, stdout=subprocess.PIPE, stderr=subprocess.PIPE, env=env, timeout=timeout)
        return p.returncode, p.stdout.decode("utf-8", "replace"), p.stderr.decode("utf-8", "replace")
    except subprocess.TimeoutExpired:
        return "timeout", "", ""


def snapshot(root):
    out = {}
    for d, ds, fs in os.walk(root):
        for x in ds:
            out[os.path.relpath(os.path.join(d, x), root) + "/"] = None
        for f in fs:
            p = os.path.join(d, f)
            out[os.path.relpath(p, root)] = open(p, "rb").read()
    return out


def gen_cases(rng, tier):
    cases = []
    scripts = declared_scripts()
    for tool in TOOLS:
        launchers = ["module"] + (["script"] if tool in scripts else [])
        for la in launchers:
            cases.append({"tool": tool, "launcher": la, "scenario": "help", "variant": rng.choice(["--help", "-h"])})
            cases.append({"tool": tool, "launcher": la, "scenario": "unknown", "variant": rng.choice(["--bogus", "-Z", "--verbos", "--int"])})
            if tool in ARCHIVERS:
                cases.append({"tool": tool, "launcher": la, "scenario": "noaction", "variant": rng.choice(["plain", "verbose"])})
                acts = ["-c", "-t", "-x", "--create", "--list", "--extract"] + (["-r", "--add"] if tool != "moto_tar" else [])
                act_of = {"-c": "create", "--create": "create", "-t": "list", "--list": "list", "-x": "extract", "--extract": "extract", "-r": "add", "--add": "add"}
                a, b = rng.sample(acts, 2)
                while act_of[a] == act_of[b]:
                    a, b = rng.sample(acts, 2)
                cases.append({"tool": tool, "launcher": la, "scenario": "twoactions", "variant": [a, b]})
                if tool != "moto_tar":
                    good = ARCHIVERS[tool][1:]
                    other = "fd" if good == "sd" else "sd"
                    # ordinary wrong extensions, and ones that merely end with / start with / contain the right letters
                    pool = [".k7", "." + other, ".img", "", "." + "h" + good, ".x" + good.upper(), "." + good + "x", "." + good[0], good, "." + good + ".bak", ".." , "." + good + " "]
                    picks = [pool[1], pool[4], rng.choice(pool), rng.choice(pool[5:])]
                    for wrong in picks:
                        cases.append({"tool": tool, "launcher": la, "scenario": "wrongext", "variant": [rng.choice(["-c", "-t", "-x", "-r"]), wrong]})
                for into in (False, True):
                    # the archive in the current directory and in another one: where the outputs go depends on both
                    for sub in ("", rng.choice(["arc/", "a.b/"])):
                        cases.append({"tool": tool, "launcher": la, "scenario": "extract", "into": into, "verbose": rng.random() < 0.5, "sub": sub})
                    cases.append({"tool": tool, "launcher": la, "scenario": "create", "into": into, "verbose": rng.random() < 0.5, "sub": rng.choice(["arc/", "a.b/"])})
                    if tool != "moto_tar":
                        cases.append({"tool": tool, "launcher": la, "scenario": "add", "into": into, "verbose": False, "sub": rng.choice(["", "arc/"])})
                # extraction under an --into whose parent directory does not exist either
                cases.append({"tool": tool, "launcher": la, "scenario": "extract", "into": True, "nested": True, "verbose": rng.random() < 0.5, "sub": rng.choice(["", "arc/"])})
                # create without any source file (a blank archive), and create over something that already lies there
                cases.append({"tool": tool, "launcher": la, "scenario": "create", "into": False, "verbose": rng.random() < 0.5, "sub": rng.choice(["", "arc/"]), "nsrc": 0})
                cases.append({"tool": tool, "launcher": la, "scenario": "create", "into": False, "verbose": False, "sub": rng.choice(["", "arc/"]), "nsrc": 0, "old": True})
                cases.append({"tool": tool, "launcher": la, "scenario": "create", "into": False, "verbose": False, "sub": "", "nsrc": 1, "old": True})
                cases.append({"tool": tool, "launcher": la, "scenario": "list", "into": False, "verbose": rng.random() < 0.5, "sub": rng.choice(["", "arc/"])})
            else:
                cases.append({"tool": tool, "launcher": la, "scenario": "run"})
    # list and extract again with the archive reached through a symbolic link kept in another directory
    more = []
    for c in cases:
        if c["tool"] in ARCHIVERS and c["scenario"] in ("list", "extract") and c["launcher"] == "module":
            more.append(dict(c, link=True, sub="desk/"))
    cases += more
    # the four actions again with the archive's extension spelled in upper and mixed case
    more = []
    for c in cases:
        if c["tool"] in ARCHIVERS and c["scenario"] in ("create", "add", "list", "extract") and not c.get("into"):
            more.append(dict(c, ext_spelling=rng.choice(["upper", "mixed"])))
    cases += more
    # every rejected archiver command line again, with an --into naming a directory that does not exist yet, before / between / after the other arguments
    more = []
    for c in cases:
        if c["tool"] in ARCHIVERS and c["scenario"] in ("unknown", "noaction", "twoactions", "wrongext"):
            more.append(dict(c, into_pos=rng.choice(["front", "front", "mid", "back"])))
    cases += more
    if tier == "thorough":
        extra = []
        for c in cases:
            for _ in range(2):
                d = dict(c)
                if "verbose" in d:
                    d["verbose"] = rng.random() < 0.5
                d["shuffle"] = rng.randint(1, 1 << 20)
                extra.append(d)
        cases += extra
    return cases, {"enumerated": len(cases)}


def build_archive(tool, root, rel):
    os.makedirs(os.path.dirname(os.path.join(root, rel)) or root, exist_ok=True)
    with open(os.path.join(root, "one.bas"), "wb") as f:
        f.write(b"\xff\x00\x02\x00\x00")
    with open(os.path.join(root, "two.txt"), "wb") as f:
        f.write(b"hello" * 100)
    with open(os.path.join(root, "nil.dat"), "wb") as f:
        pass
    env = dict(os.environ, PYTHONPATH=os.path.join(REPO, "src"), PYTHONDONTWRITEBYTECODE="1")
    if tool == "moto_tar":
        code = "import sys; sys.argv=['x','-c',%r,'one.bas','two.txt','nil.dat']; from moto_tar.tar import TapeArchiveCli; sys.exit(TapeArchiveCli().run())" % rel
    else:
        t = "SDDRIVE_FLOPPY_IMAGE" if tool == "moto_sdar" else "EMULATOR_FLOPPY_IMAGE"
        code = ("import sys; sys.argv=['x','-c',%r,'one.bas','two.txt','nil.dat']; from moto_lib.fs_disk.cli import DiskArchiveCli; from moto_lib.fs_disk.image import TypeOfDiskImage; "
                "sys.exit(DiskArchiveCli(typeOfArchive=TypeOfDiskImage.%s).run())" % (rel, t))
    p = subprocess.run([PY, "-c", code], cwd=root, stdout=subprocess.PIPE, stderr=subprocess.PIPE, env=env, timeout=120)
    if p.returncode != 0 or not os.path.exists(os.path.join(root, rel)):
        raise RuntimeError("could not prepare an archive: " + p.stderr.decode()[-300:])


def expected_outputs(tool, base):
    if tool == "moto_tar":
        return {os.path.join(base, "ONE.BAS"): b"\xff\x00\x02\x00\x00", os.path.join(base, "TWO.TXT"): b"hello" * 100, os.path.join(base, "NIL.DAT"): b""}
    return {os.path.join(base, "side0", "ONE.BAS"): b"\xff\x00\x02\x00\x00", os.path.join(base, "side0", "TWO.TXT"): b"hello" * 100, os.path.join(base, "side0", "NIL.DAT"): b""}


TOOL_ID = {"moto_tar": 0, "moto_sdar": 1, "moto_fdar": 2}
SPEC_ID = {"moto_tar": 0, "moto_sdar": 1, "moto_fdar": 1, "moto_nl": 2, "moto_prettier": 3, "moto_lst2bas": 4, "moto_bas2lst": 5}


def model_cli(ctx, tool, argv, root):
    """the Coq model's decision for an archiver command line: (status, [(kind, path)]) ; fs = the scratch tree"""
    fs = []
    for k, v in snapshot(root).items():
        if v is not None:
            fs.append([text_points(k), v])
    st, fx = ctx.model.call("cli", TOOL_ID[tool], [text_points(a) for a in argv], fs)
    return st, [(k, "".join(chr(c) for c in p)) for k, p in fx]


def compare_model(ctx, tool, argv, root_before_snapshot_root, st):
    """exit class and (for archivers) the set of paths written, model vs real; None when they agree"""
    if tool in TOOL_ID:
        mst, mfx = model_cli(ctx, tool, argv, root_before_snapshot_root)
        if mst == -1:
            return "unmodelled"
        if mst != st:
            return {"model status": mst, "real": st, "argv": argv}
        return None
    code = ctx.model.call("cli_parse", SPEC_ID[tool], [text_points(a) for a in argv])
    if code == 2:
        return "unmodelled"
    want = {0: 0, 1: 2}.get(code)
    if want is not None and want != st:
        return {"model parse": code, "real status": st, "argv": argv}
    return None


def run_case(case, ctx):
    root = tempfile.mkdtemp(dir=ctx.tmp)
    mroot = tempfile.mkdtemp(dir=ctx.tmp)
    try:
        tool, la, sc = case["tool"], case["launcher"], case["scenario"]
        bad = dis = None
        ext = ARCHIVERS.get(tool)
        if ext and case.get("ext_spelling") == "upper":
            ext = ext.upper()       # the extension test is documented as case insensitive: GAME.SD is the archive GAME.SD, nothing else
        elif ext and case.get("ext_spelling") == "mixed":
            ext = ext[:1] + ext[1:2].upper() + ext[2:]
        if sc == "help":
            before = snapshot(root)
            st, out, err = launch(tool, la, [case["variant"]], root)
            dis = compare_model(ctx, tool, [case["variant"]], root, st)
            if st != 0 or "usage" not in out.lower():
                bad = {"--help": [st, out[:80], err[-200:]]}
            elif snapshot(root) != before:
                bad = {"--help changed the file system": True}
        elif sc in ("unknown", "noaction", "twoactions", "wrongext"):
            if ext:
                build_archive(tool, root, "good" + ext)
            open(os.path.join(root, "plain.lst"), "w").write("10 PRINT 1\n")
            if sc == "unknown":
                argv = ([case["variant"], "-t", "good" + ext] if ext else [case["variant"], "plain.lst"])
            elif sc == "noaction":
                argv = (["-v"] if case["variant"] == "verbose" else []) + ["good" + ext]
            elif sc == "twoactions":
                argv = case["variant"] + ["good" + ext, "--", "one.bas"]
            else:
                act, wrong = case["variant"]
                shutil.copy(os.path.join(root, "good" + ext), os.path.join(root, "bad" + wrong))
                argv = [act, "bad" + wrong] + (["one.bas"] if act in ("-c", "-r") else [])
            if case.get("into_pos") and ext:
                # a rejected command line leaves nothing behind, even when it names an output directory that does not exist yet
                k = argv.index("--") if "--" in argv else len(argv)
                pos = {"front": 0, "back": k, "mid": min(1, k)}[case["into_pos"]]
                argv = argv[:pos] + ["--into", "fresh dir"] + argv[pos:]
            before = snapshot(root)
            dis = compare_model(ctx, tool, argv, root, None)
            st, out, err = launch(tool, la, argv, root)
            if isinstance(dis, dict) and dis.get("real") is None and "model status" in dis:
                dis = None if dis["model status"] == st else dict(dis, real=st)
            elif isinstance(dis, dict) and "model parse" in dis:
                dis = None if {0: 0, 1: 2}.get(dis["model parse"]) == st else dict(dis, **{"real status": st})
            after = snapshot(root)
            if st == 0 or st == "timeout":
                bad = {sc + " accepted": [argv, st, out[:100]]}
            elif after != before:
                ch = [k for k in set(before) | set(after) if before.get(k) != after.get(k)]
                bad = {sc + " rejected but files were created or modified": ch[:4], "argv": argv}
            elif sc in ("unknown", "noaction", "twoactions") and st != 2:
                bad = {sc + " exit status (argparse uses 2)": st, "stderr": err[-200:]}
            elif not (err.strip() or out.strip()):
                bad = {sc + " rejected without any diagnostic": argv}
        elif sc == "run":
            open(os.path.join(root, "plain.lst"), "w").write("10 print \"a\"\nrem x\n")
            open(os.path.join(root, "prog.bas"), "wb").write(b"\r10 X\r20 Y\r")
            before = snapshot(root)
            if tool == "moto_lst2bas":
                open(os.path.join(root, "plain.lst"), "w").write("10 print \"a\"\n20 rem x\n")
            before = snapshot(root)
            argv = {"moto_nl": ["plain.lst"], "moto_prettier": ["plain.lst"], "moto_lst2bas": ["plain.lst"], "moto_bas2lst": ["prog.bas,a"]}[tool]
            st, out, err = launch(tool, la, argv, root)
            after = snapshot(root)
            new = sorted(k for k in after if k not in before)
            want_new = {"moto_nl": [], "moto_prettier": [], "moto_lst2bas": ["plain.bas"], "moto_bas2lst": ["prog.lst"]}[tool]
            if st != 0:
                bad = {"run failed": [st, err[-300:]]}
            elif new != want_new or any(before[k] != after[k] for k in before):
                bad = {"files created": new, "want": want_new}
            elif tool == "moto_nl" and out != "10 print \"a\"\n20 rem x\n":
                bad = {"nl output": out}
            elif tool == "moto_prettier" and out != "10 PRINT \"a\"\nREM X\n":
                bad = {"prettier output": out}
            elif tool == "moto_bas2lst" and after.get("prog.lst") != b"10 X\n20 Y\n":
                bad = {"bas2lst output": after.get("prog.lst")}
        else:
            sub = case.get("sub", "")
            rel = sub + "disk" + ext
            vf = ["-v"] if case.get("verbose") else []
            INTO = "new/deeper dir" if case.get("nested") else "out dir"   # nested: neither the directory nor its parent exists yet
            into = ["--into", INTO] if case.get("into") else []
            if sc == "create":
                os.makedirs(os.path.join(root, sub), exist_ok=True)
                open(os.path.join(root, "one.bas"), "wb").write(b"\xff\x00\x02\x00\x00")
                want = [os.path.join(INTO, os.path.basename(rel))] if case.get("into") else [rel]
                if case.get("old"):
                    # something already lies where the archive goes: create replaces it (the manual: "if the archive file already exists, it is overwritten")
                    os.makedirs(os.path.dirname(os.path.join(root, want[0])), exist_ok=True)
                    open(os.path.join(root, want[0]), "wb").write(b"an older archive " * 9)
                before = snapshot(root)
                # the source files are optional in every synopsis: without any, create makes a blank archive
                st, out, err = launch(tool, la, ["-c"] + vf + into + [rel] + (["one.bas"] if case.get("nsrc", 1) else []), root)
                after = snapshot(root)
                new = sorted(k for k in after if before.get(k) != after[k] and not k.endswith("/"))
                if st != 0:
                    bad = {"create failed": [st, err[-300:]]}
                elif new != want:
                    bad = {"create wrote": new, "want": want, "into": bool(case.get("into")), "sources": case.get("nsrc", 1), "old": bool(case.get("old"))}
                elif len(after[want[0]]) != {"moto_tar": 21504, "moto_sdar": 2621440, "moto_fdar": 1310720}[tool]:
                    bad = {"created archive length": len(after[want[0]])}
            else:
                try:
                    if case.get("link"):
                        # the archive named on the command line is a symbolic link to an image kept elsewhere: 'beside the archive' is beside the link
                        real = "store/" + os.path.basename(rel)
                        build_archive(tool, root, real)
                        os.makedirs(os.path.dirname(os.path.join(root, rel)) or root, exist_ok=True)
                        os.symlink(os.path.relpath(os.path.join(root, real), os.path.dirname(os.path.join(root, rel)) or root), os.path.join(root, rel))
                    else:
                        build_archive(tool, root, rel)
                except RuntimeError as e:
                    # creating the archive at the designated path is part of the property: no archive there is a violation, not a harness matter
                    bad = {"create did not produce the archive at the designated path": rel, "why": str(e)[-200:], "tree": sorted(snapshot(root))[:6]}
                    sig = [tool, la, sc, "prepare"]
                    return CaseResult(True, False, {"disagreement": None, "oracle": bad}, sig, True)
                os.remove(os.path.join(root, "one.bas")) if sc != "add" else None
                os.remove(os.path.join(root, "two.txt"))
                os.remove(os.path.join(root, "nil.dat"))
                arch0 = open(os.path.join(root, rel), "rb").read()
                before = snapshot(root)
                if sc == "list":
                    st, out, err = launch(tool, la, ["-t"] + vf + [rel], root)
                    after = snapshot(root)
                    if st != 0 or "ONE.BAS" not in out.replace(" ", "").replace("ONE.BAS", "ONE.BAS") and "ONE" not in out:
                        bad = {"list": [st, out[:200], err[-200:]]}
                    elif after != before:
                        bad = {"list changed the file system": [k for k in set(before) | set(after) if before.get(k) != after.get(k)][:4]}
                elif sc == "add":
                    st, out, err = launch(tool, la, ["-r"] + vf + into + [rel, "one.bas"], root)
                    after = snapshot(root)
                    changed = sorted(k for k in set(before) | set(after) if before.get(k) != after.get(k) and not k.endswith("/"))
                    want = [os.path.join(INTO, os.path.basename(rel))] if case.get("into") else [rel]
                    if st != 0:
                        bad = {"add failed": [st, err[-300:]]}
                    elif changed != want:
                        bad = {"add wrote": changed, "want": want, "into": bool(case.get("into"))}
                else:
                    base = INTO if case.get("into") else os.path.dirname(rel)
                    mst, mfx = model_cli(ctx, tool, ["-x"] + vf + into + [rel], root)
                    st, out, err = launch(tool, la, ["-x"] + vf + into + [rel], root)
                    after = snapshot(root)
                    mpaths = sorted(os.path.normpath(p) for k, p in mfx if k == 0)
                    rpaths = sorted(k for k in after if before.get(k) != after[k] and not k.endswith("/"))
                    if mst != st or mpaths != rpaths:
                        dis = {"extract model status/paths": [mst, mpaths[:4]], "real": [st, rpaths[:4]]}
                    want = expected_outputs(tool, base)
                    if st != 0:
                        bad = {"extract failed": [st, err[-300:]]}
                    else:
                        for p, c in want.items():
                            if after.get(os.path.normpath(p)) != c:
                                bad = {"extract did not write": p, "into": bool(case.get("into")), "new": sorted(k for k in after if k not in before)[:6]}
                                break
                        extra = [k for k in after if before.get(k) != after[k] and not k.endswith("/") and os.path.normpath(k) not in {os.path.normpath(p) for p in want}]
                        if bad is None and extra:
                            bad = {"extract wrote elsewhere": extra[:4], "into": bool(case.get("into"))}
                        if bad is None and after.get(rel) != arch0:
                            bad = {"extract modified the archive": True}
                    if bad is None:
                        # again, over the earlier results: must succeed and rewrite them
                        # every earlier result is replaced by something else: shorter for one, longer than the member for the others
                        for n_, p_ in enumerate(want):
                            open(os.path.join(root, os.path.normpath(p_)), "wb").write(b"x" if n_ == 1 else b"stale, and longer than what the archive holds " * 40)
                        st2, out2, err2 = launch(tool, la, ["-x"] + vf + into + [rel], root)
                        again = snapshot(root)
                        if st2 != 0:
                            bad = {"second extraction failed": [st2, err2[-300:]]}
                        else:
                            for p_, c_ in want.items():
                                if again.get(os.path.normpath(p_)) != c_:
                                    bad = {"second extraction did not overwrite": os.path.normpath(p_), "len": [len(again.get(os.path.normpath(p_)) or b""), len(c_)]}
                                    break
        sig = [tool, la, sc] + ([str(case.get("into"))] if "into" in case else []) + (["into:" + case["into_pos"]] if case.get("into_pos") else []) + (["ext:" + case["ext_spelling"]] if case.get("ext_spelling") else []) + (["link"] if case.get("link") else []) + (["nested-into"] if case.get("nested") else []) + (["no-source"] if case.get("nsrc") == 0 else []) + (["old"] if case.get("old") else [])
        skipped = dis == "unmodelled"
        if skipped:
            dis = None
        detail = {"disagreement": dis, "oracle": bad} if (dis or bad) else None
        return CaseResult(dis is None, bad is None, detail, sig, sc != "help", skipped=skipped)
    finally:
        shutil.rmtree(root, ignore_errors=True)
        shutil.rmtree(mroot, ignore_errors=True)


def summarise(case):
    return case


def violation_class(case, detail):
    o = (detail or {}).get("oracle") or {}
    return [case["tool"], case["scenario"], bool(case.get("into"))] + sorted(o)[:1]


def _kf_create_into(case, detail):
    return case.get("scenario") in ("create", "add") and bool(case.get("into"))


known_predicates = {"create_or_add_with_into": _kf_create_into}
