"""shared by C13, C14, C15"""
import ast
import os
import re

from framework import REPO, text_points, points_text
from props.tapecommon import CaseDir, run_tool


def run_lst2bas(ctx, text, ascii_mode=False, name="prog.lst"):
    """-> (result, bytes of the .bas written or None)"""
    cd = CaseDir(ctx)
    try:
        cd.put(name, text.encode("utf-8", "surrogateescape"))
        r = run_tool(ctx, "lst2bas", [name + (",a" if ascii_mode else "")], cd)
        out = cd.get(name[:-3] + "bas")
        return r, out
    finally:
        cd.close()


def run_bas2lst(ctx, data, dos=False, name="prog.bas"):
    cd = CaseDir(ctx)
    try:
        cd.put(name, data)
        r = run_tool(ctx, "bas2lst", (["--dos"] if dos else []) + [name + ",a"], cd)
        out = cd.get(name[:-3] + "lst")
        return r, out
    finally:
        cd.close()


# the reference vocabulary, read from the Spec file (NOT from the tool)
_vocab = None


def vocabulary():
    global _vocab
    if _vocab is None:
        here = os.path.dirname(os.path.dirname(os.path.dirname(os.path.abspath(__file__))))
        txt = open(os.path.join(here, "coq", "Spec", "Mo5Basic.v")).read()
        body = txt[txt.index("Definition mo5_vocabulary"):]
        body = body[: body.index("].")]
        _vocab = []
        for m in re.finditer(r"\(\[([0-9; ]*)\], (\d+)\)", body):
            _vocab.append(("".join(chr(int(x)) for x in m.group(1).split(";") if x.strip()), int(m.group(2))))
    return _vocab


def split_listing_lines(text):
    t = text.replace("\r\n", "\n").replace("\r", "\n")
    ls = t.split("\n")
    if ls and ls[-1] == "":
        ls.pop()
    return ls
