"""C01 — tape round trip: create, then list/extract, returns every file intact"""
import os

from framework import scale, CaseResult, text_points, points_text
from props.tapecommon import (CaseDir, TAPE, encoded_size, gen_content, gen_source_path, materialize, model_outcome,
                              real_path_of, run_tool, status_class)

GEN_FILES = ["GenTape"]
RULE = ("ordered lists of 0..12 sources with pairwise distinct 8.3 ASCII catalogue names (any case, with/without extension, "
        "with/without ',a', reached through plain, dotted, './' and '..' directories), contents boundary-first "
        "(0,1,253..257,507..510, k*254+-1) and adversarial (payloads imitating 01 01 01 3C 5A, whole fake blocks, FF, checksum-wrap sums), "
        "encoded size below the 21504-byte tape; quiet/verbose; archive relative, in a sub-directory, or absolute. "
        "signature = (n files bucket, sorted size classes, kinds, flags{dir-dot, marker-payload, empty-file, abs-archive, verbose}); "
        "non-trivial = at least one data-bearing file and (several files or a boundary size or a marker-imitating payload)")
ASSUMPTIONS = ["names are ASCII; extracted files are observed in a private scratch directory (what open(...,'wb') and the kernel then do is observed, not modelled)"]


def gen_case(rng, fit=True):
    n = rng.choice([0, 1, 1, 2, 2, 3, 4, 6, 9, 12])
    used = set()
    srcs = []
    total = 0
    for _ in range(n):
        spec = gen_content(rng)
        size = 35 + 21 * ((spec["len"] + 253) // 254) + spec["len"] + 21
        if fit and total + size >= TAPE:
            spec = {"hex": ""}
            size = 56
            if total + size >= TAPE:
                break
        total += size
        srcs.append({"arg": gen_source_path(rng, used), "content": spec})
    arch = rng.choice(["t.k7", "t.k7", "o+/t.k7", "./t.k7", "ABS/t.k7", "o+.d/x.K7", "noext", "o+/../t.k7", "../up+/t.k7", "ABS/../abs2/t.k7"])
    return {"sources": srcs, "verbose": rng.random() < 0.4, "archive": arch}


def enc_size(n):
    return 35 + 21 * ((n + 253) // 254) + n + 21


def gen_frontier_case(rng, slacks=None):
    """A set that fills the tape to within a few bytes of its last usable byte (TAPE - 1), mixing sizes on the 254-byte block boundary."""
    used = set()
    srcs = []
    total = 0
    for _ in range(rng.choice([1, 2, 3, 5])):
        ln = rng.choice([0, 0, 254, 254, 508, 253, 255, 1, rng.randint(0, 900)])
        total += enc_size(ln)
        srcs.append({"arg": gen_source_path(rng, used), "content": gen_content(rng, ln)})
    slack = rng.choice(slacks or [0, 0, 1, 2, 20, 21, 22, 41, 42, 43, 63, 64, rng.randint(0, 130)])
    target = TAPE - 1 - slack - total
    ln = next((k for k in range(max(0, target - 56 - 21 * 90), target) if enc_size(k) == target), None)
    if ln is None:
        ln = next(k for k in range(target, 0, -1) if enc_size(k) <= target)
    srcs.insert(rng.randint(0, len(srcs)), {"arg": gen_source_path(rng, used), "content": gen_content(rng, ln)})
    return {"sources": srcs, "verbose": rng.random() < 0.4, "archive": rng.choice(["t.k7", "ABS/t.k7"])}


def gen_cases(rng, tier):
    n = scale(tier, 250, 5000)
    nf = scale(tier, 30, 600)
    cases = [gen_case(rng) for _ in range(n)] + [gen_frontier_case(rng) for _ in range(nf)]
    # the exact frontier on one file: 19809 bytes -> 21503 encoded (accepted)
    cases.append({"sources": [{"arg": "big.bin", "content": {"rand": 7, "len": 19809}}], "verbose": False, "archive": "t.k7"})
    cases.append({"sources": [{"arg": "a.bas", "content": {"pat": "0101013c5a", "len": 254}}, {"arg": "b.bas,a", "content": {"hex": ""}},
                              {"arg": "c", "content": {"pat": "0101013c5aff0200", "len": 509}}], "verbose": True, "archive": "t.k7"})
    # pairwise distinct 8.3 names whose letters coincide once the dot is removed, or that differ by the dot's place only
    fam = ["AB.C", "A.BC", "abc", "x1.bas", "X.1BA", "x1b.as", "ABCDEFGH.IJ", "ABCDEFG.HIJ", "a.b", "ab"]
    cases.append({"sources": [{"arg": a, "content": {"pat": "%02x" % (65 + k), "len": 10 + 254 * (k % 3)}} for k, a in enumerate(fam)], "verbose": False, "archive": "t.k7"})
    cases.append({"sources": [{"arg": a, "content": {"rand": k, "len": 5 * k}} for k, a in enumerate(reversed(fam))], "verbose": True, "archive": "o+/t.k7"})
    # contents full of line ends, Ctrl-Z and byte order marks under every kind: content is never rewritten on its way to the tape
    eol = "31302050520d0a3230200d0a0d0a1a"
    cases.append({"sources": [{"arg": a, "content": {"pat": pz, "len": 200 + 17 * k}} for k, (a, pz) in enumerate([("list.bas,a", eol), ("prog.bas", eol), ("data.csv", eol), ("bin.bin", eol), ("noext", eol),
                                                                                                             ("bom.bas,a", "efbbbf" + eol), ("LF.BAS,A", "0a0d0a0a"), ("cr.csv", "0d0d0a")])],
                  "verbose": False, "archive": "t.k7"})
    return cases, {"random": n, "tape filled to within 0..130 bytes of its capacity": nf, "fixed": 4}


def arch_path(case, cd):
    a = case["archive"]
    if a.startswith("ABS/"):
        return os.path.join(cd.root, "abs", a[4:])
    return a


def setup(case, cd):
    fs = []
    contents = []
    for s in case["sources"]:
        data = materialize(s["content"])
        contents.append(data)
        rp = real_path_of(s["arg"])
        cd.put(rp, data)
        fs.append([text_points(rp), data])
    arch = arch_path(case, cd)
    d = os.path.dirname(os.path.normpath(os.path.join(cd.cwd, arch)))
    os.makedirs(d, exist_ok=True)
    # every directory named on the way must exist too (x/../y needs x)
    parts = os.path.join(cd.cwd, arch).split(os.sep)
    for k in range(1, len(parts)):
        if parts[k] == "..":
            os.makedirs(os.sep.join(parts[:k]), exist_ok=True)
    return fs, contents, arch


def features(case, contents):
    f = set()
    for s, c in zip(case["sources"], contents):
        n = len(c)
        f.add("sz:" + ("0" if n == 0 else "k254" if n % 254 == 0 else "k254+1" if n % 254 == 1 else "k254-1" if n % 254 == 253 else "multi" if n > 254 else "small"))
        if b"\x01\x01\x01\x3c\x5a" in c:
            f.add("marker-payload")
        a = s["arg"]
        if "." in os.path.dirname(a):
            f.add("dir-dot")
        b = os.path.basename(a)
        f.add("ext:" + (b.rsplit(".", 1)[1].upper() if "." in b else "none")[:5])
    if case["verbose"]:
        f.add("verbose")
    if case["archive"].startswith("ABS/"):
        f.add("abs-archive")
    f.add("n:" + str(min(len(case["sources"]), 5)))
    return sorted(f)


def expected_names(case):
    out = []
    for s in case["sources"]:
        b = os.path.basename(s["arg"])
        if "." in b:
            name, ext = b.rsplit(".", 1)
        else:
            name, ext = b, ""
        ext = ext.upper()
        if ext == "BAS,A":
            ext = "BAS"
        out.append((name.upper()[:8], ext[:3]))
    return out


def flow(case, ctx, cd):
    """create -> list -> extract on the implementation and on the model; returns observations"""
    fs, contents, arch = setup(case, cd)
    v = case["verbose"]
    vflag = ["-v"] if v else []
    obs = {"contents": contents, "arch": arch}
    r = run_tool(ctx, "tar", ["-c"] + vflag + [arch] + [s["arg"] for s in case["sources"]], cd)
    obs["create"] = r
    obs["archive_bytes"] = cd.get(arch)
    m = model_outcome(ctx.model.call("tar_create", v, fs, text_points(arch), [text_points(s["arg"]) for s in case["sources"]]))
    obs["m_create"] = m
    if r.get("status") == 0 and obs["archive_bytes"] is not None:
        raw = obs["archive_bytes"]
        rl = run_tool(ctx, "tar", ["-t"] + vflag + [arch], cd)
        obs["list"] = rl
        obs["m_list"] = model_outcome(ctx.model.call("tar_list", v, raw))
        obs["m_extract"] = model_outcome(ctx.model.call("tar_extract", v, [], text_points(arch), raw))
        # earlier results may already lie where the members go (longer, shorter, as long): extraction replaces them entirely
        for n_, (p_, c_) in enumerate(obs["m_extract"]["effects"]):
            q = os.path.normpath(os.path.join(cd.cwd, p_))
            if n_ % 2 == 0 and not os.path.lexists(q) and os.path.isdir(os.path.dirname(q)) and q.startswith(cd.root):
                with open(q, "wb") as f_:
                    f_.write(b"earlier result " * (len(c_) // 10 + 50) if n_ % 4 == 0 else b"e")
        before = cd.snapshot()
        rx = run_tool(ctx, "tar", ["-x"] + vflag + [arch], cd)
        obs["extract"] = rx
        after = cd.snapshot()
        obs["changed"] = {k: after[k] for k in after if before.get(k) != after[k]}
        obs["removed"] = [k for k in before if k not in after]
    return obs


def compare(obs, cd):
    """model vs implementation on every compared observable; returns None or a description"""
    r, m = obs["create"], obs["m_create"]
    if status_class(r.get("status")) != status_class(m["status"]) or (r.get("exc") not in (None, "SystemExit")) != (m["crash"] is not None):
        return {"create status": [r.get("status"), r.get("exc"), r.get("msg")], "model": [m["status"], m["crash"]]}
    if r["lines"] != m["lines"]:
        return {"create lines": r["lines"][:5], "model": m["lines"][:5]}
    mw = {cd.rel(p): c for p, c in m["effects"]}
    iw = {p: cd.get(os.path.join("..", p)) for p in r["writes"]}
    if mw != iw:
        return {"create writes": sorted(iw), "model": sorted(mw), "same_keys": sorted(mw) == sorted(iw)}
    for k in ("list", "extract"):
        if k in obs:
            r, m = obs[k], obs["m_" + k]
            if status_class(r.get("status")) != status_class(m["status"]):
                return {k + " status": [r.get("status"), r.get("exc"), r.get("msg")], "model": [m["status"], m["crash"]]}
            if r["lines"] != m["lines"]:
                return {k + " lines": r["lines"][:5], "model": m["lines"][:5]}
            if k == "extract":
                mw = [cd.rel(p) for p, c in m["effects"]]
                if mw != r["writes"]:
                    return {"extract writes": r["writes"][:6], "model": mw[:6]}
                for p, c in m["effects"]:
                    if obs["changed"].get(cd.rel(p)) != c and cd.get(os.path.join("..", cd.rel(p))) != c:
                        return {"extract content differs": cd.rel(p)}
    return None


def oracle(case, obs, cd):
    """C01 as stated, judged on the implementation's own behaviour (no model involved)"""
    contents = obs["contents"]
    if encoded_size(contents) >= TAPE:
        return None  # outside C01's quantifier (C09 decides)
    r = obs["create"]
    if r.get("status") != 0 or obs["archive_bytes"] is None:
        return {"create failed on a list that fits": [r.get("status"), r.get("exc"), r.get("msg")]}
    names = expected_names(case)
    want_list = [f"{n}.{e}" for n, e in names]
    rl = obs["list"]
    got = [l.split("\t")[0] for l in rl["lines"]] if case["verbose"] else rl["lines"]
    if rl.get("status") != 0 or got != want_list:
        return {"list": got[:6], "want": want_list[:6], "status": rl.get("status")}
    rx = obs["extract"]
    if rx.get("status") != 0:
        return {"extract status": [rx.get("status"), rx.get("exc"), rx.get("msg")]}
    adir = os.path.dirname(os.path.normpath(os.path.join(cd.cwd, obs["arch"])))
    for (n, e), c in zip(names, contents):
        p = os.path.join(adir, f"{n}.{e}")
        if not os.path.isfile(p):
            return {"missing after extract": os.path.relpath(p, cd.root)}
        if open(p, "rb").read() != c:
            return {"content differs after extract": os.path.relpath(p, cd.root), "len": len(c)}
    # nothing else may appear or change: only the extracted names next to the archive
    allowed = {os.path.relpath(os.path.join(adir, f"{n}.{e}"), cd.root) for n, e in names}
    extra = [k for k in obs["changed"] if k not in allowed]
    if extra or obs["removed"]:
        return {"unexpected files touched": extra[:5], "removed": obs["removed"][:5]}
    return None


def run_case(case, ctx):
    cd = CaseDir(ctx)
    try:
        obs = flow(case, ctx, cd)
        dis = compare(obs, cd)
        bad = oracle(case, obs, cd)
        f = features(case, obs["contents"])
        nontrivial = any(len(c) > 0 for c in obs["contents"]) and (len(case["sources"]) > 1 or any(x.startswith("sz:k254") or x == "marker-payload" for x in f))
        detail = None
        if dis or bad:
            detail = {"disagreement": dis, "oracle": bad}
        return CaseResult(dis is None, bad is None, detail, f, nontrivial)
    finally:
        cd.close()


def shrink_candidates(case):
    s = case["sources"]
    for k in range(len(s)):
        yield dict(case, sources=s[:k] + s[k + 1:])
    for k, x in enumerate(s):
        c = x["content"]
        n = len(materialize(c))
        for m in (0, 1, n // 2, n - 1):
            if 0 <= m < n:
                yield dict(case, sources=s[:k] + [dict(x, content={"pat": "41", "len": m})] + s[k + 1:])
        b = os.path.basename(x["arg"])
        if b != x["arg"]:
            yield dict(case, sources=s[:k] + [dict(x, arg=b)] + s[k + 1:])
    if case["verbose"]:
        yield dict(case, verbose=False)
    if case["archive"] != "t.k7":
        yield dict(case, archive="t.k7")


def violation_class(case, detail):
    o = (detail or {}).get("oracle") or {}
    return sorted(o)[0] if o else "c01"


def summarise(case):
    return {"archive": case["archive"], "verbose": case["verbose"], "sources": [[s["arg"], s["content"]] for s in case["sources"]][:6]}
