"""shared by the tape properties (C01, C03, C08, C09, tape halves of C12, C18, C20)"""
import base64
import os
import random
import shutil
import tempfile

from framework import text_points, points_text

TAPE = 21504


# ---------------------------------------------------------------- contents
def materialize(spec):
    """content spec -> bytes.  {'hex':..} | {'rand':seed,'len':n} | {'pat':hex,'len':n}"""
    if "hex" in spec:
        return bytes.fromhex(spec["hex"])
    n = spec["len"]
    if "rand" in spec:
        return random.Random(spec["rand"]).randbytes(n)
    pat = bytes.fromhex(spec["pat"]) or b"\0"
    return (pat * (n // len(pat) + 1))[:n]


ADVERSARIAL = ["0101013c5a", "01010101010101010101010101010101" + "3c5a", "3c5a", "01", "ff", "00", "0101013c5a000200",
               "0101013c5aff0200", "0101013c5a0010", "e5", "ff0200", "efbbbf", "efbbbf31302041", "fffe3100", "0d0a", "1a", "20"]
SIZES = [0, 1, 2, 3, 13, 14, 127, 128, 252, 253, 254, 255, 256, 257, 507, 508, 509, 510, 761, 762, 763, 1016, 1270]


def gen_content(rng, size=None):
    if size is None:
        r = rng.random()
        if r < 0.7:
            size = rng.choice(SIZES)
        elif r < 0.9:
            size = rng.randint(0, 1200)
        else:
            k = rng.randint(1, 12)
            size = k * 254 + rng.choice([-1, 0, 1])
    r = rng.random()
    if r < 0.45:
        return {"rand": rng.randint(0, 1 << 30), "len": size}
    if r < 0.85:
        return {"pat": rng.choice(ADVERSARIAL), "len": size}
    # checksum-wrap sums: bytes summing to a multiple of 256
    return {"pat": rng.choice(["80", "ff01", "40c0", "0100ff"]), "len": size}


NAME_CHARS = "ABCDEFGHIJKLMNOPQRSTUVWXYZabcdefghijklmnopqrstuvwxyz0123456789_-"
EXTS = ["bas", "BAS", "Bas", "bas,a", "BAS,A", "bAs,A", "csv", "CSV", "bin", "txt", "dat", "b", "ba", "", "c", "lst", "k7", "a"]


def gen_name(rng, maxlen=8):
    n = rng.choice([1, 2, 3, 5, 7, 8, 8]) if maxlen == 8 else rng.randint(1, maxlen)
    s = "".join(rng.choice(NAME_CHARS) for _ in range(n))
    if rng.random() < 0.06:
        # legal 8.3 characters that mean something to a command-line parser or a shell when they come first ('-' excepted: argparse owns it)
        s = rng.choice("@+=~#%&!^{}[]()$;'*?,") + s[1:]
    return ("X" + s[1:]) if s.startswith("-") else s  # a leading '-' would be an option for argparse


def gen_source_path(rng, used, longnames=False, dirs=True):
    """a source argument with a catalogue name not used yet (distinctness is on the 8.3 catalogue name)"""
    for _ in range(200):
        name = gen_name(rng, 14 if (longnames and rng.random() < 0.4) else 8)
        r = rng.random()
        if r < 0.12:
            arg = name  # no extension at all
            ext = ""
        else:
            ext = rng.choice(EXTS)
            if longnames and rng.random() < 0.3:
                ext = rng.choice(["extension", "basic", "abcd"])
            arg = name + "." + ext
        cat = (name.upper()[:8], ("BAS" if ext.upper() == "BAS,A" else ext.upper())[:3])
        if cat in used:
            continue
        used.add(cat)
        d = ""
        if dirs:
            d = rng.choice(["", "", "", "s+/", "d+.x/", "a+.b.c/", "./", "./d+.x/", "s+/../"])
        return d + arg
    raise RuntimeError("name space exhausted")


def real_path_of(arg):
    """the file a source argument designates (',a' is not part of the file name)"""
    base = os.path.basename(arg)
    dot = base.rfind(".")
    if dot >= 0 and base[dot + 1:].upper() == "BAS,A":
        return arg[:-2]
    return arg


def encoded_size(contents):
    """35 per leader, 21 + chunk per data block, 21 per end block (254-byte chunks)"""
    t = 0
    for c in contents:
        n = len(c)
        blocks = (n + 253) // 254
        t += 35 + 21 * blocks + n + 21
    return t


# ---------------------------------------------------------------- running
class CaseDir:
    def __init__(self, ctx):
        self.root = tempfile.mkdtemp(dir=ctx.tmp)
        self.cwd = os.path.join(self.root, "w")
        os.makedirs(self.cwd)

    def put(self, rel, data):
        os.makedirs(os.path.dirname(os.path.join(self.cwd, rel)), exist_ok=True)
        p = os.path.normpath(os.path.join(self.cwd, rel))
        os.makedirs(os.path.dirname(p), exist_ok=True)
        with open(p, "wb") as f:
            f.write(data)
        return p

    def get(self, rel):
        p = os.path.normpath(os.path.join(self.cwd, rel))
        if not os.path.isfile(p):
            return None
        with open(p, "rb") as f:
            return f.read()

    def snapshot(self):
        """relative path -> bytes for every regular file under root"""
        out = {}
        for d, _, fs in os.walk(self.root):
            for f in fs:
                p = os.path.join(d, f)
                try:
                    out[os.path.relpath(p, self.root)] = open(p, "rb").read()
                except OSError:
                    out[os.path.relpath(p, self.root)] = None
        return out

    def rel(self, path):
        """canonical form of a path used by the tool (relative to cwd or absolute) -> relative to root"""
        p = os.path.normpath(os.path.join(self.cwd, path))
        return os.path.relpath(p, self.root)

    def close(self):
        shutil.rmtree(self.root, ignore_errors=True)


def run_tool(ctx, tool, argv, cd, timeout=30):
    r = ctx.impl.call({"kind": "cli", "tool": tool, "argv": argv, "cwd": cd.cwd, "timeout": timeout})
    out = base64.b64decode(r.get("stdout_b64", "")).decode("utf-8", "surrogateescape")
    lines = out.split("\n")
    if lines and lines[-1] == "":
        lines.pop()
    r["lines"] = lines
    r["writes"] = [cd.rel(e[1]) for e in r.get("effects", []) if e[0] == "open_w"]
    r["other_effects"] = [e for e in r.get("effects", []) if e[0] not in ("open_w", "open_r")]
    return r


def _ptxt(p):
    return p.decode("latin1") if isinstance(p, (bytes, bytearray)) else points_text(p)


def model_outcome(o, cd=None):
    """decode the driver's outcome: (status lines effects crash)"""
    status, lines, effects, crash = o
    return {
        "status": status,
        "lines": [points_text(l) for l in lines],
        "effects": [(_ptxt(e[0]), bytes(e[1])) for e in effects if len(e) == 2],
        "mkdirs": [_ptxt(e[0]) for e in effects if len(e) == 1],
        "crash": crash[0] if crash else None,
    }


def impl_status(r):
    """0 / non-zero exit class as a program would show it"""
    if r.get("exc") == "Timeout":
        return "timeout"
    return r.get("status")


def status_class(s):
    return "ok" if s == 0 else ("timeout" if s == "timeout" else "fail")
