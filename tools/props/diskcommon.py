"""shared by the disk properties (C02, C04..C07, C10, C11, disk halves of C12, C18, C20)"""
import os
import random
import re

from framework import text_points, points_text
from props.tapecommon import CaseDir, materialize, run_tool, status_class, real_path_of

SIDE_FD = 327680
SIDE_SD = 655360
FULL = 320280  # bytes that fill a freshly formatted side: 157 blocks * 8 sectors * 255


def tool_of(is_fd):
    return "fdar" if is_fd else "sdar"


def ext_of(is_fd):
    return ".fd" if is_fd else ".sd"


# ---------------------------------------------------------------- generators
DSIZES = [0, 1, 2, 254, 255, 256, 509, 510, 511, 2039, 2040, 2041, 2294, 2295, 2296, 4079, 4080, 4081, 20400, 40800]
DNAME = "ABCDEFGHIJKLMNOPQRSTUVWXYZabcdefghijklmnopqrstuvwxyz0123456789_-"
DEXTS = ["bas", "BAS", "bas,a", "BAS,A", "bin", "BIN", "txt", "Txt", "dat", "foo", "c", "", "lst", "b", "ba", "a"]


def gen_dsize(rng):
    r = rng.random()
    if r < 0.55:
        return rng.choice(DSIZES)
    if r < 0.8:
        return rng.randint(0, 5000)
    k = rng.randint(1, 30)
    return k * rng.choice([255, 2040]) + rng.choice([-1, 0, 1])


def gen_dcontent(rng, size=None):
    size = gen_dsize(rng) if size is None else size
    r = rng.random()
    if r < 0.5:
        return {"rand": rng.randint(0, 1 << 30), "len": size}
    # fillers and table-like bytes, then what text tools like to 'clean': a UTF-8 byte order mark, other leading high bytes, line ends, Ctrl-Z, blanks
    return {"pat": rng.choice(["e5", "ff", "00", "41", "0102030405060708090a0b0c0d0e0f", "fe", "c1", "efbbbf", "efbbbf31302041", "bfbbef20", "fffe3100", "0d0a", "1a41", "2009"]), "len": size}


def gen_dname(rng, used, auto_bat=False):
    for _ in range(300):
        if auto_bat and rng.random() < 0.05:
            name, ext = rng.choice(["auto", "AUTO", "Auto"]), rng.choice(["bat", "BAT", "bat", "bat,a", "BAT,A"])
        elif used and rng.random() < 0.12:
            # a base name already taken on this side, with another extension (GAME.BAS then GAME.BIN): distinct 8.3 names
            name, ext = rng.choice(sorted(used))[0].lower(), rng.choice(DEXTS)
        elif rng.random() < 0.06:
            # whole names that spell an extension or a special name of the documentation, with any extension or none
            name, ext = rng.choice(["bas", "BAS", "bin", "Bin", "txt", "TXT", "bat", "auto", "AUTO", "dat", "a"]), rng.choice(["", "", "", "bas", "bat", "txt", "a", "bat,a", "txt,a", "bin,A"])
        elif rng.random() < 0.04:
            # near misses of the documented rules: a whole name that only ends or begins like AUTO.BAT, a dot-less name that ends like an extension rule
            name, ext = rng.choice([("noauto", "bat"), ("xauto", "BAT"), ("autox", "bat"), ("my.auto", "bat"), ("auto", "ba"), ("auto", "bas"), ("uto", "bat"),
                                    ("xbas", ""), ("abin", ""), ("atxt", ""), ("x.bas", "x"), ("bas", "bin")])
        else:
            n = rng.choice([1, 2, 3, 5, 7, 8, 8])
            name = "".join(rng.choice(DNAME) for _ in range(n))
            if rng.random() < 0.05:
                name = rng.choice("@+=~#%&!^{}[]()$;'*?,") + name[1:]
            if name.startswith("-"):
                name = "X" + name[1:]
            ext = rng.choice(DEXTS)
            if rng.random() < 0.05:
                # extensions of 4..9 characters (and names of 9): refused with a message, never stored under a cut name
                ext = rng.choice(["text", "data", "html", "json5", "extensio", "extension", "bas2"])
        arg = name + ("." + ext if ext != "" or rng.random() < 0.5 else "")
        if arg.endswith(".") and ext == "":
            pass
        cat = (name.upper(), ext.upper()[:-2] if ext.upper().endswith(",A") else ext.upper())
        if cat in used:
            continue
        used.add(cat)
        return arg
    raise RuntimeError("names exhausted")


def gen_sources(rng, n, eos_rate=0.15, dirs=True, big_rate=0.0):
    """list of source items: {'arg':..,'content':..} or {'eos': '--eos'}; names distinct per side"""
    out = []
    used = set()
    paths = set()
    for _ in range(n):
        if rng.random() < eos_rate:
            out.append({"eos": rng.choice(["--eos", "--EOS", "--Eos"])})
            used = set()
            continue
        size = None
        if rng.random() < big_rate:
            size = rng.choice([FULL - 2040, FULL - 1, FULL, FULL + 1, FULL + 2040, 330000, 100000, 200000])
        for _try in range(50):
            d = rng.choice(["", "", "", "s+/", "d+.x/", "./", "a+.b/"]) if dirs else ""
            arg = d + gen_dname(rng, used, auto_bat=True)
            # one host file per source argument, over the whole list: x.bas on one side and x.bas,a on another would be one file with two contents
            hp = os.path.normpath(arg[:-2] if arg[-2:].upper() == ",A" else arg)
            if hp not in paths:
                paths.add(hp)
                break
        else:
            raise RuntimeError("host paths exhausted")
        out.append({"arg": arg, "content": gen_dcontent(rng, size)})
    return out


def setup_sources(cd, sources):
    fs = []
    contents = []
    seen_paths = {}
    for s in sources:
        if "eos" in s:
            contents.append(None)
            continue
        data = materialize(s["content"])
        contents.append(data)
        rp = real_path_of_disk(s["arg"])
        if seen_paths.get(rp, data) != data:
            raise RuntimeError("generator defect: two sources of one case share the host path %r with different contents" % rp)
        seen_paths[rp] = data
        cd.put(rp, data)
        fs.append([text_points(rp), data])
    return fs, contents


def real_path_of_disk(arg):
    return arg[:-2] if arg[-2:].upper() == ",A" else arg


def argv_sources(sources):
    return ["--"] + [s["eos"] if "eos" in s else s["arg"] for s in sources]


def model_srcs(sources):
    return [text_points(s["eos"] if "eos" in s else s["arg"]) for s in sources]


def expected_entry(arg):
    """catalogue (name8, ext3, kind, flag) the README documents for a source argument; None if skipped (too long)"""
    base = os.path.basename(arg)
    clean = real_path_of_disk(base)
    if "." in base:
        dot = base.rfind(".")
        name, ext, extopt = base[:dot].upper(), clean[dot + 1:].upper(), base[dot + 1:].upper()
    else:
        name, ext, extopt = base.upper(), "", ""
    if len(name) > 8 or len(ext) > 3:
        return None
    if name == "AUTO" and ext == "BAT":
        kind, flag = 0, 0
    elif extopt == "BAS,A":
        kind, flag, ext = 0, 255, "BAS"
    elif extopt == "BAS":
        kind, flag = 0, 0
    elif extopt == "BIN":
        kind, flag = 2, 0
    elif extopt == "TXT":
        kind, flag = 3, 255
    else:
        kind, flag = 1, 0
    return (name.ljust(8).encode(), ext.ljust(3).encode(), kind, flag)


# ---------------------------------------------------------------- text comparison (percent fields)
_PCT_IMPL = re.compile(r"\((\d+)\.(\d)%\)")
_PCT_MODEL = re.compile(r"\(%(\d+)/(\d+)%\)")


def normalise_pct(impl_text, model_text):
    """the single float of the code: each printed x.y% must be a correct rounding of the model's exact
    fraction; both are then replaced by the same token.  Returns (impl', model', error|None)."""
    mi = list(_PCT_IMPL.finditer(impl_text))
    mm = list(_PCT_MODEL.finditer(model_text))
    if len(mi) != len(mm):
        return impl_text, model_text, f"{len(mi)} percent fields printed, {len(mm)} expected"
    for a, b in zip(mi, mm):
        t = int(a.group(1)) * 10 + int(a.group(2))
        num, den = int(b.group(1)), int(b.group(2))
        if den == 0 or 2 * abs(t * den - 1000 * num) > den:
            return impl_text, model_text, f"printed {a.group(0)} for {num}/{den}"
    return _PCT_IMPL.sub("(PCT)", impl_text), _PCT_MODEL.sub("(PCT)", model_text), None


def dmodel_outcome(o):
    status, text, effects, crash, log = o
    items = []
    for x in log:
        if len(x) == 1:
            items.append(("side", x[0]))
        else:
            items.append(("file", x[0], points_text(x[1]), points_text(x[2]), x[3], bool(x[4]), bool(x[5]), x[6], x[7]))
    return {"status": status, "text": points_text(text), "effects": [(points_text(e[0]), bytes(e[1])) for e in effects if len(e) == 2],
            "mkdirs": [points_text(e[0]) for e in effects if len(e) == 1], "crash": crash[0] if crash else None, "log": items}


def run_disk(ctx, is_fd, argv, cd, timeout=60):
    r = run_tool(ctx, tool_of(is_fd), argv, cd, timeout=timeout)
    r["text"] = "".join(l + "\n" for l in r["lines"])
    r["mkdirs"] = [cd.rel(e[1]) for e in r.get("effects", []) if e[0] == "os.mkdir"]
    return r


OK_Q = re.compile(r"^  (.*)\.\.\.(ok|ignored|too big)$")
OK_V = re.compile(r"^  (.*?)  (\S+) +(\S+) *\.\.\.\.\.\.(?:too big|  *(\d+) Bytes?  *(\d+) blocks? ?)$")
LIST_V = re.compile(r"^  (.{8})\.(.{3})  (\S+) +(\S+) +(\d+) Bytes? +(\d+) blocks? ?$")
LIST_Q = re.compile(r"^  (.*)$")


def parse_report(text, verbose, listing):
    """the printed report as data: list of sides, each a list of (label, stored, size|None, blocks|None)"""
    sides = []
    cur = None
    for line in text.split("\n"):
        m = re.match(r"^Side (\d+)$", line)
        if m:
            cur = []
            sides.append(cur)
            continue
        if line == "TOTAL":
            cur = None
            continue
        if cur is None or line in ("---", "") or line.startswith("has into"):
            continue
        if listing:
            if verbose:
                m = LIST_V.match(line)
                if m:
                    cur.append((m.group(1).rstrip() + "." + m.group(2).rstrip(), True, int(m.group(5)), int(m.group(6))))
            else:
                m = LIST_Q.match(line)
                if m:
                    cur.append((m.group(1), True, None, None))
        elif verbose:
            m = OK_V.match(line)
            if m:
                g = m.group(1)
                if len(g) == 12 and g[8] == ".":      # read actions print the padded 8.3 fields
                    label = g[:8].rstrip() + "." + g[9:].rstrip()
                elif "." in g:                         # update actions print the injector's own name and extension
                    label = g.rsplit(".", 1)[0].rstrip() + "." + g.rsplit(".", 1)[1].rstrip()
                else:
                    label = g
                cur.append((label, m.group(4) is not None, int(m.group(4)) if m.group(4) else None, int(m.group(5)) if m.group(5) else None))
        else:
            m = OK_Q.match(line)
            if m and m.group(2) != "ignored":
                cur.append((m.group(1), m.group(2) == "ok", None, None))
    return sides


def log_as_report(log, verbose):
    sides = []
    for it in log:
        if it[0] == "side":
            sides.append([])
        elif sides:
            _, side, name, ext, kind, ascii_, stored, size, blocks = it
            sides[-1].append((name.rstrip() + "." + ext.rstrip(), stored, size if (verbose and stored) else None, blocks if (verbose and stored) else None))
    return sides


def compare_action(r, m, cd, after=None, what=""):
    """model vs implementation: exit class, stdout (percent-normalised), writes with contents, mkdirs"""
    crashed_i = r.get("exc") not in (None, "SystemExit")
    if status_class(r.get("status")) != status_class(m["status"]) or crashed_i != (m["crash"] is not None):
        return {what + " status": [r.get("status"), r.get("exc"), r.get("msg")], "model": [m["status"], m["crash"]]}
    if m["crash"] is not None:
        return None  # both crashed: what was printed before a traceback is not compared
    it, mt, err = normalise_pct(r["text"], m["text"])
    if err:
        return {what + " percent": err}
    if it != mt:
        il, ml = it.split("\n"), mt.split("\n")
        k = next((i for i in range(min(len(il), len(ml))) if il[i] != ml[i]), min(len(il), len(ml)))
        return {what + " stdout differs at line": k, "impl": il[k:k + 3], "model": ml[k:k + 3]}
    if "log" in m:
        listing = what.startswith("list")
        verbose = ("Byte" in r["text"]) or ("block" in r["text"])
        pr, lr = parse_report(r["text"], verbose, listing), log_as_report(m["log"], verbose)
        if pr != lr:
            k = next((i for i in range(min(len(pr), len(lr))) if pr[i] != lr[i]), min(len(pr), len(lr)))
            return {what + " structured report differs on side": k, "printed": (pr[k] if k < len(pr) else None), "model log": (lr[k] if k < len(lr) else None)}
    mw = [cd.rel(p) for p, _ in m["effects"]]
    if mw != r["writes"]:
        return {what + " writes": r["writes"][:6], "model": mw[:6]}
    if after is not None:
        final = {}
        for p, c in m["effects"]:
            final[p] = c          # the same path may be written twice (two entries with one name): the last write wins
        for p, c in final.items():
            if after.get(cd.rel(p)) != c:
                got = after.get(cd.rel(p))
                d = next((i for i in range(min(len(got or b""), len(c))) if got[i] != c[i]), None) if got is not None else None
                return {what + " written bytes differ": cd.rel(p), "first_diff": d, "len": [None if got is None else len(got), len(c)]}
    mk = [cd.rel(p) for p in m["mkdirs"]]
    if [x for x in mk if x not in r["mkdirs"]] and False:
        return {what + " mkdirs": r["mkdirs"], "model": mk}
    return None


# ---------------------------------------------------------------- fsck through the extracted Spec
def fsck(ctx, is_fd, raw):
    """per side: dict(geometry, read, strict, files, free, reserved, fat, entries)"""
    out = []
    for s in ctx.model.call("fsck", 256 if is_fd else 512, raw):
        g, rd, st, files, free, reserved, fat, entries = s
        fl = None
        if files:
            fl = [{"name": bytes(f[0]), "ext": bytes(f[1]), "kind": f[2], "flag": f[3], "blocks": list(f[4]), "content": bytes(f[5])} for f in files[0]]
        out.append({"geometry": bool(g), "read": bool(rd), "strict": bool(st), "files": fl, "free": free, "reserved": reserved, "fat": bytes(fat), "entries": [bytes(e) for e in entries]})
    return out


def sd_padding_ok(raw):
    return all(raw[i + 256:i + 512] == b"\xff" * 256 for i in range(0, len(raw), 512))


def payloads(is_fd, raw):
    if is_fd:
        return raw
    return b"".join(raw[i:i + 256] for i in range(0, len(raw), 512))


# ---------------------------------------------------------------- independent third-party writer
def write_third_party(spec):
    """An image built from the format description only (shares no code with the tool or the model).
    spec: {'is_fd':bool,'nsides':1|2|4,'seed':int,'sides':[{'files':[{'name','ext','kind','flag','content',...}], 'deleted':n, 'extra_reserved':[..],
            'filler':int,'fat0':int,'fat_tail':int,'order':'asc'|'desc'|'random','frag':bool}]}
    Returns raw bytes and, per side, the list of live files in catalogue order."""
    rng = random.Random(spec["seed"])
    sides_raw = []
    truth = []
    for sd in spec["sides"]:
        filler = sd.get("filler", 0xE5)
        secs = [bytearray([filler]) * 256 for _ in range(1280)]
        fat = bytearray([0xFF]) * 160
        for b in (40, 41):
            fat[b] = 0xFE
        for b in sd.get("extra_reserved", []):
            fat[b] = 0xFE
        free = [b for b in range(160) if fat[b] == 0xFF]
        order = sd.get("order", "asc")
        if order == "desc":
            free.reverse()
        elif order == "random":
            rng.shuffle(free)
        entries = []
        live = []
        for f in sd["files"]:
            content = materialize(f["content"])
            n = len(content)
            lastbytes = f.get("lastbytes")
            if lastbytes is None:
                # canonical: sectors of 255 bytes, last sector holds the remainder (a full 255 when it divides)
                nsect = max(1, (n + 254) // 255)
                lastbytes = n - (nsect - 1) * 255
            else:
                nsect = (n - lastbytes) // 255 + 1
            nblocks = (nsect + 7) // 8
            u = nsect - (nblocks - 1) * 8
            if len(free) < nblocks:
                continue
            if sd.get("frag") and len(free) > nblocks + 2:
                pick = sorted(rng.sample(range(len(free)), nblocks)) if order != "random" else list(range(nblocks))
                blocks = [free[i] for i in pick]
                if order == "random":
                    rng.shuffle(blocks)
                free = [b for b in free if b not in blocks]
            else:
                blocks, free = free[:nblocks], free[nblocks:]
            for i, b in enumerate(blocks):
                fat[b] = blocks[i + 1] if i + 1 < nblocks else 0xC0 + u
            pos = 0
            for i, b in enumerate(blocks):
                ns = 8 if i + 1 < nblocks else u
                for j in range(ns):
                    last = (i + 1 == nblocks and j == ns - 1)
                    take = lastbytes if last else 255
                    chunk = content[pos:pos + take]
                    pos += take
                    s = secs[b * 8 + j]
                    s[0:len(chunk)] = chunk
            name = f["name"].encode("ascii").ljust(8)[:8]
            ext = f["ext"].encode("ascii").ljust(3)[:3]
            e = name + ext + bytes([f["kind"], f["flag"], blocks[0], lastbytes >> 8, lastbytes & 255]) + bytes([sd.get("entry_pad", 0xFF)]) * 16
            entries.append(("live", e))
            live.append({"name": name, "ext": ext, "kind": f["kind"], "flag": f["flag"], "content": content, "blocks": blocks})
        # deleted entries: first byte 00, first block pointing at a free or re-used block below 160
        for _ in range(sd.get("deleted", 0)):
            e = b"\x00" + bytes(rng.choice(b"ABCDEFG") for _ in range(7)) + b"BAS" + bytes([0, 0, rng.randrange(160), 0, rng.randrange(256)]) + b"\xff" * 16
            entries.insert(rng.randrange(len(entries) + 1), ("deleted", e))
        # scatter over the 112 slots, keeping the relative order, never-used slots (FF) in between
        nslots = 112
        if sd.get("spread") == "dense" and 2 * len(entries) < nslots:
            # never-used slots tightly interleaved with the used ones: gaps of 0 or 1 slot
            idx, k = [], rng.choice([0, 1])
            for _ in entries:
                idx.append(k)
                k += 1 + rng.choice([0, 1, 1])
        elif sd.get("spread") and len(entries) < nslots:
            idx = sorted(rng.sample(range(nslots), len(entries)))
        else:
            idx = list(range(len(entries)))
        slots = [b"\xff" * 32] * nslots
        for i, (_, e) in zip(idx, entries):
            slots[i] = e
        for k in range(14):
            secs[322 + k][:] = b"".join(slots[k * 8:(k + 1) * 8])
        ft = bytearray(256)
        ft[0] = sd.get("fat0", 0)
        ft[1:161] = fat
        ft[161:] = bytes([sd.get("fat_tail", 0)]) * 95
        secs[321][:] = ft
        if spec["is_fd"]:
            sides_raw.append(b"".join(bytes(s) for s in secs))
        else:
            sides_raw.append(b"".join(bytes(s) + b"\xff" * 256 for s in secs))
        truth.append(live)
    return b"".join(sides_raw), truth


def gen_third_party(rng, is_fd=None, nsides=None, max_files=6):
    is_fd = rng.random() < 0.5 if is_fd is None else is_fd
    nsides = (rng.choice([1, 2, 4]) if is_fd else 4) if nsides is None else nsides
    sides = []
    for _ in range(nsides):
        files = []
        used = set()
        for _ in range(rng.choice([0, 1, 2, 3, max_files])):
            name = "".join(rng.choice("ABCDEFGHIJKLMNOPQRSTUVWXYZ0123456789_-+!#") for _ in range(rng.randint(1, 8)))
            ext = "".join(rng.choice("ABCDEFGHIJKLMNOPQRSTUVWXYZ012") for _ in range(rng.randint(0, 3)))
            if (name, ext) in used:
                continue
            used.add((name, ext))
            size = rng.choice([0, 1, 254, 255, 256, 510, 2039, 2040, 2041, 2295, 4080, 10000, 40000, rng.randint(0, 6000)])
            f = {"name": name, "ext": ext, "kind": rng.choice([0, 1, 2, 3]), "flag": rng.choice([0, 0xFF]), "content": gen_dcontent(rng, size)}
            r = rng.random()
            if r < 0.2 and size >= 255 and size % 255 == 0:
                f["lastbytes"] = 255  # canonical anyway
            elif r < 0.35 and size >= 255 and size % 255 == 0:
                f["lastbytes"] = 0    # a last sector holding 0 bytes: one more sector than the content needs
            files.append(f)
        # sometimes all 112 entries were used once and some were deleted since: no never-used entry is left
        ndel = rng.choice([0, 0, 1, 3]) if rng.random() > 0.08 else 112 - len(files)
        sides.append({"files": files, "deleted": ndel, "extra_reserved": rng.sample([0, 1, 2, 80, 159], rng.choice([0, 0, 1, 2])),
                      "filler": rng.choice([0xE5, 0x00, 0xFF, 0x41]), "fat0": rng.choice([0, 0, 0xFF, 0xE5, rng.randrange(256)]), "fat_tail": rng.choice([0, 0, 0xFF, 0xE5, 0xA0, 0xC9, rng.randrange(256)]),
                      "order": rng.choice(["asc", "desc", "random"]), "frag": rng.random() < 0.5, "spread": rng.choice([False, True, "dense", "dense"])})
    return {"is_fd": is_fd, "nsides": nsides, "seed": rng.randint(0, 1 << 30), "sides": sides}
