"""C10 — disk side placement (--eos, overflow to next side) matches report and image"""
import os

from framework import scale, CaseResult, text_points
from props import c02
from props.diskcommon import (FULL, argv_sources, compare_action, dmodel_outcome, expected_entry, ext_of, fsck, gen_dcontent, gen_third_party, model_srcs, run_disk, setup_sources, write_third_party)
from props.tapecommon import CaseDir

GEN_FILES = ["GenDisk"]
RULE = ("one create or add invocation whose sources interleave files (sizes from 0 to larger than a side; batches longer than a catalogue) and --eos markers in every "
        "position, on a fresh image or on one partially filled by a previous invocation, catalogue names possibly given twice (other directory, other letter case, 'x.bas' and 'x.bas,a'); both flavours. Oracle on the report and on the image decoded by the extracted Spec: "
        "files are stored in the order given; --eos moves to the next side; a file is refused on a side ('too big') only if it does not fit there (fewer free blocks than it needs, or 112 live catalogue entries - a deleted entry is a free one) and is then retried on side j+1 only, never split nor stored twice; "
        "once the fourth side is passed the remaining sources are dropped, the image is still written and every side is a valid file system; the report's section for side i "
        "lists exactly the files the image gained on side i. signature = (flavour, fresh/partial, number of sides reached, flags {eos, overflow, catalog-overflow, dropped, "
        "bigger-than-side, eos-first, eos-last}); non-trivial = an --eos or an overflow")
ASSUMPTIONS = c02.ASSUMPTIONS


def gen_batch(rng, prefix, allow_many=True):
    items = []
    k = 0
    for _ in range(rng.choice([1, 2, 4, 6, 9])):
        r = rng.random()
        if r < 0.25:
            items.append({"eos": rng.choice(["--eos", "--EOS"])})
            continue
        if r < 0.30 and allow_many:
            for j in range(rng.choice([112, 113, 115])):
                items.append({"arg": f"{prefix}m{k}_{j}.d"[:8 + 2] if False else f"{prefix}{k}x{j}.d", "content": {"hex": "2a"}})
            k += 1
            continue
        c = rng.random()
        size = (rng.choice([0, 1, 255, 2040, 2041]) if c < 0.35 else rng.choice([61200, 102000, 204000]) if c < 0.65
                else rng.choice([FULL - 2040, FULL, FULL + 1]) if c < 0.85 else rng.choice([FULL + 2040, 400000]))
        items.append({"arg": f"{prefix}f{k}.{rng.choice(['bas', 'bin', 'dat', 'txt'])}", "content": gen_dcontent(rng, size)})
        k += 1
    return items


def add_duplicates(rng, case):
    """the same catalogue NAME.EXT given again: from another directory, in another letter case, or as 'x.bas' / 'x.bas,a' - in the batch or already on the image"""
    pool = [s["arg"] for s in (case["pre"] or []) + case["batch"] if "arg" in s and "/" not in s["arg"]]
    if not pool:
        return
    for n_ in range(rng.choice([1, 1, 2])):
        a = rng.choice(pool)
        how = rng.random()
        d = "dup%d+/" % n_     # one directory per duplicate: two sources never share a path on the host
        if a.endswith(".bas") and how < 0.4:
            b = d + a + ",a"
        elif how < 0.7:
            b = d + a.upper()
        else:
            b = d + a
        case["batch"].insert(rng.randint(0, len(case["batch"])), {"arg": b, "content": gen_dcontent(rng, rng.choice([0, 1, 300, 2041, 61200]))})


def gen_cases(rng, tier):
    n = scale(tier, 32, 800)
    cases = []
    for _ in range(n):
        pre = gen_batch(rng, "p", allow_many=False) if rng.random() < 0.4 else None
        cases.append({"is_fd": rng.random() < 0.5, "pre": pre, "batch": gen_batch(rng, "b"), "verbose": rng.random() < 0.3})
        if rng.random() < 0.25:
            add_duplicates(rng, cases[-1])
    huge = {"arg": "bhuge.bin", "content": {"pat": "41", "len": FULL + 2040}}
    for is_fd in (True, False):
        cases.append({"is_fd": is_fd, "pre": None, "verbose": False, "batch": [{"arg": "ba.dat", "content": {"hex": "41"}}, huge, {"eos": "--eos"}, {"arg": "bb.dat", "content": {"hex": "42"}}]})
        cases.append({"is_fd": is_fd, "pre": [{"arg": "pa.dat", "content": {"hex": "41"}}], "verbose": True,
                      "batch": [{"arg": "ba.dat", "content": {"hex": "41"}}, {"eos": "--eos"}, {"eos": "--eos"}, {"eos": "--eos"}, huge, {"eos": "--EOS"}, {"arg": "bb.dat", "content": {"hex": "42"}}]})
    # a side whose 112 catalogue entries were all used once, some of them deleted since (no never-used entry left): a deleted entry is a free one
    for is_fd in (True, False):
        sp = gen_third_party(rng, is_fd=is_fd, nsides=4, max_files=3)
        sp["sides"][0]["files"] = [{"name": "K%d" % k, "ext": "D", "kind": 1, "flag": 0, "content": {"pat": "41", "len": 100 + k}} for k in range(rng.choice([20, 60, 105]))]
        sp["sides"][0]["deleted"] = 112 - len(sp["sides"][0]["files"])
        sp["sides"][0]["spread"] = False
        cases.append({"is_fd": is_fd, "pre": None, "pre_spec": sp, "verbose": not is_fd,
                      "batch": [{"arg": "bnew.dat", "content": {"pat": "42", "len": 3000}}, {"arg": "bnew2.txt", "content": {"hex": "43"}}]})
    for is_fd in (True, False):
        cases.append({"is_fd": is_fd, "pre": [{"arg": "a.bas", "content": {"hex": "41"}}], "verbose": is_fd,
                      "batch": [{"arg": "new/a.bas", "content": {"hex": "4242"}}, {"arg": "c.dat", "content": {"hex": "43"}}, {"arg": "new/C.DAT", "content": {"hex": "4444"}}]})
    # exactly 112 files fill the catalogue of side 0 while blocks remain: the next, multi-block, file is refused there and stored on side 1; nothing of it stays on side 0
    tiny112 = [{"arg": "bt%03d.d" % k, "content": {"hex": "2a"}} for k in range(112)]
    for is_fd in (True, False):
        cases.append({"is_fd": is_fd, "pre": None, "verbose": False, "batch": tiny112 + [{"arg": "bbig.bin", "content": {"rand": 31, "len": 10240}}, {"arg": "blast.txt", "content": {"hex": "4c"}}]})
        cases.append({"is_fd": is_fd, "pre": tiny112, "verbose": is_fd, "batch": [{"arg": "bbig.bin", "content": {"rand": 32, "len": 4081}}, {"eos": "--eos"}, {"arg": "blast.txt", "content": {"hex": "4c"}}]})
    return cases, {"random": n, "fixed": 12}


def sections(text):
    """per 'Side n' section: list of ('file', label, outcome) | ('msg', text)"""
    out = []
    cur = None
    for line in text.split("\n"):
        if line.startswith("Side "):
            cur = {"side": int(line[5:]), "items": []}
            out.append(cur)
        elif line == "TOTAL":
            cur = None
        elif cur is not None and line.startswith("  "):
            cur["items"].append(line)
    return out


def run_case(case, ctx):
    cd = CaseDir(ctx)
    try:
        is_fd, v = case["is_fd"], case["verbose"]
        arch = "img" + ext_of(is_fd)
        raw_prev = None
        dis = bad = None
        before_files = [[], [], [], []]
        free_blocks = [157, 157, 157, 157]
        live_entries = [0, 0, 0, 0]
        was_strict = [True, True, True, True]
        if case.get("pre_spec") is not None:
            # a partially filled image made by the independent writer: deleted entries, possibly no never-used entry left
            raw_prev, _ = write_third_party(case["pre_spec"])
            cd.put(arch, raw_prev)
            for i, sd in enumerate(fsck(ctx, is_fd, raw_prev)):
                was_strict[i] = sd["strict"]
                before_files[i] = [(x["name"], x["ext"], x["content"]) for x in (sd["files"] or [])]
                free_blocks[i], live_entries[i] = sd["free"], len(sd["files"] or [])
        elif case["pre"] is not None:
            fs0, _ = setup_sources(cd, case["pre"])
            r0 = run_disk(ctx, is_fd, ["-c", arch] + argv_sources(case["pre"]), cd, timeout=120)
            raw_prev = cd.get(arch)
            if r0.get("status") != 0 or raw_prev is None:
                raise RuntimeError("could not prepare the partially filled image")
            for i, sd in enumerate(fsck(ctx, is_fd, raw_prev)):
                before_files[i] = [(x["name"], x["ext"], x["content"]) for x in (sd["files"] or [])]
                free_blocks[i], live_entries[i] = sd["free"], len(sd["files"] or [])
        fs, contents = setup_sources(cd, case["batch"])
        act = "-c" if raw_prev is None else "-r"
        r = run_disk(ctx, is_fd, [act] + (["-v"] if v else []) + [arch] + argv_sources(case["batch"]), cd, timeout=120)
        after = cd.snapshot()
        raw = cd.get(arch)
        if raw_prev is None:
            m = dmodel_outcome(ctx.model.call("disk_create", is_fd, v, fs, text_points(arch), model_srcs(case["batch"])))
        else:
            m = dmodel_outcome(ctx.model.call("disk_add", is_fd, v, fs, text_points(arch), raw_prev, model_srcs(case["batch"])))
        dis = compare_action(r, m, cd, after, "inject")
        f = {"fd" if is_fd else "sd", "partial" if raw_prev is not None else "fresh"}
        if case.get("pre_spec") is not None:
            f.add("foreign-pre")
        if r.get("status") != 0 or r.get("exc") or raw is None:
            bad = {"invocation failed": [r.get("status"), r.get("exc"), r.get("msg")]}
        else:
            rep = c02.parse_update(r["text"], v)
            sides = fsck(ctx, is_fd, raw)
            if len(rep) > 4 or [s["side"] for s in sections(r["text"])] != list(range(len(rep))):
                bad = {"side sections are not 0..n in order": [s["side"] for s in sections(r["text"])]}
            # walk the sources with the documented rules and predict where each may legally end up
            srcs = [(s, c) for s, c in zip(case["batch"], contents)]
            flat = [(label, outcome, i) for i, side in enumerate(rep) for (label, outcome, _, _) in side]
            pos = 0       # index in flat
            cur = 0       # current side according to the report
            stored = [[], [], [], []]
            for s, c in srcs:
                if bad:
                    break
                if cur >= 4:
                    break  # dropped
                if "eos" in s:
                    cur += 1
                    f.add("eos")
                    continue
                e = expected_entry(s["arg"])
                if e is None:
                    continue
                label = e[0].decode().rstrip() + "." + e[1].decode().rstrip()
                while True:
                    if pos >= len(flat):
                        bad = {"source missing from the report": label}
                        break
                    l2, outcome, side = flat[pos]
                    pos += 1
                    if l2 != label or side != cur:
                        bad = {"report out of order": [l2, side], "expected": [label, cur]}
                        break
                    need = max(1, (max(len(c), 1) + 2039) // 2040)
                    fits = need <= free_blocks[cur] and live_entries[cur] < 112
                    if outcome == "ok":
                        stored[cur].append((e[0], e[1], c))
                        free_blocks[cur] -= need
                        live_entries[cur] += 1
                        break
                    if outcome == "too big":
                        if fits:
                            # refusals are exact: enough free blocks and a free (never-used or deleted) catalogue entry means the file is stored here
                            bad = {"announced too big on a side where it fits": [label, cur], "needs": need, "free blocks": free_blocks[cur], "live entries": live_entries[cur]}
                            break
                        f.add("overflow")
                        cur += 1
                        if cur >= 4:
                            f.add("dropped")
                            break
                        continue
                    bad = {"unexpected outcome": [label, outcome]}
                    break
            if bad is None and pos != len(flat):
                bad = {"report lists more files than the sources account for": flat[pos:pos + 3]}
            if bad is None:
                for i, sd in enumerate(sides):
                    if not (sd["strict"] if was_strict[i] else sd["read"]):
                        bad = {"fsck_strict rejects side" if was_strict[i] else "fsck_read rejects side": i}
                        break
                    got = [(x["name"], x["ext"], x["content"]) for x in sd["files"]]
                    gained = list(got)
                    for o in before_files[i]:
                        if o in gained:
                            gained.remove(o)
                        else:
                            bad = {"a file present before is gone from side": i}
                    if bad:
                        break
                    if sorted(gained) != sorted(stored[i]):
                        bad = {"side gained other files than its report section lists": i, "report": [str(x[:2]) for x in stored[i]][:4], "image": [str(x[:2]) for x in gained][:4]}
                        break
            f.add("reached:%d" % min(cur, 4))
        nontrivial = bool(f & {"eos", "overflow"})
        detail = {"disagreement": dis, "oracle": bad} if (dis or bad) else None
        return CaseResult(dis is None, bad is None, detail, sorted(f), nontrivial)
    finally:
        cd.close()


def shrink_candidates(case):
    b = case["batch"]
    for k in range(len(b)):
        yield dict(case, batch=b[:k] + b[k + 1:])
    if case["pre"] is not None:
        yield dict(case, pre=None)
    if case.get("pre_spec") is not None:
        sp = case["pre_spec"]
        for i, sd in enumerate(sp["sides"]):
            if len(sd["files"]) > 1:
                yield dict(case, pre_spec=dict(sp, sides=sp["sides"][:i] + [dict(sd, files=sd["files"][:len(sd["files"]) // 2], deleted=sd.get("deleted", 0) + len(sd["files"]) - len(sd["files"]) // 2)] + sp["sides"][i + 1:]))
    if case["verbose"]:
        yield dict(case, verbose=False)


def summarise(case):
    return {"is_fd": case["is_fd"], "partial": case["pre"] is not None, "foreign_pre": case.get("pre_spec") is not None, "batch": [(s.get("eos") or [s["arg"], s["content"].get("len", 0)]) for s in case["batch"]][:8]}


def violation_class(case, detail):
    o = (detail or {}).get("oracle") or {}
    return sorted(o)[0] if o else "c10"
