"""C17 — moto_prettier upper-cases code and never touches string literals"""
from framework import scale, CaseResult, text_points, points_text
from props.textcommon import run_text_tool, model_inputs, out_lines, input_lines, repeat_a_source

GEN_FILES = ["GenText"]
RULE = ("lines over a weighted ASCII alphabet (letters of both cases, digits, blanks, punctuation, double quotes in runs of 1..6, "
        "adjacent/empty/unterminated literals), 1..3 inputs as files and/or stdin, LF/CRLF/CR terminators, with/without final newline; "
        "thorough adds every line over {a,\",space,B} up to length 7. signature = sorted set of features "
        "{run3+, odd-run>=3, unterminated, empty-literal, adjacent, lower-inside, lower-outside, stdin, multi-input, crlf, no-final-nl}; "
        "non-trivial = at least one quote and one lower-case letter")
ASSUMPTIONS = ["alphabet restricted to ASCII (str.upper is modelled on ASCII only)",
               "in-process run of PrettierCli().run() with sys.stdin rebuilt as CPython does on POSIX (newline=LF); cross-checked by C19's real subprocess runs"]


def features(inputs):
    f = set()
    for i in inputs:
        t = i["text"]
        if i["stdin"]:
            f.add("stdin")
        if "\r\n" in t:
            f.add("crlf")
        if t and not t.endswith("\n"):
            f.add("no-final-nl")
        for line in t.replace("\r", "\n").split("\n"):
            import re
            for m in re.finditer('"+', line):
                n = len(m.group(0))
                if n >= 3:
                    f.add("run3+")
                if n >= 3 and n % 2 == 1:
                    f.add("odd-run>=3")
                if n == 2:
                    f.add("pair")
            if line.count('"') % 2 == 1:
                f.add("unterminated")
            q = 0
            for c in line:
                if c == '"':
                    q ^= 1
                elif c.islower():
                    f.add("lower-inside" if q else "lower-outside")
    if len(inputs) > 1:
        f.add("multi-input")
    return sorted(f)


def gen_line(rng):
    n = rng.choice([0, 1, 2, 3, 5, 8, 13, 21, 40])
    out = []
    for _ in range(n):
        r = rng.random()
        if r < 0.25:
            out.append('"' * rng.choice([1, 1, 1, 2, 2, 3, 3, 4, 5, 6]))
        elif r < 0.6:
            out.append(rng.choice("abcxyzprintgoto"))
        elif r < 0.75:
            out.append(rng.choice("ABCXYZ"))
        elif r < 0.85:
            out.append(rng.choice("0123456789"))
        else:
            out.append(rng.choice(" \t;:,.()=+-*/<>'$%#!?@[]\\^_`{|}~&"))
    if rng.random() < 0.10:
        # words that mean something to a BASIC-aware formatter (remarks, data, apostrophe): the property knows letters and quotes only
        out.insert(rng.randint(0, len(out)), rng.choice(["rem ", ":rem draws the title", "REM x", "10 rem a\"b", " data a,b,\"c", "'note", ":'end", " else "]))
    if rng.random() < 0.08:
        # characters str.splitlines() cuts on but a text file read line by line does not
        out.insert(rng.randint(0, len(out)), rng.choice(EXOTIC))
    return "".join(out)


EXOTIC = ["\x0b", "\x0c", "\x1c", "\x1d", "\x1e", "\x85", "\u2028", "\u2029"]


def gen_long_line(rng):
    """a line whose length sits on, just before or just after a usual line or buffer limit, with a literal open across it"""
    n = rng.choice([255, 256, 257, 512, 1023, 1024, 4095, 4096, 4097, 8192, 8193]) + rng.choice([-1, 0, 0, 1])
    cut = rng.randint(max(0, n - 300), n)
    head = ('10 print "' + "ab" * n)[:max(cut - 1, 0)]
    tail = ('" :goto' + " xy" * n)
    return (head + tail)[:n]


def gen_text(rng, files):
    lines = [gen_line(rng) for _ in range(rng.choice([0, 1, 1, 2, 3, 6]))]
    if rng.random() < 0.05:
        lines.insert(rng.randint(0, len(lines)), gen_long_line(rng))
    term = rng.choice(["\n", "\n", "\n", "\r\n", "\r"]) if files else "\n"
    t = term.join(lines)
    if lines and rng.random() < 0.8:
        t += term
    return t


def gen_cases(rng, tier):
    n = scale(tier, 400, 6000)
    cases = []
    hist = {"random": 0, "exhaustive_small": 0}
    for _ in range(n):
        k = rng.choice([1, 1, 1, 2, 3])
        inputs = []
        for j in range(k):
            st = rng.random() < 0.25
            inputs.append({"stdin": st, "text": gen_text(rng, not st)})
        if rng.random() < 0.12:
            repeat_a_source(rng, inputs)
        cases.append({"inputs": inputs})
        hist["random"] += 1
    # every quote pattern over a tiny alphabet
    import itertools
    L = 7 if tier == "thorough" else 5
    alpha = 'a"'
    batch = []
    for n_ in range(0, L + 1):
        for tup in itertools.product(alpha if n_ > 4 else 'a" B', repeat=n_):
            batch.append("".join(tup))
    for i in range(0, len(batch), 64):
        cases.append({"inputs": [{"stdin": False, "text": "\n".join(batch[i:i + 64]) + "\n"}]})
        hist["exhaustive_small"] += len(batch[i:i + 64])
    return cases, hist


def run_case(case, ctx):
    inputs = case["inputs"]
    r, out = run_text_tool(ctx, "prettier", [], inputs)
    impl_lines = out_lines(out)
    model = [points_text(l) for l in ctx.model.call("prettier", model_inputs(inputs))]
    status_ok = r.get("status") == 0 and r.get("exc") is None
    agree = status_ok and impl_lines == model
    # oracle (independent of the model): line by line, the character-wise scan
    src_lines = input_lines(inputs) if sum(1 for i in inputs if i["stdin"]) <= 1 else None
    oracle_ok = status_ok
    why = None
    if status_ok and src_lines is not None:
        if len(impl_lines) != len(src_lines):
            oracle_ok, why = False, f"{len(src_lines)} input lines, {len(impl_lines)} output lines"
        else:
            for a, b in zip(src_lines, impl_lines):
                want = points_text(ctx.model.call("pretty_spec", text_points(a)))
                if want != b:
                    oracle_ok, why = False, {"line": a, "got": b, "want": want}
                    break
        if oracle_ok and impl_lines:
            # idempotence on the implementation itself
            r2, out2 = run_text_tool(ctx, "prettier", [], [{"stdin": False, "text": "\n".join(impl_lines) + "\n"}])
            if "\r" not in out and out_lines(out2) != impl_lines:
                oracle_ok, why = False, {"not idempotent": impl_lines[:3]}
    elif not status_ok:
        why = {"status": r.get("status"), "exc": r.get("exc"), "msg": r.get("msg")}
    f = features(inputs)
    nontrivial = any('"' in i["text"] for i in inputs) and any(c.islower() for i in inputs for c in i["text"])
    detail = None if (agree and oracle_ok) else {"why": why, "impl": impl_lines[:5], "model": model[:5]}
    return CaseResult(agree, oracle_ok, detail, f, nontrivial)


def shrink_candidates(case):
    inputs = case["inputs"]
    if len(inputs) > 1:
        for k in range(len(inputs)):
            yield {"inputs": inputs[:k] + inputs[k + 1:]}
    for k, i in enumerate(inputs):
        t = i["text"]
        lines = t.split("\n")
        if len(lines) > 1:
            for j in range(len(lines)):
                yield {"inputs": inputs[:k] + [dict(i, text="\n".join(lines[:j] + lines[j + 1:]))] + inputs[k + 1:]}
        for j in range(len(t)):
            yield {"inputs": inputs[:k] + [dict(i, text=t[:j] + t[j + 1:])] + inputs[k + 1:]}


def violation_class(case, detail):
    return "prettier-line-mismatch"
