"""Common machinery of ./check (see DESIGN.md sections 4 and 5).

build()         translate /repo/src -> Gen, hash, build the Coq cone + extracted binary in build/<hash>
Model           handle on bin/moto_model (extracted model + Spec oracles), s-expression protocol
Impl            handle on a fresh interpreter that imports the implementation from /repo/src
run_property()  corpus + generated cases, correspondence + oracle, shrinking, verdict, evidence
"""
import base64
import fcntl
import hashlib
import json
import os
import random
import re
import resource
import shutil
import subprocess
import sys
import tempfile
import time
import traceback

VERIF = os.path.dirname(os.path.dirname(os.path.abspath(__file__)))
REPO = os.environ.get("VERIF_REPO", "/repo")
PY = "/venv/bin/python" if os.path.exists("/venv/bin/python") else sys.executable
COQ_DIRS = ["Py", "Gen", "GenFacts", "Model", "Spec", "Proofs", "Props"]
QFLAGS = []
for d in COQ_DIRS + ["Extract"]:
    QFLAGS += ["-Q", d, ""]
NPROC = int(os.environ.get("VERIF_JOBS", "16"))


class MachineryError(Exception):
    """failure of the machinery itself: exit 2, never a VIOLATION line"""


def log(*a):
    print(*a, file=sys.stderr, flush=True)


# --------------------------------------------------------------------------- build
def sh(cmd, cwd=None, timeout=3600, env=None):
    p = subprocess.run(cmd, cwd=cwd, stdout=subprocess.PIPE, stderr=subprocess.STDOUT, timeout=timeout, env=env, text=True, errors="replace")
    return p.returncode, p.stdout


def file_hash(paths):
    h = hashlib.sha256()
    for p in sorted(paths):
        h.update(p.encode())
        with open(p, "rb") as f:
            h.update(f.read())
    return h.hexdigest()


class Build:
    def __init__(self):
        self.dir = None
        self.tie = None  # translator summary
        self.gen_changed = []  # Gen files that differ from the committed snapshot
        self.gen_compile_fallback = []  # Gen files that did not compile and were replaced by the snapshot
        self.broken = {}  # target -> error text
        self.assumptions = {}  # Cnn -> list of (theorem, text)
        self.binary = None
        self.fresh = False


def translate(outdir):
    env = dict(os.environ, VERIF_REPO=REPO)
    p = subprocess.run(
        [sys.executable, os.path.join(VERIF, "tools", "translate.py"), outdir, "--snapshot", os.path.join(VERIF, "coq", "Gen.snapshot")],
        stdout=subprocess.PIPE, stderr=subprocess.PIPE, text=True, env=env, timeout=300,
    )
    if p.returncode != 0:
        raise MachineryError("translator failed: " + p.stderr[-2000:])
    return json.loads(p.stdout.strip().splitlines()[-1])


def hand_sources():
    out = []
    for d in COQ_DIRS + ["Extract"]:
        if d == "Gen":
            continue
        dd = os.path.join(VERIF, "coq", d)
        if os.path.isdir(dd):
            out += [os.path.join(dd, f) for f in os.listdir(dd) if f.endswith(".v")]
    out.append(os.path.join(VERIF, "ocaml", "driver.ml"))
    return out


def build(props, want_binary=True, all_props=False):
    """Prepare build/<hash> for the current /repo tree and make the cones of the given Props.
    Returns a Build.  Serialised by a lock: concurrent checks share the result."""
    b = Build()
    os.makedirs(os.path.join(VERIF, "build"), exist_ok=True)
    lock = open(os.path.join(VERIF, "build", ".lock"), "w")
    fcntl.flock(lock, fcntl.LOCK_EX)
    try:
        gentmp = tempfile.mkdtemp(prefix="gen.", dir=os.path.join(VERIF, "build"))
        try:
            b.tie = translate(gentmp)
            gens = sorted(os.path.join(gentmp, f) for f in os.listdir(gentmp) if f.endswith(".v"))
            snapdir = os.path.join(VERIF, "coq", "Gen.snapshot")
            for g in gens:
                s = os.path.join(snapdir, os.path.basename(g))
                if not os.path.exists(s) or open(s).read() != open(g).read():
                    b.gen_changed.append(os.path.basename(g)[:-2])
            h = file_hash(hand_sources() + gens)[:16]
            b.dir = os.path.join(VERIF, "build", h)
            if not os.path.isdir(b.dir):
                b.fresh = True
                tmpd = b.dir + ".tmp"
                shutil.rmtree(tmpd, ignore_errors=True)
                os.makedirs(os.path.join(tmpd, "coq"))
                for d in COQ_DIRS + ["Extract"]:
                    if d == "Gen":
                        os.makedirs(os.path.join(tmpd, "coq", "Gen"))
                        for g in gens:
                            shutil.copy(g, os.path.join(tmpd, "coq", "Gen"))
                    else:
                        src = os.path.join(VERIF, "coq", d)
                        os.makedirs(os.path.join(tmpd, "coq", d))
                        if os.path.isdir(src):
                            for f in os.listdir(src):
                                if f.endswith(".v"):
                                    shutil.copy(os.path.join(src, f), os.path.join(tmpd, "coq", d))
                os.makedirs(os.path.join(tmpd, "ocaml"))
                shutil.copy(os.path.join(VERIF, "ocaml", "driver.ml"), os.path.join(tmpd, "ocaml"))
                vs = []
                for d in COQ_DIRS:
                    vs += sorted(os.path.join(d, f) for f in os.listdir(os.path.join(tmpd, "coq", d)) if f.endswith(".v"))
                with open(os.path.join(tmpd, "coq", "_CoqProject"), "w") as f:
                    for d in COQ_DIRS + ["Extract"]:
                        f.write(f'-Q {d} ""\n')
                    f.write("\n".join(vs) + "\n")
                rc, out = sh(["coq_makefile", "-f", "_CoqProject", "-o", "Makefile"], cwd=os.path.join(tmpd, "coq"))
                if rc != 0:
                    raise MachineryError("coq_makefile failed: " + out[-2000:])
                os.rename(tmpd, b.dir)
                prune_builds(keep=b.dir)
        finally:
            shutil.rmtree(gentmp, ignore_errors=True)
        coq = os.path.join(b.dir, "coq")
        # 1. generated files must compile; one that does not is replaced by its snapshot (tie A fallback)
        for g in sorted(os.listdir(os.path.join(coq, "Gen"))):
            if not g.endswith(".v"):
                continue
            rc, out = sh(["timeout", "600", "make", f"Gen/{g}o"], cwd=coq)
            if rc != 0:
                snap = os.path.join(VERIF, "coq", "Gen.snapshot", g)
                b.gen_compile_fallback.append({"file": g, "error": out[-1500:]})
                if not os.path.exists(snap):
                    raise MachineryError(f"generated {g} does not compile and has no snapshot:\n{out[-1500:]}")
                shutil.copy(snap, os.path.join(coq, "Gen", g))
                rc, out = sh(["timeout", "600", "make", f"Gen/{g}o"], cwd=coq)
                if rc != 0:
                    raise MachineryError(f"snapshot {g} does not compile:\n{out[-1500:]}")
        # 2. the binary (model + spec oracles): Model and Spec only, no proofs
        if want_binary:
            b.binary = os.path.join(b.dir, "ocaml", "moto_model")
            if not os.path.exists(b.binary):
                deps = extract_deps(os.path.join(coq, "Extract", "Extract.v"), coq)
                rc, out = sh(["timeout", "1800", "make", f"-j{NPROC}"] + deps, cwd=coq)
                if rc != 0:
                    raise MachineryError("model does not compile:\n" + out[-3000:])
                oc = os.path.join(b.dir, "ocaml")
                q = []
                for d in COQ_DIRS + ["Extract"]:
                    q += ["-Q", os.path.join(coq, d), ""]
                rc, out = sh(["timeout", "600", "coqc"] + q + [os.path.join(coq, "Extract", "Extract.v")], cwd=oc)
                if rc != 0:
                    raise MachineryError("extraction failed:\n" + out[-3000:])
                rc, out = sh(["timeout", "600", "ocamlfind", "ocamlopt", "-O2", "-w", "-a", "model.mli", "model.ml", "driver.ml", "-o", "moto_model.tmp"], cwd=oc)
                if rc != 0:
                    raise MachineryError("ocaml build failed:\n" + out[-3000:])
                os.rename(os.path.join(oc, "moto_model.tmp"), b.binary)
        # 3. the proof cones
        if all_props:
            props = sorted(f[:-2] for f in os.listdir(os.path.join(coq, "Props")) if f.endswith(".v"))
        targets = [f"Props/{p}.vo" for p in props if os.path.exists(os.path.join(coq, "Props", f"{p}.v"))]
        if targets:
            rc, out = sh(["timeout", "3000", "make", "-k", f"-j{NPROC}"] + targets, cwd=coq)
            for p in props:
                vo = os.path.join(coq, "Props", f"{p}.vo")
                if not os.path.exists(vo):
                    b.broken[p] = first_coq_error(out)
                else:
                    b.assumptions[p] = print_assumptions(coq, p)
    finally:
        fcntl.flock(lock, fcntl.LOCK_UN)
        lock.close()
    return b


def extract_deps(extract_v, coq):
    txt = open(extract_v).read()
    mods = []
    for m in re.finditer(r"Require Import ([^.]*)\.", txt):
        mods += m.group(1).split()
    out = []
    for m in mods:
        for d in COQ_DIRS:
            if os.path.exists(os.path.join(coq, d, m + ".v")):
                out.append(f"{d}/{m}.vo")
    return out


def first_coq_error(out):
    m = re.search(r'File "([^"]+)", line (\d+)[^\n]*\n(Error:.*?)(?:\n\n|\nmake|\Z)', out, re.S)
    if m:
        return {"file": m.group(1), "line": int(m.group(2)), "error": m.group(3)[:1500]}
    return {"file": None, "line": None, "error": out[-1500:]}


def print_assumptions(coq, p):
    """recompile Props/<p>.v to collect the Print Assumptions output under every theorem"""
    rc, out = sh(["timeout", "900", "coqc"] + QFLAGS + [f"Props/{p}.v"], cwd=coq)
    src = open(os.path.join(coq, "Props", f"{p}.v")).read()
    theorems = re.findall(r"^Theorem\s+(\w+)", src, re.M)
    blocks = []
    cur = None
    for line in out.splitlines():
        if line.startswith("Closed under the global context"):
            if cur is not None:
                blocks.append("\n".join(cur))
                cur = None
            blocks.append("Closed under the global context")
        elif line.startswith("Axioms:"):
            if cur is not None:
                blocks.append("\n".join(cur))
            cur = ["Axioms:"]
        elif cur is not None:
            if line.strip() == "" or line.startswith("File ") or line.startswith("Error"):
                blocks.append("\n".join(cur))
                cur = None
            else:
                cur.append(line.rstrip())
    if cur is not None:
        blocks.append("\n".join(cur))
    res = []
    for i, t in enumerate(theorems):
        res.append((t, blocks[i].strip() if i < len(blocks) else "MISSING"))
    return {"rc": rc, "theorems": res, "raw_tail": out[-800:] if rc != 0 else ""}


def prune_builds(keep, n=3):
    root = os.path.join(VERIF, "build")
    ds = [os.path.join(root, d) for d in os.listdir(root) if re.fullmatch(r"[0-9a-f]{16}", d)]
    ds.sort(key=lambda d: os.path.getmtime(d), reverse=True)
    for d in ds[n:]:
        if d != keep:
            shutil.rmtree(d, ignore_errors=True)


# --------------------------------------------------------------------------- s-expressions
def sx(v):
    """encode: int | bytes (-> #hex) | str (-> symbol) | list/tuple"""
    if isinstance(v, bool):
        return "1" if v else "0"
    if isinstance(v, int):
        return str(v)
    if isinstance(v, (bytes, bytearray)):
        return "#" + bytes(v).hex()
    if isinstance(v, str):
        return v
    return "(" + " ".join(sx(x) for x in v) + ")"


def text_points(s):
    """a str as a list of code points"""
    return [ord(c) for c in s]


def points_text(l):
    return "".join(chr(c) for c in l)


_tok = re.compile(r"\(|\)|#[0-9a-f]*|-?\d+")


def unsx(s):
    stack = [[]]
    for m in _tok.finditer(s):
        t = m.group(0)
        if t == "(":
            stack.append([])
        elif t == ")":
            x = stack.pop()
            stack[-1].append(x)
        elif t[0] == "#":
            stack[-1].append(bytes.fromhex(t[1:]))
        else:
            stack[-1].append(int(t))
    return stack[0][0] if stack[0] else None


def _unlimit_stack():
    try:
        resource.setrlimit(resource.RLIMIT_STACK, (resource.RLIM_INFINITY, resource.RLIM_INFINITY))
    except (ValueError, OSError):
        pass


class Model:
    def __init__(self, binary):
        self.binary = binary
        self.p = None

    def start(self):
        self.p = subprocess.Popen([self.binary], stdin=subprocess.PIPE, stdout=subprocess.PIPE, preexec_fn=_unlimit_stack)

    def call(self, *cmd):
        if self.p is None or self.p.poll() is not None:
            self.start()
        self.p.stdin.write((sx(cmd) + "\n").encode())
        self.p.stdin.flush()
        line = self.p.stdout.readline().decode()
        if not line:
            self.p = None
            raise MachineryError(f"model binary died on {cmd[0]}")
        if line.startswith("ok"):
            return unsx(line[3:])
        raise MachineryError(f"model: {line.strip()} on {sx(cmd)[:300]}")

    def close(self):
        if self.p:
            try:
                self.p.stdin.close()
                self.p.wait(timeout=5)
            except Exception:
                self.p.kill()
            self.p = None


class Impl:
    """a fresh interpreter importing the implementation from REPO/src; jobs over JSON lines"""

    def __init__(self):
        self.p = None

    def start(self):
        env = dict(os.environ)
        env.update(PYTHONPATH=os.path.join(REPO, "src"), PYTHONHASHSEED="0", PYTHONDONTWRITEBYTECODE="1", PYTHONUTF8="1")
        self.p = subprocess.Popen([PY, os.path.join(VERIF, "tools", "impl_worker.py")], stdin=subprocess.PIPE, stdout=subprocess.PIPE, env=env)

    def call(self, job, timeout=None):
        if self.p is None or self.p.poll() is not None:
            self.start()
        self.p.stdin.write((json.dumps(job) + "\n").encode())
        self.p.stdin.flush()
        line = self.p.stdout.readline()
        if not line:
            self.p = None
            return {"status": "died", "stdout": "", "exc": "WorkerDied", "effects": []}
        r = json.loads(line)
        if r.get("exc") in ("WorkerError", "BadJob"):
            raise MachineryError("impl worker: " + str(r.get("msg")))
        return r

    def close(self):
        if self.p:
            try:
                self.p.stdin.close()
                self.p.wait(timeout=5)
            except Exception:
                self.p.kill()
            self.p = None


# --------------------------------------------------------------------------- running a property
class Ctx:
    def __init__(self, binary):
        self.model = Model(binary)
        self.impl = Impl()
        self.tmp = tempfile.mkdtemp(prefix="verif.")

    def close(self):
        self.model.close()
        self.impl.close()
        shutil.rmtree(self.tmp, ignore_errors=True)


class CaseResult:
    """agree: model == implementation on the compared observables
    oracle_ok: the Spec oracle accepts the implementation's output (the property holds here)
    sig: signature of the input class (for distinct_nontrivial); nontrivial: exercises a boundary feature"""

    def __init__(self, agree=True, oracle_ok=True, detail=None, sig=None, nontrivial=False, skipped=False):
        self.agree, self.oracle_ok, self.detail, self.sig, self.nontrivial, self.skipped = agree, oracle_ok, detail, sig, nontrivial, skipped


_W = {}


def _winit(binary, modname):
    import importlib

    _W["ctx"] = Ctx(binary)
    _W["mod"] = importlib.import_module(modname)
    import atexit

    atexit.register(_W["ctx"].close)


def _wrun(case):
    try:
        r = _W["mod"].run_case(case, _W["ctx"])
        return (case, r.agree, r.oracle_ok, r.detail, r.sig, r.nontrivial, r.skipped)
    except MachineryError as e:
        return (case, None, None, {"machinery": str(e)}, None, False, False)
    except Exception:
        return (case, None, None, {"machinery": traceback.format_exc()[-3000:]}, None, False, False)


def run_cases(mod, binary, cases, jobs=NPROC):
    import multiprocessing as mp

    if jobs <= 1 or len(cases) < 8:
        _winit(binary, mod.__name__)
        try:
            return [_wrun(c) for c in cases]
        finally:
            _W["ctx"].close()
    with mp.get_context("fork").Pool(jobs, initializer=_winit, initargs=(binary, mod.__name__)) as pool:
        return pool.map(_wrun, cases, chunksize=max(1, len(cases) // (jobs * 8)))


def scale(tier, quick_n, thorough_n):
    if tier == "thorough":
        return thorough_n
    if tier == "escalated":
        return min(thorough_n, 3 * quick_n)
    return quick_n


def load_known():
    p = os.path.join(VERIF, "known_findings.json")
    if os.path.exists(p):
        return json.load(open(p))
    return {"findings": [], "fixed": []}


def write_evidence(pid, ev):
    os.makedirs(os.path.join(VERIF, "evidence"), exist_ok=True)
    p = os.path.join(VERIF, "evidence", f"{pid}.json")
    with open(p + ".tmp", "w") as f:
        json.dump(ev, f, indent=1, default=str)
    os.rename(p + ".tmp", p)


def write_replay(pid, obj):
    d = os.path.join(VERIF, "replays")
    os.makedirs(d, exist_ok=True)
    h = hashlib.sha256(json.dumps(obj, sort_keys=True, default=str).encode()).hexdigest()[:12]
    p = os.path.join(d, f"{pid}-{h}.json")
    with open(p, "w") as f:
        json.dump(obj, f, indent=1, default=str)
    return p


def corpus_cases(pid):
    d = os.path.join(VERIF, "corpus", pid)
    out = []
    if os.path.isdir(d):
        for f in sorted(os.listdir(d)):
            if f.endswith(".json"):
                c = json.load(open(os.path.join(d, f)))
                out.append(c["case"] if isinstance(c, dict) and "case" in c else c)
    return out


def run_property(pid, mod, tier, seed, replay=None, corpus_only=False):
    """the whole check for one property; returns the exit code"""
    t0 = time.time()
    trusted = [
        "Coq 8.16.1 kernel (coqc; vm_compute used; native_compute not used)",
        "tools/translate.py (python-ast -> Gallina translator, Gen/*.v) and its item map",
        "extraction: ExtrOcamlBasic directives only (bool, option, unit, list, prod, sumbool, sumor); Z/positive/nat inductive; no Extract Constant; ocaml/driver.ml; ocamlfind ocamlopt",
        "correspondence harness (tools/framework.py, tools/impl_worker.py, tools/props/*.py): generators, canonicalisers",
        "coq/Py micro-models of CPython/stdlib behaviour (validated differentially, not proved); CPython itself",
        "coq/Spec/*.v as the meaning of the property",
    ]
    b = build([pid])
    proof_ok = pid not in b.broken
    no_proof = getattr(mod, "NO_PROOF", False)   # validation suites that are not properties (./check PY)
    ass = b.assumptions.get(pid, {"theorems": [], "rc": 0 if no_proof else 1})
    theorems = ass["theorems"]
    axioms = sorted({t[1] for t in theorems if t[1] != "Closed under the global context"})
    # an obligation resting on anything but a whitelisted standard-library axiom is NOT discharged
    undischarged = [t[0] for t in theorems if t[1] != "Closed under the global context" and not axioms_whitelisted(t[1])]
    if proof_ok and not no_proof and (not theorems or ass["rc"] != 0 or any(t[1] == "MISSING" for t in theorems)):
        proof_ok = False
        b.broken[pid] = {"file": f"Props/{pid}.v", "line": None, "error": "Print Assumptions output incomplete: " + ass.get("raw_tail", "")}
    coqchk = None
    if tier == "thorough" and proof_ok and not no_proof:
        # independent re-check of the compiled cone, with the axioms it relies on (-o)
        q = []
        for d in COQ_DIRS:
            q += ["-Q", d, ""]
        rc, out = sh(["timeout", "2400", "coqchk", "-silent", "-o"] + q + [pid], cwd=os.path.join(b.dir, "coq"), timeout=2500)
        tail = [l for l in out.splitlines() if l.strip()][-25:]
        coqchk = {"rc": rc, "summary": tail}
        if rc != 0:
            proof_ok = False
            b.broken[pid] = {"file": f"Props/{pid}.vo", "line": None, "error": "coqchk rejects the compiled cone: " + " | ".join(tail[-5:])}
    n_obl = len(theorems) if theorems else count_theorems(pid)
    if proof_ok and undischarged:
        proof_ok = False
        b.broken[pid] = {"file": f"Props/{pid}.v", "line": None, "error": "theorems resting on non-standard axioms (Admitted?): " + ", ".join(undischarged)}
    n_dis = len([t for t in theorems if t[1] != "MISSING" and t[0] not in undischarged]) if (proof_ok or undischarged) else 0

    rng = random.Random(seed * 1000003 + int(hashlib.sha256(pid.encode()).hexdigest()[:8], 16))
    if replay:
        r = json.load(open(replay))
        cases = [r["case"]] if "case" in r and r["case"] is not None else []
        gen_hist = {"replay": len(cases)}
    else:
        corpus = corpus_cases(pid)
        mine = set(getattr(mod, "GEN_FILES", []))
        thorough_needed = any(x.get("file") in mine for x in b.tie["fallback"]) or any(x.get("file", "")[:-2] in mine for x in b.gen_compile_fallback)
        # a tie-A fallback in this property's cone demands a larger correspondence run ("escalated": 3x quick)
        gen, gen_hist = mod.gen_cases(rng, "thorough" if tier == "thorough" else ("escalated" if thorough_needed else "quick"))
        cases = corpus + ([] if corpus_only else gen)
        gen_hist = dict(gen_hist, corpus=len(corpus))
    results = run_cases(mod, b.binary, cases)

    machinery = [r for r in results if r[1] is None]
    if machinery:
        # the harness itself could not judge these cases (an exception in run_case): they are set aside here and reported at the end -
        # the property is then no longer shown to hold on them, which is a violation without a failing input (never a silent pass)
        log("machinery failure:", json.dumps(machinery[0][3])[:3000])
        results = [r for r in results if r[1] is not None]
    viol = [r for r in results if r[2] is False]
    disagree = [r for r in results if r[1] is False]
    sigs = {json.dumps(r[4], sort_keys=True) for r in results if r[5] and r[4] is not None}
    skipped = len([r for r in results if r[6]])

    known = load_known()
    exit_code = 0
    lines = []
    n_viol = 0
    reported = set()

    def report_violation(case, detail, tag=""):
        nonlocal exit_code, n_viol
        k0 = mod.violation_class(case, detail) if hasattr(mod, "violation_class") else None
        case2, detail2 = shrink(mod, b.binary, case, detail, want="oracle", klass=k0)
        kf = match_known(known, pid, mod, case2, detail2)
        key = json.dumps(kf["id"] if kf else mod.violation_class(case2, detail2) if hasattr(mod, "violation_class") else "v", sort_keys=True)
        if key in reported:
            return
        reported.add(key)
        if kf:
            lines.append(f"KNOWN-FINDING: property={pid} {kf['what']}")
            return
        path = write_replay(pid, {"property": pid, "kind": "oracle-violation", "case": case2, "detail": detail2, "seed": seed, "tier": tier})
        lines.append(f"VIOLATION property={pid} replay={path}{tag}")
        n_viol += 1
        exit_code = 1

    # one representative per (pre-shrink) class, at most 4 classes, each shrunk under a time budget
    seen_classes = []
    for r in viol:
        k = json.dumps(mod.violation_class(r[0], r[3]) if hasattr(mod, "violation_class") else "v", sort_keys=True)
        if k in seen_classes:
            continue
        seen_classes.append(k)
        report_violation(r[0], r[3])
        if n_viol >= 4 or len(seen_classes) >= 40:   # known findings do not use up the budget
            break
    if n_viol == 0:   # no violation beyond the recorded findings: the tie itself must still hold
        unexplained = [r for r in disagree if not (r[2] is False and match_known(known, pid, mod, r[0], r[3]))]
        if unexplained:
            disagree = unexplained
            case2, detail2 = shrink(mod, b.binary, disagree[0][0], disagree[0][3], want="disagree")
            path = write_replay(pid, {"property": pid, "kind": "correspondence-broken", "what": "model and implementation disagree; the Spec oracle accepts the implementation's output on every explored case", "case": case2, "detail": detail2, "disagreements": len(disagree), "seed": seed, "tier": tier})
            lines.append(f"VIOLATION property={pid} replay={path} no-failing-input-found")
            n_viol += 1
            exit_code = 1
        elif not proof_ok:
            path = write_replay(pid, {"property": pid, "kind": "proof-broken", "what": "a proof obligation no longer checks against the model regenerated from the source", "broken": b.broken.get(pid), "tie": b.tie, "gen_changed": b.gen_changed, "case": None, "seed": seed, "tier": tier})
            lines.append(f"VIOLATION property={pid} replay={path} no-failing-input-found")
            n_viol += 1
            exit_code = 1
    elif not proof_ok or disagree:
        pass  # concrete violations already reported
    if machinery and n_viol == 0:
        path = write_replay(pid, {"property": pid, "kind": "harness-exception", "what": "the harness raised an exception on this case and could not judge it (on the unchanged tree this is a defect of the harness; on an edited tree the tool no longer behaves as the harness can handle)", "case": machinery[0][0], "detail": machinery[0][3], "count": len(machinery), "seed": seed, "tier": tier})
        lines.append(f"MACHINERY-ERROR property={pid}: {str(machinery[0][3])[-300:]}")
        lines.append(f"VIOLATION property={pid} replay={path} no-failing-input-found")
        n_viol += 1
        exit_code = 1

    for l in lines:
        print(l)
    samples = [summarise_case(mod, r[0]) for r in results[: 3]] + [summarise_case(mod, r[0]) for r in results[-2:]]
    ev = {
        "property_id": pid,
        "tier": tier,
        "seed": seed,
        "level": "other" if no_proof else "proof",
        "coverage": {
            "explanation": "differential validation of the Py micro-models against CPython" if no_proof else "see level_claimed in MANIFEST.json",
            "obligations": max(n_obl, 1),
            "discharged": n_dis,
            "checker_cmd": f"make Props/{pid}.vo (coqc 8.16.1, full .vo) in {os.path.relpath(b.dir, VERIF)}/coq; coqc Props/{pid}.v for Print Assumptions",
            "trusted_base": trusted + [f"axioms reported by Print Assumptions: {axioms if axioms else 'none (Closed under the global context)'}"],
            "theorems": [{"name": t[0], "assumptions": t[1]} for t in theorems],
            "proof_broken": b.broken.get(pid),
            "coqchk": coqchk,
            "evaluations": len(results),
            "distinct_nontrivial": len(sigs),
            "rule": getattr(mod, "RULE", ""),
            "samples": samples,
            "generator_histogram": gen_hist,
            "skipped_unmodelled": skipped,
            "correspondence_disagreements": len(disagree),
            "oracle_violations": len(viol),
            "tieA_items": b.tie["items"],
            "tieA_fallback": b.tie["fallback"],
            "gen_files_differing_from_snapshot": b.gen_changed,
            "gen_compile_fallback": b.gen_compile_fallback,
            "build_dir": os.path.relpath(b.dir, VERIF),
            "known_findings_printed": [l for l in lines if l.startswith("KNOWN-FINDING")],
        },
        "assumptions": getattr(mod, "ASSUMPTIONS", []),
        "wall_s": round(time.time() - t0, 2),
        "violations": n_viol,
    }
    write_evidence(pid, ev)
    log(f"[{pid}] tier={tier} seed={seed} cases={len(results)} distinct_nontrivial={len(sigs)} disagree={len(disagree)} oracle_viol={len(viol)} proof_ok={proof_ok} obligations={n_dis}/{n_obl} wall={ev['wall_s']}s")
    return exit_code


STD_AXIOMS = set()  # standard-library axioms the development is allowed to rest on (none needed so far)


def axioms_whitelisted(block):
    names = re.findall(r"^(\S+)\s*:", block, re.M)
    return bool(names) and all(n in STD_AXIOMS for n in names)


def count_theorems(pid):
    p = os.path.join(VERIF, "coq", "Props", f"{pid}.v")
    return len(re.findall(r"^Theorem\s+\w+", open(p).read(), re.M)) if os.path.exists(p) else 0


def summarise_case(mod, case):
    if hasattr(mod, "summarise"):
        return mod.summarise(case)
    s = json.dumps(case, default=str)
    return case if len(s) < 600 else s[:600] + "..."


def match_known(known, pid, mod, case, detail):
    for f in known.get("findings", []):
        if f.get("property") == pid and hasattr(mod, "known_predicates") and f.get("predicate") in mod.known_predicates:
            try:
                if mod.known_predicates[f["predicate"]](case, detail):
                    return f
            except Exception:
                pass
    return None


def shrink(mod, binary, case, detail, want, budget=150, seconds=90, klass=None):
    """greedy shrinking with the property module's candidate generator, under a time budget"""
    if not hasattr(mod, "shrink_candidates"):
        return case, detail
    ctx = Ctx(binary)
    t_end = time.time() + seconds
    try:
        improved = True
        while improved and budget > 0 and time.time() < t_end:
            improved = False
            for cand in mod.shrink_candidates(case):
                budget -= 1
                if budget <= 0 or time.time() > t_end:
                    break
                try:
                    r = mod.run_case(cand, ctx)
                except Exception:
                    continue
                bad = (r.oracle_ok is False) if want == "oracle" else (r.agree is False)
                if bad and want == "oracle" and klass is not None and hasattr(mod, "violation_class"):
                    bad = mod.violation_class(cand, r.detail) == klass  # stay on the same kind of failure
                if bad:
                    case, detail = cand, r.detail
                    improved = True
                    break
    finally:
        ctx.close()
    return case, detail
