#!/usr/bin/env python3
"""Tie A: fail-closed python-ast -> Gallina translator (see DESIGN.md section 4.1).

Reads /repo/src (or $VERIF_REPO/src) and emits coq/Gen/*.v text.  It understands a
deliberately small language; anything else raises TieError for that item, which then
falls back to its committed snapshot (coq/Gen.snapshot) and is listed in the result
so the caller can demand a thorough-size correspondence instead.

Usage:  translate.py <outdir> [--snapshot <dir>]   -> prints a JSON summary on stdout
"""
import ast
import json
import os
import sys

REPO = os.environ.get("VERIF_REPO", "/repo")
SRC = os.path.join(REPO, "src")


class TieError(Exception):
    pass


# --------------------------------------------------------------------------- helpers
_cache = {}


def module(path):
    if path not in _cache:
        with open(os.path.join(SRC, path), "r", encoding="utf-8") as f:
            _cache[path] = ast.parse(f.read(), filename=path)
    return _cache[path]


def find_scope(tree, qual):
    """qual = 'Class.method' | 'func' | 'Class' | '' (module)."""
    node = tree
    if not qual:
        return node
    for part in qual.split("."):
        found = None
        for child in node.body:
            if isinstance(child, (ast.FunctionDef, ast.ClassDef)) and child.name == part:
                if found is not None and not _is_setter(child):
                    raise TieError(f"ambiguous scope {qual}")
                if found is None or not _is_setter(child):
                    found = child if found is None or _is_setter(found) else found
        if found is None:
            raise TieError(f"scope {qual} not found")
        node = found
    return node


def _is_setter(fn):
    return isinstance(fn, ast.FunctionDef) and any(
        isinstance(d, ast.Attribute) and d.attr == "setter" for d in fn.decorator_list
    )


def find_setter(tree, cls, name):
    c = find_scope(tree, cls)
    for child in c.body:
        if isinstance(child, ast.FunctionDef) and child.name == name and _is_setter(child):
            return child
    raise TieError(f"setter {cls}.{name} not found")


def find_getter(tree, cls, name):
    c = find_scope(tree, cls)
    for child in c.body:
        if isinstance(child, ast.FunctionDef) and child.name == name and not _is_setter(child):
            return child
    raise TieError(f"getter {cls}.{name} not found")


def assign_value(scope, name, nth=0):
    """value of the nth assignment `name = ...` directly or deeply inside scope."""
    hits = []
    for n in nodes(scope, (ast.Assign, ast.AnnAssign)):
        if isinstance(n, ast.Assign) and len(n.targets) == 1:
            t = n.targets[0]
            if isinstance(t, ast.Name) and t.id == name:
                hits.append(n.value)
            elif isinstance(t, ast.Attribute) and ast.unparse(t) == name:
                hits.append(n.value)
        elif isinstance(n, ast.AnnAssign) and isinstance(n.target, ast.Name) and n.target.id == name and n.value:
            hits.append(n.value)
    if len(hits) <= nth:
        raise TieError(f"assignment {name}#{nth} not found")
    return hits[nth]


def nodes(scope, kind):
    """all nodes of a kind in source order"""
    out = [n for n in ast.walk(scope) if isinstance(n, kind)]
    out.sort(key=lambda n: (n.lineno, n.col_offset))
    return out


def nth(lst, i, what="node"):
    if i >= len(lst):
        raise TieError(f"{what}#{i} not found")
    return lst[i]


def calls_to(scope, fname):
    out = []
    for n in nodes(scope, ast.Call):
        f = n.func
        name = f.attr if isinstance(f, ast.Attribute) else f.id if isinstance(f, ast.Name) else None
        if name == fname:
            out.append(n)
    return out


# --------------------------------------------------------------------------- expression translation
class Env:
    def __init__(self, params=None, consts=None, enums=None, lets=None):
        self.params = dict(params or {})  # python expr string -> gallina name
        self.consts = dict(consts or {})  # python name (possibly dotted) -> gallina name
        self.enums = dict(enums or {})  # 'Cls.MEMBER' -> int
        self.lets = set(lets or [])

    def child(self):
        e = Env(self.params, self.consts, self.enums, self.lets)
        return e


def zlit(n):
    return f"({n})" if n < 0 else str(n)


def zlist(vals):
    return "[" + "; ".join(zlit(v) for v in vals) + "]"


def str_points(s):
    return [ord(c) for c in s]


def tr(e, env):
    """translate an expression to Gallina text (Z- or bool- or list-valued)"""
    src = ast.unparse(e)
    if src in env.params:
        return env.params[src]
    if src in env.consts:
        return env.consts[src]
    if isinstance(e, ast.Constant):
        v = e.value
        if isinstance(v, bool):
            return "true" if v else "false"
        if isinstance(v, int):
            return zlit(v)
        if isinstance(v, bytes):
            return zlist(list(v))
        if isinstance(v, str):
            return zlist(str_points(v))
        if v is None:
            raise TieError("None literal")
        raise TieError(f"literal {v!r}")
    if isinstance(e, ast.Name):
        if e.id in env.lets:
            return "v_" + e.id
        raise TieError(f"unbound name {e.id}")
    if isinstance(e, ast.Attribute):
        # Enum.MEMBER.value  /  Enum.MEMBER
        s = src
        if s.endswith(".value"):
            s = s[: -len(".value")]
        if s in env.enums:
            return zlit(env.enums[s])
        raise TieError(f"unknown attribute {src}")
    if isinstance(e, ast.BinOp):
        a, b = tr(e.left, env), tr(e.right, env)
        op = type(e.op)
        table = {
            ast.Add: "({} + {})",
            ast.Sub: "({} - {})",
            ast.Mult: "({} * {})",
            ast.FloorDiv: "({} / {})",
            ast.Mod: "({} mod {})",
            ast.BitAnd: "(Z.land {} {})",
            ast.BitOr: "(Z.lor {} {})",
            ast.LShift: "(Z.shiftl {} {})",
            ast.RShift: "(Z.shiftr {} {})",
        }
        if op not in table:
            raise TieError(f"operator {op.__name__}")
        return table[op].format(a, b)
    if isinstance(e, ast.UnaryOp):
        if isinstance(e.op, ast.Not):
            return f"(negb {tr(e.operand, env)})"
        if isinstance(e.op, ast.USub):
            return f"(- {tr(e.operand, env)})"
        raise TieError("unary op")
    if isinstance(e, ast.BoolOp):
        parts = [tr(v, env) for v in e.values]
        op = " && " if isinstance(e.op, ast.And) else " || "
        return "(" + op.join(parts) + ")"
    if isinstance(e, ast.Compare):
        if len(e.ops) != 1:
            raise TieError("chained comparison")
        op, rhs = e.ops[0], e.comparators[0]
        a = tr(e.left, env)
        if isinstance(op, (ast.In, ast.NotIn)):
            neg = isinstance(op, ast.NotIn)
            if isinstance(rhs, ast.Call) and ast.unparse(rhs.func) == "range":
                args = [tr(x, env) for x in rhs.args]
                if len(args) == 1:
                    r = f"((0 <=? {a}) && ({a} <? {args[0]}))"
                elif len(args) == 2:
                    r = f"(({args[0]} <=? {a}) && ({a} <? {args[1]}))"
                else:
                    raise TieError("range with step in membership")
            elif isinstance(rhs, (ast.List, ast.Tuple)):
                r = f"(existsb (Z.eqb {a}) [{'; '.join(tr(x, env) for x in rhs.elts)}])"
            else:
                raise TieError("membership in non-literal")
            return f"(negb {r})" if neg else r
        b = tr(rhs, env)
        table = {
            ast.Lt: f"({a} <? {b})",
            ast.LtE: f"({a} <=? {b})",
            ast.Gt: f"({b} <? {a})",
            ast.GtE: f"({b} <=? {a})",
            ast.Eq: f"({a} =? {b})",
            ast.NotEq: f"(negb ({a} =? {b}))",
        }
        if type(op) not in table:
            raise TieError(f"comparison {type(op).__name__}")
        return table[type(op)]
    if isinstance(e, ast.IfExp):
        return f"(if {tr(e.test, env)} then {tr(e.body, env)} else {tr(e.orelse, env)})"
    if isinstance(e, ast.Call):
        f = ast.unparse(e.func)
        if f == "len" and len(e.args) == 1:
            return f"(zlen {tr(e.args[0], env)})"
        if f in ("bytes", "bytearray") and len(e.args) == 1 and isinstance(e.args[0], ast.List):
            return "[" + "; ".join(tr(x, env) for x in e.args[0].elts) + "]"
        if f == "ord" and len(e.args) == 1 and isinstance(e.args[0], ast.Constant):
            return zlit(ord(e.args[0].value))
        if f in ("min", "max") and len(e.args) == 1 and isinstance(e.args[0], ast.List) and len(e.args[0].elts) == 2:
            x, y = (tr(v, env) for v in e.args[0].elts)
            return f"(Z.{f} {x} {y})"
        if f in ("min", "max") and len(e.args) == 2:
            x, y = (tr(v, env) for v in e.args)
            return f"(Z.{f} {x} {y})"
        raise TieError(f"call {f}")
    if isinstance(e, ast.Tuple):
        return "(" + ", ".join(tr(x, env) for x in e.elts) + ")"
    if isinstance(e, ast.List):
        return "[" + "; ".join(tr(x, env) for x in e.elts) + "]"
    if isinstance(e, ast.Subscript):
        # x[i] on a list-typed param: nth with default 0 (callers guard the index)
        if isinstance(e.slice, ast.Slice):
            raise TieError("slice expression")
        return f"(nth (Z.to_nat {tr(e.slice, env)}) {tr(e.value, env)} 0)"
    raise TieError(f"expression {type(e).__name__}: {src}")


def targets_of(stmts):
    out = []
    for s in stmts:
        if isinstance(s, ast.Assign):
            for t in s.targets:
                if isinstance(t, ast.Name):
                    if t.id not in out:
                        out.append(t.id)
                elif isinstance(t, ast.Tuple):
                    for x in t.elts:
                        if isinstance(x, ast.Name) and x.id not in out:
                            out.append(x.id)
                else:
                    raise TieError("assignment target")
        elif isinstance(s, ast.If):
            for x in targets_of(s.body) + targets_of(s.orelse):
                if x not in out:
                    out.append(x)
        elif isinstance(s, (ast.Expr, ast.Pass)):
            pass
        else:
            raise TieError(f"statement {type(s).__name__} in branch")
    return out


def tr_block(stmts, env, tail):
    """translate a statement list; `tail` = gallina text to use when falling off the end
    (None => must end in return)."""
    if not stmts:
        if tail is None:
            raise TieError("block falls off the end")
        return tail(env)
    s, rest = stmts[0], stmts[1:]
    if isinstance(s, ast.Expr) and isinstance(s.value, ast.Constant):  # docstring
        return tr_block(rest, env, tail)
    if isinstance(s, ast.Pass):
        return tr_block(rest, env, tail)
    if isinstance(s, ast.Return):
        if s.value is None:
            raise TieError("bare return")
        return tr(s.value, env)
    if isinstance(s, ast.Assign) and len(s.targets) == 1:
        t = s.targets[0]
        if isinstance(t, ast.Name):
            v = tr(s.value, env)
            env2 = env.child()
            env2.lets.add(t.id)
            env2.params.pop(t.id, None)
            return f"(let v_{t.id} := {v} in {tr_block(rest, env2, tail)})"
        if isinstance(t, ast.Tuple) and all(isinstance(x, ast.Name) for x in t.elts):
            v = tr(s.value, env)
            env2 = env.child()
            for x in t.elts:
                env2.lets.add(x.id)
                env2.params.pop(x.id, None)
            pat = ", ".join("v_" + x.id for x in t.elts)
            return f"(let '({pat}) := {v} in {tr_block(rest, env2, tail)})"
        raise TieError("assignment target")
    if isinstance(s, ast.If):
        # branch that returns on both sides
        def ends_in_return(b):
            return bool(b) and isinstance(b[-1], ast.Return)

        if ends_in_return(s.body) and (ends_in_return(s.orelse) or not s.orelse):
            els = s.orelse if s.orelse else rest
            return f"(if {tr(s.test, env)} then {tr_block(s.body, env, None)} else {tr_block(els, env, tail if not s.orelse else None)})"
        ts = targets_of(s.body + s.orelse)
        if not ts:
            raise TieError("if without effect")
        for x in ts:
            if x not in env.lets and x not in env.params:
                raise TieError(f"variable {x} assigned only in a branch")

        def fin(e):
            return "(" + ", ".join(("v_" + x) if x in e.lets else e.params[x] for x in ts) + ")"

        a = tr_block(s.body, env, fin)
        b = tr_block(s.orelse, env, fin)
        env2 = env.child()
        for x in ts:
            env2.lets.add(x)
            env2.params.pop(x, None)
        pat = ", ".join("v_" + x for x in ts)
        pat = f"'({pat})" if len(ts) > 1 else pat
        return f"(let {pat} := (if {tr(s.test, env)} then {a} else {b}) in {tr_block(rest, env2, tail)})"
    if isinstance(s, ast.For) and isinstance(s.target, ast.Name) and not s.orelse:
        ts = targets_of(s.body)
        if len(ts) != 1 or ts[0] not in env.lets:
            raise TieError("for loop shape")
        acc = ts[0]
        envb = env.child()
        envb.lets.add(s.target.id)
        body = tr_block(s.body, envb, lambda e: "v_" + acc)
        env2 = env.child()
        return (
            f"(let v_{acc} := fold_left (fun v_{acc} v_{s.target.id} => {body}) {tr(s.iter, env)} v_{acc} in "
            f"{tr_block(rest, env2, tail)})"
        )
    raise TieError(f"statement {type(s).__name__}")


def tr_function(fn, env, params):
    """params: list of (python expr text, gallina name, gallina type)"""
    e = env.child()
    for py, g, _ in params:
        e.params[py] = g
    body = tr_block(fn.body, e, None)
    return body


# --------------------------------------------------------------------------- emit helpers
class Out:
    def __init__(self, name, header=""):
        self.name = name
        self.lines = [
            f"(* Gen/{name}.v — GENERATED by tools/translate.py from /repo/src on every run.  Do not edit. *)",
            "From Coq Require Import ZArith List Bool.",
            "Import ListNotations.",
            "Require Import PyBase.",
            "Open Scope Z_scope.",
            header,
        ]
        self.items = []
        self.fallback = []

    def define(self, gname, typ, body, params=()):
        ps = " ".join(f"({g} : {t})" for _, g, t in params)
        self.lines.append(f"Definition {gname} {ps} : {typ} := {body}.")

    def item(self, gname, typ, thunk, params=(), snapshot=None):
        """thunk() -> gallina body; on TieError fall back to the snapshot text for this item"""
        try:
            body = thunk()
            self.define(gname, typ, body, params)
            self.items.append(gname)
        except (TieError, SyntaxError, FileNotFoundError, KeyError, IndexError, AttributeError, TypeError, ValueError) as ex:
            self.fallback.append({"item": gname, "why": f"{type(ex).__name__}: {ex}"})
            snap = snapshot_text(self.name, gname)
            if snap is None:
                raise SystemExit(f"translate: item {gname} failed ({ex}) and no snapshot exists")
            self.lines.append(snap)

    def text(self):
        return "\n".join(self.lines) + "\n"


SNAPDIR = None


def snapshot_text(fname, gname):
    if SNAPDIR is None:
        return None
    p = os.path.join(SNAPDIR, fname + ".v")
    if not os.path.exists(p):
        return None
    for line in open(p, encoding="utf-8"):
        if line.startswith(f"Definition {gname} "):
            return line.rstrip("\n")
    return None


def enum_members(tree, cls):
    c = find_scope(tree, cls)
    out = {}
    for s in c.body:
        if isinstance(s, ast.Assign) and len(s.targets) == 1 and isinstance(s.targets[0], ast.Name):
            if isinstance(s.value, ast.Constant) and isinstance(s.value.value, int):
                out[f"{cls}.{s.targets[0].id}"] = s.value.value
    if not out:
        raise TieError(f"enum {cls} empty")
    return out


def kwarg(call, name):
    for k in call.keywords:
        if k.arg == name:
            return k.value
    raise TieError(f"keyword {name} missing")


def const_str(e):
    if isinstance(e, ast.Constant) and isinstance(e.value, str):
        return e.value
    raise TieError("expected str literal")


def const_int(e):
    if isinstance(e, ast.Constant) and isinstance(e.value, int) and not isinstance(e.value, bool):
        return e.value
    raise TieError("expected int literal")


def add_argument_calls(scope):
    return calls_to(scope, "add_argument")


def arg_call_with_flag(scope, flag):
    for c in add_argument_calls(scope):
        if any(isinstance(a, ast.Constant) and a.value == flag for a in c.args):
            return c
    raise TieError(f"add_argument({flag}) not found")


# --------------------------------------------------------------------------- the item maps
def gen_text():
    o = Out("GenText")
    nl = lambda: module("moto_nl/nl.py")
    pr = lambda: module("moto_prettier/prettier.py")

    def re_arg(tree_f, scope, fname):
        def th():
            c = nth(calls_to(find_scope(tree_f(), scope), fname), 0, fname)
            return zlist(str_points(const_str(c.args[0])))

        return th

    o.item("nl_regex", "list Z", re_arg(nl, "NumberLineCli.processLine", "search"))
    o.item(
        "nl_rstrip_arg",
        "list Z",
        lambda: zlist(str_points(const_str(nth(calls_to(find_scope(nl(), "NumberLineCli.processLine"), "rstrip"), 0).args[0]))),
    )
    for g, flag in (("nl_default_increment", "-i"), ("nl_default_start", "-v"), ("nl_default_width", "-w")):
        o.item(g, "Z", (lambda flag=flag: zlit(const_int(kwarg(arg_call_with_flag(find_scope(nl(), "createArgParser"), flag), "default")))))
    # the numbered-line branch: numberLine = int(group) + increment ; else numberLine += increment
    def nl_next_numbered():
        fn = find_scope(nl(), "NumberLineCli.processLine")
        v = assign_value(fn, "self.numberLine", 0)
        env = Env(params={"int(match.group(1))": "parsed", "args.line_increment": "inc"})
        return tr(v, env)

    o.item("nl_next_numbered", "Z", nl_next_numbered, params=[("", "parsed", "Z"), ("", "inc", "Z")])

    def nl_next_unnumbered():
        fn = find_scope(nl(), "NumberLineCli.processLine")
        a = nth(nodes(fn, ast.AugAssign), 1, "augassign")
        if ast.unparse(a.target) != "self.numberLine" or not isinstance(a.op, ast.Add):
            raise TieError("numberLine += shape")
        return "(n + " + tr(a.value, Env(params={"args.line_increment": "inc"})) + ")"

    o.item("nl_next_unnumbered", "Z", nl_next_unnumbered, params=[("", "n", "Z"), ("", "inc", "Z")])

    def nl_pad_test():
        fn = find_scope(nl(), "NumberLineCli.processLine")
        i = nth(nodes(fn, ast.If), 1, "if")
        return tr(i.test, Env(params={"paddedNumber": "padded", "args.number_width": "width"}))

    o.item("nl_pad_test", "bool", nl_pad_test, params=[("", "padded", "list Z"), ("", "width", "Z")])

    def nl_pad_count():
        # "".join([" " for i in range(len(paddedNumber), args.number_width)])
        fn = find_scope(nl(), "NumberLineCli.processLine")
        r = nth(calls_to(fn, "range"), 0, "range")
        if len(r.args) != 2:
            raise TieError("range arity")
        env = Env(params={"paddedNumber": "padded", "args.number_width": "width"})
        lc = nth(nodes(fn, ast.ListComp), 0, "listcomp")
        if const_str(lc.elt) != " ":
            raise TieError("pad char")
        return f"({tr(r.args[1], env)} - {tr(r.args[0], env)})"

    o.item("nl_pad_count", "Z", nl_pad_count, params=[("", "padded", "list Z"), ("", "width", "Z")])

    def nl_line_format():
        # print(f"{paddedNumber} {line}") : the separator between number and line
        fn = find_scope(nl(), "NumberLineCli.processLine")
        js = nth(nodes(fn, ast.JoinedStr), 1, "fstring")
        parts = js.values
        if (
            len(parts) == 3
            and isinstance(parts[0], ast.FormattedValue)
            and ast.unparse(parts[0].value) == "paddedNumber"
            and isinstance(parts[1], ast.Constant)
            and isinstance(parts[2], ast.FormattedValue)
            and ast.unparse(parts[2].value) == "line"
        ):
            return zlist(str_points(parts[1].value))
        raise TieError("output f-string shape")

    o.item("nl_separator", "list Z", nl_line_format)

    o.item("prettier_regex", "list Z", re_arg(pr, "PrettierCli.processLine", "split"))
    o.item(
        "prettier_rstrip_arg",
        "list Z",
        lambda: zlist(str_points(const_str(nth(calls_to(find_scope(pr(), "PrettierCli.processLine"), "rstrip"), 0).args[0]))),
    )

    def prettier_toggle():
        fn = find_scope(pr(), "PrettierCli.processLine")
        v = assign_value(fn, "dquote_depth", 1)
        return tr(v, Env(params={"dquote_depth": "depth", "group": "group"}))

    o.item("prettier_toggle", "Z", prettier_toggle, params=[("", "depth", "Z"), ("", "group", "list Z")])

    def prettier_toggle_test():
        fn = find_scope(pr(), "PrettierCli.processLine")
        i = nth(nodes(fn, ast.If), 0, "if")
        t = i.test
        # group.startswith('"')   (after the repair)   or   group == '"'   (pinned tree)
        if isinstance(t, ast.Call) and ast.unparse(t.func) == "group.startswith" and len(t.args) == 1:
            return f"(starts_with {zlist(str_points(const_str(t.args[0])))} group)"
        if isinstance(t, ast.Compare) and ast.unparse(t.left) == "group" and isinstance(t.ops[0], ast.Eq):
            return f"(zeqb_list group {zlist(str_points(const_str(t.comparators[0])))})"
        raise TieError("toggle test shape")

    o.item("prettier_toggle_test", "bool", prettier_toggle_test, params=[("", "group", "list Z")])

    def prettier_upper_test():
        fn = find_scope(pr(), "PrettierCli.processLine")
        ie = nth(nodes(fn, ast.IfExp), 0, "ifexp")
        if ast.unparse(ie.body) != "group.upper()" or ast.unparse(ie.orelse) != "group":
            raise TieError("upper branch shape")
        return tr(ie.test, Env(params={"dquote_depth": "depth"}))

    o.item("prettier_upper_test", "bool", prettier_upper_test, params=[("", "depth", "Z")])
    return o


GENERATORS = [gen_text]


def main():
    global SNAPDIR
    args = sys.argv[1:]
    outdir = args[0]
    if "--snapshot" in args:
        SNAPDIR = args[args.index("--snapshot") + 1]
    only = None
    if "--only" in args:
        only = set(args[args.index("--only") + 1].split(","))
    os.makedirs(outdir, exist_ok=True)
    summary = {"files": {}, "items": 0, "fallback": []}
    for g in GENERATORS:
        o = g()
        if only and o.name not in only:
            continue
        text = o.text()
        p = os.path.join(outdir, o.name + ".v")
        old = open(p, encoding="utf-8").read() if os.path.exists(p) else None
        if old != text:
            with open(p, "w", encoding="utf-8") as f:
                f.write(text)
        summary["files"][o.name] = {"items": len(o.items), "fallback": o.fallback}
        summary["items"] += len(o.items)
        summary["fallback"] += [dict(x, file=o.name) for x in o.fallback]
    print(json.dumps(summary))


if __name__ == "__main__":
    main()
