#!/usr/bin/env python3
"""Tie A: fail-closed python-ast -> Gallina translator (see DESIGN.md section 4.1).

Reads /repo/src (or $VERIF_REPO/src) and emits coq/Gen/*.v text.  It understands a
deliberately small language; anything else raises TieError for that item, which then
falls back to its committed snapshot (coq/Gen.snapshot) and is listed in the result
so the caller can demand a thorough-size correspondence instead.

Usage:  translate.py <outdir> [--snapshot <dir>]   -> prints a JSON summary on stdout
"""
import ast
import json
import os
import sys

REPO = os.environ.get("VERIF_REPO", "/repo")
SRC = os.path.join(REPO, "src")


class TieError(Exception):
    pass


# --------------------------------------------------------------------------- helpers
_cache = {}


def module(path):
    if path not in _cache:
        with open(os.path.join(SRC, path), "r", encoding="utf-8") as f:
            _cache[path] = ast.parse(f.read(), filename=path)
    return _cache[path]


def find_scope(tree, qual):
    """qual = 'Class.method' | 'func' | 'Class' | '' (module)."""
    node = tree
    if not qual:
        return node
    for part in qual.split("."):
        found = None
        for child in node.body:
            if isinstance(child, (ast.FunctionDef, ast.ClassDef)) and child.name == part:
                if found is not None and not _is_setter(child):
                    raise TieError(f"ambiguous scope {qual}")
                if found is None or not _is_setter(child):
                    found = child if found is None or _is_setter(found) else found
        if found is None:
            raise TieError(f"scope {qual} not found")
        node = found
    return node


def _is_setter(fn):
    return isinstance(fn, ast.FunctionDef) and any(
        isinstance(d, ast.Attribute) and d.attr == "setter" for d in fn.decorator_list
    )


def find_setter(tree, cls, name):
    c = find_scope(tree, cls)
    for child in c.body:
        if isinstance(child, ast.FunctionDef) and child.name == name and _is_setter(child):
            return child
    raise TieError(f"setter {cls}.{name} not found")


def find_getter(tree, cls, name):
    c = find_scope(tree, cls)
    for child in c.body:
        if isinstance(child, ast.FunctionDef) and child.name == name and not _is_setter(child):
            return child
    raise TieError(f"getter {cls}.{name} not found")


def assign_value(scope, name, nth=0):
    """value of the nth assignment `name = ...` directly or deeply inside scope."""
    hits = []
    for n in nodes(scope, (ast.Assign, ast.AnnAssign)):
        if isinstance(n, ast.Assign) and len(n.targets) == 1:
            t = n.targets[0]
            if isinstance(t, ast.Name) and t.id == name:
                hits.append(n.value)
            elif isinstance(t, ast.Attribute) and ast.unparse(t) == name:
                hits.append(n.value)
        elif isinstance(n, ast.AnnAssign) and isinstance(n.target, ast.Name) and n.target.id == name and n.value:
            hits.append(n.value)
    if len(hits) <= nth:
        raise TieError(f"assignment {name}#{nth} not found")
    return hits[nth]


def nodes(scope, kind):
    """all nodes of a kind in source order"""
    out = [n for n in ast.walk(scope) if isinstance(n, kind)]
    out.sort(key=lambda n: (n.lineno, n.col_offset))
    return out


def nth(lst, i, what="node"):
    if i >= len(lst):
        raise TieError(f"{what}#{i} not found")
    return lst[i]


def calls_to(scope, fname):
    out = []
    for n in nodes(scope, ast.Call):
        f = n.func
        name = f.attr if isinstance(f, ast.Attribute) else f.id if isinstance(f, ast.Name) else None
        if name == fname:
            out.append(n)
    return out


# --------------------------------------------------------------------------- expression translation
class Env:
    def __init__(self, params=None, consts=None, enums=None, lets=None):
        self.params = dict(params or {})  # python expr string -> gallina name
        self.consts = dict(consts or {})  # python name (possibly dotted) -> gallina name
        self.enums = dict(enums or {})  # 'Cls.MEMBER' -> int
        self.lets = set(lets or [])

    def child(self):
        e = Env(self.params, self.consts, self.enums, self.lets)
        return e


def zlit(n):
    return f"({n})" if n < 0 else str(n)


def zlist(vals):
    return "[" + "; ".join(zlit(v) for v in vals) + "]"


def str_points(s):
    return [ord(c) for c in s]


def tr(e, env):
    """translate an expression to Gallina text (Z- or bool- or list-valued)"""
    src = ast.unparse(e)
    if src in env.params:
        return env.params[src]
    if src in env.consts:
        return env.consts[src]
    if isinstance(e, ast.Constant):
        v = e.value
        if isinstance(v, bool):
            return "true" if v else "false"
        if isinstance(v, int):
            return zlit(v)
        if isinstance(v, bytes):
            return zlist(list(v))
        if isinstance(v, str):
            return zlist(str_points(v))
        if v is None:
            raise TieError("None literal")
        raise TieError(f"literal {v!r}")
    if isinstance(e, ast.Name):
        if e.id in env.lets:
            return "v_" + e.id
        raise TieError(f"unbound name {e.id}")
    if isinstance(e, ast.Attribute):
        # Enum.MEMBER.value  /  Enum.MEMBER
        s = src
        if s.endswith(".value"):
            s = s[: -len(".value")]
        if s in env.enums:
            return zlit(env.enums[s])
        raise TieError(f"unknown attribute {src}")
    if isinstance(e, ast.BinOp):
        a, b = tr(e.left, env), tr(e.right, env)
        op = type(e.op)
        table = {
            ast.Add: "({} + {})",
            ast.Sub: "({} - {})",
            ast.Mult: "({} * {})",
            ast.FloorDiv: "({} / {})",
            ast.Mod: "({} mod {})",
            ast.BitAnd: "(Z.land {} {})",
            ast.BitOr: "(Z.lor {} {})",
            ast.LShift: "(Z.shiftl {} {})",
            ast.RShift: "(Z.shiftr {} {})",
        }
        if op not in table:
            raise TieError(f"operator {op.__name__}")
        return table[op].format(a, b)
    if isinstance(e, ast.UnaryOp):
        if isinstance(e.op, ast.Not):
            return f"(negb {tr(e.operand, env)})"
        if isinstance(e.op, ast.USub):
            return f"(- {tr(e.operand, env)})"
        raise TieError("unary op")
    if isinstance(e, ast.BoolOp):
        parts = [tr(v, env) for v in e.values]
        op = " && " if isinstance(e.op, ast.And) else " || "
        return "(" + op.join(parts) + ")"
    if isinstance(e, ast.Compare):
        if len(e.ops) != 1:
            raise TieError("chained comparison")
        op, rhs = e.ops[0], e.comparators[0]
        a = tr(e.left, env)
        if isinstance(op, (ast.In, ast.NotIn)):
            neg = isinstance(op, ast.NotIn)
            if isinstance(rhs, ast.Call) and ast.unparse(rhs.func) == "range":
                args = [tr(x, env) for x in rhs.args]
                if len(args) == 1:
                    r = f"((0 <=? {a}) && ({a} <? {args[0]}))"
                elif len(args) == 2:
                    r = f"(({args[0]} <=? {a}) && ({a} <? {args[1]}))"
                else:
                    raise TieError("range with step in membership")
            elif isinstance(rhs, (ast.List, ast.Tuple)):
                r = f"(existsb (Z.eqb {a}) [{'; '.join(tr(x, env) for x in rhs.elts)}])"
            else:
                raise TieError("membership in non-literal")
            return f"(negb {r})" if neg else r
        b = tr(rhs, env)
        table = {
            ast.Lt: f"({a} <? {b})",
            ast.LtE: f"({a} <=? {b})",
            ast.Gt: f"({b} <? {a})",
            ast.GtE: f"({b} <=? {a})",
            ast.Eq: f"({a} =? {b})",
            ast.NotEq: f"(negb ({a} =? {b}))",
        }
        if type(op) not in table:
            raise TieError(f"comparison {type(op).__name__}")
        return table[type(op)]
    if isinstance(e, ast.IfExp):
        return f"(if {tr(e.test, env)} then {tr(e.body, env)} else {tr(e.orelse, env)})"
    if isinstance(e, ast.Call):
        f = ast.unparse(e.func)
        if f == "len" and len(e.args) == 1:
            return f"(zlen {tr(e.args[0], env)})"
        if f in ("bytes", "bytearray") and len(e.args) == 1 and isinstance(e.args[0], ast.List):
            return "[" + "; ".join(tr(x, env) for x in e.args[0].elts) + "]"
        if f == "ord" and len(e.args) == 1 and isinstance(e.args[0], ast.Constant):
            return zlit(ord(e.args[0].value))
        if f in ("min", "max") and len(e.args) == 1 and isinstance(e.args[0], ast.List) and len(e.args[0].elts) == 2:
            x, y = (tr(v, env) for v in e.args[0].elts)
            return f"(Z.{f} {x} {y})"
        if f in ("min", "max") and len(e.args) == 2:
            x, y = (tr(v, env) for v in e.args)
            return f"(Z.{f} {x} {y})"
        raise TieError(f"call {f}")
    if isinstance(e, ast.Tuple):
        return "(" + ", ".join(tr(x, env) for x in e.elts) + ")"
    if isinstance(e, ast.List):
        return "[" + "; ".join(tr(x, env) for x in e.elts) + "]"
    if isinstance(e, ast.Subscript):
        # x[i] on a list-typed param: nth with default 0 (callers guard the index)
        if isinstance(e.slice, ast.Slice):
            raise TieError("slice expression")
        return f"(nth (Z.to_nat {tr(e.slice, env)}) {tr(e.value, env)} 0)"
    raise TieError(f"expression {type(e).__name__}: {src}")


def targets_of(stmts):
    out = []
    for s in stmts:
        if isinstance(s, ast.Assign):
            for t in s.targets:
                if isinstance(t, ast.Name):
                    if t.id not in out:
                        out.append(t.id)
                elif isinstance(t, ast.Tuple):
                    for x in t.elts:
                        if isinstance(x, ast.Name) and x.id not in out:
                            out.append(x.id)
                else:
                    raise TieError("assignment target")
        elif isinstance(s, ast.If):
            for x in targets_of(s.body) + targets_of(s.orelse):
                if x not in out:
                    out.append(x)
        elif isinstance(s, (ast.Expr, ast.Pass)):
            pass
        else:
            raise TieError(f"statement {type(s).__name__} in branch")
    return out


def tr_block(stmts, env, tail):
    """translate a statement list; `tail` = gallina text to use when falling off the end
    (None => must end in return)."""
    if not stmts:
        if tail is None:
            raise TieError("block falls off the end")
        return tail(env)
    s, rest = stmts[0], stmts[1:]
    if isinstance(s, ast.Expr) and isinstance(s.value, ast.Constant):  # docstring
        return tr_block(rest, env, tail)
    if isinstance(s, ast.Pass):
        return tr_block(rest, env, tail)
    if isinstance(s, ast.Return):
        if s.value is None:
            raise TieError("bare return")
        return tr(s.value, env)
    if isinstance(s, ast.Assign) and len(s.targets) == 1:
        t = s.targets[0]
        if isinstance(t, ast.Name):
            v = tr(s.value, env)
            env2 = env.child()
            env2.lets.add(t.id)
            env2.params.pop(t.id, None)
            return f"(let v_{t.id} := {v} in {tr_block(rest, env2, tail)})"
        if isinstance(t, ast.Tuple) and all(isinstance(x, ast.Name) for x in t.elts):
            v = tr(s.value, env)
            env2 = env.child()
            for x in t.elts:
                env2.lets.add(x.id)
                env2.params.pop(x.id, None)
            pat = ", ".join("v_" + x.id for x in t.elts)
            return f"(let '({pat}) := {v} in {tr_block(rest, env2, tail)})"
        raise TieError("assignment target")
    if isinstance(s, ast.If):
        # branch that returns on both sides
        def ends_in_return(b):
            return bool(b) and isinstance(b[-1], ast.Return)

        if ends_in_return(s.body) and (ends_in_return(s.orelse) or not s.orelse):
            els = s.orelse if s.orelse else rest
            return f"(if {tr(s.test, env)} then {tr_block(s.body, env, None)} else {tr_block(els, env, tail if not s.orelse else None)})"
        ts = targets_of(s.body + s.orelse)
        if not ts:
            raise TieError("if without effect")
        for x in ts:
            if x not in env.lets and x not in env.params:
                raise TieError(f"variable {x} assigned only in a branch")

        def fin(e):
            return "(" + ", ".join(("v_" + x) if x in e.lets else e.params[x] for x in ts) + ")"

        a = tr_block(s.body, env, fin)
        b = tr_block(s.orelse, env, fin)
        env2 = env.child()
        for x in ts:
            env2.lets.add(x)
            env2.params.pop(x, None)
        pat = ", ".join("v_" + x for x in ts)
        pat = f"'({pat})" if len(ts) > 1 else pat
        return f"(let {pat} := (if {tr(s.test, env)} then {a} else {b}) in {tr_block(rest, env2, tail)})"
    if isinstance(s, ast.For) and isinstance(s.target, ast.Name) and not s.orelse:
        ts = targets_of(s.body)
        if len(ts) != 1 or ts[0] not in env.lets:
            raise TieError("for loop shape")
        acc = ts[0]
        envb = env.child()
        envb.lets.add(s.target.id)
        body = tr_block(s.body, envb, lambda e: "v_" + acc)
        env2 = env.child()
        return (
            f"(let v_{acc} := fold_left (fun v_{acc} v_{s.target.id} => {body}) {tr(s.iter, env)} v_{acc} in "
            f"{tr_block(rest, env2, tail)})"
        )
    raise TieError(f"statement {type(s).__name__}")


def tr_function(fn, env, params):
    """params: list of (python expr text, gallina name, gallina type)"""
    e = env.child()
    for py, g, _ in params:
        e.params[py] = g
    body = tr_block(fn.body, e, None)
    return body


# --------------------------------------------------------------------------- emit helpers
class Out:
    def __init__(self, name, header=""):
        self.name = name
        self.lines = [
            f"(* Gen/{name}.v — GENERATED by tools/translate.py from /repo/src on every run.  Do not edit. *)",
            "From Coq Require Import ZArith List Bool.",
            "Import ListNotations.",
            "Require Import PyBase.",
            "Open Scope Z_scope.",
            header,
        ]
        self.items = []
        self.fallback = []

    def define(self, gname, typ, body, params=()):
        ps = " ".join(f"({g} : {t})" for _, g, t in params)
        self.lines.append(f"Definition {gname} {ps} : {typ} := {body}.")

    def item(self, gname, typ, thunk, params=(), snapshot=None):
        """thunk() -> gallina body; on TieError fall back to the snapshot text for this item"""
        try:
            body = thunk()
            self.define(gname, typ, body, params)
            self.items.append(gname)
        except (TieError, SyntaxError, FileNotFoundError, KeyError, IndexError, AttributeError, TypeError, ValueError) as ex:
            self.fallback.append({"item": gname, "why": f"{type(ex).__name__}: {ex}"})
            snap = snapshot_text(self.name, gname)
            if snap is None:
                raise SystemExit(f"translate: item {gname} failed ({ex}) and no snapshot exists")
            self.lines.append(snap)

    def text(self):
        return "\n".join(self.lines) + "\n"


SNAPDIR = None


def snapshot_text(fname, gname):
    if SNAPDIR is None:
        return None
    p = os.path.join(SNAPDIR, fname + ".v")
    if not os.path.exists(p):
        return None
    for line in open(p, encoding="utf-8"):
        if line.startswith(f"Definition {gname} "):
            return line.rstrip("\n")
    return None


def enum_members(tree, cls):
    c = find_scope(tree, cls)
    out = {}
    for s in c.body:
        if isinstance(s, ast.Assign) and len(s.targets) == 1 and isinstance(s.targets[0], ast.Name):
            if isinstance(s.value, ast.Constant) and isinstance(s.value.value, int):
                out[f"{cls}.{s.targets[0].id}"] = s.value.value
    if not out:
        raise TieError(f"enum {cls} empty")
    return out


def kwarg(call, name):
    for k in call.keywords:
        if k.arg == name:
            return k.value
    raise TieError(f"keyword {name} missing")


def const_str(e):
    if isinstance(e, ast.Constant) and isinstance(e.value, str):
        return e.value
    raise TieError("expected str literal")


def const_int(e):
    if isinstance(e, ast.Constant) and isinstance(e.value, int) and not isinstance(e.value, bool):
        return e.value
    raise TieError("expected int literal")


def add_argument_calls(scope):
    return calls_to(scope, "add_argument")


def arg_call_with_flag(scope, flag):
    for c in add_argument_calls(scope):
        if any(isinstance(a, ast.Constant) and a.value == flag for a in c.args):
            return c
    raise TieError(f"add_argument({flag}) not found")


# --------------------------------------------------------------------------- the item maps
def gen_text():
    o = Out("GenText")
    nl = lambda: module("moto_nl/nl.py")
    pr = lambda: module("moto_prettier/prettier.py")

    def re_arg(tree_f, scope, fname):
        def th():
            c = nth(calls_to(find_scope(tree_f(), scope), fname), 0, fname)
            return zlist(str_points(const_str(c.args[0])))

        return th

    o.item("nl_regex", "list Z", re_arg(nl, "NumberLineCli.processLine", "search"))
    o.item(
        "nl_rstrip_arg",
        "list Z",
        lambda: zlist(str_points(const_str(nth(calls_to(find_scope(nl(), "NumberLineCli.processLine"), "rstrip"), 0).args[0]))),
    )
    for g, flag in (("nl_default_increment", "-i"), ("nl_default_start", "-v"), ("nl_default_width", "-w")):
        o.item(g, "Z", (lambda flag=flag: zlit(const_int(kwarg(arg_call_with_flag(find_scope(nl(), "createArgParser"), flag), "default")))))
    # the numbered-line branch: numberLine = int(group) + increment ; else numberLine += increment
    def nl_next_numbered():
        fn = find_scope(nl(), "NumberLineCli.processLine")
        v = assign_value(fn, "self.numberLine", 0)
        env = Env(params={"int(match.group(1))": "parsed", "args.line_increment": "inc"})
        return tr(v, env)

    o.item("nl_next_numbered", "Z", nl_next_numbered, params=[("", "parsed", "Z"), ("", "inc", "Z")])

    def nl_next_unnumbered():
        fn = find_scope(nl(), "NumberLineCli.processLine")
        a = nth(nodes(fn, ast.AugAssign), 1, "augassign")
        if ast.unparse(a.target) != "self.numberLine" or not isinstance(a.op, ast.Add):
            raise TieError("numberLine += shape")
        return "(n + " + tr(a.value, Env(params={"args.line_increment": "inc"})) + ")"

    o.item("nl_next_unnumbered", "Z", nl_next_unnumbered, params=[("", "n", "Z"), ("", "inc", "Z")])

    def nl_pad_test():
        fn = find_scope(nl(), "NumberLineCli.processLine")
        i = nth(nodes(fn, ast.If), 1, "if")
        return tr(i.test, Env(params={"paddedNumber": "padded", "args.number_width": "width"}))

    o.item("nl_pad_test", "bool", nl_pad_test, params=[("", "padded", "list Z"), ("", "width", "Z")])

    def nl_pad_count():
        # "".join([" " for i in range(len(paddedNumber), args.number_width)])
        fn = find_scope(nl(), "NumberLineCli.processLine")
        r = nth(calls_to(fn, "range"), 0, "range")
        if len(r.args) != 2:
            raise TieError("range arity")
        env = Env(params={"paddedNumber": "padded", "args.number_width": "width"})
        lc = nth(nodes(fn, ast.ListComp), 0, "listcomp")
        if const_str(lc.elt) != " ":
            raise TieError("pad char")
        return f"({tr(r.args[1], env)} - {tr(r.args[0], env)})"

    o.item("nl_pad_count", "Z", nl_pad_count, params=[("", "padded", "list Z"), ("", "width", "Z")])

    def nl_line_format():
        # print(f"{paddedNumber} {line}") : the separator between number and line
        fn = find_scope(nl(), "NumberLineCli.processLine")
        js = nth(nodes(fn, ast.JoinedStr), 1, "fstring")
        parts = js.values
        if (
            len(parts) == 3
            and isinstance(parts[0], ast.FormattedValue)
            and ast.unparse(parts[0].value) == "paddedNumber"
            and isinstance(parts[1], ast.Constant)
            and isinstance(parts[2], ast.FormattedValue)
            and ast.unparse(parts[2].value) == "line"
        ):
            return zlist(str_points(parts[1].value))
        raise TieError("output f-string shape")

    o.item("nl_separator", "list Z", nl_line_format)

    o.item("prettier_regex", "list Z", re_arg(pr, "PrettierCli.processLine", "split"))
    o.item(
        "prettier_rstrip_arg",
        "list Z",
        lambda: zlist(str_points(const_str(nth(calls_to(find_scope(pr(), "PrettierCli.processLine"), "rstrip"), 0).args[0]))),
    )

    def prettier_toggle():
        fn = find_scope(pr(), "PrettierCli.processLine")
        v = assign_value(fn, "dquote_depth", 1)
        return tr(v, Env(params={"dquote_depth": "depth", "group": "group"}))

    o.item("prettier_toggle", "Z", prettier_toggle, params=[("", "depth", "Z"), ("", "group", "list Z")])

    def prettier_toggle_test():
        fn = find_scope(pr(), "PrettierCli.processLine")
        i = nth(nodes(fn, ast.If), 0, "if")
        t = i.test
        # group.startswith('"')   (after the repair)   or   group == '"'   (pinned tree)
        if isinstance(t, ast.Call) and ast.unparse(t.func) == "group.startswith" and len(t.args) == 1:
            return f"(starts_with {zlist(str_points(const_str(t.args[0])))} group)"
        if isinstance(t, ast.Compare) and ast.unparse(t.left) == "group" and isinstance(t.ops[0], ast.Eq):
            return f"(zeqb_list group {zlist(str_points(const_str(t.comparators[0])))})"
        raise TieError("toggle test shape")

    o.item("prettier_toggle_test", "bool", prettier_toggle_test, params=[("", "group", "list Z")])

    def prettier_upper_test():
        fn = find_scope(pr(), "PrettierCli.processLine")
        ie = nth(nodes(fn, ast.IfExp), 0, "ifexp")
        if ast.unparse(ie.body) != "group.upper()" or ast.unparse(ie.orelse) != "group":
            raise TieError("upper branch shape")
        return tr(ie.test, Env(params={"dquote_depth": "depth"}))

    o.item("prettier_upper_test", "bool", prettier_upper_test, params=[("", "depth", "Z")])
    return o



def slice_bounds(sub):
    """(lo, hi) of x[lo:hi] with int literals (hi may be negative: -k)"""
    if not isinstance(sub, ast.Subscript) or not isinstance(sub.slice, ast.Slice):
        raise TieError("not a slice")
    sl = sub.slice

    def val(x):
        if x is None:
            raise TieError("open slice bound")
        if isinstance(x, ast.UnaryOp) and isinstance(x.op, ast.USub):
            return -const_int(x.operand)
        return const_int(x)

    if sl.step is not None:
        raise TieError("slice step")
    return val(sl.lower), val(sl.upper)


def subscripts_of(scope, base):
    return [n for n in nodes(scope, ast.Subscript) if ast.unparse(n.value) == base]


def gen_tape():
    o = Out("GenTape")
    tp = lambda: module("moto_lib/fs_tape/tape.py")
    bl = lambda: module("moto_lib/fs_tape/block.py")
    bd = lambda: module("moto_lib/fs_tape/block_descriptor.py")
    cs = lambda: module("moto_lib/fs_tape/consts.py")
    inj = lambda: module("moto_lib/fs_tape/image_worker/content_injector.py")
    ex = lambda: module("moto_lib/fs_tape/image_worker/content_extractor.py")
    en = lambda: module("moto_lib/fs_tape/image_worker/content_enumerator.py")

    o.item("sync_read", "list Z", lambda: tr(assign_value(tp(), "startOfBlockSequenceToRead"), Env()))
    o.item("sync_write", "list Z", lambda: tr(assign_value(tp(), "startOfBlockSequenceToWrite"), Env()))
    o.item("tape_default_size", "Z", lambda: tr(nth(calls_to(find_scope(tp(), "Tape.__init__"), "bytearray"), 0).args[0], Env()))
    C = {"startOfBlockSequenceToRead": "sync_read", "startOfBlockSequenceToWrite": "sync_write"}
    enums = lambda: enum_members(cs(), "TypeOfTapeBlock")
    for m in ("LEADER", "DATA", "EOF"):
        o.item(f"block_type_{m}", "Z", (lambda m=m: zlit(enums()[f"TypeOfTapeBlock.{m}"])))
    o.item("block_type_count", "Z", lambda: zlit(len(enums())))

    # Tape.writeBlock
    wb = lambda: find_scope(tp(), "Tape.writeBlock")
    o.item("wb_next1", "Z", lambda: tr(assign_value(wb(), "nextPosition", 0), Env(params={"position": "position"}, consts=C)), params=[("", "position", "Z")])
    o.item("wb_guard1", "bool", lambda: tr(nth(nodes(wb(), ast.If), 0).test, Env(params={"nextPosition": "nextPosition", "self.maxPosition": "maxPosition"})), params=[("", "nextPosition", "Z"), ("", "maxPosition", "Z")])
    o.item("wb_next2", "Z", lambda: tr(assign_value(wb(), "nextPosition", 1), Env(params={"position": "position", "block.rawData": "blockRaw"})), params=[("", "position", "Z"), ("", "blockRaw", "list Z")])
    o.item("wb_guard2", "bool", lambda: tr(nth(nodes(wb(), ast.If), 1).test, Env(params={"nextPosition": "nextPosition", "self.maxPosition": "maxPosition"})), params=[("", "nextPosition", "Z"), ("", "maxPosition", "Z")])

    def raises_overflow(k):
        i = nth(nodes(wb(), ast.If), k)
        r = i.body[0]
        if not (isinstance(r, ast.Raise) and isinstance(r.exc, ast.Call) and ast.unparse(r.exc.func) == "OverflowError"):
            raise TieError("guard does not raise OverflowError")
        return "true"

    o.item("wb_guard1_raises_overflow", "bool", lambda: raises_overflow(0))
    o.item("wb_guard2_raises_overflow", "bool", lambda: raises_overflow(1))

    # Tape.nextBlock
    nb = lambda: find_scope(tp(), "Tape.nextBlock")
    o.item("nb_after_sync", "Z", lambda: tr(assign_value(nb(), "self._position", 1), Env(params={"pos": "pos"}, consts=C)), params=[("", "pos", "Z")])
    o.item("nb_bound_test", "bool", lambda: tr(nth(nodes(nb(), ast.If), 1).test, Env(params={"self._position": "position", "self.maxPosition": "maxPosition"})), params=[("", "position", "Z"), ("", "maxPosition", "Z")])

    def nb_len_index():
        v = assign_value(nb(), "length")
        if not (isinstance(v, ast.Subscript) and ast.unparse(v.value) == "self.rawData"):
            raise TieError("length = self.rawData[...] shape")
        return tr(v.slice, Env(params={"self._position": "position"}))

    o.item("nb_len_index", "Z", nb_len_index, params=[("", "position", "Z")])
    o.item("nb_block_end", "Z", lambda: tr(assign_value(nb(), "blockEnd"), Env(params={"self._position": "position", "length": "length"})), params=[("", "position", "Z"), ("", "length", "Z")])

    # TapeBlock
    o.item("checksum", "Z", lambda: "(let v_sum := 0 in " + tr_block(find_scope(bl(), "TapeBlock.computeChecksum").body[1:], Env(params={"data": "data"}, lets={"sum"}), None) + ")", params=[("", "data", "list Z")])

    def bb():
        return find_scope(bl(), "TapeBlock.buildFromData")

    def bb_eof():
        i = nth(nodes(bb(), ast.If), 0)
        if ast.unparse(i.test) != "data is None":
            raise TieError("buildFromData None test")
        c = i.body[0].value  # TapeBlock(bytes([...]))
        return tr(c.args[0], Env(params={"type.value": "ty"}))

    o.item("bb_eof", "list Z", bb_eof, params=[("", "ty", "Z")])

    def bb_parts():
        r = bb().body[-1].value  # TapeBlock(bytes(A + data + B))
        e = r.args[0].args[0]
        if not (isinstance(e, ast.BinOp) and isinstance(e.op, ast.Add) and isinstance(e.left, ast.BinOp) and ast.unparse(e.left.right) == "data"):
            raise TieError("buildFromData concatenation shape")
        return e.left.left, e.right

    o.item("bb_header", "list Z", lambda: tr(bb_parts()[0], Env(params={"type.value": "ty", "data": "data"})), params=[("", "ty", "Z"), ("", "data", "list Z")])

    def bb_trailer():
        t = bb_parts()[1]
        if ast.unparse(t) != "bytes([TapeBlock.computeChecksum(data)])":
            raise TieError("trailer shape")
        return "[checksum data]"

    o.item("bb_trailer", "list Z", bb_trailer, params=[("", "data", "list Z")])

    def body_bounds():
        g = find_getter(bl(), "TapeBlock", "body")
        return slice_bounds(g.body[0].value)

    o.item("body_lo", "Z", lambda: zlit(body_bounds()[0]))
    o.item("body_hi_from_end", "Z", lambda: zlit(-body_bounds()[1]))
    o.item("block_type_index", "Z", lambda: tr(find_getter(bl(), "TapeBlock", "type").body[0].value.args[0].slice, Env()))

    # LeaderTapeBlockDescriptor
    def bft():
        return find_scope(bd(), "LeaderTapeBlockDescriptor.buildFromTapeBlock")

    def bft_args():
        c = bft().body[0].value
        if len(c.args) != 4:
            raise TieError("buildFromTapeBlock arity")
        return c.args

    def field_slice(k):
        a = bft_args()[k]
        # rawData[a:b].decode("utf-8").strip()
        if not (isinstance(a, ast.Call) and ast.unparse(a.func).endswith(".decode('utf-8').strip")):
            raise TieError("field decode/strip shape")
        return slice_bounds(a.func.value.func.value)

    o.item("ld_name_lo", "Z", lambda: zlit(field_slice(0)[0]))
    o.item("ld_name_hi", "Z", lambda: zlit(field_slice(0)[1]))
    o.item("ld_ext_lo", "Z", lambda: zlit(field_slice(1)[0]))
    o.item("ld_ext_hi", "Z", lambda: zlit(field_slice(1)[1]))
    o.item("ld_type_index", "Z", lambda: tr(bft_args()[2].slice, Env()))

    def ld_mode():
        a = bft_args()[3]
        env = Env()
        subs = [n for n in nodes(a, ast.Subscript)]
        for k, sname in zip(subs, ("hi", "lo")):
            env.params[ast.unparse(k)] = sname
        return tr(a, env), [const_int(k.slice) for k in subs]

    o.item("ld_mode_of", "Z", lambda: ld_mode()[0], params=[("", "hi", "Z"), ("", "lo", "Z")])
    o.item("ld_mode_hi_index", "Z", lambda: zlit(ld_mode()[1][0]))
    o.item("ld_mode_lo_index", "Z", lambda: zlit(ld_mode()[1][1]))

    def ttb():
        return find_scope(bd(), "LeaderTapeBlockDescriptor.toTapeBlock")

    o.item("ld_payload_size", "Z", lambda: tr(nth(calls_to(ttb(), "bytearray"), 0).args[0], Env()))

    def ttb_field(k):
        # data[a:b] = (self.X.upper() + "pad").encode("utf-8")[c:d]
        a = [n for n in nodes(ttb(), ast.Assign) if isinstance(n.targets[0], ast.Subscript) and isinstance(n.targets[0].slice, ast.Slice)][k]
        lo, hi = slice_bounds(a.targets[0])
        v = a.value
        c, d = slice_bounds(v)
        inner = v.value  # (...).encode("utf-8")
        if not (isinstance(inner, ast.Call) and ast.unparse(inner.func).endswith(".encode")):
            raise TieError("encode shape")
        add = inner.func.value
        if not (isinstance(add, ast.BinOp) and isinstance(add.op, ast.Add) and ast.unparse(add.left) in ("self.fileName.upper()", "self.fileExtension.upper()")):
            raise TieError("upper()+pad shape")
        return lo, hi, c, d, const_str(add.right), ast.unparse(add.left)

    for k, nm in ((0, "name"), (1, "ext")):
        o.item(f"ttb_{nm}_lo", "Z", (lambda k=k: zlit(ttb_field(k)[0])))
        o.item(f"ttb_{nm}_hi", "Z", (lambda k=k: zlit(ttb_field(k)[1])))
        o.item(f"ttb_{nm}_cut_lo", "Z", (lambda k=k: zlit(ttb_field(k)[2])))
        o.item(f"ttb_{nm}_cut_hi", "Z", (lambda k=k: zlit(ttb_field(k)[3])))
        o.item(f"ttb_{nm}_pad", "list Z", (lambda k=k: zlist(str_points(ttb_field(k)[4]))))

    def ttb_byte(k):
        a = [n for n in nodes(ttb(), ast.Assign) if isinstance(n.targets[0], ast.Subscript) and not isinstance(n.targets[0].slice, ast.Slice)][k]
        return const_int(a.targets[0].slice), tr(a.value, Env(params={"self.fileType": "ftype", "self.fileMode": "fmode"}))

    for k, nm in ((0, "type"), (1, "mode_hi"), (2, "mode_lo")):
        o.item(f"ttb_{nm}_index", "Z", (lambda k=k: zlit(ttb_byte(k)[0])))
        o.item(f"ttb_{nm}_value", "Z", (lambda k=k: ttb_byte(k)[1]), params=[("", "ftype", "Z"), ("", "fmode", "Z")])

    def ttb_block_type():
        r = ttb().body[-1].value
        if ast.unparse(r.func) != "TapeBlock.buildFromData" or ast.unparse(r.args[0]) != "data":
            raise TieError("toTapeBlock return shape")
        return tr(r.args[1], Env(enums=enums()))

    o.item("ttb_block_type", "Z", ttb_block_type)

    # injector: extension -> (extension, type, mode, strip ",a")
    def perform():
        return find_scope(inj(), "TapeImageContentInjector.perform")

    o.item("inj_default_type", "Z", lambda: tr(assign_value(perform(), "fileType", 0), Env()))
    o.item("inj_default_mode", "Z", lambda: tr(assign_value(perform(), "fileMode", 0), Env()))

    def inj_dispatch():
        chain = None
        for i in nodes(perform(), ast.If):
            if isinstance(i.test, ast.Compare) and ast.unparse(i.test.left) == "fileExtension" and isinstance(i.test.ops[0], ast.Eq):
                chain = i
                break
        if chain is None:
            raise TieError("extension dispatch not found")

        def branch(stmts):
            ext, ty, mode, strip = "ext", "inj_default_type", "inj_default_mode", "false"
            for s_ in stmts:
                if not isinstance(s_, ast.Assign):
                    raise TieError("dispatch branch statement")
                t = ast.unparse(s_.targets[0])
                if t == "fileExtension":
                    ext = zlist(str_points(const_str(s_.value)))
                elif t == "fileType":
                    ty = tr(s_.value, Env())
                elif t == "fileMode":
                    mode = tr(s_.value, Env())
                elif t == "src" and ast.unparse(s_.value) == "src[:-2]":
                    strip = "true"
                else:
                    raise TieError(f"dispatch assigns {t}")
            return f"({ext}, {ty}, {mode}, {strip})"

        def go(i):
            lit = zlist(str_points(const_str(i.test.comparators[0])))
            then = branch(i.body)
            if not i.orelse:
                els = "(ext, inj_default_type, inj_default_mode, false)"
            elif len(i.orelse) == 1 and isinstance(i.orelse[0], ast.If):
                j = i.orelse[0]
                if not (isinstance(j.test, ast.Compare) and ast.unparse(j.test.left) == "fileExtension"):
                    raise TieError("dispatch chain shape")
                els = go(j)
            else:
                els = branch(i.orelse)
            return f"(if zeqb_list ext {lit} then {then} else {els})"

        return go(chain)

    o.item("inj_dispatch", "(list Z * Z * Z * bool)", inj_dispatch, params=[("", "ext", "list Z")])

    def inj_name_limit():
        for i in nodes(perform(), ast.If):
            if ast.unparse(i.test).startswith("len(fileName) >"):
                lim = const_int(i.test.comparators[0])
                lo, hi = slice_bounds(i.body[0].value)
                if lo != 0 or hi != lim:
                    raise TieError("name cut bounds")
                return zlit(lim)
        raise TieError("name limit not found")

    o.item("inj_name_limit", "Z", inj_name_limit)

    def inj_chunk():
        v = assign_value(perform(), "dataNextPos", 0)
        return tr(v, Env(params={"dataPos": "dataPos", "dataRemaining": "dataRemaining"}))

    o.item("inj_next_pos", "Z", inj_chunk, params=[("", "dataPos", "Z"), ("", "dataRemaining", "Z")])

    def inj_overflow_status():
        for h in nodes(perform(), ast.ExceptHandler):
            if ast.unparse(h.type) == "OverflowError":
                r = [x for x in h.body if isinstance(x, ast.Return)]
                return tr(r[0].value, Env())
        raise TieError("OverflowError handler not found")

    o.item("inj_overflow_status", "Z", inj_overflow_status)
    o.item("inj_overflow_message", "list Z", lambda: zlist(str_points(const_str(nth(calls_to(nth(nodes(perform(), ast.ExceptHandler), 0), "print"), 0).args[0]))))

    def ext_replace():
        fn = find_scope(ex(), "TapeImageContentExtractor.perform")
        c = nth(calls_to(fn, "replace"), 0, "replace")
        a, b = c.args
        frm = [47] if ast.unparse(a) == "os.sep" else str_points(const_str(a))
        to = str_points(const_str(b))
        if len(to) != 1 or len(frm) != 1:
            raise TieError("replace arguments")
        if not isinstance(c.func.value, ast.JoinedStr):
            raise TieError("replace is not applied to the whole file name")
        return frm, to[0]

    o.item("ext_sep_from", "list Z", lambda: zlist(ext_replace()[0]))
    o.item("ext_sep_to", "Z", lambda: zlit(ext_replace()[1]))
    return o



def gen_basic():
    o = Out("GenBasic")
    cv = lambda: module("moto_lib/basic/converter_from_listing.py")
    tk = lambda: module("moto_lib/basic/tokenizer.py")
    b2l = lambda: module("moto_bas2lst/bas2lst.py")
    l2b = lambda: module("moto_lst2bas/lst2bas.py")

    def tokens():
        d = assign_value(cv(), "basicTokensMap")
        if not isinstance(d, ast.Dict):
            raise TieError("basicTokensMap is not a dict literal")
        items = []
        seen = set()
        for k, v in zip(d.keys, d.values):
            ks, vi = const_str(k), const_int(v)
            if ks in seen:
                # a later duplicate key overrides the earlier one in a dict literal
                items = [(a, b) for a, b in items if a != ks]
            seen.add(ks)
            items.append((ks, vi))
        return "[" + "; ".join(f"({zlist(str_points(k))}, {zlit(v)})" for k, v in items) + "]"

    o.item("basic_tokens", "list (list Z * Z)", tokens)

    def db():
        d = assign_value(cv(), "basicTokensDb")
        if not isinstance(d, ast.Dict):
            raise TieError("basicTokensDb shape")
        m = dict(zip([const_str(k) for k in d.keys], d.values))
        if ast.unparse(m["map"]) != "basicTokensMap":
            raise TieError("basicTokensDb.map")
        rules = m["rules"]
        r = dict(zip([const_str(k) for k in rules.keys], rules.values))
        if set(r) != {"requireColonIfNotBlank"}:
            raise TieError("rules keys")
        return "[" + "; ".join(zlist(str_points(const_str(x))) for x in r["requireColonIfNotBlank"].elts) + "]"

    o.item("require_colon", "list (list Z)", db)

    def litdb():
        d = assign_value(cv(), "litteralTokensDb")
        if isinstance(d, ast.Dict) and not d.keys:
            return "true"
        raise TieError("litteralTokensDb is not {}")

    o.item("literal_db_is_empty", "bool", litdb)

    def special():
        l = assign_value(find_scope(cv(), "ListingToTokenizedBasicConverter"), "SPECIAL_CHARS")
        cs = [const_str(x) for x in l.elts]
        if any(len(c) != 1 for c in cs):
            raise TieError("SPECIAL_CHARS entries")
        return zlist([ord(c) for c in cs])

    o.item("special_chars", "list Z", special)
    o.item("program_base", "Z", lambda: tr(assign_value(find_scope(cv(), "ListingToTokenizedBasicConverter.convert"), "pointerNext", 0), Env()))

    def u16(scope_f, qual):
        fn = find_scope(scope_f(), qual)
        r = fn.body[-1].value  # bytes([...])
        return tr(r.args[0], Env(params={"value": "value"}))

    o.item("conv_u16", "list Z", lambda: u16(cv, "ListingToTokenizedBasicConverter.toUint16"), params=[("", "value", "Z")])
    o.item("tok_u8", "list Z", lambda: u16(tk, "toUint8"), params=[("", "value", "Z")])
    o.item("tok_u16", "list Z", lambda: u16(tk, "toUint16"), params=[("", "value", "Z")])

    def bytes_from_uint():
        fn = find_scope(tk(), "bytesFromUint")
        r = fn.body[-1].value
        if not (isinstance(r, ast.IfExp) and ast.unparse(r.body) == "toUint8(value)" and ast.unparse(r.orelse) == "toUint16(value)"):
            raise TieError("bytesFromUint shape")
        return f"(if {tr(r.test, Env(params={'value': 'value'}))} then tok_u8 value else tok_u16 value)"

    o.item("bytes_from_uint", "list Z", bytes_from_uint, params=[("", "value", "Z")])

    def colon():
        fn = find_scope(tk(), "TokenizerContext.appendAsToken")
        c = nth(calls_to(fn, "toUint8"), 0, "toUint8")
        return tr(c.args[0], Env())

    o.item("colon_byte", "Z", colon)
    o.item("line_regex", "list Z", lambda: zlist(str_points(const_str(nth(calls_to(find_scope(cv(), "ListingToTokenizedBasicConverter.extractLineParts"), "search"), 0).args[0]))))

    def convert_fn():
        return find_scope(cv(), "ListingToTokenizedBasicConverter.convert")

    def ptr_step():
        a = [n for n in nodes(convert_fn(), ast.AugAssign) if ast.unparse(n.target) == "pointerNext"]
        if len(a) != 1 or not isinstance(a[0].op, ast.Add):
            raise TieError("pointerNext += shape")
        return "(pointerNext + " + tr(a[0].value, Env(params={"lineBuffer": "lineBuffer"})) + ")"

    o.item("ptr_step", "Z", ptr_step, params=[("", "pointerNext", "Z"), ("", "lineBuffer", "list Z")])
    o.item("prog_marker", "list Z", lambda: tr(nth([n for n in nodes(convert_fn(), ast.AugAssign) if ast.unparse(n.target) == "header"], 0).value, Env()))
    o.item("line_end", "list Z", lambda: tr(assign_value(convert_fn(), "zeroUint8"), Env()))
    o.item("prog_end", "list Z", lambda: tr(assign_value(convert_fn(), "zeroUint16"), Env()))

    # ASCII converter
    def aconv():
        return find_scope(cv(), "ListingToAsciiBasicConverter.convert")

    o.item("ascii_eol", "list Z", lambda: tr(assign_value(aconv(), "endOfLine"), Env()))
    o.item("ascii_keep", "bool", lambda: tr(nth(nodes(aconv(), ast.If), 0).test, Env(params={"car": "car"})), params=[("", "car", "Z")])

    def ascii_rstrip():
        c = nth(calls_to(aconv(), "rstrip"), 0, "rstrip")
        if c.args:
            raise TieError("rstrip has an argument")
        return "true"

    o.item("ascii_rstrip_is_plain", "bool", ascii_rstrip)

    # bas2lst
    def brun():
        return find_scope(b2l(), "BasicToListingCli.run")

    def eol():
        v = assign_value(brun(), "endOfLine")
        if not isinstance(v, ast.IfExp) or ast.unparse(v.test) != "args.dos":
            raise TieError("endOfLine shape")
        return f"(if dos then {tr(v.body, Env())} else {tr(v.orelse, Env())})"

    o.item("b2l_eol", "list Z", eol, params=[("", "dos", "bool")])
    o.item("b2l_is_sep", "bool", lambda: tr(nth([i for i in nodes(brun(), ast.If) if ast.unparse(i.test).startswith("byte in")], 0).test, Env(params={"byte": "byte"})), params=[("", "byte", "Z")])
    o.item("b2l_flush_test", "bool", lambda: tr(nth([i for i in nodes(brun(), ast.If) if ast.unparse(i.test).startswith("lineOfCodeLength")], 0).test, Env(params={"lineOfCodeLength": "n"})), params=[("", "n", "Z")])
    return o


GENERATORS = [gen_text, gen_tape, gen_basic]


def main():
    global SNAPDIR
    args = sys.argv[1:]
    outdir = args[0]
    if "--snapshot" in args:
        SNAPDIR = args[args.index("--snapshot") + 1]
    only = None
    if "--only" in args:
        only = set(args[args.index("--only") + 1].split(","))
    os.makedirs(outdir, exist_ok=True)
    summary = {"files": {}, "items": 0, "fallback": []}
    for g in GENERATORS:
        o = g()
        if only and o.name not in only:
            continue
        text = o.text()
        p = os.path.join(outdir, o.name + ".v")
        old = open(p, encoding="utf-8").read() if os.path.exists(p) else None
        if old != text:
            with open(p, "w", encoding="utf-8") as f:
                f.write(text)
        summary["files"][o.name] = {"items": len(o.items), "fallback": o.fallback}
        summary["items"] += len(o.items)
        summary["fallback"] += [dict(x, file=o.name) for x in o.fallback]
    print(json.dumps(summary))


if __name__ == "__main__":
    main()
