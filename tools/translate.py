#!/usr/bin/env python3
"""Tie A: fail-closed python-ast -> Gallina translator (see DESIGN.md section 4.1).

Reads /repo/src (or $VERIF_REPO/src) and emits coq/Gen/*.v text.  It understands a
deliberately small language; anything else raises TieError for that item, which then
falls back to its committed snapshot (coq/Gen.snapshot) and is listed in the result
so the caller can demand a thorough-size correspondence instead.

Usage:  translate.py <outdir> [--snapshot <dir>]   -> prints a JSON summary on stdout
"""
import ast
import json
import os
import sys

REPO = os.environ.get("VERIF_REPO", "/repo")
SRC = os.path.join(REPO, "src")


class TieError(Exception):
    pass


# --------------------------------------------------------------------------- helpers
_cache = {}


def module(path):
    if path not in _cache:
        with open(os.path.join(SRC, path), "r", encoding="utf-8") as f:
            _cache[path] = ast.parse(f.read(), filename=path)
    return _cache[path]


def find_scope(tree, qual):
    """qual = 'Class.method' | 'func' | 'Class' | '' (module)."""
    node = tree
    if not qual:
        return node
    for part in qual.split("."):
        found = None
        for child in node.body:
            if isinstance(child, (ast.FunctionDef, ast.ClassDef)) and child.name == part:
                if found is not None and not _is_setter(child):
                    raise TieError(f"ambiguous scope {qual}")
                if found is None or not _is_setter(child):
                    found = child if found is None or _is_setter(found) else found
        if found is None:
            raise TieError(f"scope {qual} not found")
        node = found
    return node


def _is_setter(fn):
    return isinstance(fn, ast.FunctionDef) and any(
        isinstance(d, ast.Attribute) and d.attr == "setter" for d in fn.decorator_list
    )


def find_setter(tree, cls, name):
    c = find_scope(tree, cls)
    for child in c.body:
        if isinstance(child, ast.FunctionDef) and child.name == name and _is_setter(child):
            return child
    raise TieError(f"setter {cls}.{name} not found")


def find_getter(tree, cls, name):
    c = find_scope(tree, cls)
    for child in c.body:
        if isinstance(child, ast.FunctionDef) and child.name == name and not _is_setter(child):
            return child
    raise TieError(f"getter {cls}.{name} not found")


def assign_value(scope, name, nth=0):
    """value of the nth assignment `name = ...` directly or deeply inside scope."""
    hits = []
    for n in nodes(scope, (ast.Assign, ast.AnnAssign)):
        if isinstance(n, ast.Assign) and len(n.targets) == 1:
            t = n.targets[0]
            if isinstance(t, ast.Name) and t.id == name:
                hits.append(n.value)
            elif isinstance(t, ast.Attribute) and ast.unparse(t) == name:
                hits.append(n.value)
        elif isinstance(n, ast.AnnAssign) and isinstance(n.target, ast.Name) and n.target.id == name and n.value:
            hits.append(n.value)
    if len(hits) <= nth:
        raise TieError(f"assignment {name}#{nth} not found")
    return hits[nth]


def nodes(scope, kind):
    """all nodes of a kind in source order"""
    out = [n for n in ast.walk(scope) if isinstance(n, kind)]
    out.sort(key=lambda n: (n.lineno, n.col_offset))
    return out


def nth(lst, i, what="node"):
    if i >= len(lst):
        raise TieError(f"{what}#{i} not found")
    return lst[i]


def calls_to(scope, fname):
    out = []
    for n in nodes(scope, ast.Call):
        f = n.func
        name = f.attr if isinstance(f, ast.Attribute) else f.id if isinstance(f, ast.Name) else None
        if name == fname:
            out.append(n)
    return out


# --------------------------------------------------------------------------- expression translation
class Env:
    def __init__(self, params=None, consts=None, enums=None, lets=None, funcs=None, truthy=None):
        self.params = dict(params or {})  # python expr string -> gallina name
        self.consts = dict(consts or {})  # python name (possibly dotted) -> gallina name
        self.enums = dict(enums or {})  # 'Cls.MEMBER' -> int
        self.lets = set(lets or [])
        self.funcs = dict(funcs or {})  # python callee text -> gallina function name
        self.truthy = set(truthy or [])  # expressions that are bound methods (always true in a test)

    def child(self):
        e = Env(self.params, self.consts, self.enums, self.lets, self.funcs, self.truthy)
        return e


def zlit(n):
    return f"({n})" if n < 0 else str(n)


def zlist(vals):
    return "[" + "; ".join(zlit(v) for v in vals) + "]"


def str_points(s):
    return [ord(c) for c in s]


def tr(e, env):
    """translate an expression to Gallina text (Z- or bool- or list-valued)"""
    src = ast.unparse(e)
    if src in env.params:
        return env.params[src]
    if src in env.consts:
        return env.consts[src]
    if src in env.truthy:
        return "true"
    if isinstance(e, ast.Constant):
        v = e.value
        if isinstance(v, bool):
            return "true" if v else "false"
        if isinstance(v, int):
            return zlit(v)
        if isinstance(v, bytes):
            return zlist(list(v))
        if isinstance(v, str):
            return zlist(str_points(v))
        if v is None:
            raise TieError("None literal")
        raise TieError(f"literal {v!r}")
    if isinstance(e, ast.Name):
        if e.id in env.lets:
            return "v_" + e.id
        raise TieError(f"unbound name {e.id}")
    if isinstance(e, ast.Attribute):
        # Enum.MEMBER.value  /  Enum.MEMBER
        s = src
        if s.endswith(".value"):
            s = s[: -len(".value")]
        if s in env.enums:
            return zlit(env.enums[s])
        raise TieError(f"unknown attribute {src}")
    if isinstance(e, ast.BinOp):
        a, b = tr(e.left, env), tr(e.right, env)
        op = type(e.op)
        table = {
            ast.Add: "({} + {})",
            ast.Sub: "({} - {})",
            ast.Mult: "({} * {})",
            ast.FloorDiv: "({} / {})",
            ast.Mod: "({} mod {})",
            ast.BitAnd: "(Z.land {} {})",
            ast.BitOr: "(Z.lor {} {})",
            ast.LShift: "(Z.shiftl {} {})",
            ast.RShift: "(Z.shiftr {} {})",
        }
        if op not in table:
            raise TieError(f"operator {op.__name__}")
        return table[op].format(a, b)
    if isinstance(e, ast.UnaryOp):
        if isinstance(e.op, ast.Not):
            return f"(negb {tr(e.operand, env)})"
        if isinstance(e.op, ast.USub):
            return f"(- {tr(e.operand, env)})"
        raise TieError("unary op")
    if isinstance(e, ast.BoolOp):
        parts = [tr(v, env) for v in e.values]
        op = " && " if isinstance(e.op, ast.And) else " || "
        return "(" + op.join(parts) + ")"
    if isinstance(e, ast.Compare):
        if len(e.ops) != 1:
            raise TieError("chained comparison")
        op, rhs = e.ops[0], e.comparators[0]
        a = tr(e.left, env)
        if isinstance(op, (ast.In, ast.NotIn)):
            neg = isinstance(op, ast.NotIn)
            if isinstance(rhs, ast.Call) and ast.unparse(rhs.func) == "range":
                args = [tr(x, env) for x in rhs.args]
                if len(args) == 1:
                    r = f"((0 <=? {a}) && ({a} <? {args[0]}))"
                elif len(args) == 2:
                    r = f"(({args[0]} <=? {a}) && ({a} <? {args[1]}))"
                else:
                    raise TieError("range with step in membership")
            elif isinstance(rhs, (ast.List, ast.Tuple)):
                r = f"(existsb (Z.eqb {a}) [{'; '.join(tr(x, env) for x in rhs.elts)}])"
            else:
                raise TieError("membership in non-literal")
            return f"(negb {r})" if neg else r
        b = tr(rhs, env)
        table = {
            ast.Lt: f"({a} <? {b})",
            ast.LtE: f"({a} <=? {b})",
            ast.Gt: f"({b} <? {a})",
            ast.GtE: f"({b} <=? {a})",
            ast.Eq: f"({a} =? {b})",
            ast.NotEq: f"(negb ({a} =? {b}))",
        }
        if type(op) not in table:
            raise TieError(f"comparison {type(op).__name__}")
        return table[type(op)]
    if isinstance(e, ast.IfExp):
        return f"(if {tr(e.test, env)} then {tr(e.body, env)} else {tr(e.orelse, env)})"
    if isinstance(e, ast.Call):
        f = ast.unparse(e.func)
        if f == "len" and len(e.args) == 1:
            return f"(zlen {tr(e.args[0], env)})"
        if f in ("bytes", "bytearray") and len(e.args) == 1 and isinstance(e.args[0], ast.List):
            return "[" + "; ".join(tr(x, env) for x in e.args[0].elts) + "]"
        if f == "ord" and len(e.args) == 1 and isinstance(e.args[0], ast.Constant):
            return zlit(ord(e.args[0].value))
        if f in ("min", "max") and len(e.args) == 1 and isinstance(e.args[0], ast.List) and len(e.args[0].elts) == 2:
            x, y = (tr(v, env) for v in e.args[0].elts)
            return f"(Z.{f} {x} {y})"
        if f in ("min", "max") and len(e.args) == 2:
            x, y = (tr(v, env) for v in e.args)
            return f"(Z.{f} {x} {y})"
        if f in env.funcs and not e.keywords:
            return "(" + env.funcs[f] + " " + " ".join(tr(v, env) for v in e.args) + ")"
        raise TieError(f"call {f}")
    if isinstance(e, ast.Tuple):
        return "(" + ", ".join(tr(x, env) for x in e.elts) + ")"
    if isinstance(e, ast.List):
        return "[" + "; ".join(tr(x, env) for x in e.elts) + "]"
    if isinstance(e, ast.Subscript):
        # x[i] on a list-typed param: nth with default 0 (callers guard the index)
        if isinstance(e.slice, ast.Slice):
            raise TieError("slice expression")
        return f"(nth (Z.to_nat {tr(e.slice, env)}) {tr(e.value, env)} 0)"
    raise TieError(f"expression {type(e).__name__}: {src}")


def targets_of(stmts):
    out = []
    for s in stmts:
        if isinstance(s, ast.Assign):
            for t in s.targets:
                if isinstance(t, ast.Name):
                    if t.id not in out:
                        out.append(t.id)
                elif isinstance(t, ast.Tuple):
                    for x in t.elts:
                        if isinstance(x, ast.Name) and x.id not in out:
                            out.append(x.id)
                else:
                    raise TieError("assignment target")
        elif isinstance(s, ast.If):
            for x in targets_of(s.body) + targets_of(s.orelse):
                if x not in out:
                    out.append(x)
        elif isinstance(s, (ast.Expr, ast.Pass)):
            pass
        else:
            raise TieError(f"statement {type(s).__name__} in branch")
    return out


def tr_block(stmts, env, tail):
    """translate a statement list; `tail` = gallina text to use when falling off the end
    (None => must end in return)."""
    if not stmts:
        if tail is None:
            raise TieError("block falls off the end")
        return tail(env)
    s, rest = stmts[0], stmts[1:]
    if isinstance(s, ast.Expr) and isinstance(s.value, ast.Constant):  # docstring
        return tr_block(rest, env, tail)
    if isinstance(s, ast.Pass):
        return tr_block(rest, env, tail)
    if isinstance(s, ast.Return):
        if s.value is None:
            raise TieError("bare return")
        return tr(s.value, env)
    if isinstance(s, ast.Assign) and len(s.targets) == 1:
        t = s.targets[0]
        if isinstance(t, ast.Name):
            v = tr(s.value, env)
            env2 = env.child()
            env2.lets.add(t.id)
            env2.params.pop(t.id, None)
            return f"(let v_{t.id} := {v} in {tr_block(rest, env2, tail)})"
        if isinstance(t, ast.Tuple) and all(isinstance(x, ast.Name) for x in t.elts):
            v = tr(s.value, env)
            env2 = env.child()
            for x in t.elts:
                if x.id != "_":
                    env2.lets.add(x.id)
                    env2.params.pop(x.id, None)
            pat = ", ".join(("v_" + x.id) if x.id != "_" else "_" for x in t.elts)
            return f"(let '({pat}) := {v} in {tr_block(rest, env2, tail)})"
        raise TieError("assignment target")
    if isinstance(s, ast.If):
        # branch that returns on both sides
        def ends_in_return(b):
            return bool(b) and isinstance(b[-1], ast.Return)

        if ends_in_return(s.body) and (ends_in_return(s.orelse) or not s.orelse):
            els = s.orelse if s.orelse else rest
            return f"(if {tr(s.test, env)} then {tr_block(s.body, env, None)} else {tr_block(els, env, tail if not s.orelse else None)})"
        ts = targets_of(s.body + s.orelse)
        if not ts:
            raise TieError("if without effect")
        for x in ts:
            if x not in env.lets and x not in env.params:
                raise TieError(f"variable {x} assigned only in a branch")

        def fin(e):
            return "(" + ", ".join(("v_" + x) if x in e.lets else e.params[x] for x in ts) + ")"

        a = tr_block(s.body, env, fin)
        b = tr_block(s.orelse, env, fin)
        env2 = env.child()
        for x in ts:
            env2.lets.add(x)
            env2.params.pop(x, None)
        pat = ", ".join("v_" + x for x in ts)
        pat = f"'({pat})" if len(ts) > 1 else pat
        return f"(let {pat} := (if {tr(s.test, env)} then {a} else {b}) in {tr_block(rest, env2, tail)})"
    if isinstance(s, ast.For) and isinstance(s.target, ast.Name) and not s.orelse:
        ts = targets_of(s.body)
        if len(ts) != 1 or ts[0] not in env.lets:
            raise TieError("for loop shape")
        acc = ts[0]
        envb = env.child()
        envb.lets.add(s.target.id)
        body = tr_block(s.body, envb, lambda e: "v_" + acc)
        env2 = env.child()
        return (
            f"(let v_{acc} := fold_left (fun v_{acc} v_{s.target.id} => {body}) {tr(s.iter, env)} v_{acc} in "
            f"{tr_block(rest, env2, tail)})"
        )
    raise TieError(f"statement {type(s).__name__}")


def tr_function(fn, env, params):
    """params: list of (python expr text, gallina name, gallina type)"""
    e = env.child()
    for py, g, _ in params:
        e.params[py] = g
    body = tr_block(fn.body, e, None)
    return body


# --------------------------------------------------------------------------- emit helpers
class Out:
    def __init__(self, name, header=""):
        self.name = name
        self.lines = [
            f"(* Gen/{name}.v — GENERATED by tools/translate.py from /repo/src on every run.  Do not edit. *)",
            "From Coq Require Import ZArith List Bool.",
            "Import ListNotations.",
            "Require Import PyBase.",
            "Open Scope Z_scope.",
            header,
        ]
        self.items = []
        self.fallback = []

    def define(self, gname, typ, body, params=()):
        ps = " ".join(f"({g} : {t})" for _, g, t in params)
        self.lines.append(f"Definition {gname} {ps} : {typ} := {body}.")

    def item(self, gname, typ, thunk, params=(), snapshot=None):
        """thunk() -> gallina body; on TieError fall back to the snapshot text for this item"""
        try:
            body = thunk()
            self.define(gname, typ, body, params)
            self.items.append(gname)
        except Exception as ex:  # fail closed: anything unexpected in the source makes this item fall back
            self.fallback.append({"item": gname, "why": f"{type(ex).__name__}: {ex}"})
            snap = snapshot_text(self.name, gname)
            if snap is None:
                raise SystemExit(f"translate: item {gname} failed ({ex}) and no snapshot exists")
            self.lines.append(snap)

    def text(self):
        return "\n".join(self.lines) + "\n"


SNAPDIR = None


def snapshot_text(fname, gname):
    if SNAPDIR is None:
        return None
    p = os.path.join(SNAPDIR, fname + ".v")
    if not os.path.exists(p):
        return None
    for line in open(p, encoding="utf-8"):
        if line.startswith(f"Definition {gname} "):
            return line.rstrip("\n")
    return None


def enum_members(tree, cls):
    c = find_scope(tree, cls)
    out = {}
    for s in c.body:
        if isinstance(s, ast.Assign) and len(s.targets) == 1 and isinstance(s.targets[0], ast.Name):
            if isinstance(s.value, ast.Constant) and isinstance(s.value.value, int):
                out[f"{cls}.{s.targets[0].id}"] = s.value.value
    if not out:
        raise TieError(f"enum {cls} empty")
    return out


def kwarg(call, name):
    for k in call.keywords:
        if k.arg == name:
            return k.value
    raise TieError(f"keyword {name} missing")


def const_str(e):
    if isinstance(e, ast.Constant) and isinstance(e.value, str):
        return e.value
    raise TieError("expected str literal")


def const_int(e):
    if isinstance(e, ast.Constant) and isinstance(e.value, int) and not isinstance(e.value, bool):
        return e.value
    raise TieError("expected int literal")


def add_argument_calls(scope):
    return calls_to(scope, "add_argument")


def arg_call_with_flag(scope, flag):
    for c in add_argument_calls(scope):
        if any(isinstance(a, ast.Constant) and a.value == flag for a in c.args):
            return c
    raise TieError(f"add_argument({flag}) not found")


# --------------------------------------------------------------------------- the item maps
def gen_text():
    o = Out("GenText")
    nl = lambda: module("moto_nl/nl.py")
    pr = lambda: module("moto_prettier/prettier.py")

    def re_arg(tree_f, scope, fname):
        def th():
            c = nth(calls_to(find_scope(tree_f(), scope), fname), 0, fname)
            return zlist(str_points(const_str(c.args[0])))

        return th

    o.item("nl_regex", "list Z", re_arg(nl, "NumberLineCli.processLine", "search"))
    o.item(
        "nl_rstrip_arg",
        "list Z",
        lambda: zlist(str_points(const_str(nth(calls_to(find_scope(nl(), "NumberLineCli.processLine"), "rstrip"), 0).args[0]))),
    )
    for g, flag in (("nl_default_increment", "-i"), ("nl_default_start", "-v"), ("nl_default_width", "-w")):
        o.item(g, "Z", (lambda flag=flag: zlit(const_int(kwarg(arg_call_with_flag(find_scope(nl(), "createArgParser"), flag), "default")))))
    # the numbered-line branch: numberLine = int(group) + increment ; else numberLine += increment
    def nl_next_numbered():
        fn = find_scope(nl(), "NumberLineCli.processLine")
        v = assign_value(fn, "self.numberLine", 0)
        env = Env(params={"int(match.group(1))": "parsed", "args.line_increment": "inc"})
        return tr(v, env)

    o.item("nl_next_numbered", "Z", nl_next_numbered, params=[("", "parsed", "Z"), ("", "inc", "Z")])

    def nl_next_unnumbered():
        fn = find_scope(nl(), "NumberLineCli.processLine")
        a = nth(nodes(fn, ast.AugAssign), 1, "augassign")
        if ast.unparse(a.target) != "self.numberLine" or not isinstance(a.op, ast.Add):
            raise TieError("numberLine += shape")
        return "(n + " + tr(a.value, Env(params={"args.line_increment": "inc"})) + ")"

    o.item("nl_next_unnumbered", "Z", nl_next_unnumbered, params=[("", "n", "Z"), ("", "inc", "Z")])

    def nl_pad_test():
        fn = find_scope(nl(), "NumberLineCli.processLine")
        i = nth(nodes(fn, ast.If), 1, "if")
        return tr(i.test, Env(params={"paddedNumber": "padded", "args.number_width": "width"}))

    o.item("nl_pad_test", "bool", nl_pad_test, params=[("", "padded", "list Z"), ("", "width", "Z")])

    def nl_pad_count():
        # "".join([" " for i in range(len(paddedNumber), args.number_width)])
        fn = find_scope(nl(), "NumberLineCli.processLine")
        r = nth(calls_to(fn, "range"), 0, "range")
        if len(r.args) != 2:
            raise TieError("range arity")
        env = Env(params={"paddedNumber": "padded", "args.number_width": "width"})
        lc = nth(nodes(fn, ast.ListComp), 0, "listcomp")
        if const_str(lc.elt) != " ":
            raise TieError("pad char")
        return f"({tr(r.args[1], env)} - {tr(r.args[0], env)})"

    o.item("nl_pad_count", "Z", nl_pad_count, params=[("", "padded", "list Z"), ("", "width", "Z")])

    def nl_line_format():
        # print(f"{paddedNumber} {line}") : the separator between number and line
        fn = find_scope(nl(), "NumberLineCli.processLine")
        js = nth(nodes(fn, ast.JoinedStr), 1, "fstring")
        parts = js.values
        if (
            len(parts) == 3
            and isinstance(parts[0], ast.FormattedValue)
            and ast.unparse(parts[0].value) == "paddedNumber"
            and isinstance(parts[1], ast.Constant)
            and isinstance(parts[2], ast.FormattedValue)
            and ast.unparse(parts[2].value) == "line"
        ):
            return zlist(str_points(parts[1].value))
        raise TieError("output f-string shape")

    o.item("nl_separator", "list Z", nl_line_format)

    o.item("prettier_regex", "list Z", re_arg(pr, "PrettierCli.processLine", "split"))
    o.item(
        "prettier_rstrip_arg",
        "list Z",
        lambda: zlist(str_points(const_str(nth(calls_to(find_scope(pr(), "PrettierCli.processLine"), "rstrip"), 0).args[0]))),
    )

    def prettier_toggle():
        fn = find_scope(pr(), "PrettierCli.processLine")
        v = assign_value(fn, "dquote_depth", 1)
        return tr(v, Env(params={"dquote_depth": "depth", "group": "group"}))

    o.item("prettier_toggle", "Z", prettier_toggle, params=[("", "depth", "Z"), ("", "group", "list Z")])

    def prettier_toggle_test():
        fn = find_scope(pr(), "PrettierCli.processLine")
        i = nth(nodes(fn, ast.If), 0, "if")
        t = i.test
        # group.startswith('"')   (after the repair)   or   group == '"'   (pinned tree)
        if isinstance(t, ast.Call) and ast.unparse(t.func) == "group.startswith" and len(t.args) == 1:
            return f"(starts_with {zlist(str_points(const_str(t.args[0])))} group)"
        if isinstance(t, ast.Compare) and ast.unparse(t.left) == "group" and isinstance(t.ops[0], ast.Eq):
            return f"(zeqb_list group {zlist(str_points(const_str(t.comparators[0])))})"
        raise TieError("toggle test shape")

    o.item("prettier_toggle_test", "bool", prettier_toggle_test, params=[("", "group", "list Z")])

    def prettier_upper_test():
        fn = find_scope(pr(), "PrettierCli.processLine")
        ie = nth(nodes(fn, ast.IfExp), 0, "ifexp")
        if ast.unparse(ie.body) != "group.upper()" or ast.unparse(ie.orelse) != "group":
            raise TieError("upper branch shape")
        return tr(ie.test, Env(params={"dquote_depth": "depth"}))

    o.item("prettier_upper_test", "bool", prettier_upper_test, params=[("", "depth", "Z")])
    return o



def _n(t):
    return t.replace("(", "").replace(")", "").replace(" ", "").replace("\n", "")


def same(node, text):
    """ast.unparse differs slightly between Python versions (parentheses, spaces): compare normalised"""
    return _n(ast.unparse(node) if not isinstance(node, str) else node) == _n(text)


def slice_bounds(sub):
    """(lo, hi) of x[lo:hi] with int literals (hi may be negative: -k)"""
    if not isinstance(sub, ast.Subscript) or not isinstance(sub.slice, ast.Slice):
        raise TieError("not a slice")
    sl = sub.slice

    def val(x):
        if x is None:
            raise TieError("open slice bound")
        if isinstance(x, ast.UnaryOp) and isinstance(x.op, ast.USub):
            return -const_int(x.operand)
        return const_int(x)

    if sl.step is not None:
        raise TieError("slice step")
    return val(sl.lower), val(sl.upper)


def subscripts_of(scope, base):
    return [n for n in nodes(scope, ast.Subscript) if ast.unparse(n.value) == base]


def gen_tape():
    o = Out("GenTape")
    tp = lambda: module("moto_lib/fs_tape/tape.py")
    bl = lambda: module("moto_lib/fs_tape/block.py")
    bd = lambda: module("moto_lib/fs_tape/block_descriptor.py")
    cs = lambda: module("moto_lib/fs_tape/consts.py")
    inj = lambda: module("moto_lib/fs_tape/image_worker/content_injector.py")
    ex = lambda: module("moto_lib/fs_tape/image_worker/content_extractor.py")
    en = lambda: module("moto_lib/fs_tape/image_worker/content_enumerator.py")

    o.item("sync_read", "list Z", lambda: tr(assign_value(tp(), "startOfBlockSequenceToRead"), Env()))
    o.item("sync_write", "list Z", lambda: tr(assign_value(tp(), "startOfBlockSequenceToWrite"), Env()))
    o.item("tape_default_size", "Z", lambda: tr(nth(calls_to(find_scope(tp(), "Tape.__init__"), "bytearray"), 0).args[0], Env()))
    C = {"startOfBlockSequenceToRead": "sync_read", "startOfBlockSequenceToWrite": "sync_write"}
    enums = lambda: enum_members(cs(), "TypeOfTapeBlock")
    for m in ("LEADER", "DATA", "EOF"):
        o.item(f"block_type_{m}", "Z", (lambda m=m: zlit(enums()[f"TypeOfTapeBlock.{m}"])))
    o.item("block_type_count", "Z", lambda: zlit(len(enums())))

    # Tape.writeBlock
    wb = lambda: find_scope(tp(), "Tape.writeBlock")
    o.item("wb_next1", "Z", lambda: tr(assign_value(wb(), "nextPosition", 0), Env(params={"position": "position"}, consts=C)), params=[("", "position", "Z")])
    o.item("wb_guard1", "bool", lambda: tr(nth(nodes(wb(), ast.If), 0).test, Env(params={"nextPosition": "nextPosition", "self.maxPosition": "maxPosition"})), params=[("", "nextPosition", "Z"), ("", "maxPosition", "Z")])
    o.item("wb_next2", "Z", lambda: tr(assign_value(wb(), "nextPosition", 1), Env(params={"position": "position", "block.rawData": "blockRaw"})), params=[("", "position", "Z"), ("", "blockRaw", "list Z")])
    o.item("wb_guard2", "bool", lambda: tr(nth(nodes(wb(), ast.If), 1).test, Env(params={"nextPosition": "nextPosition", "self.maxPosition": "maxPosition"})), params=[("", "nextPosition", "Z"), ("", "maxPosition", "Z")])

    def raises_overflow(k):
        i = nth(nodes(wb(), ast.If), k)
        r = i.body[0]
        if not (isinstance(r, ast.Raise) and isinstance(r.exc, ast.Call) and ast.unparse(r.exc.func) == "OverflowError"):
            raise TieError("guard does not raise OverflowError")
        return "true"

    o.item("wb_guard1_raises_overflow", "bool", lambda: raises_overflow(0))
    o.item("wb_guard2_raises_overflow", "bool", lambda: raises_overflow(1))

    # Tape.nextBlock
    nb = lambda: find_scope(tp(), "Tape.nextBlock")
    o.item("nb_after_sync", "Z", lambda: tr(assign_value(nb(), "self._position", 1), Env(params={"pos": "pos"}, consts=C)), params=[("", "pos", "Z")])
    o.item("nb_bound_test", "bool", lambda: tr(nth(nodes(nb(), ast.If), 1).test, Env(params={"self._position": "position", "self.maxPosition": "maxPosition"})), params=[("", "position", "Z"), ("", "maxPosition", "Z")])

    def nb_len_index():
        v = assign_value(nb(), "length")
        if not (isinstance(v, ast.Subscript) and ast.unparse(v.value) == "self.rawData"):
            raise TieError("length = self.rawData[...] shape")
        return tr(v.slice, Env(params={"self._position": "position"}))

    o.item("nb_len_index", "Z", nb_len_index, params=[("", "position", "Z")])
    o.item("nb_block_end", "Z", lambda: tr(assign_value(nb(), "blockEnd"), Env(params={"self._position": "position", "length": "length"})), params=[("", "position", "Z"), ("", "length", "Z")])

    # TapeBlock
    o.item("checksum", "Z", lambda: "(let v_sum := 0 in " + tr_block(find_scope(bl(), "TapeBlock.computeChecksum").body[1:], Env(params={"data": "data"}, lets={"sum"}), None) + ")", params=[("", "data", "list Z")])

    def bb():
        return find_scope(bl(), "TapeBlock.buildFromData")

    def bb_eof():
        i = nth(nodes(bb(), ast.If), 0)
        if ast.unparse(i.test) != "data is None":
            raise TieError("buildFromData None test")
        c = i.body[0].value  # TapeBlock(bytes([...]))
        return tr(c.args[0], Env(params={"type.value": "ty"}))

    o.item("bb_eof", "list Z", bb_eof, params=[("", "ty", "Z")])

    def bb_parts():
        r = bb().body[-1].value  # TapeBlock(bytes(A + data + B))
        e = r.args[0].args[0]
        if not (isinstance(e, ast.BinOp) and isinstance(e.op, ast.Add) and isinstance(e.left, ast.BinOp) and ast.unparse(e.left.right) == "data"):
            raise TieError("buildFromData concatenation shape")
        return e.left.left, e.right

    o.item("bb_header", "list Z", lambda: tr(bb_parts()[0], Env(params={"type.value": "ty", "data": "data"})), params=[("", "ty", "Z"), ("", "data", "list Z")])

    def bb_trailer():
        t = bb_parts()[1]
        if ast.unparse(t) != "bytes([TapeBlock.computeChecksum(data)])":
            raise TieError("trailer shape")
        return "[checksum data]"

    o.item("bb_trailer", "list Z", bb_trailer, params=[("", "data", "list Z")])

    def body_bounds():
        g = find_getter(bl(), "TapeBlock", "body")
        return slice_bounds(g.body[0].value)

    o.item("body_lo", "Z", lambda: zlit(body_bounds()[0]))
    o.item("body_hi_from_end", "Z", lambda: zlit(-body_bounds()[1]))
    o.item("block_type_index", "Z", lambda: tr(find_getter(bl(), "TapeBlock", "type").body[0].value.args[0].slice, Env()))

    # LeaderTapeBlockDescriptor
    def bft():
        return find_scope(bd(), "LeaderTapeBlockDescriptor.buildFromTapeBlock")

    def bft_args():
        c = bft().body[0].value
        if len(c.args) != 4:
            raise TieError("buildFromTapeBlock arity")
        return c.args

    def field_slice(k):
        a = bft_args()[k]
        # rawData[a:b].decode("utf-8").strip()
        if not (isinstance(a, ast.Call) and ast.unparse(a.func).endswith(".decode('utf-8').strip")):
            raise TieError("field decode/strip shape")
        return slice_bounds(a.func.value.func.value)

    o.item("ld_name_lo", "Z", lambda: zlit(field_slice(0)[0]))
    o.item("ld_name_hi", "Z", lambda: zlit(field_slice(0)[1]))
    o.item("ld_ext_lo", "Z", lambda: zlit(field_slice(1)[0]))
    o.item("ld_ext_hi", "Z", lambda: zlit(field_slice(1)[1]))
    o.item("ld_type_index", "Z", lambda: tr(bft_args()[2].slice, Env()))

    def ld_mode():
        a = bft_args()[3]
        env = Env()
        subs = [n for n in nodes(a, ast.Subscript)]
        for k, sname in zip(subs, ("hi", "lo")):
            env.params[ast.unparse(k)] = sname
        return tr(a, env), [const_int(k.slice) for k in subs]

    o.item("ld_mode_of", "Z", lambda: ld_mode()[0], params=[("", "hi", "Z"), ("", "lo", "Z")])
    o.item("ld_mode_hi_index", "Z", lambda: zlit(ld_mode()[1][0]))
    o.item("ld_mode_lo_index", "Z", lambda: zlit(ld_mode()[1][1]))

    def ttb():
        return find_scope(bd(), "LeaderTapeBlockDescriptor.toTapeBlock")

    o.item("ld_payload_size", "Z", lambda: tr(nth(calls_to(ttb(), "bytearray"), 0).args[0], Env()))

    def ttb_field(k):
        # data[a:b] = (self.X.upper() + "pad").encode("utf-8")[c:d]
        a = [n for n in nodes(ttb(), ast.Assign) if isinstance(n.targets[0], ast.Subscript) and isinstance(n.targets[0].slice, ast.Slice)][k]
        lo, hi = slice_bounds(a.targets[0])
        v = a.value
        c, d = slice_bounds(v)
        inner = v.value  # (...).encode("utf-8")
        if not (isinstance(inner, ast.Call) and ast.unparse(inner.func).endswith(".encode")):
            raise TieError("encode shape")
        add = inner.func.value
        if not (isinstance(add, ast.BinOp) and isinstance(add.op, ast.Add) and ast.unparse(add.left) in ("self.fileName.upper()", "self.fileExtension.upper()")):
            raise TieError("upper()+pad shape")
        return lo, hi, c, d, const_str(add.right), ast.unparse(add.left)

    for k, nm in ((0, "name"), (1, "ext")):
        o.item(f"ttb_{nm}_lo", "Z", (lambda k=k: zlit(ttb_field(k)[0])))
        o.item(f"ttb_{nm}_hi", "Z", (lambda k=k: zlit(ttb_field(k)[1])))
        o.item(f"ttb_{nm}_cut_lo", "Z", (lambda k=k: zlit(ttb_field(k)[2])))
        o.item(f"ttb_{nm}_cut_hi", "Z", (lambda k=k: zlit(ttb_field(k)[3])))
        o.item(f"ttb_{nm}_pad", "list Z", (lambda k=k: zlist(str_points(ttb_field(k)[4]))))

    def ttb_byte(k):
        a = [n for n in nodes(ttb(), ast.Assign) if isinstance(n.targets[0], ast.Subscript) and not isinstance(n.targets[0].slice, ast.Slice)][k]
        return const_int(a.targets[0].slice), tr(a.value, Env(params={"self.fileType": "ftype", "self.fileMode": "fmode"}))

    for k, nm in ((0, "type"), (1, "mode_hi"), (2, "mode_lo")):
        o.item(f"ttb_{nm}_index", "Z", (lambda k=k: zlit(ttb_byte(k)[0])))
        o.item(f"ttb_{nm}_value", "Z", (lambda k=k: ttb_byte(k)[1]), params=[("", "ftype", "Z"), ("", "fmode", "Z")])

    def ttb_block_type():
        r = ttb().body[-1].value
        if ast.unparse(r.func) != "TapeBlock.buildFromData" or ast.unparse(r.args[0]) != "data":
            raise TieError("toTapeBlock return shape")
        return tr(r.args[1], Env(enums=enums()))

    o.item("ttb_block_type", "Z", ttb_block_type)

    # injector: extension -> (extension, type, mode, strip ",a")
    def perform():
        return find_scope(inj(), "TapeImageContentInjector.perform")

    o.item("inj_default_type", "Z", lambda: tr(assign_value(perform(), "fileType", 0), Env()))
    o.item("inj_default_mode", "Z", lambda: tr(assign_value(perform(), "fileMode", 0), Env()))

    def inj_dispatch():
        chain = None
        for i in nodes(perform(), ast.If):
            if isinstance(i.test, ast.Compare) and ast.unparse(i.test.left) == "fileExtension" and isinstance(i.test.ops[0], ast.Eq):
                chain = i
                break
        if chain is None:
            raise TieError("extension dispatch not found")

        def branch(stmts):
            ext, ty, mode, strip = "ext", "inj_default_type", "inj_default_mode", "false"
            for s_ in stmts:
                if not isinstance(s_, ast.Assign):
                    raise TieError("dispatch branch statement")
                t = ast.unparse(s_.targets[0])
                if t == "fileExtension":
                    ext = zlist(str_points(const_str(s_.value)))
                elif t == "fileType":
                    ty = tr(s_.value, Env())
                elif t == "fileMode":
                    mode = tr(s_.value, Env())
                elif t == "src" and ast.unparse(s_.value) == "src[:-2]":
                    strip = "true"
                else:
                    raise TieError(f"dispatch assigns {t}")
            return f"({ext}, {ty}, {mode}, {strip})"

        def go(i):
            lit = zlist(str_points(const_str(i.test.comparators[0])))
            then = branch(i.body)
            if not i.orelse:
                els = "(ext, inj_default_type, inj_default_mode, false)"
            elif len(i.orelse) == 1 and isinstance(i.orelse[0], ast.If):
                j = i.orelse[0]
                if not (isinstance(j.test, ast.Compare) and ast.unparse(j.test.left) == "fileExtension"):
                    raise TieError("dispatch chain shape")
                els = go(j)
            else:
                els = branch(i.orelse)
            return f"(if zeqb_list ext {lit} then {then} else {els})"

        return go(chain)

    o.item("inj_dispatch", "(list Z * Z * Z * bool)", inj_dispatch, params=[("", "ext", "list Z")])

    def inj_name_limit():
        for i in nodes(perform(), ast.If):
            if ast.unparse(i.test).startswith("len(fileName) >"):
                lim = const_int(i.test.comparators[0])
                lo, hi = slice_bounds(i.body[0].value)
                if lo != 0 or hi != lim:
                    raise TieError("name cut bounds")
                return zlit(lim)
        raise TieError("name limit not found")

    o.item("inj_name_limit", "Z", inj_name_limit)

    def inj_chunk():
        v = assign_value(perform(), "dataNextPos", 0)
        return tr(v, Env(params={"dataPos": "dataPos", "dataRemaining": "dataRemaining"}))

    o.item("inj_next_pos", "Z", inj_chunk, params=[("", "dataPos", "Z"), ("", "dataRemaining", "Z")])

    def inj_overflow_status():
        for h in nodes(perform(), ast.ExceptHandler):
            if ast.unparse(h.type) == "OverflowError":
                r = [x for x in h.body if isinstance(x, ast.Return)]
                return tr(r[0].value, Env())
        raise TieError("OverflowError handler not found")

    o.item("inj_overflow_status", "Z", inj_overflow_status)
    o.item("inj_overflow_message", "list Z", lambda: zlist(str_points(const_str(nth(calls_to(nth(nodes(perform(), ast.ExceptHandler), 0), "print"), 0).args[0]))))

    def ext_replace():
        fn = find_scope(ex(), "TapeImageContentExtractor.perform")
        c = nth(calls_to(fn, "replace"), 0, "replace")
        a, b = c.args
        frm = [47] if ast.unparse(a) == "os.sep" else str_points(const_str(a))
        to = str_points(const_str(b))
        if len(to) != 1 or len(frm) != 1:
            raise TieError("replace arguments")
        if not isinstance(c.func.value, ast.JoinedStr):
            raise TieError("replace is not applied to the whole file name")
        return frm, to[0]

    o.item("ext_sep_from", "list Z", lambda: zlist(ext_replace()[0]))
    o.item("ext_sep_to", "Z", lambda: zlit(ext_replace()[1]))
    return o



def gen_basic():
    o = Out("GenBasic")
    cv = lambda: module("moto_lib/basic/converter_from_listing.py")
    tk = lambda: module("moto_lib/basic/tokenizer.py")
    b2l = lambda: module("moto_bas2lst/bas2lst.py")
    l2b = lambda: module("moto_lst2bas/lst2bas.py")

    def tokens():
        d = assign_value(cv(), "basicTokensMap")
        if not isinstance(d, ast.Dict):
            raise TieError("basicTokensMap is not a dict literal")
        items = []
        seen = set()
        for k, v in zip(d.keys, d.values):
            ks, vi = const_str(k), const_int(v)
            if ks in seen:
                # a later duplicate key overrides the earlier one in a dict literal
                items = [(a, b) for a, b in items if a != ks]
            seen.add(ks)
            items.append((ks, vi))
        return "[" + "; ".join(f"({zlist(str_points(k))}, {zlit(v)})" for k, v in items) + "]"

    o.item("basic_tokens", "list (list Z * Z)", tokens)

    def db():
        d = assign_value(cv(), "basicTokensDb")
        if not isinstance(d, ast.Dict):
            raise TieError("basicTokensDb shape")
        m = dict(zip([const_str(k) for k in d.keys], d.values))
        if ast.unparse(m["map"]) != "basicTokensMap":
            raise TieError("basicTokensDb.map")
        rules = m["rules"]
        r = dict(zip([const_str(k) for k in rules.keys], rules.values))
        if set(r) != {"requireColonIfNotBlank"}:
            raise TieError("rules keys")
        return "[" + "; ".join(zlist(str_points(const_str(x))) for x in r["requireColonIfNotBlank"].elts) + "]"

    o.item("require_colon", "list (list Z)", db)

    def litdb():
        d = assign_value(cv(), "litteralTokensDb")
        if isinstance(d, ast.Dict) and not d.keys:
            return "true"
        raise TieError("litteralTokensDb is not {}")

    o.item("literal_db_is_empty", "bool", litdb)

    def special():
        l = assign_value(find_scope(cv(), "ListingToTokenizedBasicConverter"), "SPECIAL_CHARS")
        cs = [const_str(x) for x in l.elts]
        if any(len(c) != 1 for c in cs):
            raise TieError("SPECIAL_CHARS entries")
        return zlist([ord(c) for c in cs])

    o.item("special_chars", "list Z", special)
    o.item("program_base", "Z", lambda: tr(assign_value(find_scope(cv(), "ListingToTokenizedBasicConverter.convert"), "pointerNext", 0), Env()))

    def u16(scope_f, qual):
        fn = find_scope(scope_f(), qual)
        r = fn.body[-1].value  # bytes([...])
        return tr(r.args[0], Env(params={"value": "value"}))

    o.item("conv_u16", "list Z", lambda: u16(cv, "ListingToTokenizedBasicConverter.toUint16"), params=[("", "value", "Z")])
    o.item("tok_u8", "list Z", lambda: u16(tk, "toUint8"), params=[("", "value", "Z")])
    o.item("tok_u16", "list Z", lambda: u16(tk, "toUint16"), params=[("", "value", "Z")])

    def bytes_from_uint():
        fn = find_scope(tk(), "bytesFromUint")
        r = fn.body[-1].value
        if not (isinstance(r, ast.IfExp) and ast.unparse(r.body) == "toUint8(value)" and ast.unparse(r.orelse) == "toUint16(value)"):
            raise TieError("bytesFromUint shape")
        return f"(if {tr(r.test, Env(params={'value': 'value'}))} then tok_u8 value else tok_u16 value)"

    o.item("bytes_from_uint", "list Z", bytes_from_uint, params=[("", "value", "Z")])

    def colon():
        fn = find_scope(tk(), "TokenizerContext.appendAsToken")
        c = nth(calls_to(fn, "toUint8"), 0, "toUint8")
        return tr(c.args[0], Env())

    o.item("colon_byte", "Z", colon)
    o.item("line_regex", "list Z", lambda: zlist(str_points(const_str(nth(calls_to(find_scope(cv(), "ListingToTokenizedBasicConverter.extractLineParts"), "search"), 0).args[0]))))

    def convert_fn():
        return find_scope(cv(), "ListingToTokenizedBasicConverter.convert")

    def ptr_step():
        a = [n for n in nodes(convert_fn(), ast.AugAssign) if ast.unparse(n.target) == "pointerNext"]
        if len(a) != 1 or not isinstance(a[0].op, ast.Add):
            raise TieError("pointerNext += shape")
        return "(pointerNext + " + tr(a[0].value, Env(params={"lineBuffer": "lineBuffer"})) + ")"

    o.item("ptr_step", "Z", ptr_step, params=[("", "pointerNext", "Z"), ("", "lineBuffer", "list Z")])
    o.item("prog_marker", "list Z", lambda: tr(nth([n for n in nodes(convert_fn(), ast.AugAssign) if ast.unparse(n.target) == "header"], 0).value, Env()))
    o.item("line_end", "list Z", lambda: tr(assign_value(convert_fn(), "zeroUint8"), Env()))
    o.item("prog_end", "list Z", lambda: tr(assign_value(convert_fn(), "zeroUint16"), Env()))

    # ASCII converter
    def aconv():
        return find_scope(cv(), "ListingToAsciiBasicConverter.convert")

    o.item("ascii_eol", "list Z", lambda: tr(assign_value(aconv(), "endOfLine"), Env()))
    o.item("ascii_keep", "bool", lambda: tr(nth(nodes(aconv(), ast.If), 0).test, Env(params={"car": "car"})), params=[("", "car", "Z")])

    def ascii_rstrip():
        c = nth(calls_to(aconv(), "rstrip"), 0, "rstrip")
        if c.args:
            raise TieError("rstrip has an argument")
        return "true"

    o.item("ascii_rstrip_is_plain", "bool", ascii_rstrip)

    # bas2lst
    def brun():
        return find_scope(b2l(), "BasicToListingCli.run")

    def eol():
        v = assign_value(brun(), "endOfLine")
        if not isinstance(v, ast.IfExp) or ast.unparse(v.test) != "args.dos":
            raise TieError("endOfLine shape")
        return f"(if dos then {tr(v.body, Env())} else {tr(v.orelse, Env())})"

    o.item("b2l_eol", "list Z", eol, params=[("", "dos", "bool")])
    o.item("b2l_is_sep", "bool", lambda: tr(nth([i for i in nodes(brun(), ast.If) if ast.unparse(i.test).startswith("byte in")], 0).test, Env(params={"byte": "byte"})), params=[("", "byte", "Z")])
    o.item("b2l_flush_test", "bool", lambda: tr(nth([i for i in nodes(brun(), ast.If) if ast.unparse(i.test).startswith("lineOfCodeLength")], 0).test, Env(params={"lineOfCodeLength": "n"})), params=[("", "n", "Z")])
    return o



def gen_disk():
    o = Out("GenDisk")
    im = lambda: module("moto_lib/fs_disk/image.py")
    ba = lambda: module("moto_lib/fs_disk/block_allocation.py")
    ca = lambda: module("moto_lib/fs_disk/catalog.py")
    co = lambda: module("moto_lib/fs_disk/controller.py")
    inj = lambda: module("moto_lib/fs_disk/image_worker/content_injector.py")
    ext = lambda: module("moto_lib/fs_disk/image_worker/content_extractor.py")
    mgr = lambda: module("moto_lib/fs_disk/image_manager.py")

    # ---- image.py
    def size_of_sector():
        fn = find_scope(im(), "TypeOfDiskImage.sizeOfSector")
        r = fn.body[0].value
        if not (isinstance(r, ast.IfExp) and ast.unparse(r.test) == "self == TypeOfDiskImage.EMULATOR_FLOPPY_IMAGE"):
            raise TieError("sizeOfSector shape")
        return f"(if is_fd then {tr(r.body, Env())} else {tr(r.orelse, Env())})"

    o.item("size_of_sector", "Z", size_of_sector, params=[("", "is_fd", "bool")])
    o.item("size_of_payload", "Z", lambda: tr(find_scope(im(), "TypeOfDiskImage.sizeOfPayload").body[0].value, Env()))
    o.item("filler_payload", "Z", lambda: tr(assign_value(im(), "_FILLER_PAYLOAD"), Env()))
    o.item("filler_sddrive", "Z", lambda: tr(assign_value(im(), "_FILLER_SDDRIVE"), Env()))
    o.item("sectors_per_track", "Z", lambda: tr(assign_value(find_scope(im(), "DiskTrack"), "SECTORS_PER_TRACK"), Env()))
    o.item("tracks_per_side", "Z", lambda: tr(assign_value(find_scope(im(), "DiskSide"), "TRACKS_PER_SIDE"), Env()))

    def size_of_side():
        v = assign_value(find_scope(im(), "DiskImage.__init__"), "SIZE_OF_SIDE")
        if not (isinstance(v, ast.IfExp) and ast.unparse(v.test) == "typeOfDiskImage == TypeOfDiskImage.EMULATOR_FLOPPY_IMAGE"):
            raise TieError("SIZE_OF_SIDE shape")
        return f"(if is_fd then {tr(v.body, Env())} else {tr(v.orelse, Env())})"

    o.item("size_of_side", "Z", size_of_side, params=[("", "is_fd", "bool")])

    def di():
        return find_scope(im(), "DiskImage.__init__")

    o.item("load_number_of_sides", "Z", lambda: tr(assign_value(di(), "numberOfSides", 2), Env(params={"dataSize": "dataSize", "SIZE_OF_SIDE": "sizeOfSide"})), params=[("", "dataSize", "Z"), ("", "sizeOfSide", "Z")])

    def load_tests():
        ifs = [i for i in nodes(di(), ast.If)]
        fd = next(i for i in ifs if ast.unparse(i.test) == "numberOfSides in [0, 3]")
        sd = next(i for i in ifs if ast.unparse(i.test) == "numberOfSides < 4")
        integral = next(i for i in ifs if ast.unparse(i.test).startswith("numberOfSides < 4 and"))
        for i in (fd, sd, integral):
            if not (isinstance(i.body[0], ast.Raise) and ast.unparse(i.body[0].exc.func) == "ValueError"):
                raise TieError("load check does not raise ValueError")
        env = Env(params={"numberOfSides": "n", "dataSize": "dataSize", "SIZE_OF_SIDE": "sizeOfSide"})
        return tr(fd.test, env), tr(sd.test, env), tr(integral.test, env)

    o.item("load_reject_fd", "bool", lambda: load_tests()[0], params=[("", "n", "Z")])
    o.item("load_reject_sd", "bool", lambda: load_tests()[1], params=[("", "n", "Z")])
    o.item("load_reject_partial", "bool", lambda: load_tests()[2], params=[("", "n", "Z"), ("", "dataSize", "Z"), ("", "sizeOfSide", "Z")])
    o.item("blank_sides_fd", "Z", lambda: tr(assign_value(di(), "numberOfSides", 1), Env(params={"wantedNumberOfSides": "wanted"})), params=[("", "wanted", "Z")])

    def sector_init_tests():
        fn = find_scope(im(), "DiskSector.__init__")
        ifs = nodes(fn, ast.If)
        i = next(x for x in ifs if ast.unparse(x.test) == "sizeOfRawData == 0")
        j = i.orelse[0]
        if not isinstance(j, ast.If) or not isinstance(j.orelse[0], ast.Raise):
            raise TieError("DiskSector.__init__ shape")
        return tr(j.test, Env(params={"sizeOfRawData": "n", "typeOfDiskImage.sizeOfSector()": "ssz"}))

    o.item("sector_accepts", "bool", sector_init_tests, params=[("", "n", "Z"), ("", "ssz", "Z")])

    def setter():
        return find_setter(im(), "DiskSector", "dataOfPayload")

    o.item("setter_copy_len", "Z", lambda: tr(assign_value(setter(), "copyLen", 1), Env(params={"copyLen": "len_value", "self._typeOfDiskImage.sizeOfPayload()": "size_of_payload"})), params=[("", "len_value", "Z")])

    def setter_shape():
        a = setter().body[-1]
        if not same(a, "self._data[0:copyLen] = value[0:copyLen]"):
            raise TieError("payload setter does not slice the value: " + ast.unparse(a))
        return "true"

    o.item("setter_slices_value", "bool", setter_shape)

    # ---- block_allocation.py
    bs = lambda: enum_members(ba(), "BlockStatus")
    for m in ("MIN_NEXT", "MAX_NEXT", "LAST_BLOCK", "MIN_LAST", "MAX_LAST", "RESERVED", "FREE"):
        o.item(f"status_{m}", "Z", (lambda m=m: zlit(bs()[f"BlockStatus.{m}"])))
    o.item("is_valid_status", "bool", lambda: tr_function(find_scope(ba(), "BlockStatus.isValidStatus"), Env(enums=bs()), [("value", "value", "Z")]), params=[("", "value", "Z")])
    for g, meth in (("ba_is_free", "isFree"), ("ba_is_reserved", "isReserved"), ("ba_is_last", "isLast"), ("ba_has_next", "hasNext")):
        o.item(g, "bool", (lambda meth=meth: tr_function(find_scope(ba(), f"BlockAllocation.{meth}"), Env(enums=bs()), [("self._status", "status", "Z")])), params=[("", "status", "Z")])
    o.item("ba_usage", "Z", lambda: tr_function(find_getter(ba(), "BlockAllocation", "usage"), Env(enums=bs(), funcs={"self.isFree": "ba_is_free status", "self.isReserved": "ba_is_reserved status", "self.hasNext": "ba_has_next status"}, truthy={"self.isLast"}), [("self._status", "status", "Z")]), params=[("", "status", "Z")])

    def last_status():
        fn = find_scope(ba(), "BlockAllocation.setupAsLastBlock")
        i = fn.body[0]
        return tr(i.test, Env(params={"usage": "usage"})), tr(fn.body[1].value, Env(params={"usage": "usage"}))

    o.item("last_usage_rejected", "bool", lambda: last_status()[0], params=[("", "usage", "Z")])
    o.item("last_status_of", "Z", lambda: last_status()[1], params=[("", "usage", "Z")])

    def link_rejected():
        fn = find_scope(ba(), "BlockAllocation.linkTo")
        tests = [i.test for i in nodes(fn, ast.If) if "not in range" in ast.unparse(i.test)]
        a = tr(tests[0], Env(params={"target.id": "target"}))
        b = tr(tests[1], Env(params={"target": "target"}))
        if a != b:
            raise TieError("linkTo range tests differ")
        return a

    o.item("link_rejected", "bool", link_rejected, params=[("", "target", "Z")])

    # ---- catalog.py
    tf = lambda: enum_members(ca(), "TypeOfDiskFile")
    for m in ("BASIC_PROGRAM", "BASIC_DATA", "MACHINE_LANGUAGE_PROGRAM", "TEXT_FILE"):
        o.item(f"kind_{m}", "Z", (lambda m=m: zlit(tf()[f"TypeOfDiskFile.{m}"])))
    o.item("kind_count", "Z", lambda: zlit(len(tf())))

    def kind_fallback():
        fn = find_scope(ca(), "TypeOfDiskFile.fromByte")
        h = nth(nodes(fn, ast.ExceptHandler), 0)
        if ast.unparse(h.type) != "ValueError":
            raise TieError("fromByte handler")
        return tr(h.body[0].value.args[0], Env())

    o.item("kind_fallback", "Z", kind_fallback)
    o.item("data_from_byte_is_ascii", "bool", lambda: tr(find_scope(ca(), "TypeOfData.fromByte").body[0].value.test, Env(params={"value": "value"})), params=[("", "value", "Z")])

    def data_to_byte():
        r = find_scope(ca(), "TypeOfData.toByte").body[0].value
        return tr(r, Env(params={"self.value": "v"}))

    o.item("data_to_byte", "Z", data_to_byte, params=[("", "v", "Z")])

    def entry_status():
        r = find_scope(ca(), "CatalogEntryStatus.fromByte").body[0].value
        # NEVER_USED if value == 0xFF else DELETED if value == 0 else ALIVE  ->  0 / 2 / 1
        es = enum_members(ca(), "CatalogEntryStatus")
        return tr(r, Env(params={"value": "value"}, consts={k: zlit(v) for k, v in es.items()}))

    o.item("entry_status_of", "Z", entry_status, params=[("", "value", "Z")])
    es_ = lambda: enum_members(ca(), "CatalogEntryStatus")
    for m in ("NEVER_USED", "ALIVE", "DELETED"):
        o.item(f"entry_{m}", "Z", (lambda m=m: zlit(es_()[f"CatalogEntryStatus.{m}"])))
    o.item("padding_char", "Z", lambda: tr(assign_value(ca(), "PADDING_CHAR"), Env()))
    o.item("invalid_char", "Z", lambda: tr(assign_value(ca(), "INVALID_CHAR"), Env()))
    o.item("size_of_entry_name", "Z", lambda: tr(assign_value(ca(), "SIZE_OF_ENTRY_NAME"), Env()))
    o.item("size_of_entry_extension", "Z", lambda: tr(assign_value(ca(), "SIZE_OF_ENTRY_EXTENSION"), Env()))

    def rec_padding():
        v = assign_value(ca(), "PADDING_OF_RECORD")
        lc = v.args[0]
        if not isinstance(lc, ast.ListComp):
            raise TieError("PADDING_OF_RECORD shape")
        n = const_int(lc.generators[0].iter.args[0])
        return f"(repeat {tr(lc.elt, Env())} {n}%nat)"

    o.item("padding_of_record", "list Z", rec_padding)

    def from_bytes_kw():
        fn = find_scope(ca(), "CatalogEntryRecord.fromBytes")
        c = fn.body[-1].value
        return {k.arg: k.value for k in c.keywords}

    def rec_slices():
        kw = from_bytes_kw()
        return slice_bounds(kw["name"]) + slice_bounds(kw["extension"])

    for k, nm in enumerate(("rec_name_lo", "rec_name_hi", "rec_ext_lo", "rec_ext_hi")):
        o.item(nm, "Z", (lambda k=k: zlit(rec_slices()[k])))
    o.item("rec_kind_index", "Z", lambda: tr(from_bytes_kw()["typeOfFile"].args[0].slice, Env()))
    o.item("rec_data_index", "Z", lambda: tr(from_bytes_kw()["typeOfData"].args[0].slice, Env()))
    o.item("rec_first_index", "Z", lambda: tr(from_bytes_kw()["firstBlock"].slice, Env()))

    def rec_last():
        e = from_bytes_kw()["usageOfLastSector"]
        subs = nodes(e, ast.Subscript)
        env = Env(params={ast.unparse(subs[0]): "hi", ast.unparse(subs[1]): "lo"})
        return tr(e, env), const_int(subs[0].slice), const_int(subs[1].slice)

    o.item("rec_last_of", "Z", lambda: rec_last()[0], params=[("", "hi", "Z"), ("", "lo", "Z")])
    o.item("rec_last_hi_index", "Z", lambda: zlit(rec_last()[1]))
    o.item("rec_last_lo_index", "Z", lambda: zlit(rec_last()[2]))

    def rec_init_bytes():
        fn = find_scope(ca(), "CatalogEntryRecord.__init__")
        out = {}
        for a in nodes(fn, ast.Assign):
            t = a.targets[0]
            if isinstance(t, ast.Subscript) and ast.unparse(t.value) == "self._data" and not isinstance(t.slice, ast.Slice) and isinstance(t.slice, ast.Constant):
                out[const_int(t.slice)] = a.value
        return out

    envr = lambda: Env(params={"typeOfFile.toByte()": "kind", "typeOfData.toByte()": "dflag", "firstBlock": "firstBlock", "usageOfLastSector": "last"})
    for idx, nm in ((11, "rec_byte11"), (12, "rec_byte12"), (13, "rec_byte13"), (14, "rec_byte14"), (15, "rec_byte15")):
        o.item(nm, "Z", (lambda idx=idx: tr(rec_init_bytes()[idx], envr())), params=[("", "kind", "Z"), ("", "dflag", "Z"), ("", "firstBlock", "Z"), ("", "last", "Z")])

    def invalid_test():
        fn = find_scope(ca(), "CatalogEntryRecord.__init__")
        f = nth(nodes(fn, ast.For), 0)
        n = const_int(f.iter.args[0])
        i = f.body[0]
        return n, tr(i.test, Env(params={"self._data[i]": "b"}))

    o.item("rec_sanitized_count", "Z", lambda: zlit(invalid_test()[0]))
    o.item("rec_is_invalid_char", "bool", lambda: invalid_test()[1], params=[("", "b", "Z")])

    def size_formula():
        fn = find_scope(ca(), "CatalogEntryUsage.toDict")
        d = fn.body[0].value.body  # the dict in the `if len(self._blocks)` branch
        m = dict(zip([const_str(k) for k in d.keys], d.values))
        e = m["sizeInBytes"]
        return tr(e, Env(params={"len(self._blocks)": "nblocks", "self._blocks[-1].usage": "lastUsage", "self._usageOfLastSector": "lastSector"}))

    o.item("size_in_bytes", "Z", size_formula, params=[("", "nblocks", "Z"), ("", "lastUsage", "Z"), ("", "lastSector", "Z")])

    def usage_of_last_block():
        fn = find_scope(ca(), "CatalogEntryUsage.toUsageDict")
        d = fn.body[0].value.body
        m = dict(zip([const_str(k) for k in d.keys], d.values))
        return tr(m["usageOfLastBlock"], Env(params={"self._blocks[-1].status": "status"}, enums=bs()))

    o.item("usage_of_last_block", "Z", usage_of_last_block, params=[("", "status", "Z")])

    def chain_break_shape():
        fn = find_scope(ca(), "CatalogEntryUsage.fromBlockAllocationTable")
        w = nth(nodes(fn, ast.While), 0)
        if ast.unparse(w.test) != "not _block.isLast()":
            raise TieError("chain loop test")
        i = next(x for x in w.body if isinstance(x, ast.If))
        if not same(i.test, "_block.isFree() or _block.isReserved() or _block in blocks"):
            raise TieError("chain walk does not stop on a revisited block: " + ast.unparse(i.test))
        return "true"

    o.item("chain_stops_on_revisit", "bool", chain_break_shape)

    # ---- controller.py
    o.item("reserved_blocks", "list Z", lambda: tr(assign_value(co(), "RESERVED_BLOCKS"), Env()))
    o.item("compute_required_slots", "(Z * Z)", lambda: tr_function(find_scope(co(), "_computeRequiredSlots"), Env(), [("sizeOfData", "sizeOfData", "Z"), ("sizeOfSlot", "sizeOfSlot", "Z")]), params=[("", "sizeOfData", "Z"), ("", "sizeOfSlot", "Z")])

    def track_sector():
        r = find_scope(co(), "_computeTrackSectorOfBlock").body[0].value
        if not (isinstance(r, ast.Tuple) and ast.unparse(r.elts[0]).startswith("diskSide.tracks[")):
            raise TieError("_computeTrackSectorOfBlock shape")
        return tr(r.elts[0].slice, Env(params={"blockId": "blockId"})), tr(r.elts[1], Env(params={"blockId": "blockId"}))

    o.item("track_of_block", "Z", lambda: track_sector()[0], params=[("", "blockId", "Z")])
    o.item("first_sector_of_block", "Z", lambda: track_sector()[1], params=[("", "blockId", "Z")])

    def bat_get():
        g = find_getter(co(), "FileSystemController", "_bat")
        a = g.body[0].value  # self._diskSide.tracks[20].sectors[1].dataOfPayload
        m = ast.unparse(a)
        import re as _re
        mm = _re.fullmatch(r"self\._diskSide\.tracks\[(\d+)\]\.sectors\[(\d+)\]\.dataOfPayload", m)
        if not mm:
            raise TieError("_bat getter sector")
        lc = g.body[1].value
        if not isinstance(lc, ast.ListComp) or not same(lc.elt, "BlockAllocation(i - 1, batSector[i])"):
            raise TieError("_bat getter comprehension")
        r = lc.generators[0].iter
        return int(mm.group(1)), int(mm.group(2)), const_int(r.args[0]), const_int(r.args[1])

    for k, nm in enumerate(("bat_track", "bat_sector", "bat_first_index", "bat_end_index")):
        o.item(nm, "Z", (lambda k=k: zlit(bat_get()[k])))

    def bat_set_shape():
        st = find_setter(co(), "FileSystemController", "_bat")
        src = [_n(ast.unparse(x)) for x in st.body]
        want = [_n(x) for x in ["batSector = bytearray(self._diskSide.tracks[20].sectors[1].dataOfPayload)", "batSector[1:len(bat) + 1] = [b.status for b in bat]", "self._diskSide.tracks[20].sectors[1].dataOfPayload = batSector"]]
        if src != want:
            raise TieError("_bat setter shape: " + " | ".join(src))
        return "true"

    o.item("bat_setter_keeps_rest_of_sector", "bool", bat_set_shape)

    def lf():
        return find_scope(co(), "FileSystemController.listFiles")

    def cat_ranges():
        fs_ = nodes(lf(), ast.For)
        a, b = fs_[0].iter.args, fs_[1].iter.args
        return [const_int(x) for x in a] + [const_int(x) for x in b]

    for k, nm in enumerate(("cat_first_sector", "cat_end_sector", "cat_entry_first", "cat_entry_end", "cat_entry_size")):
        o.item(nm, "Z", (lambda k=k: zlit(cat_ranges()[k])))

    def wf():
        return find_scope(co(), "FileSystemController.writeFile")

    def wf_consts():
        calls = calls_to(wf(), "_computeRequiredSlots")
        a = const_int(calls[0].args[1])
        b = const_int(calls[1].args[1])
        loop = next(f for f in nodes(wf(), ast.For) if ast.unparse(f.target) == "currentSliceIndex")
        step = const_int(loop.iter.args[2])
        if not same(loop.iter, "range(0, max(dataLen, 1), 255)"):
            raise TieError("slice loop range: " + ast.unparse(loop.iter))
        i = next(x for x in nodes(wf(), ast.If) if ast.unparse(x.test) == "dataLen == 0")
        if not same(i.body[0], "requiredSectorLength, usageOfLastSector = 1, 0"):
            raise TieError("empty file rule: " + ast.unparse(i.body[0]))
        last = next(x for x in nodes(wf(), ast.If) if ast.unparse(x.test).startswith("currentSector ==") and "currentBlock = currentBlock + 1" in ast.unparse(x))
        seven = const_int(last.test.comparators[0])
        mod = assign_value(wf(), "currentSector", 1)
        if not same(mod, "(currentSector + 1) % 8"):
            raise TieError("sector counter")
        sl = next(n for n in nodes(wf(), ast.Subscript) if ast.unparse(n.value) == "content")
        if not same(sl, "content[currentSliceIndex:currentSliceIndex + 255]"):
            raise TieError("content slice")
        lastrule = next(x for x in nodes(wf(), ast.If) if ast.unparse(x.test) == "currentBlock >= lastBlockIndex")
        return a, b, step, seven

    for k, nm in enumerate(("payload_per_sector", "sectors_per_block", "slice_step", "last_sector_of_block")):
        o.item(nm, "Z", (lambda k=k: zlit(wf_consts()[k])))

    def rf_consts():
        fn = find_scope(co(), "FileSystemController.readFile")
        t = next(a for a in nodes(fn, ast.Assign) if same(a.targets[0], "sMax, lastSize"))
        if not same(t.value, "(lastBlockUsage, lastSectorSize) if i == lastI else (8, 255)"):
            raise TieError("readFile per-block sizes")
        return 8, 255

    o.item("read_full_sectors", "Z", lambda: zlit(rf_consts()[0]))
    o.item("read_full_payload", "Z", lambda: zlit(rf_consts()[1]))

    def init_shape():
        fn = find_scope(co(), "FileSystemController.initFileSystem")
        src = [_n(ast.unparse(x)) for x in fn.body if not isinstance(x, ast.Expr)]
        if _n("self._diskSide.tracks[20].sectors[1].dataOfPayload = bytes(256)") not in src:
            raise TieError("initFileSystem does not zero the allocation-table sector")
        e = assign_value(fn, "empty_sector")
        lc = e.args[0]
        return tr(lc.elt, Env())

    o.item("init_catalog_filler", "Z", init_shape)

    # ---- injector
    def ic():
        return find_scope(inj(), "DiskImageContentInjector")

    def processors():
        d = assign_value(find_scope(inj(), "DiskImageContentInjector.__init__"), "self._processors")
        dflt = ast.unparse(assign_value(find_scope(inj(), "DiskImageContentInjector.__init__"), "self._defaultProcessors"))
        tfm, tdm = tf(), enum_members(ca(), "TypeOfData")

        def of_method(mname):
            m = find_scope(inj(), "DiskImageContentInjector." + mname.replace("self.", ""))
            c = nth(calls_to(m, "writeFile"), 0)
            ext_arg, kind, data = c.args[2], c.args[3], c.args[4]
            forced = None if ast.unparse(ext_arg) == "fileExtension" else const_str(ext_arg)
            return forced, tfm[ast.unparse(kind)], tdm[ast.unparse(data)]

        rows = []
        for k, v in zip(d.keys, d.values):
            forced, kind, data = of_method(ast.unparse(v))
            rows.append((const_str(k), forced, kind, data))
        forced, kind, data = of_method(dflt)
        if forced is not None:
            raise TieError("default processor forces an extension")
        return rows, (kind, data)

    def proc_table():
        rows, _ = processors()
        return "[" + "; ".join(f"({zlist(str_points(k))}, ({'Some ' + zlist(str_points(f)) if f is not None else 'None'}, {kind}, {data}))" for k, f, kind, data in rows) + "]"

    o.item("inj_processors", "list (list Z * (option (list Z) * Z * Z))", proc_table)
    o.item("inj_default_processor", "(Z * Z)", lambda: "(%d, %d)" % processors()[1])

    def perform():
        return find_scope(inj(), "DiskImageContentInjector.perform")

    o.item("eos_marker", "list Z", lambda: zlist(str_points(const_str(next(i for i in nodes(perform(), ast.If) if ast.unparse(i.test).startswith("fileName ==")).test.comparators[0]))))

    def limits():
        a = next(i for i in nodes(perform(), ast.If) if ast.unparse(i.test).startswith("len(fileName) >"))
        b = next(i for i in nodes(perform(), ast.If) if ast.unparse(i.test).startswith("len(fileExtension) >"))
        return const_int(a.test.comparators[0]), const_int(b.test.comparators[0])

    o.item("inj_name_max", "Z", lambda: zlit(limits()[0]))
    o.item("inj_ext_max", "Z", lambda: zlit(limits()[1]))

    def reported_blocks():
        fn = find_scope(inj(), "DiskImageContentInjector.writeFile")
        body = None
        for t in nodes(fn, ast.Try):
            body = t.body
        start = next(k for k, s_ in enumerate(body) if ast.unparse(s_).startswith("sizeInBytes ="))
        end = next(k for k, s_ in enumerate(body) if ast.unparse(s_).startswith("listener.onEndOfFile"))
        env = Env(params={"len(fileData)": "size"}, funcs={"_computeRequiredSlots": "compute_required_slots"}, lets=set())
        return tr_block(body[start:end], env, lambda e: "v_sizeInBlocks")

    o.item("inj_reported_blocks", "Z", reported_blocks, params=[("", "size", "Z")])
    o.item("side_count", "Z", lambda: tr(find_scope(inj(), "DiskImageContentInjector._hasController").body[-1].value.comparators[0], Env()))

    def ex_shape():
        fn = find_scope(ext(), "DiskImageContentExtractor.perform")
        mk = nth(calls_to(fn, "makedirs"), 0)
        if not any(k.arg == "exist_ok" and ast.unparse(k.value) == "True" for k in mk.keywords):
            raise TieError("makedirs without exist_ok=True")
        c = nth(calls_to(fn, "replace"), 0)
        a, b = c.args
        frm = [47] if ast.unparse(a) == "os.sep" else str_points(const_str(a))
        to = str_points(const_str(b))
        if len(frm) != 1 or len(to) != 1:
            raise TieError("replace arguments")
        js = [j for j in nodes(fn, ast.JoinedStr) if "side" in ast.unparse(j)]
        return frm[0], to[0]

    o.item("dex_sep_from", "Z", lambda: zlit(ex_shape()[0]))
    o.item("dex_sep_to", "Z", lambda: zlit(ex_shape()[1]))
    return o



def gen_cli():
    o = Out("GenCli", header="Require Import CliTypes.")

    def parser_spec(path, qual):
        fn = find_scope(module(path), qual)
        groups = {}  # variable name -> required?
        opts = []
        positionals = []
        allow_abbrev = None
        for c in nodes(fn, ast.Call):
            f = c.func
            if isinstance(f, ast.Name) and f.id == "ArgumentParser":
                for k in c.keywords:
                    if k.arg == "allow_abbrev":
                        allow_abbrev = bool(k.value.value)
        for a in nodes(fn, ast.Assign):
            v = a.value
            if isinstance(v, ast.Call) and isinstance(v.func, ast.Attribute) and v.func.attr == "add_mutually_exclusive_group":
                req = any(k.arg == "required" and isinstance(k.value, ast.Constant) and k.value.value is True for k in v.keywords)
                groups[a.targets[0].id] = req
        if allow_abbrev is None:
            raise TieError("allow_abbrev not set explicitly")
        for c in nodes(fn, ast.Call):
            f = c.func
            if not (isinstance(f, ast.Attribute) and f.attr == "add_argument"):
                continue
            owner = ast.unparse(f.value)
            names = [const_str(x) for x in c.args]
            kw = {k.arg: k.value for k in c.keywords}
            if names and names[0].startswith("-"):
                action = const_str(kw["action"]) if "action" in kw else "store"
                dest = const_str(kw["dest"]) if "dest" in kw else next(n for n in names if n.startswith("--")).lstrip("-").replace("-", "_") if any(n.startswith("--") for n in names) else names[0].lstrip("-")
                if action == "store_const":
                    kind = f"OConst {zlist(str_points(dest))} {zlist(str_points(const_str(kw['const'])))}"
                elif action == "store_true":
                    kind = f"OTrue {zlist(str_points(dest))}"
                elif action == "store":
                    is_int = "type" in kw and ast.unparse(kw["type"]) == "int"
                    kind = f"OStore {zlist(str_points(dest))} {'true' if is_int else 'false'}"
                else:
                    raise TieError(f"action {action}")
                ingroup = owner in groups
                opts.append("mkOpt [" + "; ".join(zlist(str_points(n)) for n in names) + f"] ({kind}) {'true' if ingroup else 'false'}")
            else:
                nargs = const_str(kw["nargs"]) if "nargs" in kw else ""
                if nargs not in ("", "*"):
                    raise TieError(f"nargs {nargs}")
                positionals.append(f"({zlist(str_points(names[0]))}, {'true' if nargs == '*' else 'false'})")
        req = "true" if any(groups.values()) else "false"
        if len(groups) > 1:
            raise TieError("several groups")
        return f"mkCli [{'; '.join(opts)}] [{'; '.join(positionals)}] {'true' if allow_abbrev else 'false'} {req}"

    for g, path, qual in (("tar_cli", "moto_tar/tar.py", "TapeArchiveCli.createArgParser"), ("disk_cli", "moto_lib/fs_disk/cli.py", "DiskArchiveCli.createArgParser"),
                          ("nl_cli", "moto_nl/nl.py", "createArgParser"), ("prettier_cli", "moto_prettier/prettier.py", "createArgParser"),
                          ("lst2bas_cli", "moto_lst2bas/lst2bas.py", "createArgParser"), ("bas2lst_cli", "moto_bas2lst/bas2lst.py", "createArgParser")):
        o.item(g, "clispec", (lambda path=path, qual=qual: parser_spec(path, qual)))

    # action -> worker tables and the extension gate of the disk CLI
    def table_keys(path, qual, attr):
        d = assign_value(find_scope(module(path), qual), attr)
        return "[" + "; ".join(zlist(str_points(const_str(k))) for k in d.keys) + "]"

    o.item("tar_actions", "list (list Z)", lambda: table_keys("moto_tar/tar.py", "TapeArchiveCli.__init__", "self._workers"))
    o.item("disk_actions", "list (list Z)", lambda: table_keys("moto_lib/fs_disk/cli.py", "DiskArchiveCli.__init__", "self._workers"))

    def gate_before_manager():
        fn = find_scope(module("moto_lib/fs_disk/cli.py"), "DiskArchiveCli.run")
        stmts = [ast.unparse(x) for x in fn.body]
        gi = next(i for i, x in enumerate(stmts) if "archiveExtension != self._archiveExtension" in x)
        mi = next(i for i, x in enumerate(stmts) if "self.createImageManager(args)" in x)
        if not gi < mi:
            raise TieError("the extension gate does not precede the image manager")
        g = fn.body[gi]
        if not (isinstance(g.body[0], ast.Raise)):
            raise TieError("gate does not raise")
        # the extension is what follows the LAST dot, lower-cased, compared for equality
        want = ["archive = args.archive", "dotPos = archive.rfind('.')", None, "archiveExtension = archive[dotPos + 1:].lower()"]
        k = next(i for i, x in enumerate(stmts) if same(x, "archive = args.archive"))
        if not (same(stmts[k + 1], "dotPos = archive.rfind('.')") and stmts[k + 2].startswith("if dotPos < 0:") and same(stmts[k + 3], "archiveExtension = archive[dotPos + 1:].lower()")
                and same(g.test, "archiveExtension != self._archiveExtension")):
            raise TieError("the extension gate is not 'text after the last dot, lower-cased, equal to the expected extension'")
        return "true"

    o.item("disk_gate_before_manager", "bool", gate_before_manager)

    def scripts():
        import re as _re
        txt = open(os.path.join(REPO, "pyproject.toml")).read()
        m = _re.search(r"\[project\.scripts\](.*?)(\n\[|\Z)", txt, _re.S)
        rows = []
        for line in m.group(1).splitlines():
            mm = _re.match(r'\s*([\w-]+)\s*=\s*"([\w.]+):(\w+)"', line)
            if mm:
                rows.append((mm.group(1), mm.group(2), mm.group(3)))
        return rows

    def resolves(mod, func):
        """static resolution: the module file exists, defines func, and every package __init__ on the way
        only has relative imports of modules that exist"""
        parts = mod.split(".")
        base = os.path.join(SRC, *parts[:-1])
        f = os.path.join(base, parts[-1] + ".py")
        if not os.path.exists(f):
            return False
        t = ast.parse(open(f).read())
        if not any(isinstance(n, ast.FunctionDef) and n.name == func for n in t.body):
            return False
        for i in range(1, len(parts)):
            init = os.path.join(SRC, *parts[:i], "__init__.py")
            if not os.path.exists(init):
                return False
            for n in ast.parse(open(init).read()).body:
                if isinstance(n, ast.ImportFrom) and n.level == 1 and n.module:
                    tgt = os.path.join(SRC, *parts[:i], *n.module.split("."))
                    if not (os.path.exists(tgt + ".py") or os.path.isdir(tgt)):
                        return False
        return True

    def scripts_table():
        return "[" + "; ".join(f"({zlist(str_points(n))}, {'true' if resolves(m, f) else 'false'})" for n, m, f in scripts()) + "]"

    o.item("declared_scripts", "list (list Z * bool)", scripts_table)

    def modules_table():
        rows = []
        for tool in ("moto_tar", "moto_sdar", "moto_fdar", "moto_nl", "moto_prettier", "moto_bas2lst", "moto_lst2bas"):
            rows.append(f"({zlist(str_points(tool))}, {'true' if resolves(tool + '.__main__', 'main') else 'false'})")
        return "[" + "; ".join(rows) + "]"

    o.item("documented_modules", "list (list Z * bool)", modules_table)
    return o


GENERATORS = [gen_text, gen_tape, gen_basic, gen_disk, gen_cli]


def main():
    global SNAPDIR
    args = sys.argv[1:]
    outdir = args[0]
    if "--snapshot" in args:
        SNAPDIR = args[args.index("--snapshot") + 1]
    only = None
    if "--only" in args:
        only = set(args[args.index("--only") + 1].split(","))
    os.makedirs(outdir, exist_ok=True)
    summary = {"files": {}, "items": 0, "fallback": []}
    for g in GENERATORS:
        o = g()
        if only and o.name not in only:
            continue
        text = o.text()
        p = os.path.join(outdir, o.name + ".v")
        old = open(p, encoding="utf-8").read() if os.path.exists(p) else None
        if old != text:
            with open(p, "w", encoding="utf-8") as f:
                f.write(text)
        summary["files"][o.name] = {"items": len(o.items), "fallback": o.fallback}
        summary["items"] += len(o.items)
        summary["fallback"] += [dict(x, file=o.name) for x in o.fallback]
    print(json.dumps(summary))


if __name__ == "__main__":
    main()
