"""Runs inside a fresh interpreter with PYTHONPATH=/repo/src: executes jobs against the real
implementation, in process, and reports what it did.  One JSON job per line on stdin, one JSON
result per line on stdout (the real fd 1 is kept for the protocol; the tools' own output is
captured through a replaced sys.stdout)."""
import base64
import io
import json
import os
import signal
import sys
import traceback

import resource

try:  # runaway allocations show up as MemoryError instead of taking the sandbox down
    resource.setrlimit(resource.RLIMIT_AS, (3 << 30, 3 << 30))
except (ValueError, OSError):
    pass
_proto_out = os.fdopen(os.dup(1), "w")
_devnull = open(os.devnull, "w")
os.dup2(_devnull.fileno(), 1)

_rec = {"on": False, "events": []}


def _hook(event, args):
    if not _rec["on"]:
        return
    try:
        if event == "open":
            path, mode, flags = args
            if isinstance(path, int):
                return
            w = False
            if isinstance(mode, str):
                w = any(c in mode for c in "wax+")
            elif flags is not None:
                w = bool(flags & (os.O_WRONLY | os.O_RDWR | os.O_CREAT | os.O_TRUNC | os.O_APPEND))
            _rec["events"].append(["open_w" if w else "open_r", os.fsdecode(path)])
        elif event in ("os.mkdir", "os.remove", "os.rmdir", "os.truncate", "os.chmod", "os.unlink", "os.symlink", "os.link"):
            _rec["events"].append([event, os.fsdecode(args[0]) if not isinstance(args[0], int) else str(args[0])])
        elif event == "os.rename":
            _rec["events"].append([event, os.fsdecode(args[0]), os.fsdecode(args[1])])
        elif event in ("subprocess.Popen", "os.system", "os.exec", "os.posix_spawn", "os.fork"):
            _rec["events"].append([event, str(args[0])[:100]])
    except Exception:
        pass


sys.addaudithook(_hook)


class _Alarm(Exception):
    pass


def _on_alarm(signum, frame):
    raise _Alarm()


signal.signal(signal.SIGALRM, _on_alarm)


def _tool(name):
    if name == "nl":
        from moto_nl.nl import NumberLineCli

        return lambda: NumberLineCli().run()
    if name == "prettier":
        from moto_prettier.prettier import PrettierCli

        return lambda: PrettierCli().run()
    if name == "lst2bas":
        from moto_lst2bas.lst2bas import ListingToBasicCli

        return lambda: ListingToBasicCli().run()
    if name == "bas2lst":
        from moto_bas2lst.bas2lst import BasicToListingCli

        return lambda: BasicToListingCli().run()
    if name == "tar":
        from moto_tar.tar import TapeArchiveCli

        return lambda: TapeArchiveCli().run()
    if name in ("sdar", "fdar"):
        from moto_lib.fs_disk.cli import DiskArchiveCli
        from moto_lib.fs_disk.image import TypeOfDiskImage

        t = TypeOfDiskImage.SDDRIVE_FLOPPY_IMAGE if name == "sdar" else TypeOfDiskImage.EMULATOR_FLOPPY_IMAGE
        return lambda: DiskArchiveCli(typeOfArchive=t).run()
    raise KeyError(name)


def run_cli(job):
    argv = job["argv"]
    stdin_bytes = base64.b64decode(job.get("stdin_b64", ""))
    cwd = job.get("cwd")
    timeout = job.get("timeout", 20)
    old = (sys.argv, sys.stdin, sys.stdout, sys.stderr, os.getcwd())
    out = io.BytesIO()
    wout = None
    err = io.StringIO()
    res = {"status": None, "exc": None, "msg": None}
    try:
        if cwd:
            os.chdir(cwd)
        sys.argv = ["prog"] + argv
        # CPython builds sys.stdin with newline="\n" on POSIX: lines end at LF only, nothing translated
        sys.stdin = io.TextIOWrapper(io.BytesIO(stdin_bytes), encoding="utf-8", errors="surrogateescape", newline="\n")
        wout = io.TextIOWrapper(out, encoding="utf-8", errors="surrogateescape", newline="\n", write_through=True)
        sys.stdout = wout
        sys.stderr = err
        fn = _tool(job["tool"])
        _rec["events"] = []
        _rec["on"] = True
        signal.alarm(timeout)
        try:
            res["status"] = fn()
        except SystemExit as e:
            res["status"] = e.code if isinstance(e.code, int) or e.code is None else 1
            res["exc"] = "SystemExit"
        except _Alarm:
            res["exc"] = "Timeout"
        except BaseException as e:  # a crash: traceback, status 1 when run as a program
            res["exc"] = type(e).__name__
            res["msg"] = str(e)[:300]
            res["status"] = 1
            res["tb"] = traceback.format_exc()[-1500:]
        finally:
            signal.alarm(0)
            _rec["on"] = False
    finally:
        data = b""
        try:
            wout.flush()
            data = out.getvalue()
            wout.detach()
        except Exception:
            pass
        sys.argv, sys.stdin, sys.stdout, sys.stderr = old[:4]
        os.chdir(old[4])
    if res["status"] is None and res["exc"] is None:
        res["status"] = 0  # sys.exit(None)
    res["stdout_b64"] = base64.b64encode(data).decode()
    res["stderr_tail"] = err.getvalue()[-600:]
    res["effects"] = _rec["events"]
    return res


def run_py(job):
    """library-level job: exec a snippet with the implementation importable; result in variable `result`"""
    env = {"args": job.get("args")}
    timeout = job.get("timeout", 20)
    res = {"exc": None, "result": None}
    signal.alarm(timeout)
    try:
        exec(job["code"], env)
        res["result"] = env.get("result")
    except _Alarm:
        res["exc"] = "Timeout"
    except BaseException as e:
        res["exc"] = type(e).__name__
        res["msg"] = str(e)[:300]
    finally:
        signal.alarm(0)
    return res


def main():
    for line in sys.stdin.buffer:
        job = json.loads(line)
        try:
            if job["kind"] == "cli":
                r = run_cli(job)
            elif job["kind"] == "py":
                r = run_py(job)
            else:
                r = {"exc": "BadJob"}
        except BaseException as e:
            r = {"exc": "WorkerError", "msg": traceback.format_exc()[-1500:]}
        _proto_out.write(json.dumps(r) + "\n")
        _proto_out.flush()


main()
