#!/bin/sh
# seed_eval.sh <Cnn> <seed-worktree> [<other property ids to run too>...]
# 1. confirm the seeded change independently: tests pass with it, demo fails with it and passes without it
# 2. apply it to /repo, run the check(s), undo it straight afterwards
# 3. keep patch.diff, demo and meta.json under /verif/seeded/<Cnn>/
set -u
ID=$1; W=$2; shift 2
OUT=/verif/seeded/${ID}${SEED_SUFFIX:-}; mkdir -p $OUT
cd $W || exit 2
[ -s patch.diff ] || git diff -- src > patch.diff
cp patch.diff $OUT/patch.diff; cp demo_$ID.py $OUT/ 2>/dev/null; cp meta.txt $OUT/meta.txt 2>/dev/null
S=/tmp/seedchk_$ID; rm -rf $S; git -C /repo worktree add --detach $S HEAD -q || exit 2
DEMO_CLEAN=$(cd $S && timeout 300 /venv/bin/python $OUT/demo_$ID.py $S/src >/dev/null 2>&1; echo $?)
(cd $S && git apply $OUT/patch.diff) || { echo "patch does not apply"; git -C /repo worktree remove --force $S; exit 2; }
TESTS=$(cd $S && PYTHONPATH=$S/src PYTHONHASHSEED=0 PYTHONDONTWRITEBYTECODE=1 timeout 900 /venv/bin/python -m pytest -q -p no:cacheprovider 2>&1 | tail -1)
DEMO_SEEDED=$(cd $S && timeout 300 /venv/bin/python $OUT/demo_$ID.py $S/src >/dev/null 2>&1; echo $?)
git -C /repo worktree remove --force $S
echo "confirm: tests=[$TESTS] demo_clean=$DEMO_CLEAN demo_seeded=$DEMO_SEEDED"
RES=""
cd /verif
git -C /repo apply $OUT/patch.diff || exit 2
for P in $ID "$@"; do
  O=$(timeout 3000 ./check $P --tier quick 2>/dev/null | grep -E "^(VIOLATION|KNOWN)" | grep -v KNOWN | head -3 | tr '\n' ';')
  RC=$?
  echo "check $P -> [$O]"
  RES="$RES\"$P\": \"$(echo $O | sed 's/"/\\"/g')\", "
  mkdir -p $OUT/replays; for f in $(echo "$O" | grep -o '/verif/replays/[^ ;]*'); do cp $f $OUT/replays/ 2>/dev/null; done
done
git -C /repo checkout -- .
git -C /repo status --short | grep -v '^??' | head -3
python3 - "$ID" "$TESTS" "$DEMO_CLEAN" "$DEMO_SEEDED" "{${RES%, }}" <<'PY'
import json,sys,os
i,tests,dc,ds,res=sys.argv[1:6]
out=f"/verif/seeded/{i}"+os.environ.get("SEED_SUFFIX","")
import subprocess
meta={"property":i,"repo_head":subprocess.run(["git","-C","/repo","rev-parse","--short","HEAD"],capture_output=True,text=True).stdout.strip(),"tests_with_change":tests,"demo_exit_on_unchanged_tree":int(dc),"demo_exit_with_change":int(ds),
      "confirmed": ("passed" in tests and "failed" not in tests and dc=="0" and ds=="1"),
      "needs": open(os.path.join(out,"meta.txt")).read() if os.path.exists(os.path.join(out,"meta.txt")) else "",
      "checks_run_against_it": json.loads(res),
      "what_was_run": f"git worktree of /repo HEAD; pytest with the patch; demo_{i}.py on both trees; git -C /repo apply patch.diff; ./check <id> --tier quick; git -C /repo checkout -- ."}
json.dump(meta,open(os.path.join(out,"meta.json"),"w"),indent=1)
print("confirmed:",meta["confirmed"])
PY
