(* GenFacts/DiskFactsRead.v — characterising lemmas about Gen/GenDisk.v used by the reading-side proofs. *)
From Coq Require Import ZArith List Bool Lia ZifyBool.
Require Import PyBase GenDisk.
Import ListNotations.
Open Scope Z_scope.
Ltac Zify.zify_post_hook ::= Z.to_euclidean_division_equations.

(* ---- statuses ---- *)
Lemma is_valid_status_is v :
  is_valid_status v = negb (((160 <=? v) && (v <? 193)) || ((201 <=? v) && (v <? 254))).
Proof. unfold is_valid_status. destruct (((160 <=? v) && (v <? 193)) || ((201 <=? v) && (v <? 254))); reflexivity. Qed.
Lemma ba_is_free_is s : ba_is_free s = (s =? 255). Proof. reflexivity. Qed.
Lemma ba_is_reserved_is s : ba_is_reserved s = (s =? 254). Proof. reflexivity. Qed.
Lemma ba_is_last_is s : ba_is_last s = ((192 <? s) && (s <? 201)). Proof. reflexivity. Qed.
Lemma ba_has_next_is s : ba_has_next s = (s <? 160). Proof. reflexivity. Qed.
Lemma ba_usage_last s : 193 <= s <= 200 -> ba_usage s = s - 192.
Proof.
  intros H. unfold ba_usage, ba_is_free, ba_is_reserved, ba_has_next.
  destruct (s =? 255) eqn:E1; [lia|]. destruct ((s =? 254) || (s <? 160)) eqn:E2; [lia|reflexivity].
Qed.
Lemma ba_usage_le8 s : s <= 200 -> ba_usage s <= 8.
Proof.
  intros H. unfold ba_usage, ba_is_free, ba_is_reserved, ba_has_next.
  destruct (s =? 255) eqn:E1; [lia|]. destruct ((s =? 254) || (s <? 160)) eqn:E2; lia.
Qed.
Lemma usage_of_last_block_is s : usage_of_last_block s = s - 192. Proof. reflexivity. Qed.

(* ---- entries ---- *)
Lemma entry_status_of_is v : entry_status_of v = if v =? 255 then 0 else if v =? 0 then 2 else 1.
Proof. reflexivity. Qed.
Lemma entry_consts : entry_NEVER_USED = 0 /\ entry_ALIVE = 1 /\ entry_DELETED = 2.
Proof. repeat split; reflexivity. Qed.
Lemma rec_consts : rec_name_lo = 0 /\ rec_name_hi = 8 /\ rec_ext_lo = 8 /\ rec_ext_hi = 11 /\ rec_kind_index = 11 /\
  rec_data_index = 12 /\ rec_first_index = 13 /\ rec_last_hi_index = 14 /\ rec_last_lo_index = 15 /\
  rec_sanitized_count = 11 /\ invalid_char = 120 /\ kind_count = 4 /\ kind_fallback = 1.
Proof. repeat split; reflexivity. Qed.
Lemma rec_last_of_is hi lo : rec_last_of hi lo = hi * 256 + lo.
Proof. unfold rec_last_of. rewrite Z.shiftl_mul_pow2 by lia. reflexivity. Qed.
Lemma rec_is_invalid_char_is b : rec_is_invalid_char b = (b <? 32). Proof. reflexivity. Qed.
Lemma rec_bytes_11_12_13 k d f l : rec_byte11 k d f l = k /\ rec_byte12 k d f l = d /\ rec_byte13 k d f l = f.
Proof. repeat split; reflexivity. Qed.
Lemma data_from_byte_is_ascii_is v : data_from_byte_is_ascii v = (v =? 255). Proof. reflexivity. Qed.
Lemma data_to_byte_is v : data_to_byte v = if v =? 0 then 0 else 255. Proof. reflexivity. Qed.
Lemma size_in_bytes_is n u l : size_in_bytes n u l = if n =? 0 then 0 else (8 * (n - 1) + u - 1) * 255 + l.
Proof. reflexivity. Qed.

(* ---- geometry ---- *)
Lemma fs_consts : bat_track = 20 /\ bat_sector = 1 /\ bat_first_index = 1 /\ bat_end_index = 161 /\
  cat_first_sector = 2 /\ cat_end_sector = 16 /\ cat_entry_first = 0 /\ cat_entry_end = 256 /\ cat_entry_size = 32 /\
  sectors_per_track = 16 /\ tracks_per_side = 80 /\ read_full_sectors = 8 /\ read_full_payload = 255 /\
  size_of_payload = 256 /\ side_count = 4 /\ dex_sep_from = 47 /\ dex_sep_to = 95.
Proof. repeat split; reflexivity. Qed.
Lemma block_sector_is b j : 0 <= b ->
  track_of_block b * sectors_per_track + (first_sector_of_block b + j) = 8 * b + j.
Proof.
  intros Hb. unfold track_of_block, first_sector_of_block, sectors_per_track.
  change 1 with (Z.ones 1). rewrite Z.land_ones by lia. change (2 ^ 1) with 2. lia.
Qed.
Lemma load_number_of_sides_le4 a b : load_number_of_sides a b <= 4.
Proof. unfold load_number_of_sides. lia. Qed.
Lemma blank_sides_fd_4 : blank_sides_fd 4 = 4. Proof. reflexivity. Qed.
