(* GenFacts/DiskFactsWrite.v — characterising lemmas about Gen/GenDisk.v used by the writeFile proofs. *)
From Coq Require Import ZArith List Bool Lia ZifyBool.
Require Import PyBase GenDisk.
Import ListNotations.
Open Scope Z_scope.
Ltac Zify.zify_post_hook ::= Z.to_euclidean_division_equations.

Lemma gw_valid_status v :
  is_valid_status v = negb (((160 <=? v) && (v <? 193)) || ((201 <=? v) && (v <? 254))).
Proof. unfold is_valid_status. destruct (((160 <=? v) && (v <? 193)) || ((201 <=? v) && (v <? 254))); reflexivity. Qed.

Lemma gw_is_free s : ba_is_free s = (s =? 255).
Proof. reflexivity. Qed.
Lemma gw_is_reserved s : ba_is_reserved s = (s =? 254).
Proof. reflexivity. Qed.
Lemma gw_is_last s : ba_is_last s = ((192 <? s) && (s <? 201)).
Proof. reflexivity. Qed.
Lemma gw_last_status_of u : last_status_of u = 192 + u.
Proof. reflexivity. Qed.
Lemma gw_status_free : status_FREE = 255.
Proof. reflexivity. Qed.
Lemma gw_status_reserved : status_RESERVED = 254.
Proof. reflexivity. Qed.
Lemma gw_reserved_blocks : reserved_blocks = [0; 40; 41].
Proof. reflexivity. Qed.

Lemma gw_consts :
  payload_per_sector = 255 /\ sectors_per_block = 8 /\ slice_step = 255 /\ last_sector_of_block = 7 /\
  size_of_payload = 256 /\ sectors_per_track = 16 /\ tracks_per_side = 80 /\
  bat_track = 20 /\ bat_sector = 1 /\ bat_first_index = 1 /\ bat_end_index = 161 /\
  cat_first_sector = 2 /\ cat_end_sector = 16 /\ cat_entry_first = 0 /\ cat_entry_end = 256 /\ cat_entry_size = 32 /\
  size_of_entry_name = 8 /\ size_of_entry_extension = 3 /\ padding_char = 32 /\ invalid_char = 120 /\
  rec_sanitized_count = 11 /\ init_catalog_filler = 255 /\
  entry_NEVER_USED = 0 /\ entry_ALIVE = 1 /\ entry_DELETED = 2 /\
  rec_first_index = 13 /\ rec_last_hi_index = 14 /\ rec_last_lo_index = 15.
Proof. repeat split; reflexivity. Qed.

Lemma gw_required_slots sz slot :
  compute_required_slots sz slot =
  (if 0 <? sz mod slot then sz / slot + 1 else sz / slot, if 0 <? sz mod slot then sz mod slot else slot).
Proof. unfold compute_required_slots. destruct (0 <? sz mod slot); reflexivity. Qed.

Lemma gw_setter_copy_len n : setter_copy_len n = Z.min n 256.
Proof. unfold setter_copy_len, size_of_payload. destruct (n <? 256) eqn:E; lia. Qed.

Lemma gw_sector_of_block b j : 0 <= b ->
  track_of_block b * sectors_per_track + (first_sector_of_block b + j) = 8 * b + j.
Proof.
  intros Hb. unfold track_of_block, first_sector_of_block, sectors_per_track.
  change 1 with (Z.ones 1) at 1. rewrite Z.land_ones by lia. change (2 ^ 1) with 2. lia.
Qed.

Lemma gw_rec_bytes kind dflag first last : 0 <= last <= 255 ->
  rec_byte11 kind dflag first last = kind /\ rec_byte12 kind dflag first last = dflag /\
  rec_byte13 kind dflag first last = first /\ rec_byte14 kind dflag first last = 0 /\
  rec_byte15 kind dflag first last = last.
Proof.
  intros H. unfold rec_byte11, rec_byte12, rec_byte13, rec_byte14, rec_byte15. repeat split.
  - rewrite Z.shiftr_div_pow2 by lia. change (2 ^ 8) with 256.
    replace (last / 256) with 0 by lia. reflexivity.
  - change 255 with (Z.ones 8). rewrite Z.land_ones by lia. change (2 ^ 8) with 256. lia.
Qed.

Lemma gw_data_to_byte d : data_to_byte d = if d =? 0 then 0 else 255.
Proof. reflexivity. Qed.
Lemma gw_entry_status_of v : entry_status_of v = if v =? 255 then 0 else if v =? 0 then 2 else 1.
Proof. reflexivity. Qed.
Lemma gw_rec_is_invalid_char b : rec_is_invalid_char b = (b <? 32).
Proof. reflexivity. Qed.
Lemma gw_padding_of_record : padding_of_record = repeat 255 16%nat.
Proof. reflexivity. Qed.
Lemma gw_rec_last_of hi lo : rec_last_of hi lo = Z.shiftl hi 8 + lo.
Proof. reflexivity. Qed.
