(* GenFacts/TextFacts.v — characterising lemmas about Gen/GenText.v, re-proved on every run.
   They are the only interface through which later proofs see the generated definitions. *)
From Coq Require Import Lia ZifyBool.
Require Import PyBase GenText.
Open Scope Z_scope.

Lemma nl_regex_is : nl_regex = [94; 40; 91; 49; 45; 57; 93; 91; 48; 45; 57; 93; 42; 41; 46; 42; 36].
Proof. reflexivity. Qed.
Lemma nl_rstrip_arg_is : nl_rstrip_arg = [10]. Proof. reflexivity. Qed.
Lemma nl_defaults : nl_default_start = 10 /\ nl_default_increment = 10 /\ nl_default_width = 0.
Proof. repeat split; reflexivity. Qed.
Lemma nl_next_numbered_is p i : nl_next_numbered p i = p + i. Proof. unfold nl_next_numbered; lia. Qed.
Lemma nl_next_unnumbered_is n i : nl_next_unnumbered n i = n + i. Proof. unfold nl_next_unnumbered; lia. Qed.
Lemma nl_pad_test_is p w : nl_pad_test p w = (zlen p <? w). Proof. unfold nl_pad_test; lia. Qed.
Lemma nl_pad_count_is p w : nl_pad_count p w = w - zlen p. Proof. unfold nl_pad_count; lia. Qed.
Lemma nl_separator_is : nl_separator = [32]. Proof. reflexivity. Qed.

Lemma prettier_regex_is : prettier_regex = [40; 91; 94; 34; 93; 41]. Proof. reflexivity. Qed.
Lemma prettier_rstrip_arg_is : prettier_rstrip_arg = [10]. Proof. reflexivity. Qed.
Lemma prettier_toggle_test_is g : prettier_toggle_test g = starts_with [34] g.
Proof. reflexivity. Qed.
Lemma prettier_toggle_is d g : prettier_toggle d g = Z.land (d + zlen g) 1. Proof. reflexivity. Qed.
Lemma prettier_upper_test_is d : prettier_upper_test d = (d =? 0). Proof. reflexivity. Qed.
