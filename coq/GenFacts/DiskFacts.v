(* GenFacts/DiskFacts.v — characterising lemmas about Gen/GenDisk.v, re-proved on every run. *)
From Coq Require Import ZArith List Bool Lia ZifyBool.
Require Import PyBase GenDisk.
Import ListNotations.
Open Scope Z_scope.

Lemma geometry_is : size_of_payload = 256 /\ sectors_per_track = 16 /\ tracks_per_side = 80 /\
  size_of_sector true = 256 /\ size_of_sector false = 512 /\ size_of_side true = 327680 /\ size_of_side false = 655360.
Proof. repeat split; reflexivity. Qed.
