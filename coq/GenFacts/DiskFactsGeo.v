(* GenFacts/DiskFactsGeo.v — characterising lemmas about Gen/GenDisk.v used by the geometry proofs. *)
From Coq Require Import ZArith List Bool Lia ZifyBool.
Require Import PyBase GenDisk.
Import ListNotations.
Open Scope Z_scope.

Lemma setter_copy_len_is l : setter_copy_len l = Z.min l 256.
Proof. unfold setter_copy_len, size_of_payload. destruct (l <? 256) eqn:E; lia. Qed.

Lemma load_number_of_sides_is d s : load_number_of_sides d s = Z.min (d / s) 4.
Proof. reflexivity. Qed.
Lemma load_reject_fd_is n : load_reject_fd n = (n =? 0) || (n =? 3).
Proof. unfold load_reject_fd. cbn [existsb]. now rewrite orb_false_r. Qed.
Lemma load_reject_sd_is n : load_reject_sd n = (n <? 4).
Proof. reflexivity. Qed.
Lemma load_reject_partial_is n d s : load_reject_partial n d s = (n <? 4) && (n * s <? d).
Proof. reflexivity. Qed.
Lemma blank_sides_fd_4 : blank_sides_fd 4 = 4.
Proof. reflexivity. Qed.
Lemma side_count_is : side_count = 4.
Proof. reflexivity. Qed.
Lemma size_of_payload_is : size_of_payload = 256.
Proof. reflexivity. Qed.
Lemma size_of_sector_fd : size_of_sector true = 256.
Proof. reflexivity. Qed.
Lemma size_of_sector_sd : size_of_sector false = 512.
Proof. reflexivity. Qed.
Lemma size_of_side_is b : size_of_side b = size_of_sector b * (tracks_per_side * sectors_per_track).
Proof. destruct b; reflexivity. Qed.
Lemma size_of_side_fd : size_of_side true = 327680.
Proof. reflexivity. Qed.
Lemma size_of_side_sd : size_of_side false = 655360.
Proof. reflexivity. Qed.
Lemma filler_sddrive_is : filler_sddrive = 255.
Proof. reflexivity. Qed.
Lemma bat_place_is : bat_track * sectors_per_track + bat_sector = 321 /\ bat_first_index = 1 /\ bat_end_index = 161.
Proof. repeat split; reflexivity. Qed.
Lemma is_valid_status_is s :
  is_valid_status s = negb (((160 <=? s) && (s <? 193)) || ((201 <=? s) && (s <? 254))).
Proof. unfold is_valid_status. destruct (((160 <=? s) && (s <? 193)) || ((201 <=? s) && (s <? 254))); reflexivity. Qed.
