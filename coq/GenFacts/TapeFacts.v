(* GenFacts/TapeFacts.v — characterising lemmas about Gen/GenTape.v, re-proved on every run. *)
From Coq Require Import ZArith List Bool Lia ZifyBool.
Require Import PyBase GenTape.
Import ListNotations.
Open Scope Z_scope.

Lemma sync_read_is : sync_read = [1;1;1;60;90]. Proof. reflexivity. Qed.
Lemma sync_write_is : sync_write = repeat 1 16 ++ [60;90]. Proof. reflexivity. Qed.
Lemma tape_default_size_is : tape_default_size = 21504. Proof. reflexivity. Qed.
Lemma block_types_are : block_type_LEADER = 0 /\ block_type_DATA = 1 /\ block_type_EOF = 255 /\ block_type_count = 3.
Proof. repeat split; reflexivity. Qed.
