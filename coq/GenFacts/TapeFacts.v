(* GenFacts/TapeFacts.v — characterising lemmas about Gen/GenTape.v, re-proved on every run. *)
From Coq Require Import ZArith List Bool Lia ZifyBool.
Require Import PyBase GenTape.
Import ListNotations.
Open Scope Z_scope.

Lemma sync_read_is : sync_read = [1;1;1;60;90]. Proof. reflexivity. Qed.
Lemma sync_write_is : sync_write = repeat 1 16 ++ [60;90]. Proof. reflexivity. Qed.
Lemma tape_default_size_is : tape_default_size = 21504. Proof. reflexivity. Qed.
Lemma block_types_are : block_type_LEADER = 0 /\ block_type_DATA = 1 /\ block_type_EOF = 255 /\ block_type_count = 3.
Proof. repeat split; reflexivity. Qed.
Lemma sync_write_len : zlen sync_write = 18. Proof. reflexivity. Qed.
Lemma sync_read_len : zlen sync_read = 5. Proof. reflexivity. Qed.
Lemma wb_next1_is p : wb_next1 p = p + 18. Proof. reflexivity. Qed.
Lemma wb_next2_is p b : wb_next2 p b = p + zlen b. Proof. reflexivity. Qed.
Lemma wb_guard1_is n m : wb_guard1 n m = (m <=? n). Proof. reflexivity. Qed.
Lemma wb_guard2_is n m : wb_guard2 n m = (m <=? n). Proof. reflexivity. Qed.
Lemma nb_after_sync_is p : nb_after_sync p = p + 5. Proof. reflexivity. Qed.
Lemma nb_bound_test_is p m : nb_bound_test p m = (p + 2 <=? m). Proof. reflexivity. Qed.
Lemma nb_len_index_is p : nb_len_index p = p + 1. Proof. reflexivity. Qed.
Lemma nb_block_end_is p l : nb_block_end p l = if 0 <? l then p + l + 1 else p + 257. Proof. reflexivity. Qed.
Lemma bb_eof_is ty : bb_eof ty = [ty; 2; 0]. Proof. reflexivity. Qed.
Lemma bb_header_is ty d : bb_header ty d = [ty; Z.land (zlen d + 2) 255]. Proof. reflexivity. Qed.
Lemma bb_trailer_is d : bb_trailer d = [checksum d]. Proof. reflexivity. Qed.
Lemma checksum_is d : checksum d = Z.land (256 - fold_left (fun s b => Z.land (s + b) 255) d 0) 255. Proof. reflexivity. Qed.
Lemma inj_next_pos_is p r : inj_next_pos p r = if r <? 254 then p + r else p + 254. Proof. reflexivity. Qed.
Lemma inj_dispatch_is ext : inj_dispatch ext =
  if zeqb_list ext [66;65;83;44;65] then ([66;65;83], 0, 65535, true)
  else if zeqb_list ext [66;65;83] then (ext, 0, 0, false)
  else if zeqb_list ext [67;83;86] then (ext, 1, 0, false) else (ext, 2, 0, false).
Proof. reflexivity. Qed.
Lemma inj_name_limit_is : inj_name_limit = 8. Proof. reflexivity. Qed.
Lemma inj_defaults_are : inj_default_type = 2 /\ inj_default_mode = 0. Proof. split; reflexivity. Qed.
Lemma inj_overflow_status_is : inj_overflow_status = 1. Proof. reflexivity. Qed.
Lemma ext_sep_is : ext_sep_from = [47] /\ ext_sep_to = 95. Proof. split; reflexivity. Qed.
Lemma body_bounds_are : body_lo = 2 /\ body_hi_from_end = 1 /\ block_type_index = 0. Proof. repeat split; reflexivity. Qed.
Lemma ld_fields_are : ld_name_lo = 2 /\ ld_name_hi = 10 /\ ld_ext_lo = 10 /\ ld_ext_hi = 13 /\ ld_type_index = 13 /\
  ld_mode_hi_index = 14 /\ ld_mode_lo_index = 15 /\ ld_payload_size = 14.
Proof. repeat split; reflexivity. Qed.
Lemma ld_mode_of_is hi lo : ld_mode_of hi lo = hi * 256 + lo. Proof. reflexivity. Qed.
Lemma ttb_fields_are : ttb_name_lo = 0 /\ ttb_name_hi = 8 /\ ttb_name_cut_lo = 0 /\ ttb_name_cut_hi = 8 /\
  ttb_name_pad = repeat 32 8 /\ ttb_ext_lo = 8 /\ ttb_ext_hi = 11 /\ ttb_ext_cut_lo = 0 /\ ttb_ext_cut_hi = 3 /\
  ttb_ext_pad = repeat 32 3 /\ ttb_type_index = 11 /\ ttb_mode_hi_index = 12 /\ ttb_mode_lo_index = 13 /\ ttb_block_type = 0.
Proof. repeat split; reflexivity. Qed.
Lemma ttb_values_are ty mode : ttb_type_value ty mode = Z.land ty 255 /\
  ttb_mode_hi_value ty mode = Z.land (Z.shiftr mode 8) 255 /\ ttb_mode_lo_value ty mode = Z.land mode 255.
Proof. repeat split; reflexivity. Qed.
