(* GenFacts/DiskFactsLoop.v — characterising lemmas about Gen/GenDisk.v used by the injector
   loop proofs (Proofs/DLoop*.v, Proofs/DiskLoopProofs.v), re-proved on every run. *)
From Coq Require Import ZArith List Bool Lia ZifyBool.
Require Import PyBase GenDisk.
Import ListNotations.
Open Scope Z_scope.
Ltac Zify.zify_post_hook ::= Z.to_euclidean_division_equations.

Lemma side_count_is : side_count = 4. Proof. reflexivity. Qed.
Lemma side_count_nat : Z.to_nat side_count = 4%nat. Proof. reflexivity. Qed.
Lemma inj_name_max_is : inj_name_max = 8. Proof. reflexivity. Qed.
Lemma inj_ext_max_is : inj_ext_max = 3. Proof. reflexivity. Qed.
Lemma eos_marker_is : eos_marker = [45; 45; 69; 79; 83]. Proof. reflexivity. Qed.

(* blocks announced for n bytes: 255 bytes per sector, 8 sectors per block, at least one sector *)
Lemma inj_reported_blocks_is n : 0 <= n ->
  inj_reported_blocks n = ((if n =? 0 then 1 else (n + 254) / 255) + 7) / 8.
Proof.
  intros Hn. unfold inj_reported_blocks, compute_required_slots.
  destruct (0 <? Z.max n 1 mod 255) eqn:E1;
    [destruct (0 <? (Z.max n 1 / 255 + 1) mod 8) eqn:E2|destruct (0 <? (Z.max n 1 / 255) mod 8) eqn:E2];
    destruct (n =? 0) eqn:E0; lia.
Qed.

(* the statuses the table getter accepts *)
Lemma is_valid_status_of v :
  (((0 <=? v) && (v <? 160)) || ((193 <=? v) && (v <=? 200)) || (v =? 254) || (v =? 255)) = true ->
  is_valid_status v = true.
Proof.
  intros H. unfold is_valid_status.
  destruct (((160 <=? v) && (v <? 193)) || ((201 <=? v) && (v <? 254))) eqn:E; [lia|reflexivity].
Qed.

(* the table of processors: kinds 0..3, data flags 0/1, the only forced extension is BAS *)
Definition proc_entry_ok (v : option (list Z) * Z * Z) : bool :=
  let '(forced, kind, dtype) := v in
  match forced with Some x => forallb (fun c => (32 <=? c) && (c <=? 126)) x | None => true end
  && (0 <=? kind) && (kind <? 4) && ((dtype =? 0) || (dtype =? 1)).
Lemma inj_processors_ok : forallb (fun kv => proc_entry_ok (snd kv)) inj_processors = true.
Proof. reflexivity. Qed.
Lemma inj_default_processor_ok : proc_entry_ok (None, fst inj_default_processor, snd inj_default_processor) = true.
Proof. reflexivity. Qed.

(* catalogue constants *)
Lemma record_constants : size_of_entry_name = 8 /\ size_of_entry_extension = 3 /\ padding_char = 32 /\
  invalid_char = 120 /\ rec_sanitized_count = 11 /\ padding_of_record = repeat 255 16 /\ cat_entry_size = 32.
Proof. repeat split; reflexivity. Qed.
Lemma entry_status_of_alive v : (entry_status_of v =? entry_ALIVE) = negb (v =? 255) && negb (v =? 0).
Proof.
  unfold entry_status_of, entry_ALIVE.
  destruct (v =? 255) eqn:E1; [reflexivity|]. destruct (v =? 0) eqn:E2; reflexivity.
Qed.
Lemma entry_status_of_cases v :
  entry_status_of v = entry_NEVER_USED \/ entry_status_of v = entry_ALIVE \/ entry_status_of v = entry_DELETED.
Proof.
  unfold entry_status_of, entry_NEVER_USED, entry_ALIVE, entry_DELETED.
  destruct (v =? 255); [now left|]. destruct (v =? 0); [now right; right|now right; left].
Qed.
Lemma block_sector_is b j : 0 <= b -> 0 <= j < 8 ->
  track_of_block b * sectors_per_track + (first_sector_of_block b + j) = 8 * b + j.
Proof.
  intros Hb Hj. unfold track_of_block, first_sector_of_block, sectors_per_track.
  change 1 with (Z.ones 1). rewrite Z.land_ones by lia. change (2 ^ 1) with 2. lia.
Qed.
Lemma ba_is_free_is s : ba_is_free s = (s =? 255). Proof. reflexivity. Qed.
