(* GenFacts/BasicFacts.v — characterising lemmas about Gen/GenBasic.v, re-proved on every run. *)
From Coq Require Import ZArith List Bool Lia ZifyBool.
Require Import PyBase GenBasic Mo5Basic.
Import ListNotations.
Open Scope Z_scope.

(* the tool's table is the reference vocabulary *)
Lemma basic_tokens_is : basic_tokens = mo5_vocabulary. Proof. reflexivity. Qed.
Lemma require_colon_is : require_colon = [else_word]. Proof. reflexivity. Qed.
Lemma literal_db_empty : literal_db_is_empty = true. Proof. reflexivity. Qed.
Lemma special_chars_is : special_chars = [46; 44; 40; 41; 58; 59; 32]. Proof. reflexivity. Qed.
Lemma program_base_is : program_base = mo5_base. Proof. reflexivity. Qed.
