#!/bin/sh
# dev helper: (re)generate the Makefile for every .v present and build the given targets
cd "$(dirname "$0")"
{ cat _CoqProject.base; find Py Gen GenFacts Model Spec Proofs Props Extract -name '*.v' | sort; } > _CoqProject
coq_makefile -f _CoqProject -o Makefile >/dev/null
exec timeout ${MK_TIMEOUT:-1200} make -j16 "$@"
