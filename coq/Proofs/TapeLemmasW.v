(* Proofs/TapeLemmasW.v — the write side: what write_block / write_data / inject_* put on a
   blank tape, in the vocabulary of Spec/K7.v. *)
From Coq Require Import ZArith List Bool Lia ZifyBool.
Require Import PyBase GenTape TapeFacts Tape K7 PyFacts TapeLemmas1 TapeLemmas2.
Import ListNotations.
Open Scope Z_scope.
Ltac Zify.zify_post_hook ::= Z.to_euclidean_division_equations.

(* a tape of size M whose written part is W, the rest still zero, cursor at the end of W *)
Definition tpM (M : Z) (W : list Z) : tape :=
  mkTape (W ++ repeat 0 (Z.to_nat (M - zlen W))) (zlen W) M.

Lemma write_block_tpM M W b :
  write_block (tpM M W) b =
  if zlen W + 18 + zlen b <? M then Ok (tpM M (W ++ sync_write ++ b)) else Err EOverflow.
Proof.
  unfold write_block, tpM. rewrite wb_guard1_is, wb_guard2_is. unfold wb_next1, wb_next2.
  cbn [t_pos t_max t_raw].
  pose proof (zlen_nonneg b) as Hb. pose proof (zlen_nonneg W) as HW.
  pose proof sync_write_len as Hs.
  destruct (zlen W + 18 + zlen b <? M) eqn:E.
  - destruct (M <=? zlen W + zlen sync_write) eqn:E1; [lia|].
    destruct (M <=? zlen W + zlen sync_write + zlen b) eqn:E2; [lia|].
    f_equal.
    assert (Hk : Z.to_nat (M - zlen W) =
                 (length sync_write + (length b + Z.to_nat (M - zlen (W ++ sync_write ++ b))))%nat).
    { rewrite !zlen_app. unfold zlen in *. lia. }
    rewrite Hk, !repeat_split.
    rewrite (zsplice_mid W (repeat 0 (length sync_write)) sync_write);
      [|reflexivity|rewrite zlen_repeat; unfold zlen; lia].
    rewrite (app_assoc W sync_write).
    rewrite (zsplice_mid (W ++ sync_write) (repeat 0 (length b)) b);
      [|rewrite zlen_app; reflexivity|rewrite zlen_repeat, zlen_app; unfold zlen; lia].
    f_equal.
    + now rewrite <- !app_assoc.
    + rewrite !zlen_app. lia.
  - destruct (M <=? zlen W + zlen sync_write) eqn:E1; [reflexivity|].
    destruct (M <=? zlen W + zlen sync_write + zlen b) eqn:E2; [reflexivity|lia].
Qed.

(* ---------- checksum / build_block ---------- *)
Lemma checksum_fold d : forall a, 0 <= a < 256 ->
  fold_left (fun s b => Z.land (s + b) 255) d a = (a + sum_bytes d) mod 256.
Proof.
  induction d as [|x d IH]; intros a Ha; cbn [fold_left sum_bytes fold_right].
  - lia.
  - rewrite IH by (rewrite land255; lia). rewrite land255. fold (sum_bytes d). lia.
Qed.

Lemma checksum_ck_of d : checksum d = ck_of d.
Proof.
  rewrite checksum_is, checksum_fold by lia. rewrite land255. unfold ck_of. reflexivity.
Qed.

Lemma build_block_some ty d : build_block ty (Some d) = k7_body ty d.
Proof.
  unfold build_block, k7_body. rewrite bb_header_is, bb_trailer_is, land255, checksum_ck_of. reflexivity.
Qed.
Lemma build_block_eof : build_block block_type_EOF None = k7_body 255 [].
Proof. reflexivity. Qed.

Lemma k7_block_split ty p : k7_block ty p = sync_write ++ k7_body ty p.
Proof. reflexivity. Qed.
Lemma k7_end_block_is : k7_end_block = k7_block 255 [].
Proof. reflexivity. Qed.
Lemma zlen_k7_body ty p : zlen (k7_body ty p) = zlen p + 3.
Proof. unfold k7_body. rewrite !zlen_app, !zlen_cons, zlen_nil. lia. Qed.
Lemma zlen_k7_block ty p : zlen (k7_block ty p) = zlen p + 21.
Proof. rewrite k7_block_split, zlen_app, zlen_k7_body, sync_write_len. lia. Qed.

(* ---------- data blocks ---------- *)
Definition chunks_size (cs : list (list Z)) : Z := fold_right (fun c b => 21 + zlen c + b) 0 cs.
Lemma chunks_size_nonneg cs : 0 <= chunks_size cs.
Proof.
  induction cs as [|c cs IH]; cbn [chunks_size fold_right]; [lia|].
  fold (chunks_size cs). pose proof (zlen_nonneg c). lia.
Qed.
Lemma chunks_size_cons c cs : chunks_size (c :: cs) = 21 + zlen c + chunks_size cs.
Proof. reflexivity. Qed.

Lemma zslice_from (pre rem : list Z) k : 0 <= k ->
  zslice (zlen pre) (zlen pre + k) (pre ++ rem) = firstn (Z.to_nat k) rem.
Proof.
  intros Hk. unfold zslice, slice. rewrite to_nat_zlen, skipn_exact by reflexivity.
  replace (Z.to_nat (zlen pre + k) - length pre)%nat with (Z.to_nat k) by (unfold zlen; lia).
  reflexivity.
Qed.

Lemma next_chunk (pre rem : list Z) :
  let c := firstn 254 rem in
  inj_next_pos (zlen pre) (zlen (pre ++ rem) - zlen pre) = zlen (pre ++ c) /\
  zslice (zlen pre) (inj_next_pos (zlen pre) (zlen (pre ++ rem) - zlen pre)) (pre ++ rem) = c.
Proof.
  intros c. replace (zlen (pre ++ rem) - zlen pre) with (zlen rem) by (rewrite zlen_app; lia).
  rewrite inj_next_pos_is. pose proof (zlen_nonneg rem) as Hr.
  destruct (zlen rem <? 254) eqn:E.
  - assert (Hc : c = rem) by (apply firstn_all2; unfold zlen in *; lia).
    rewrite Hc, zlen_app. split; [reflexivity|].
    rewrite zslice_from by lia. rewrite to_nat_zlen. apply firstn_all.
  - assert (Hc : zlen c = 254) by (unfold c, zlen in *; rewrite firstn_length; lia).
    rewrite zlen_app, Hc. split; [reflexivity|].
    rewrite zslice_from by lia. reflexivity.
Qed.

Lemma write_data_tpM M fuel : forall rem pre W s,
  (length rem < fuel)%nat -> ls_counts s <> None -> zlen W < M ->
  (zlen W + chunks_size (chunks_of fuel 254 rem) < M ->
     exists s', write_data fuel (tpM M W) s (pre ++ rem) (zlen pre) =
                Ok (tpM M (W ++ concat (map (k7_block 1) (chunks_of fuel 254 rem))), s') /\
                ls_cur s' = ls_cur s /\ ls_counts s' <> None) /\
  (M <= zlen W + chunks_size (chunks_of fuel 254 rem) ->
     write_data fuel (tpM M W) s (pre ++ rem) (zlen pre) = Err EOverflow).
Proof.
  induction fuel as [|fuel IH]; intros rem pre W s Hf Hs HW; [lia|].
  cbn [write_data chunks_of]. destruct rem as [|x r].
  - rewrite app_nil_r, Z.ltb_irrefl. cbn [map concat chunks_size fold_right]. rewrite app_nil_r.
    split; [|lia]. intros _. exists s. auto.
  - set (rem := x :: r) in *.
    assert (Hlt : zlen pre <? zlen (pre ++ rem) = true).
    { rewrite zlen_app. unfold rem. rewrite zlen_cons. pose proof (zlen_nonneg r). lia. }
    rewrite Hlt. destruct (next_chunk pre rem) as [Hn Hc]. rewrite Hc, Hn.
    set (c := firstn 254 rem) in *.
    change block_type_DATA with 1. rewrite build_block_some, write_block_tpM, zlen_k7_body.
    rewrite chunks_size_cons. pose proof (chunks_size_nonneg (chunks_of fuel 254 (skipn 254 rem))) as Hnn.
    pose proof (zlen_nonneg c) as Hcn.
    destruct (zlen W + 18 + (zlen c + 3) <? M) eqn:E; cbn [bind]; [|split; [lia|reflexivity]].
    unfold on_data at 1 2. destruct (ls_counts s) as [[[bc fs] fb]|] eqn:Ecnt; [|now elim Hs].
    cbn [bind].
    set (s1 := mkLst (ls_idx s + 1) (ls_cur s) (Some (bc + 1, fs + zlen (block_body (k7_body 1 c)), fb))).
    assert (Hdata : pre ++ rem = (pre ++ c) ++ skipn 254 rem).
    { rewrite <- app_assoc. unfold c. now rewrite firstn_skipn. }
    rewrite Hdata.
    assert (Hf' : (length (skipn 254 rem) < fuel)%nat).
    { rewrite skipn_length. unfold rem in *. cbn [length] in *. lia. }
    assert (HW' : zlen (W ++ sync_write ++ k7_body 1 c) = zlen W + 21 + zlen c).
    { rewrite !zlen_app, zlen_k7_body, sync_write_len. lia. }
    destruct (IH (skipn 254 rem) (pre ++ c) (W ++ sync_write ++ k7_body 1 c) s1 Hf') as [IH1 IH2];
      [discriminate|lia|].
    cbn [map concat]. rewrite k7_block_split.
    replace (W ++ (sync_write ++ k7_body 1 c) ++ concat (map (k7_block 1) (chunks_of fuel 254 (skipn 254 rem))))
      with ((W ++ sync_write ++ k7_body 1 c) ++ concat (map (k7_block 1) (chunks_of fuel 254 (skipn 254 rem))))
      by (now rewrite <- !app_assoc).
    split.
    + intros Hfit. destruct IH1 as (s' & Hw & Hcur & Hcnt); [lia|]. exists s'. auto.
    + intros Hover. apply IH2. lia.
Qed.

(* ---------- the leader block ---------- *)
Lemma leader_payload_is l : leader_payload l =
  firstn 8 (upper_ascii (l_name l) ++ repeat 32 8) ++ firstn 3 (upper_ascii (l_ext l) ++ repeat 32 3) ++
  [Z.land (l_type l) 255; Z.land (Z.shiftr (l_mode l) 8) 255; Z.land (l_mode l) 255].
Proof.
  unfold leader_payload.
  destruct (ttb_values_are (l_type l) (l_mode l)) as (-> & -> & ->).
  generalize (Z.land (l_type l) 255), (Z.land (Z.shiftr (l_mode l) 8) 255), (Z.land (l_mode l) 255).
  intros a b c.
  change (zslice ttb_name_cut_lo ttb_name_cut_hi (upper_ascii (l_name l) ++ ttb_name_pad))
    with (firstn 8 (upper_ascii (l_name l) ++ repeat 32 8)).
  change (zslice ttb_ext_cut_lo ttb_ext_cut_hi (upper_ascii (l_ext l) ++ ttb_ext_pad))
    with (firstn 3 (upper_ascii (l_ext l) ++ repeat 32 3)).
  assert (HN : length (firstn 8 (upper_ascii (l_name l) ++ repeat 32 8)) = 8%nat)
    by (rewrite firstn_length, app_length, repeat_length; lia).
  assert (HE : length (firstn 3 (upper_ascii (l_ext l) ++ repeat 32 3)) = 3%nat)
    by (rewrite firstn_length, app_length, repeat_length; lia).
  revert HN HE.
  generalize (firstn 8 (upper_ascii (l_name l) ++ repeat 32 8)), (firstn 3 (upper_ascii (l_ext l) ++ repeat 32 3)).
  intros N E HN HE.
  destruct N as [|n1 [|n2 [|n3 [|n4 [|n5 [|n6 [|n7 [|n8 [|n9 N]]]]]]]]]; cbn [length] in HN; try lia.
  destruct E as [|e1 [|e2 [|e3 [|e4 E]]]]; cbn [length] in HE; try lia.
  reflexivity.
Qed.

Lemma zlen_pad_field n s : zlen (pad_field n s) = Z.of_nat n.
Proof. unfold pad_field, zlen. rewrite firstn_length, app_length, repeat_length. lia. Qed.

Lemma pad_name_cut u :
  firstn 8 (upper_ascii (if inj_name_limit <? zlen (upper_ascii u) then firstn (Z.to_nat inj_name_limit) (upper_ascii u)
                         else upper_ascii u) ++ repeat 32 8) = pad_field 8 (upper_ascii u).
Proof.
  unfold pad_field. rewrite inj_name_limit_is. change (Z.to_nat 8) with 8%nat.
  destruct (8 <? zlen (upper_ascii u)) eqn:E.
  - unfold upper_ascii at 1. rewrite <- firstn_map. fold (upper_ascii (upper_ascii u)). rewrite upper_ascii_idem.
    assert (Hl : (8 <= length (upper_ascii u))%nat) by (unfold zlen in E; lia).
    rewrite !firstn_app, firstn_firstn, firstn_length.
    replace (8 - Nat.min 8 (length (upper_ascii u)))%nat with 0%nat by lia.
    replace (8 - length (upper_ascii u))%nat with 0%nat by lia.
    reflexivity.
  - now rewrite upper_ascii_idem.
Qed.

Lemma last2_of_ext (src : list Z) n : upper_ascii (skipn n src) = [66;65;83;44;65] ->
  upper_ascii (last_n 2 src) = [44;65].
Proof.
  intros H. assert (Hl : length (skipn n src) = 5%nat).
  { apply (f_equal (@length Z)) in H. unfold upper_ascii in H. now rewrite map_length in H. }
  rewrite skipn_length in Hl. unfold last_n.
  replace (length src - 2)%nat with (n + 3)%nat by lia.
  rewrite <- skipn_skipn'. unfold upper_ascii in *. rewrite <- skipn_map, H. reflexivity.
Qed.

Lemma basename_is_skipn p : exists k, basename p = skipn k p.
Proof. unfold basename. eexists; reflexivity. Qed.

Lemma source_fields_spec src content :
  leader_payload (fst (source_fields src)) = k7_leader_payload (doc_entry src content) /\
  snd (source_fields src) = doc_path src /\
  k_chunks (doc_entry src content) = chunks_of (S (length content)) 254 content.
Proof.
  unfold source_fields, doc_entry, doc_path, doc_split.
  destruct (basename_is_skipn src) as (k & Hk).
  destruct (rfind_char 46 (basename src)) as [dot|].
  - rewrite inj_dispatch_is. unfold doc_kind_mode.
    set (u := upper_ascii (firstn dot (basename src))).
    set (e := upper_ascii (skipn (S dot) (basename src))).
    cbn [snd]. assert (He : upper_ascii e = e) by apply upper_ascii_idem. rewrite He.
    destruct (zeqb_list e [66;65;83;44;65]) eqn:E1.
    + cbn [fst snd k_chunks]. rewrite leader_payload_is. cbn [l_name l_ext l_type l_mode].
      unfold k7_leader_payload. cbn [k_name k_ext k_kind k_mode].
      unfold u. rewrite pad_name_cut. split; [reflexivity|]. split; [|reflexivity].
      apply zeqb_list_eq in E1. unfold e in E1. rewrite Hk, skipn_skipn' in E1.
      rewrite (last2_of_ext _ _ E1). reflexivity.
    + rewrite andb_false_r. destruct (zeqb_list e [66;65;83]) eqn:E2; [|destruct (zeqb_list e [67;83;86]) eqn:E3];
      cbn [fst snd k_chunks]; rewrite leader_payload_is; cbn [l_name l_ext l_type l_mode];
      unfold k7_leader_payload; cbn [k_name k_ext k_kind k_mode];
      unfold u; rewrite pad_name_cut, He; (split; [reflexivity|]); split; reflexivity.
  - cbn [fst snd]. unfold doc_kind_mode. cbn [zeqb_list k_chunks].
    rewrite leader_payload_is. cbn [l_name l_ext l_type l_mode].
    unfold k7_leader_payload. cbn [k_name k_ext k_kind k_mode]. rewrite upper_ascii_idem.
    rewrite andb_false_r. split; [reflexivity|]. split; reflexivity.
Qed.

(* ---------- one file, then all files ---------- *)
Definition file_size (f : k7_file) : Z := 35 + chunks_size (k_chunks f) + 21.
Lemma k7_encoded_size_cons f r : k7_encoded_size (f :: r) = file_size f + k7_encoded_size r.
Proof. reflexivity. Qed.
Lemma k7_encoded_size_nonneg fs : 0 <= k7_encoded_size fs.
Proof.
  induction fs as [|f r IH]; [cbn; lia|]. rewrite k7_encoded_size_cons. unfold file_size.
  pose proof (chunks_size_nonneg (k_chunks f)). lia.
Qed.
Lemma zlen_data_blocks cs : zlen (concat (map (k7_block 1) cs)) = chunks_size cs.
Proof.
  induction cs as [|c cs IH]; [reflexivity|]. cbn [map concat]. rewrite zlen_app, zlen_k7_block, IH, chunks_size_cons. lia.
Qed.
Lemma zlen_file_image f : zlen (k7_leader_payload f) = 14 -> zlen (k7_file_image f) = file_size f.
Proof.
  intros H. unfold k7_file_image, file_size. rewrite !zlen_app, zlen_k7_block, zlen_data_blocks, H.
  change (zlen k7_end_block) with 21. lia.
Qed.
Lemma zlen_doc_payload src content : zlen (k7_leader_payload (doc_entry src content)) = 14.
Proof.
  unfold doc_entry. destruct (doc_split src) as [name ext0]. destruct (doc_kind_mode ext0) as [[ext kind] mode].
  unfold k7_leader_payload. cbn [k_name k_ext k_kind k_mode]. rewrite !zlen_app, !zlen_pad_field. reflexivity.
Qed.

Lemma file_image_split W f :
  W ++ k7_file_image f =
  ((W ++ sync_write ++ k7_body 0 (k7_leader_payload f)) ++ concat (map (k7_block 1) (k_chunks f))) ++
  sync_write ++ k7_body 255 [].
Proof. unfold k7_file_image. rewrite k7_end_block_is, !k7_block_split, <- !app_assoc. reflexivity. Qed.

Lemma inject_one_tpM M v fs W s src content :
  fs_read fs (doc_path src) = Some content ->
  (zlen W + file_size (doc_entry src content) < M ->
     exists s' line, inject_one v fs (tpM M W) s src = Ok (tpM M (W ++ k7_file_image (doc_entry src content)), s', line)) /\
  (M <= zlen W + file_size (doc_entry src content) -> inject_one v fs (tpM M W) s src = Err EOverflow).
Proof.
  intros Hread. set (f := doc_entry src content).
  destruct (source_fields_spec src content) as (Hp & Hpath & Hch). fold f in Hp, Hch.
  pose proof (zlen_doc_payload src content) as Hlp. fold f in Hlp.
  pose proof (chunks_size_nonneg (k_chunks f)) as Hnn.
  unfold inject_one. destruct (source_fields src) as [d path]. cbn [fst snd] in Hp, Hpath. subst path.
  unfold leader_block. change ttb_block_type with 0. rewrite build_block_some, Hp.
  rewrite write_block_tpM, zlen_k7_body, Hlp. unfold file_size.
  destruct (zlen W + 18 + (14 + 3) <? M) eqn:E1; cbn [bind]; [|split; [lia|reflexivity]].
  rewrite Hread.
  set (W1 := W ++ sync_write ++ k7_body 0 (k7_leader_payload f)).
  assert (HW1 : zlen W1 = zlen W + 35).
  { unfold W1. rewrite !zlen_app, zlen_k7_body, sync_write_len, Hlp. lia. }
  destruct (write_data_tpM M (S (length content)) content [] W1 (on_begin s d)) as [Hd1 Hd2];
    [lia|discriminate|lia|].
  cbn [app] in Hd1, Hd2. change (zlen (@nil Z)) with 0 in Hd1, Hd2. rewrite <- Hch in Hd1, Hd2.
  destruct (Z_lt_le_dec (zlen W1 + chunks_size (k_chunks f)) M) as [Hfit|Hover].
  - destruct (Hd1 Hfit) as (s2 & Hw & Hcur & Hcnt). rewrite Hw. cbn [bind].
    set (W2 := W1 ++ concat (map (k7_block 1) (k_chunks f))).
    assert (HW2 : zlen W2 = zlen W1 + chunks_size (k_chunks f)).
    { unfold W2. now rewrite zlen_app, zlen_data_blocks. }
    rewrite build_block_eof, write_block_tpM, zlen_k7_body. change (zlen (@nil Z)) with 0.
    destruct (zlen W2 + 18 + (0 + 3) <? M) eqn:E3; cbn [bind]; [|split; [lia|reflexivity]].
    split; [|lia]. intros _.
    unfold on_end. rewrite Hcur. cbn [on_begin ls_cur].
    destruct (ls_counts s2) as [[[bc fsz] fb]|]; [|now elim Hcnt]. cbn [bind].
    rewrite file_image_split. fold W1. fold W2. eexists; eexists; reflexivity.
  - rewrite (Hd2 Hover). cbn [bind]. split; [lia|reflexivity].
Qed.

Lemma src_readable_read fs src : src_readable fs src = true ->
  exists c, fs_read fs (doc_path src) = Some c /\ bytesb c = true /\ src_entry fs src = doc_entry src c /\
            src_content fs src = c /\ forallb name_char (basename src) = true.
Proof.
  unfold src_readable, src_entry, src_content. intros H. apply andb_prop in H. destruct H as [H1 H2].
  destruct (fs_read fs (doc_path src)) as [c|]; [|discriminate]. exists c. auto.
Qed.

Lemma inject_loop_tpM M v fs : forall srcs W s acc,
  forallb (src_readable fs) srcs = true -> zlen W < M ->
  (zlen W + k7_encoded_size (map (src_entry fs) srcs) < M ->
     exists ls, inject_loop v fs (tpM M W) s srcs acc =
                (ls, Ok (tpM M (W ++ concat (map k7_file_image (map (src_entry fs) srcs)))))) /\
  (M <= zlen W + k7_encoded_size (map (src_entry fs) srcs) ->
     exists ls, inject_loop v fs (tpM M W) s srcs acc = (ls, Err EOverflow)).
Proof.
  induction srcs as [|src rest IH]; intros W s acc Hr HW; cbn [inject_loop map].
  - cbn [concat k7_encoded_size fold_right]. rewrite app_nil_r. split; [|lia]. intros _. eexists; reflexivity.
  - cbn [forallb] in Hr. apply andb_prop in Hr. destruct Hr as [Hr1 Hr2].
    destruct (src_readable_read _ _ Hr1) as (c & Hread & _ & He & _ & _).
    rewrite He, k7_encoded_size_cons.
    pose proof (k7_encoded_size_nonneg (map (src_entry fs) rest)) as Hnn.
    destruct (inject_one_tpM M v fs W s src c Hread) as [H1 H2].
    destruct (Z_lt_le_dec (zlen W + file_size (doc_entry src c)) M) as [Hfit|Hover].
    + destruct (H1 Hfit) as (s' & line & Hi). rewrite Hi.
      assert (HW' : zlen (W ++ k7_file_image (doc_entry src c)) = zlen W + file_size (doc_entry src c)).
      { rewrite zlen_app, zlen_file_image by apply zlen_doc_payload. reflexivity. }
      destruct (IH (W ++ k7_file_image (doc_entry src c)) s' (line :: acc) Hr2) as [IH1 IH2]; [lia|].
      cbn [concat]. rewrite app_assoc. split.
      * intros Hf. apply IH1. lia.
      * intros Ho. apply IH2. lia.
    + rewrite (H2 Hover). split; [lia|]. intros _. eexists; reflexivity.
Qed.

Lemma blank_tape_tpM : blank_tape = tpM 21504 [].
Proof.
  unfold blank_tape, tape_of_bytes, tpM. rewrite zlen_repeat, tape_default_size_is.
  cbn [app]. change (zlen (@nil Z)) with 0. rewrite Z.sub_0_r. rewrite Z2Nat.id by lia. reflexivity.
Qed.

Lemma zlen_images fs srcs : forallb (src_readable fs) srcs = true ->
  zlen (concat (map k7_file_image (map (src_entry fs) srcs))) = k7_encoded_size (map (src_entry fs) srcs).
Proof.
  induction srcs as [|src rest IH]; [reflexivity|]. cbn [forallb map concat]. intros Hr.
  apply andb_prop in Hr. destruct Hr as [Hr1 Hr2].
  destruct (src_readable_read _ _ Hr1) as (c & _ & _ & He & _ & _).
  rewrite zlen_app, k7_encoded_size_cons, IH by exact Hr2. rewrite He.
  rewrite zlen_file_image by apply zlen_doc_payload. reflexivity.
Qed.

Lemma tar_create_fits v fs arch srcs : forallb (src_readable fs) srcs = true ->
  k7_encoded_size (map (src_entry fs) srcs) < 21504 ->
  exists ls, tar_create v fs arch srcs =
    mkOutcome 0 ls [WriteFile arch (concat (map k7_file_image (map (src_entry fs) srcs)) ++
                                    repeat 0 (Z.to_nat (21504 - k7_encoded_size (map (src_entry fs) srcs))))] None.
Proof.
  intros Hr Hs. unfold tar_create. rewrite blank_tape_tpM.
  destruct (inject_loop_tpM 21504 v fs srcs [] lst0 [] Hr) as [H1 _]; [reflexivity|].
  destruct H1 as (ls & H1); [change (zlen (@nil Z)) with 0; lia|].
  rewrite H1. exists ls. cbn [app]. unfold tpM. cbn [t_raw]. now rewrite zlen_images.
Qed.

Lemma tar_create_overflows v fs arch srcs : forallb (src_readable fs) srcs = true ->
  21504 <= k7_encoded_size (map (src_entry fs) srcs) ->
  exists ls, tar_create v fs arch srcs = mkOutcome 1 (ls ++ [inj_overflow_message]) [] None.
Proof.
  intros Hr Hs. unfold tar_create. rewrite blank_tape_tpM.
  destruct (inject_loop_tpM 21504 v fs srcs [] lst0 [] Hr) as [_ H2]; [reflexivity|].
  destruct H2 as (ls & H2); [change (zlen (@nil Z)) with 0; lia|].
  rewrite H2. exists ls. reflexivity.
Qed.
