(* Proofs/ExtraLemmasText.v — helper lemmas for the text half of Proofs/ExtraProofs.v:
   one-step equations of the two line splitters, fuel independence, shape of the lines. *)
From Coq Require Import ZArith List Bool Lia ZifyBool.
Require Import PyBase GenText TextFacts Text TextSpec PyFacts TextProofs.
Import ListNotations.
Open Scope Z_scope.
Ltac Zify.zify_post_hook ::= Z.to_euclidean_division_equations.

(* ---------- generic list facts ---------- *)
Lemma existsb_rev {A} (f : A -> bool) l : existsb f (rev l) = existsb f l.
Proof.
  induction l as [|x l IH]; [reflexivity|]. cbn [rev existsb].
  rewrite existsb_app, IH. cbn [existsb]. rewrite orb_false_r. apply orb_comm.
Qed.

Lemma existsb_removelast {A} (f : A -> bool) l : existsb f l = false -> existsb f (removelast l) = false.
Proof.
  induction l as [|x l IH]; [reflexivity|]. cbn [existsb removelast]. intros H.
  apply orb_false_elim in H. destruct H as [Hx Hl].
  destruct l as [|y l]; [reflexivity|]. cbn [existsb]. rewrite Hx. cbn [orb]. apply IH. exact Hl.
Qed.

Lemma is_line_no_nl l : existsb (Z.eqb 10) l = false -> is_line l = true.
Proof. intros H. unfold is_line. now rewrite existsb_removelast. Qed.

Lemma is_line_snoc l : existsb (Z.eqb 10) l = false -> is_line (l ++ [10]) = true.
Proof. intros H. unfold is_line. now rewrite removelast_snoc, H. Qed.

(* ---------- one step of the splitters ---------- *)
Lemma lf_step c l cur : readlines_lf_aux (c :: l) cur =
  if c =? 10 then rev (10 :: cur) :: readlines_lf_aux l [] else readlines_lf_aux l (c :: cur).
Proof.
  destruct (c =? 10) eqn:E.
  - assert (Hc : c = 10) by lia. subst c. reflexivity.
  - destruct c as [|p|p]; try reflexivity.
    do 4 (destruct p as [p|p|]; try reflexivity). lia.
Qed.

Definition skip_lf (l : list Z) : list Z :=
  match l with c :: l' => if c =? 10 then l' else l | [] => l end.

Lemma univ_step c l cur f : readlines_univ_aux (c :: l) cur (S f) =
  if c =? 13 then rev (10 :: cur) :: readlines_univ_aux (skip_lf l) [] f
  else if c =? 10 then rev (10 :: cur) :: readlines_univ_aux l [] f
  else readlines_univ_aux l (c :: cur) f.
Proof.
  destruct (c =? 13) eqn:E13.
  - assert (Hc : c = 13) by lia. subst c. destruct l as [|d l']; [reflexivity|].
    cbn [skip_lf]. destruct (d =? 10) eqn:E10.
    + assert (Hd : d = 10) by lia. subst d. reflexivity.
    + destruct d as [|p|p]; try reflexivity.
      do 4 (destruct p as [p|p|]; try reflexivity). lia.
  - destruct (c =? 10) eqn:E10.
    + assert (Hc : c = 10) by lia. subst c. reflexivity.
    + destruct c as [|p|p]; try reflexivity.
      do 4 (destruct p as [p|p|]; try reflexivity); lia.
Qed.

Lemma univ_nil cur f : readlines_univ_aux [] cur (S f) = match cur with [] => [] | _ => [rev cur] end.
Proof. reflexivity. Qed.

Lemma skip_lf_length l : (length (skip_lf l) <= length l)%nat.
Proof. destruct l as [|c l]; cbn [skip_lf]; [lia|]. destruct (c =? 10); cbn [length]; lia. Qed.

(* ---------- the result does not depend on spare fuel ---------- *)
Lemma univ_fuel f1 : forall l cur f2, (length l < f1)%nat -> (length l < f2)%nat ->
  readlines_univ_aux l cur f1 = readlines_univ_aux l cur f2.
Proof.
  induction f1 as [|f1 IH]; intros l cur f2 H1 H2; [lia|].
  destruct f2 as [|f2]; [lia|]. destruct l as [|c l]; [reflexivity|].
  rewrite !univ_step. cbn [length] in H1, H2. pose proof (skip_lf_length l) as Hs.
  destruct (c =? 13); [|destruct (c =? 10)].
  - f_equal. apply IH; lia.
  - f_equal. apply IH; lia.
  - apply IH; lia.
Qed.

(* ---------- shape of the lines ---------- *)
Definition no_nl (l : list Z) : bool := negb (existsb (fun c => (c =? 10) || (c =? 13)) l).
Definition good_line (r : list Z) : Prop := is_line r = true /\ existsb (Z.eqb 13) r = false.

Lemma lf_lines l : forall cur, existsb (Z.eqb 10) cur = false ->
  Forall (fun r => is_line r = true) (readlines_lf_aux l cur).
Proof.
  induction l as [|c l IH]; intros cur Hcur.
  - cbn [readlines_lf_aux]. destruct cur as [|x cur]; constructor; [|constructor].
    apply is_line_no_nl. now rewrite existsb_rev.
  - rewrite lf_step. destruct (c =? 10) eqn:E.
    + constructor; [|apply IH; reflexivity].
      cbn [rev]. apply is_line_snoc. now rewrite existsb_rev.
    + apply IH. cbn [existsb]. rewrite Hcur. lia.
Qed.

Lemma univ_lines f : forall l cur, existsb (Z.eqb 10) cur = false -> existsb (Z.eqb 13) cur = false ->
  Forall good_line (readlines_univ_aux l cur f).
Proof.
  induction f as [|f IH]; intros l cur H10 H13; [destruct l; constructor|].
  destruct l as [|c l].
  - rewrite univ_nil. destruct cur as [|x cur]; constructor; [|constructor].
    split; [apply is_line_no_nl|]; now rewrite existsb_rev.
  - rewrite univ_step.
    assert (Hline : good_line (rev (10 :: cur))).
    { cbn [rev]. split; [apply is_line_snoc; now rewrite existsb_rev|].
      rewrite existsb_app, existsb_rev, H13. reflexivity. }
    destruct (c =? 13) eqn:E13; [|destruct (c =? 10) eqn:E10].
    + constructor; [exact Hline|]. apply IH; reflexivity.
    + constructor; [exact Hline|]. apply IH; reflexivity.
    + apply IH; cbn [existsb]; [rewrite H10|rewrite H13]; lia.
Qed.

(* ---------- reading back printed lines ---------- *)
Lemma univ_scan a : forall cur rest f,
  existsb (fun c => (c =? 10) || (c =? 13)) a = false ->
  readlines_univ_aux (a ++ 10 :: rest) cur (length a + S f) =
  (rev cur ++ a ++ [10]) :: readlines_univ_aux rest [] f.
Proof.
  induction a as [|c a IH]; intros cur rest f Ha.
  - cbn [app length Nat.add]. rewrite univ_step. reflexivity.
  - cbn [existsb] in Ha. apply orb_false_elim in Ha. destruct Ha as [Hc Ha].
    cbn [app length Nat.add]. rewrite univ_step.
    destruct (c =? 13) eqn:E13; [lia|]. destruct (c =? 10) eqn:E10; [lia|].
    rewrite IH by exact Ha. cbn [rev]. rewrite <- !app_assoc. reflexivity.
Qed.

Lemma univ_printed (ls : list (list Z)) : forall f,
  (length (flat_map (fun l => l ++ [10]%Z) ls) < f)%nat ->
  Forall (fun l => existsb (fun c => (c =? 10) || (c =? 13)) l = false) ls ->
  readlines_univ_aux (flat_map (fun l => l ++ [10]) ls) [] f = map (fun l => l ++ [10]) ls.
Proof.
  induction ls as [|l ls IH]; intros f Hf Hls.
  - destruct f as [|f]; [cbn in Hf; lia|]. reflexivity.
  - inversion Hls as [|x y Hl Hls']; subst x y.
    cbn [flat_map map] in *. rewrite <- app_assoc in *. cbn [app] in *.
    rewrite app_length in Hf. cbn [length] in Hf.
    replace f with (length l + S (f - length l - 1))%nat by lia.
    rewrite univ_scan by exact Hl. cbn [rev app]. f_equal.
    apply IH; [lia|exact Hls'].
Qed.

(* ---------- concatenation of files ---------- *)
Lemma univ_concat (a : list Z) : forall cur (b : list Z) f f1 f2, existsb (Z.eqb 13) a = false ->
  (length ((a ++ [10]%Z) ++ b) < f)%nat -> (length (a ++ [10]%Z) < f1)%nat -> (length b < f2)%nat ->
  readlines_univ_aux ((a ++ [10]) ++ b) cur f =
  readlines_univ_aux (a ++ [10]) cur f1 ++ readlines_univ_aux b [] f2.
Proof.
  induction a as [|c a IH]; intros cur b f f1 f2 Ha Hf Hf1 Hf2.
  - cbn [app length] in *. destruct f as [|f]; [lia|]. destruct f1 as [|[|f1]]; try lia.
    rewrite !univ_step. cbn [Z.eqb Pos.eqb]. rewrite univ_nil. cbn [app]. f_equal.
    apply univ_fuel; lia.
  - cbn [existsb] in Ha. apply orb_false_elim in Ha. destruct Ha as [Hc Ha].
    cbn [app length] in *. destruct f as [|f]; [lia|]. destruct f1 as [|f1]; [lia|].
    rewrite !univ_step. destruct (c =? 13) eqn:E13; [lia|].
    destruct (c =? 10) eqn:E10.
    + cbn [app]. f_equal. apply IH; try assumption; lia.
    + apply IH; try assumption; lia.
Qed.

(* ---------- lines written by nl hold neither LF nor CR ---------- *)
Definition clean (l : list Z) : Prop := existsb (fun c => (c =? 10) || (c =? 13)) l = false.

Lemma clean_app a b : clean a -> clean b -> clean (a ++ b).
Proof. unfold clean. intros Ha Hb. now rewrite existsb_app, Ha, Hb. Qed.

Lemma clean_of_forall (p : Z -> bool) l : (forall c, p c = true -> (c =? 10) || (c =? 13) = false) ->
  Forall (fun c => p c = true) l -> clean l.
Proof.
  intros Hp H. unfold clean. induction H as [|c l Hc _ IH]; [reflexivity|].
  cbn [existsb]. now rewrite (Hp c Hc), IH.
Qed.

Lemma clean_repeat32 k : clean (repeat 32 k).
Proof. unfold clean. induction k as [|k IH]; [reflexivity|]. cbn [repeat existsb]. now rewrite IH. Qed.

Lemma clean_dec_nonneg n : 0 <= n -> clean (dec_nonneg n).
Proof.
  intros Hn. apply (clean_of_forall is_digit); [intros c; unfold is_digit; lia|].
  unfold dec_nonneg. apply (dec_fuel_props _ _ (dec_fuel_of_ok n Hn)).
Qed.

Lemma clean_dec n : clean (dec n).
Proof.
  unfold dec. destruct (n <? 0) eqn:E.
  - change (45 :: dec_nonneg (- n)) with ([45] ++ dec_nonneg (- n)). apply clean_app; [reflexivity|].
    apply clean_dec_nonneg. lia.
  - apply clean_dec_nonneg. lia.
Qed.

Lemma clean_ljust w s : clean s -> clean (ljust w s).
Proof.
  intros Hs. destruct (ljust_shape w s) as (k & ->). apply clean_app; [exact Hs|apply clean_repeat32].
Qed.

Lemma nl_spec_clean start inc width lines : Forall clean lines ->
  forall prev, Forall clean (nl_spec start inc width prev lines).
Proof.
  induction 1 as [|l r Hl _ IH]; intros prev; cbn [nl_spec]; [constructor|].
  destruct (begins_numbered l).
  - constructor; [exact Hl|apply IH].
  - constructor; [|apply IH].
    apply clean_app; [apply clean_ljust, clean_dec|]. apply clean_app; [reflexivity|exact Hl].
Qed.

Lemma clean_split l : existsb (Z.eqb 10) l = false -> existsb (Z.eqb 13) l = false -> clean l.
Proof.
  unfold clean. induction l as [|c l IH]; [reflexivity|]. cbn [existsb]. intros H1 H2.
  apply orb_false_elim in H1. apply orb_false_elim in H2. destruct H1 as [Ha H1], H2 as [Hb H2].
  rewrite IH by assumption. lia.
Qed.

Lemma clean_no10 l : clean l -> existsb (Z.eqb 10) l = false.
Proof.
  unfold clean. induction l as [|c l IH]; [reflexivity|]. cbn [existsb]. intros H.
  apply orb_false_elim in H. destruct H as [Hc H]. rewrite IH by exact H. lia.
Qed.

Lemma good_line_chomp r : good_line r -> clean (chomp r).
Proof.
  intros [Hl H13]. apply clean_split; [now apply chomp_no_nl|].
  unfold chomp, rstrip_nl. destruct (rstrip_by_prefix (fun c => c =? 10) r) as (s & Hs & _).
  rewrite Hs, existsb_app in H13. apply orb_false_elim in H13. tauto.
Qed.

Lemma chomp_snoc l : clean l -> chomp (l ++ [10]) = l.
Proof.
  intros Hl. unfold chomp, rstrip_nl. rewrite rstrip_by_app_stripped by reflexivity.
  apply clean_no10 in Hl. induction l as [|c l IH]; [reflexivity|].
  cbn [existsb] in Hl. apply orb_false_elim in Hl. destruct Hl as [Hc Hl].
  cbn [rstrip_by]. rewrite IH by exact Hl. destruct l as [|d l]; [|reflexivity].
  destruct (c =? 10) eqn:E; [lia|reflexivity].
Qed.

Lemma map_chomp_snoc ls : Forall clean ls -> map chomp (map (fun l => l ++ [10]) ls) = ls.
Proof.
  induction 1 as [|l r Hl _ IH]; [reflexivity|]. cbn [map]. now rewrite chomp_snoc, IH.
Qed.

Lemma lines_snoc ls : Forall clean ls -> Forall (fun r => is_line r = true) (map (fun l => l ++ [10]) ls).
Proof.
  induction 1 as [|l r Hl _ IH]; cbn [map]; constructor; [|exact IH].
  apply is_line_snoc. now apply clean_no10.
Qed.
