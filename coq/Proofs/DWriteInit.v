(* Proofs/DWriteInit.v — initFileSystem yields a strict empty file system. *)
From Coq Require Import ZArith List Bool Lia ZifyBool.
Require Import PyBase GenDisk DiskFacts DiskFactsWrite Disk ThomsonDos DiskDefs DWriteList DWriteLens DWriteSpec.
Import ListNotations.
Open Scope Z_scope.
Ltac Zify.zify_post_hook ::= Z.to_euclidean_division_equations.

Definition bat0 : list Z :=
  map (fun i => if existsb (Z.eqb (Z.of_nat i)) reserved_blocks then status_RESERVED else status_FREE) (seq 0 160).

Lemma wi_bat0_length : length bat0 = 160%nat.
Proof. unfold bat0. now rewrite map_length, seq_length. Qed.
Lemma wi_bat0_bytes : bytesb bat0 = true.
Proof. vm_compute. reflexivity. Qed.
Lemma wi_bat0_valid : forallb st_valid bat0 = true.
Proof. vm_compute. reflexivity. Qed.
Lemma wi_bat0_40 : st_reserved (fstatus bat0 40) = true.
Proof. vm_compute. reflexivity. Qed.
Lemma wi_bat0_41 : st_reserved (fstatus bat0 41) = true.
Proof. vm_compute. reflexivity. Qed.
Lemma wi_bat0_used : used_blocks bat0 = [].
Proof. vm_compute. reflexivity. Qed.
Lemma wi_bat0_free : count_status st_free bat0 = 157.
Proof. vm_compute. reflexivity. Qed.

Lemma wi_fill_fold v : length v = 256%nat -> bytesb v = true -> forall l sd, geom sd ->
  (forall s, In s l -> (s < 1280)%nat) ->
  geom (fold_left (fun sd s => set_sec sd s (set_payload (get_sec sd s) v)) l sd) /\
  (forall i, ~ In i l -> nsec (fold_left (fun sd s => set_sec sd s (set_payload (get_sec sd s) v)) l sd) i = nsec sd i) /\
  (forall i, In i l -> nsec (fold_left (fun sd s => set_sec sd s (set_payload (get_sec sd s) v)) l sd) i = v).
Proof.
  intros Hv Hb. induction l as [|s l IH]; intros sd Hg Hl; cbn [fold_left].
  - split; [exact Hg|]. split; [intros i _; reflexivity|intros i []].
  - assert (Hs : (s < 1280)%nat) by (apply Hl; now left).
    destruct Hg as (Hlen & Hsec). destruct (Hsec s Hs) as (Hsl & _).
    rewrite wn_get_sec, wn_set_payload_full by assumption.
    assert (Hg1 : geom (set_sec sd s v)) by (apply wn_set_sec_geom; [now split|now split]).
    destruct (IH (set_sec sd s v) Hg1 ltac:(intros x Hx; apply Hl; now right)) as (G & Hout & Hin).
    split; [exact G|]. split.
    + intros i Hi. rewrite Hout by (intros Hx; apply Hi; now right).
      apply wn_nsec_set_other. intros ->. apply Hi. now left.
    + intros i Hi. destruct (in_dec Nat.eq_dec i l) as [Hil|Hil]; [now apply Hin|].
      destruct Hi as [->|Hi]; [|contradiction]. rewrite Hout by exact Hil. apply wn_nsec_set_same. lia.
Qed.

Lemma wi_in_cat_sectors s : In s cat_sectors <-> (322 <= s <= 335)%nat.
Proof.
  rewrite wn_cat_sectors, in_map_iff. split.
  - intros (k & <- & Hk). apply in_seq in Hk. lia.
  - intros H. exists (s - 322)%nat. split; [lia|]. apply in_seq. lia.
Qed.

Lemma wi_init_sectors sd : geom sd ->
  geom (init_fs sd) /\
  nsec (init_fs sd) 321 = table_sector (repeat 0 256) bat0 /\
  (forall i, (322 <= i <= 335)%nat -> nsec (init_fs sd) i = repeat 255 256).
Proof.
  intros Hg. unfold init_fs. fold bat0. rewrite wn_bat_index. change init_catalog_filler with 255.
  set (z := repeat 0 256). set (ff := repeat 255 256).
  assert (Hz : length z = 256%nat) by apply repeat_length.
  assert (Hzb : bytesb z = true) by (apply wl_forallb_repeat; reflexivity).
  assert (Hff : length ff = 256%nat) by apply repeat_length.
  assert (Hffb : bytesb ff = true) by (apply wl_forallb_repeat; reflexivity).
  pose proof Hg as (Hlen & Hsec). destruct (Hsec 321%nat ltac:(lia)) as (H321 & _).
  rewrite wn_get_sec, (wn_set_payload_full (nsec sd 321) z) by assumption.
  assert (Hg1 : geom (set_sec sd 321 z)) by (apply wn_set_sec_geom; [exact Hg|now split]).
  assert (E1 : nsec (set_sec sd 321 z) 321 = z) by (apply wn_nsec_set_same; lia).
  rewrite wn_bat_set by (rewrite ?E1; first [exact Hz|exact wi_bat0_length]). rewrite E1.
  assert (Hg2 : geom (set_sec (set_sec sd 321 z) 321 (table_sector z bat0))).
  { apply wn_set_sec_geom; [exact Hg1|]. apply wn_table_sector_ok; [now split|exact wi_bat0_length|exact wi_bat0_bytes]. }
  destruct (wi_fill_fold ff Hff Hffb cat_sectors _ Hg2) as (G & Hout & Hin).
  { intros s Hs. apply wi_in_cat_sectors in Hs. lia. }
  split; [exact G|]. split.
  - rewrite Hout by (rewrite wi_in_cat_sectors; lia). apply wn_nsec_set_same.
    rewrite wn_set_sec_length. lia.
  - intros i Hi. apply Hin. now apply wi_in_cat_sectors.
Qed.

Lemma wi_ff_entry off : (off + 32 <= 256)%nat -> firstn 32 (skipn off (repeat 255 256)) = repeat 255 32.
Proof.
  intros H. apply (nth_ext _ _ 255 255).
  - rewrite firstn_length, skipn_length, !repeat_length. lia.
  - intros k Hk. rewrite firstn_length, skipn_length, repeat_length in Hk.
    rewrite wl_nth_firstn by lia. rewrite wl_nth_skipn.
    rewrite !nth_repeat. reflexivity.
Qed.

Lemma wi_init_entries sd : geom sd -> forall e, In e (cat_entries (init_fs sd)) -> e = repeat 255 32.
Proof.
  intros Hg e He. destruct (wi_init_sectors sd Hg) as (_ & _ & Hc).
  rewrite wn_cat_entries_slots in He. apply in_map_iff in He. destruct He as (sl & <- & Hsl).
  destruct (wn_slot_ok sl Hsl) as (H1 & H2 & _). unfold entry_at. rewrite Hc by lia. now apply wi_ff_entry.
Qed.

Lemma wi_forallb_const {A} (p : A -> bool) (c : A) l : (forall x, In x l -> x = c) -> p c = true -> forallb p l = true.
Proof. intros H Hc. apply forallb_forall. intros x Hx. now rewrite (H x Hx). Qed.

Lemma wi_init_all sd : side_geometry sd = true ->
  fsck_strict (init_fs sd) = true /\ tool_readable (init_fs sd) = true /\ names_printable (init_fs sd) = true /\
  dos_files (init_fs sd) = Some [] /\ free_count (init_fs sd) = 157.
Proof.
  intros Hsg. apply wn_geom_iff in Hsg. destruct (wi_init_sectors sd Hsg) as (G & H321 & Hc).
  pose proof (wi_init_entries sd Hsg) as He.
  assert (Hfat : fat (init_fs sd) = bat0).
  { unfold fat. rewrite wn_fat_sector, H321. apply wn_table_sector_fat; [apply repeat_length|exact wi_bat0_length]. }
  assert (Hfiles : dos_files (init_fs sd) = Some []).
  { unfold dos_files. apply ws_foe_not_live. apply (wi_forallb_const _ (repeat 255 32)); [exact He|reflexivity]. }
  assert (Hread : fsck_read (init_fs sd) = true).
  { apply (ws_fsck_read_intro _ []).
    - now apply wn_geom_iff.
    - rewrite Hfat. exact wi_bat0_valid.
    - rewrite Hfat. exact wi_bat0_40.
    - rewrite Hfat. exact wi_bat0_41.
    - exact Hfiles.
    - reflexivity.
    - apply (wi_forallb_const _ (repeat 255 32)); [exact He|reflexivity]. }
  repeat split.
  - apply (ws_fsck_strict_intro _ []).
    + exact Hread.
    + rewrite wn_fat_sector, H321. rewrite wn_table_sector_nth by (try apply repeat_length; exact wi_bat0_length).
      reflexivity.
    + exact Hfiles.
    + rewrite Hfat, wi_bat0_used. reflexivity.
    + apply (wi_forallb_const _ (repeat 255 32)); [exact He|reflexivity].
  - unfold tool_readable. rewrite Hread. cbn [andb]. unfold slots_in_table.
    apply (wi_forallb_const _ (repeat 255 32)); [exact He|reflexivity].
  - unfold names_printable. apply (wi_forallb_const _ (repeat 255 32)); [exact He|reflexivity].
  - exact Hfiles.
  - unfold free_count. rewrite Hfat. exact wi_bat0_free.
Qed.
