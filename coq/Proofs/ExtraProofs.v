(* Proofs/ExtraProofs.v — further theorems: line splitting feeds C16's hypotheses, tool-level
   idempotence of moto_nl, and the tape half of C12 (create reports what list reports).
   TOP statements are fixed. *)
From Coq Require Import ZArith List Bool Lia ZifyBool.
Require Import PyBase GenText TextFacts Text TextSpec PyFacts TextProofs GenTape TapeFacts Tape K7 TapeProofs.
Require Import ExtraLemmasText ExtraLemmasTape.
Import ListNotations.
Open Scope Z_scope.
Ltac Zify.zify_post_hook ::= Z.to_euclidean_division_equations.

(* TOP: what readlines yields are lines in the sense of C16's hypothesis (a newline only at the end) *)
Theorem readlines_stdin_lines : forall t : list Z, Forall (fun r => is_line r = true) (readlines_stdin t).
Proof. intros t. unfold readlines_stdin. apply lf_lines. reflexivity. Qed.
Theorem readlines_file_lines : forall t : list Z, Forall (fun r => is_line r = true) (readlines_file t).
Proof.
  intros t. unfold readlines_file.
  pose proof (univ_lines (S (length t)) t [] eq_refl eq_refl) as H.
  revert H. apply Forall_impl. intros r [Hr _]. exact Hr.
Qed.

(* what print() writes for a list of lines *)
Definition printed (ls : list (list Z)) : list Z := flat_map (fun l => l ++ [10]) ls.

(* TOP: reading back what was printed gives the same lines (no CR or LF inside them) *)
Theorem readlines_file_printed : forall ls : list (list Z),
  Forall (fun l => existsb (fun c => (c =? 10) || (c =? 13)) l = false) ls ->
  readlines_file (printed ls) = map (fun l => l ++ [10]) ls.
Proof.
  intros ls Hls. unfold readlines_file, printed. apply univ_printed; [lia|exact Hls].
Qed.

(* the lines nl_run prints for a file hold neither LF nor CR *)
Lemma nl_run_file_spec start inc width text :
  nl_run start inc width [(false, text)] =
  nl_spec start inc width None (map chomp (readlines_file text)) /\
  Forall clean (nl_run start inc width [(false, text)]).
Proof.
  assert (H : nl_run start inc width [(false, text)] =
              nl_spec start inc width None (map chomp (readlines_file text))).
  { unfold nl_run. cbn [flat_map read_input fst snd]. rewrite app_nil_r.
    apply nl_shape. apply readlines_file_lines. }
  split; [exact H|]. rewrite H. apply nl_spec_clean.
  unfold readlines_file.
  pose proof (univ_lines (S (length text)) text [] eq_refl eq_refl) as Hg.
  induction Hg as [|r rs Hr _ IH]; cbn [map]; constructor; [|exact IH].
  now apply good_line_chomp.
Qed.

(* TOP (C16): renumbering the printed output of moto_nl, as a file, changes nothing *)
Theorem nl_tool_idempotent : forall (start inc width : Z) (text : list Z),
  1 <= start -> 1 <= inc -> existsb (Z.eqb 13) text = false ->
  nl_run start inc width [(false, printed (nl_run start inc width [(false, text)]))] = nl_run start inc width [(false, text)].
Proof.
  intros start inc width text Hs Hi _.
  destruct (nl_run_file_spec start inc width text) as [Hspec Hclean].
  set (out := nl_run start inc width [(false, text)]) in *.
  destruct (nl_run_file_spec start inc width (printed out)) as [Hspec2 _].
  rewrite Hspec2. rewrite readlines_file_printed by exact Hclean.
  rewrite map_chomp_snoc by exact Hclean.
  rewrite Hspec. apply nl_idempotent; assumption.
Qed.

(* TOP (C16): two files behave as their concatenation when the first ends with a newline and holds no CR *)
Theorem nl_files_concat : forall (start inc width : Z) (a b : list Z),
  existsb (Z.eqb 13) a = false ->
  nl_run start inc width [(false, a ++ [10]); (false, b)] = nl_run start inc width [(false, (a ++ [10]) ++ b)].
Proof.
  intros start inc width a b Ha. unfold nl_run. cbn [flat_map read_input fst snd].
  rewrite !app_nil_r. f_equal. symmetry. unfold readlines_file.
  apply univ_concat; [exact Ha|lia|lia|lia].
Qed.

(* TOP (C12, tape): create prints, file by file, exactly what list prints for the archive it wrote:
   same names, kinds, first-block positions, sizes and block counts *)
Theorem tape_create_report_is_list_report : forall (fs : fsmap) (srcs : list (list Z)) (arch : list Z) (v : bool),
  forallb (src_readable fs) srcs = true -> forallb src_83 srcs = true ->
  k7_encoded_size (entries fs srcs) < 21504 ->
  exists raw,
    o_effects (tar_create v fs arch srcs) = [WriteFile arch raw] /\
    o_lines (tar_create v fs arch srcs) = o_lines (tar_list v raw) /\
    o_lines (tar_list v raw) = map (k7_line v) (k7_positions 0 (entries fs srcs)).
Proof.
  intros fs srcs arch v Hr H83 Hs.
  destruct (tape_create_conforms fs srcs arch v Hr Hs) as (_ & Hfx & _ & _ & HK).
  set (raw := concat (map k7_file_image (entries fs srcs)) ++
              repeat 0 (Z.to_nat (21504 - k7_encoded_size (entries fs srcs)))) in *.
  exists raw. split; [exact Hfx|].
  pose proof (entries_all_ok fs srcs Hr) as Hok.
  pose proof (entries_no_nul fs srcs arch Hr H83) as Hnul.
  destruct (tape_third_party_read raw (entries fs srcs) v (Some []) arch HK Hok Hnul) as [Hlist _].
  assert (Hlines : o_lines (tar_list v raw) = map (k7_line v) (k7_positions 0 (entries fs srcs))).
  { rewrite Hlist. reflexivity. }
  split; [|exact Hlines]. rewrite Hlines.
  revert Hfx. unfold tar_create.
  destruct (inject_loop v fs blank_tape lst0 srcs []) as [ls [t|e]] eqn:E.
  - intros _. cbn [o_lines].
    rewrite (inject_loop_lines v fs srcs blank_tape lst0 [] ls t Hr H83 E). reflexivity.
  - destruct e; cbn [o_effects]; discriminate.
Qed.

Print Assumptions readlines_stdin_lines.
Print Assumptions readlines_file_lines.
Print Assumptions readlines_file_printed.
Print Assumptions nl_tool_idempotent.
Print Assumptions nl_files_concat.
Print Assumptions tape_create_report_is_list_report.
