(* Proofs/ExtraProofs.v — further theorems: line splitting feeds C16's hypotheses, tool-level
   idempotence of moto_nl, and the tape half of C12 (create reports what list reports).
   TOP statements are fixed. *)
From Coq Require Import ZArith List Bool Lia ZifyBool.
Require Import PyBase GenText TextFacts Text TextSpec PyFacts TextProofs GenTape TapeFacts Tape K7 TapeProofs.
Import ListNotations.
Open Scope Z_scope.

(* TOP: what readlines yields are lines in the sense of C16's hypothesis (a newline only at the end) *)
Theorem readlines_stdin_lines : forall t : list Z, Forall (fun r => is_line r = true) (readlines_stdin t).
Admitted.
Theorem readlines_file_lines : forall t : list Z, Forall (fun r => is_line r = true) (readlines_file t).
Admitted.

(* what print() writes for a list of lines *)
Definition printed (ls : list (list Z)) : list Z := flat_map (fun l => l ++ [10]) ls.

(* TOP: reading back what was printed gives the same lines (no CR or LF inside them) *)
Theorem readlines_file_printed : forall ls : list (list Z),
  Forall (fun l => existsb (fun c => (c =? 10) || (c =? 13)) l = false) ls ->
  readlines_file (printed ls) = map (fun l => l ++ [10]) ls.
Admitted.

(* TOP (C16): renumbering the printed output of moto_nl, as a file, changes nothing *)
Theorem nl_tool_idempotent : forall (start inc width : Z) (text : list Z),
  1 <= start -> 1 <= inc -> existsb (Z.eqb 13) text = false ->
  nl_run start inc width [(false, printed (nl_run start inc width [(false, text)]))] = nl_run start inc width [(false, text)].
Admitted.

(* TOP (C16): two files behave as their concatenation when the first ends with a newline and holds no CR *)
Theorem nl_files_concat : forall (start inc width : Z) (a b : list Z),
  existsb (Z.eqb 13) a = false ->
  nl_run start inc width [(false, a ++ [10]); (false, b)] = nl_run start inc width [(false, (a ++ [10]) ++ b)].
Admitted.

(* TOP (C12, tape): create prints, file by file, exactly what list prints for the archive it wrote:
   same names, kinds, first-block positions, sizes and block counts *)
Theorem tape_create_report_is_list_report : forall (fs : fsmap) (srcs : list (list Z)) (arch : list Z) (v : bool),
  forallb (src_readable fs) srcs = true -> forallb src_83 srcs = true ->
  k7_encoded_size (entries fs srcs) < 21504 ->
  exists raw,
    o_effects (tar_create v fs arch srcs) = [WriteFile arch raw] /\
    o_lines (tar_create v fs arch srcs) = o_lines (tar_list v raw) /\
    o_lines (tar_list v raw) = map (k7_line v) (k7_positions 0 (entries fs srcs)).
Admitted.
