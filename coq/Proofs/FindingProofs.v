(* Proofs/FindingProofs.v — statements of the properties that are FALSE of the faithful model, proved
   refuted with a witness; the witness replayed on the real tools is the recorded finding. *)
From Coq Require Import ZArith List String.
Require Import PyBase GenTape Tape.
Import ListNotations.
Open Scope Z_scope.

Definition pz (s : string) : list Z := map (fun a => Z.of_N (Ascii.N_of_ascii a)) (list_ascii_of_string s).

(* F18 (C20): 'extract leaves the archive byte-identical' fails for a tape holding a member whose
   NAME.EXT is the archive's own file name: the member is written beside the archive, that is OVER it *)
Definition f18_fs : fsmap := [(pz "x/IN.K7", pz "hello")].
Definition f18_arch : list Z := pz "IN.K7".
Definition f18_srcs : list (list Z) := [pz "x/IN.K7"].
Definition f18_raw : list Z :=
  match o_effects (tar_create false f18_fs f18_arch f18_srcs) with [WriteFile _ raw] => raw | _ => [] end.

Theorem tape_extract_can_overwrite_its_archive :
  exists (fs : fsmap) (arch : list Z) (srcs : list (list Z)) (raw c : list Z),
    o_status (tar_create false fs arch srcs) = 0 /\
    o_effects (tar_create false fs arch srcs) = [WriteFile arch raw] /\
    o_status (tar_extract false None arch raw) = 0 /\
    o_effects (tar_extract false None arch raw) = [WriteFile arch c] /\ c <> raw.
Proof.
  exists f18_fs, f18_arch, f18_srcs, f18_raw, (pz "hello").
  split; [vm_compute; reflexivity|]. split; [vm_compute; reflexivity|].
  split; [vm_compute; reflexivity|]. split; [vm_compute; reflexivity|].
  intros H. apply (f_equal (@length Z)) in H. vm_compute in H. discriminate.
Qed.
