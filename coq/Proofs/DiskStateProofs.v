(* Proofs/DiskStateProofs.v — disk round trip, from effects to the state of the destination. *)
From Coq Require Import ZArith List Bool Lia.
Require Import PyBase GenDisk Disk ThomsonDos DiskDefs DiskReadProofs DiskLoopProofs TapeStateProofs EffectState.
Import ListNotations.
Open Scope Z_scope.

(* TOP *)
Theorem create_extract_directory : forall (is_fd v v2 : bool) (fs fs0 : fsmap) (arch : list Z) (srcs : list (list Z)) (raw : list Z) (into : option (list Z)),
  sources_ok fs -> srcs_printable srcs ->
  existsb (Z.eqb 0) (target_of into arch) = false ->
  d_effects (disk_create is_fd v fs arch srcs) = [WriteFile arch raw] ->
  exists files : list (list dos_file),
    length files = 4%nat /\
    (forall i : nat, (i < 4)%nat ->
      let stored := filter item_stored (files_of_log (Z.of_nat i) (d_log (disk_create is_fd v fs arch srcs))) in
      map dos_view (nth i files []) = map item_dos stored) /\
    (NoDup (write_paths (d_effects (disk_extract is_fd v2 into arch raw))) ->
     forall (i : nat) (f : dos_file), (i < 4)%nat -> In f (nth i files []) ->
       fs_read (apply_effects fs0 (d_effects (disk_extract is_fd v2 into arch raw)))
               (path_join (side_dir (target_of into arch) i) (dos_label f)) = Some (d_content f)).
Proof.
  intros is_fd v v2 fs fs0 arch srcs raw into H1 H2 H3 H4.
  destruct (create_roundtrip is_fd v v2 fs arch srcs raw into H1 H2 H3 H4) as (files & Hlen & _ & Heff & _ & _ & Hview).
  exists files. split; [exact Hlen|]. split.
  - intros i Hi. exact (proj1 (Hview i Hi)).
  - rewrite Heff. intros Hnd i f Hi Hf.
    apply (disk_extract_directory (target_of into arch) files fs0 i (nth i files []) f Hnd); [|exact Hf].
    apply nth_error_nth'. lia.
Qed.

(* TOP (C07): the same for an image the tools did not write.  Whatever the destination held
   before (fs0 is arbitrary: longer, shorter or other files under the same names), after the
   extraction every live file of side i is read back with exactly its bytes at side<i>/LABEL -
   provided no two live files claim one path *)
Theorem third_party_extract_directory : forall (is_fd v : bool) (raw : list Z) (img : image) (into : option (list Z)) (arch : list Z) (fs0 : fsmap),
  load_image is_fd raw = Ok img ->
  forallb tool_readable img = true -> forallb names_printable img = true ->
  existsb (Z.eqb 0) (target_of into arch) = false ->
  exists files : list (list dos_file),
    map dos_files img = map Some files /\
    (NoDup (write_paths (d_effects (disk_extract is_fd v into arch raw))) ->
     forall (i : nat) (fl : list dos_file) (f : dos_file), nth_error files i = Some fl -> In f fl ->
       fs_read (apply_effects fs0 (d_effects (disk_extract is_fd v into arch raw)))
               (path_join (side_dir (target_of into arch) i) (dos_label f)) = Some (d_content f)).
Proof.
  intros is_fd v raw img into arch fs0 Hload Htr Hnp Htgt.
  destruct (disk_read_exact is_fd v raw img into arch Hload Htr Hnp Htgt) as (files & Hfiles & _ & _ & Heff & _).
  exists files. split; [exact Hfiles|]. rewrite Heff. intros Hnd i fl f Hi Hf.
  now apply disk_extract_directory with (fl := fl).
Qed.
