(* Proofs/PyFacts.v — lemmas about the Py micro-models (decimal rendering, strip, lines). *)
From Coq Require Import ZArith List Bool Lia ZifyBool.
Require Import PyBase.
Import ListNotations.
Open Scope Z_scope.
Ltac Zify.zify_post_hook ::= Z.to_euclidean_division_equations.

(* ---------- undec / take_digits ---------- *)
Lemma undec_app a b : undec (a ++ b) = fold_left (fun a c => a * 10 + (c - 48)) b (undec a).
Proof. unfold undec. now rewrite fold_left_app. Qed.

Lemma undec_snoc a c : undec (a ++ [c]) = undec a * 10 + (c - 48).
Proof. now rewrite undec_app. Qed.

Lemma undec_nonneg_aux ds : Forall (fun c => is_digit c = true) ds ->
  forall a, 0 <= a -> 0 <= fold_left (fun a c => a * 10 + (c - 48)) ds a.
Proof.
  induction 1 as [|c ds Hc _ IH]; intros a Ha; cbn [fold_left]; [lia|].
  apply IH. unfold is_digit in Hc. lia.
Qed.
Lemma undec_nonneg ds : Forall (fun c => is_digit c = true) ds -> 0 <= undec ds.
Proof. intros H. apply undec_nonneg_aux; [exact H|lia]. Qed.

Lemma take_digits_all ds : Forall (fun c => is_digit c = true) ds -> take_digits ds = ds.
Proof. induction 1 as [|c ds Hc _ IH]; cbn [take_digits]; [easy|]. now rewrite Hc, IH. Qed.

Lemma take_digits_digits l : Forall (fun c => is_digit c = true) (take_digits l).
Proof.
  induction l as [|c l IH]; cbn [take_digits]; [constructor|].
  destruct (is_digit c) eqn:E; constructor; assumption.
Qed.

Lemma take_digits_app ds c r : Forall (fun c => is_digit c = true) ds -> is_digit c = false ->
  take_digits (ds ++ c :: r) = ds.
Proof.
  induction 1 as [|d ds Hd _ IH]; intros Hc; cbn [take_digits app].
  - now rewrite Hc.
  - now rewrite Hd, IH.
Qed.

(* ---------- dec ---------- *)
Lemma dec_fuel_props f : forall n, 0 <= n < 2 ^ Z.of_nat f ->
  Forall (fun c => is_digit c = true) (dec_fuel f n) /\ undec (dec_fuel f n) = n /\
  (1 <= n -> exists c r, dec_fuel f n = c :: r /\ is_digit19 c = true) /\
  (f <> 0%nat -> dec_fuel f n <> []).
Proof.
  induction f as [|f IH]; intros n Hn.
  - cbn in Hn. assert (n = 0) by lia. subst. cbn. repeat split; try constructor; try lia; try easy.
  - cbn [dec_fuel]. destruct (n <? 10) eqn:E.
    + repeat split.
      * constructor; [unfold is_digit; lia|constructor].
      * unfold undec; cbn [fold_left]; lia.
      * intros H1. exists (48 + n), []. split; [reflexivity|unfold is_digit19; lia].
      * intros _; discriminate.
    + assert (Hq : 0 <= n / 10 < 2 ^ Z.of_nat f).
      { rewrite Nat2Z.inj_succ, Z.pow_succ_r in Hn by lia. lia. }
      destruct (IH _ Hq) as (Hd & Hu & Hf & Hne).
      repeat split.
      * apply Forall_app; split; [exact Hd|].
        constructor; [unfold is_digit; lia|constructor].
      * rewrite undec_snoc, Hu. lia.
      * intros _. destruct Hf as (c & r & Hc & Hc19); [lia|].
        exists c, (r ++ [48 + n mod 10]). rewrite Hc. split; [reflexivity|exact Hc19].
      * intros _ Habs. apply app_eq_nil in Habs. destruct Habs as [_ Habs]. discriminate.
Qed.

Lemma dec_fuel_of_ok n : 0 <= n -> 0 <= n < 2 ^ Z.of_nat (dec_fuel_of n).
Proof.
  intros Hn. unfold dec_fuel_of. rewrite Nat2Z.inj_succ, Z2Nat.id by apply Z.log2_nonneg.
  destruct (Z.eq_dec n 0) as [->|Hnz]; [cbn; lia|].
  pose proof (Z.log2_spec n ltac:(lia)). lia.
Qed.

Lemma dec_digits n : 0 <= n -> Forall (fun c => is_digit c = true) (dec n).
Proof.
  intros Hn. unfold dec. destruct (n <? 0) eqn:E; [lia|].
  apply (dec_fuel_props _ _ (dec_fuel_of_ok n Hn)).
Qed.
Lemma undec_dec n : 0 <= n -> undec (dec n) = n.
Proof.
  intros Hn. unfold dec. destruct (n <? 0) eqn:E; [lia|].
  apply (dec_fuel_props _ _ (dec_fuel_of_ok n Hn)).
Qed.
Lemma dec_first n : 1 <= n -> exists c r, dec n = c :: r /\ is_digit19 c = true.
Proof.
  intros Hn. unfold dec. destruct (n <? 0) eqn:E; [lia|].
  apply (dec_fuel_props _ _ (dec_fuel_of_ok n ltac:(lia))). exact Hn.
Qed.

(* ---------- ljust ---------- *)
Lemma ljust_shape w s : exists k, ljust w s = s ++ repeat 32 k.
Proof.
  unfold ljust. destruct (zlen s <? w); [eexists; reflexivity|].
  exists 0%nat. cbn. now rewrite app_nil_r.
Qed.

(* ---------- upper ---------- *)
Lemma upper_char_idem c : upper_char (upper_char c) = upper_char c.
Proof. unfold upper_char. destruct ((97 <=? c) && (c <=? 122)) eqn:E; [|now rewrite E].
  destruct ((97 <=? c - 32) && (c - 32 <=? 122)) eqn:E2; lia. Qed.
Lemma upper_char_quote c : (upper_char c =? 34) = (c =? 34).
Proof. unfold upper_char. destruct ((97 <=? c) && (c <=? 122)) eqn:E; lia. Qed.

(* ---------- rstrip ---------- *)
Lemma rstrip_by_nil_iff p l : rstrip_by p l = [] <-> forallb p l = true.
Proof.
  induction l as [|c l IH]; cbn [rstrip_by forallb]; [easy|].
  destruct (rstrip_by p l) eqn:E.
  - destruct (p c); cbn; [tauto|]. split; [discriminate|intros H; discriminate].
  - split; [discriminate|]. intros H. apply andb_prop in H. destruct H as [_ H].
    apply IH in H. discriminate.
Qed.

Lemma rstrip_by_app_stripped p l s : forallb p s = true -> rstrip_by p (l ++ s) = rstrip_by p l.
Proof.
  intros Hs. induction l as [|c l IH]; cbn [app rstrip_by].
  - now apply rstrip_by_nil_iff.
  - now rewrite IH.
Qed.

Lemma rstrip_by_keep p l c : p c = false -> rstrip_by p (l ++ [c]) = l ++ [c].
Proof.
  intros Hc. induction l as [|d l IH]; cbn [app rstrip_by].
  - now rewrite Hc.
  - rewrite IH. destruct (l ++ [c]) eqn:E; [|reflexivity].
    apply app_eq_nil in E. destruct E as [_ E]. discriminate.
Qed.

Lemma rstrip_by_cons p c l : rstrip_by p (c :: l) =
  match rstrip_by p l with [] => if p c then [] else [c] | r => c :: r end.
Proof. reflexivity. Qed.

Lemma rstrip_by_idem p l : rstrip_by p (rstrip_by p l) = rstrip_by p l.
Proof.
  induction l as [|c l IH]; cbn [rstrip_by]; [reflexivity|].
  destruct (rstrip_by p l) as [|d r] eqn:E.
  - destruct (p c) eqn:Ec; cbn [rstrip_by]; [reflexivity|now rewrite Ec].
  - rewrite rstrip_by_cons, IH. reflexivity.
Qed.

Lemma rstrip_by_prefix p l : exists s, l = rstrip_by p l ++ s /\ forallb p s = true.
Proof.
  induction l as [|c l (s & Hl & Hs)]; cbn [rstrip_by]; [exists []; easy|].
  destruct (rstrip_by p l) as [|d r] eqn:E.
  - destruct (p c) eqn:Ec.
    + exists (c :: s). cbn [app forallb]. rewrite Ec, Hs. split; [now rewrite Hl at 1|reflexivity].
    + exists s. split; [cbn; now rewrite Hl at 1|exact Hs].
  - exists s. split; [rewrite Hl at 1; reflexivity|exact Hs].
Qed.

Lemma rstrip_by_last p l : forall c r, rstrip_by p l = r ++ [c] -> p c = false.
Proof.
  induction l as [|d l IH]; cbn [rstrip_by]; intros c r H.
  - destruct r; discriminate.
  - destruct (rstrip_by p l) as [|e t] eqn:E.
    + destruct (p d) eqn:Ed; [destruct r; discriminate|].
      destruct r as [|x r]; [now inversion H; subst|].
      inversion H. destruct r; discriminate.
    + destruct r as [|x r]; [inversion H|].
      inversion H; subst. eapply IH. eassumption.
Qed.
