(* Proofs/TapeLemmas1.v — list / Z plumbing used by the tape proofs. *)
From Coq Require Import ZArith List Bool Lia ZifyBool.
Require Import PyBase GenTape TapeFacts Tape K7 PyFacts.
Import ListNotations.
Open Scope Z_scope.
Ltac Zify.zify_post_hook ::= Z.to_euclidean_division_equations.

(* ---------- zlen ---------- *)
Lemma zlen_app {A} (a b : list A) : zlen (a ++ b) = zlen a + zlen b.
Proof. unfold zlen. rewrite app_length. lia. Qed.
Lemma zlen_nil {A} : zlen (@nil A) = 0.
Proof. reflexivity. Qed.
Lemma zlen_cons {A} (x : A) l : zlen (x :: l) = 1 + zlen l.
Proof. unfold zlen. cbn [length]. lia. Qed.
Lemma zlen_nonneg {A} (l : list A) : 0 <= zlen l.
Proof. unfold zlen. lia. Qed.
Lemma zlen_repeat {A} (x : A) k : zlen (repeat x k) = Z.of_nat k.
Proof. unfold zlen. now rewrite repeat_length. Qed.
Lemma to_nat_zlen {A} (l : list A) : Z.to_nat (zlen l) = length l.
Proof. unfold zlen. apply Nat2Z.id. Qed.
Lemma zlen_map {A B} (f : A -> B) l : zlen (map f l) = zlen l.
Proof. unfold zlen. now rewrite map_length. Qed.
Lemma zlen_firstn_le {A} n (l : list A) : zlen (firstn n l) <= zlen l.
Proof. unfold zlen. rewrite firstn_length. lia. Qed.

(* ---------- firstn / skipn on appends ---------- *)
Lemma firstn_exact {A} (a b : list A) n : n = length a -> firstn n (a ++ b) = a.
Proof. intros ->. rewrite firstn_app, Nat.sub_diag, firstn_all. cbn [firstn]. apply app_nil_r. Qed.
Lemma skipn_exact {A} (a b : list A) n : n = length a -> skipn n (a ++ b) = b.
Proof. intros ->. rewrite skipn_app, Nat.sub_diag, skipn_all. reflexivity. Qed.
Lemma skipn_repeat {A} (x : A) m k : skipn m (repeat x k) = repeat x (k - m).
Proof.
  revert k; induction m as [|m IH]; intros k; [now rewrite Nat.sub_0_r|].
  destruct k as [|k]; [reflexivity|]. cbn [repeat skipn]. rewrite IH. reflexivity.
Qed.

Lemma splice_mid {A} (a v v' b : list A) i j :
  i = length a -> j = (length a + length v)%nat -> splice i j v' (a ++ v ++ b) = a ++ v' ++ b.
Proof.
  intros -> ->. unfold splice. rewrite firstn_exact by reflexivity.
  rewrite Nat.max_r by lia. rewrite (app_assoc a v b), skipn_exact by (rewrite app_length; reflexivity).
  reflexivity.
Qed.

Lemma zsplice_mid (a v v' b : list Z) i j :
  i = zlen a -> j = zlen a + zlen v -> zsplice i j v' (a ++ v ++ b) = a ++ v' ++ b.
Proof.
  intros -> ->. unfold zsplice. apply splice_mid; unfold zlen; lia.
Qed.

Lemma repeat_split {A} (x : A) a b : repeat x (a + b) = repeat x a ++ repeat x b.
Proof. apply repeat_app. Qed.

Lemma slice_mid {A} (a v b : list A) i j :
  i = length a -> j = (length a + length v)%nat -> slice i j (a ++ v ++ b) = v.
Proof.
  intros -> ->. unfold slice. rewrite skipn_exact by reflexivity.
  apply firstn_exact. lia.
Qed.
Lemma zslice_mid (a v b : list Z) i j :
  i = zlen a -> j = zlen a + zlen v -> zslice i j (a ++ v ++ b) = v.
Proof. intros -> ->. unfold zslice. apply slice_mid; unfold zlen; lia. Qed.

Lemma znth_mid (a : list Z) x b i : i = zlen a -> znth i (a ++ x :: b) = Some x.
Proof.
  intros ->. unfold znth. pose proof (zlen_nonneg a).
  destruct (zlen a <? 0) eqn:E; [lia|].
  rewrite to_nat_zlen, nth_error_app2, Nat.sub_diag by lia. reflexivity.
Qed.

(* ---------- forallb / existsb helpers ---------- *)
Lemma forallb_impl {A} (p q : A -> bool) l :
  (forall x, p x = true -> q x = true) -> forallb p l = true -> forallb q l = true.
Proof.
  intros H. induction l as [|x l IH]; cbn [forallb]; [easy|].
  intros Hx. apply andb_prop in Hx. destruct Hx as [Hx Hl]. now rewrite (H _ Hx), IH.
Qed.
Lemma forallb_firstn {A} (p : A -> bool) n l : forallb p l = true -> forallb p (firstn n l) = true.
Proof.
  revert l; induction n as [|n IH]; intros l; [reflexivity|].
  destruct l as [|x l]; [easy|]. cbn [firstn forallb]. intros H.
  apply andb_prop in H. destruct H as [Hx Hl]. now rewrite Hx, IH.
Qed.
Lemma forallb_skipn {A} (p : A -> bool) n l : forallb p l = true -> forallb p (skipn n l) = true.
Proof.
  revert l; induction n as [|n IH]; intros l; [easy|].
  destruct l as [|x l]; [easy|]. cbn [skipn forallb]. intros H.
  apply andb_prop in H. destruct H as [Hx Hl]. now apply IH.
Qed.
Lemma forallb_map {A B} (p : B -> bool) (f : A -> B) l : forallb p (map f l) = forallb (fun x => p (f x)) l.
Proof. induction l as [|x l IH]; cbn [map forallb]; [reflexivity|]. now rewrite IH. Qed.
Lemma forallb_repeat {A} (p : A -> bool) x k : p x = true -> forallb p (repeat x k) = true.
Proof. intros H. induction k as [|k IH]; cbn [repeat forallb]; [reflexivity|]. now rewrite H, IH. Qed.
Lemma forallb_not_exists {A} (p : A -> bool) l : forallb (fun x => negb (p x)) l = true -> existsb p l = false.
Proof.
  induction l as [|x l IH]; cbn [forallb existsb]; [easy|].
  intros H. apply andb_prop in H. destruct H as [Hx Hl]. rewrite IH by exact Hl.
  destruct (p x); [discriminate|reflexivity].
Qed.

Lemma zeqb_list_eq a : forall b, zeqb_list a b = true <-> a = b.
Proof.
  induction a as [|x a IH]; intros [|y b]; cbn [zeqb_list]; try easy.
  split.
  - intros H. apply andb_prop in H. destruct H as [Hx Hl]. apply IH in Hl. f_equal; [lia|exact Hl].
  - intros H. inversion H; subst. rewrite Z.eqb_refl. cbn [andb]. now apply IH.
Qed.
Lemma zeqb_list_refl a : zeqb_list a a = true.
Proof. now apply zeqb_list_eq. Qed.

Lemma land255 x : Z.land x 255 = x mod 256.
Proof. change 255 with (Z.ones 8). rewrite Z.land_ones by lia. reflexivity. Qed.
Lemma shiftr8 x : Z.shiftr x 8 = x / 256.
Proof. rewrite Z.shiftr_div_pow2 by lia. reflexivity. Qed.

Lemma upper_ascii_idem l : upper_ascii (upper_ascii l) = upper_ascii l.
Proof. unfold upper_ascii. rewrite map_map. apply map_ext. apply upper_char_idem. Qed.

Lemma skipn_skipn' {A} a : forall b (l : list A), skipn a (skipn b l) = skipn (b + a) l.
Proof.
  intros b; induction b as [|b IH]; intros l; [reflexivity|].
  destruct l as [|x l]; [now rewrite !skipn_nil|]. cbn [skipn Nat.add]. apply IH.
Qed.
