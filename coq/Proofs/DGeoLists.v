(* Proofs/DGeoLists.v — list plumbing for the disk geometry proofs: firstn/skipn, flat_map,
   Model's [chunks] and Spec's [chunk]. *)
From Coq Require Import ZArith List Bool Lia ZifyBool.
Require Import PyBase GenDisk Disk ThomsonDos.
Import ListNotations.
Open Scope Z_scope.
Ltac Zify.zify_post_hook ::= Z.to_euclidean_division_equations.

(* ---------- firstn / skipn ---------- *)
Lemma g_firstn_exact {A} (a b : list A) n : n = length a -> firstn n (a ++ b) = a.
Proof. intros ->. rewrite firstn_app, Nat.sub_diag, firstn_all. cbn [firstn]. apply app_nil_r. Qed.
Lemma g_skipn_exact {A} (a b : list A) n : n = length a -> skipn n (a ++ b) = b.
Proof. intros ->. rewrite skipn_app, Nat.sub_diag, skipn_all. reflexivity. Qed.

Lemma g_firstn_add {A} a : forall b (l : list A), firstn (a + b) l = firstn a l ++ firstn b (skipn a l).
Proof.
  induction a as [|a IH]; intros b l; [reflexivity|].
  destruct l as [|x l]; cbn [Nat.add firstn skipn app].
  - now rewrite firstn_nil.
  - now rewrite IH.
Qed.

Lemma g_skipn_skipn {A} a : forall b (l : list A), skipn a (skipn b l) = skipn (b + a) l.
Proof.
  intros b; induction b as [|b IH]; intros l; [reflexivity|].
  destruct l as [|x l]; [now rewrite !skipn_nil|]. cbn [skipn Nat.add]. apply IH.
Qed.

Lemma g_length_zero_nil {A} (l : list A) : length l = 0%nat -> l = [].
Proof. destruct l; [reflexivity|discriminate]. Qed.

(* ---------- flat_map ---------- *)
Lemma g_flat_map_map {A B C} (f : B -> list C) (g : A -> B) l :
  flat_map f (map g l) = flat_map (fun x => f (g x)) l.
Proof. induction l as [|x l IH]; cbn [map flat_map]; [reflexivity|]. now rewrite IH. Qed.

Lemma g_flat_map_flat_map {A B C} (f : B -> list C) (g : A -> list B) l :
  flat_map f (flat_map g l) = flat_map (fun x => flat_map f (g x)) l.
Proof. induction l as [|x l IH]; cbn [flat_map]; [reflexivity|]. now rewrite flat_map_app, IH. Qed.

Lemma g_flat_map_ext_Forall {A B} (f g : A -> list B) l :
  Forall (fun x => f x = g x) l -> flat_map f l = flat_map g l.
Proof. induction 1 as [|x l Hx _ IH]; cbn [flat_map]; [reflexivity|]. now rewrite Hx, IH. Qed.

Lemma g_map_ext_Forall {A B} (f g : A -> B) l :
  Forall (fun x => f x = g x) l -> map f l = map g l.
Proof. induction 1 as [|x l Hx _ IH]; cbn [map]; [reflexivity|]. now rewrite Hx, IH. Qed.

Lemma g_flat_map_length_const {A B} (f : A -> list B) n l :
  Forall (fun x => length (f x) = n) l -> length (flat_map f l) = (length l * n)%nat.
Proof.
  induction 1 as [|x l Hx _ IH]; cbn [flat_map length]; [reflexivity|].
  rewrite app_length, Hx, IH. cbn [Nat.mul]. reflexivity.
Qed.

Lemma g_Forall_map {A B} (P : B -> Prop) (f : A -> B) l : Forall (fun x => P (f x)) l -> Forall P (map f l).
Proof. induction 1; cbn [map]; constructor; assumption. Qed.

Lemma g_Forall_impl2 {A} (P Q : A -> Prop) l : (forall x, P x -> Q x) -> Forall P l -> Forall Q l.
Proof. intros H. induction 1; constructor; auto. Qed.

(* ---------- Model's chunks ---------- *)
Lemma chunks_length {A} n k : forall l : list A, length (chunks n k l) = k.
Proof. induction k as [|k IH]; intros l; cbn [chunks length]; [reflexivity|]. now rewrite IH. Qed.

Lemma chunks_flat_map {A B} (f : A -> list B) n l :
  Forall (fun x => length (f x) = n) l ->
  forall rest, chunks n (length l) (flat_map f l ++ rest) = map f l.
Proof.
  induction 1 as [|x l Hx _ IH]; intros rest; cbn [length chunks flat_map map]; [reflexivity|].
  rewrite <- app_assoc.
  rewrite g_firstn_exact by (symmetry; exact Hx).
  rewrite g_skipn_exact by (symmetry; exact Hx).
  now rewrite IH.
Qed.

Lemma flat_chunks {A} n k : forall l : list A, flat_map (fun x => x) (chunks n k l) = firstn (n * k) l.
Proof.
  induction k as [|k IH]; intros l.
  - rewrite Nat.mul_0_r. reflexivity.
  - cbn [chunks flat_map]. rewrite IH, Nat.mul_succ_r, Nat.add_comm, g_firstn_add. reflexivity.
Qed.

Lemma chunks_firstn {A} n k : forall (l : list A) m, (n * k <= m)%nat -> chunks n k (firstn m l) = chunks n k l.
Proof.
  induction k as [|k IH]; intros l m H; [reflexivity|].
  rewrite Nat.mul_succ_r in H.
  cbn [chunks]. f_equal.
  - rewrite firstn_firstn. f_equal. lia.
  - replace m with (n + (m - n))%nat by lia. rewrite <- firstn_skipn_comm. apply IH. lia.
Qed.

Lemma chunks_add {A} n a b : forall l : list A,
  chunks n (a + b) l = chunks n a l ++ chunks n b (skipn (n * a) l).
Proof.
  induction a as [|a IH]; intros l.
  - rewrite Nat.mul_0_r. reflexivity.
  - cbn [Nat.add chunks app]. f_equal. rewrite IH. f_equal. f_equal.
    rewrite g_skipn_skipn, Nat.mul_succ_r. f_equal. lia.
Qed.

Lemma chunks_chunks {A} n k2 k1 : forall l : list A,
  flat_map (chunks n k2) (chunks (n * k2) k1 l) = chunks n (k1 * k2) l.
Proof.
  induction k1 as [|k1 IH]; intros l; [reflexivity|].
  cbn [chunks flat_map Nat.mul]. rewrite chunks_add, IH, chunks_firstn by lia. reflexivity.
Qed.

Lemma chunks_all_length {A} n k : forall l : list A, (n * k <= length l)%nat ->
  Forall (fun c => length c = n) (chunks n k l).
Proof.
  induction k as [|k IH]; intros l H; cbn [chunks]; constructor.
  - rewrite Nat.mul_succ_r in H. rewrite firstn_length. lia.
  - rewrite Nat.mul_succ_r in H. apply IH. rewrite skipn_length. lia.
Qed.

Lemma map_firstn_chunks {A} n k : forall l : list A, map (firstn n) (chunks n k l) = chunks n k l.
Proof.
  induction k as [|k IH]; intros l; cbn [chunks map]; [reflexivity|].
  rewrite IH, firstn_firstn, Nat.min_id. reflexivity.
Qed.

(* ---------- Spec's chunk ---------- *)
Lemma chunk_flat_map {A} (f : A -> list Z) n l : (0 < n)%nat ->
  Forall (fun x => length (f x) = n) l ->
  forall fuel, (length l <= fuel)%nat -> chunk n fuel (flat_map f l) = map f l.
Proof.
  intros Hn H. induction H as [|x l Hx _ IH]; intros fuel Hf.
  - destruct fuel; reflexivity.
  - cbn [length] in Hf. destruct fuel as [|fuel]; [lia|].
    cbn [flat_map map chunk].
    destruct (f x ++ flat_map f l) as [|z r] eqn:E.
    + apply (f_equal (@length Z)) in E. rewrite app_length, Hx in E. cbn [length] in E. lia.
    + rewrite <- E.
      rewrite g_firstn_exact by (symmetry; exact Hx).
      rewrite g_skipn_exact by (symmetry; exact Hx).
      f_equal. apply IH. lia.
Qed.

Lemma chunk_chunks n k (l : list Z) fuel : (0 < n)%nat -> length l = (n * k)%nat -> (k <= fuel)%nat ->
  chunk n fuel l = chunks n k l.
Proof.
  intros Hn Hl Hf.
  assert (Hall : Forall (fun c : list Z => length ((fun x => x) c) = n) (chunks n k l)).
  { apply chunks_all_length. lia. }
  pose proof (chunk_flat_map (fun x : list Z => x) n (chunks n k l) Hn Hall fuel) as E.
  rewrite chunks_length, flat_chunks, map_id, <- Hl, firstn_all in E. apply E. exact Hf.
Qed.

Lemma le_mul_pos n k : (0 < n)%nat -> (k <= n * k)%nat.
Proof. intros H. destruct n as [|n]; [lia|]. cbn [Nat.mul]. lia. Qed.

Lemma flat_firstn_chunks {A} n k : forall l : list A, flat_map (firstn n) (chunks n k l) = firstn (n * k) l.
Proof.
  induction k as [|k IH]; intros l.
  - rewrite Nat.mul_0_r. reflexivity.
  - cbn [chunks flat_map]. rewrite IH, firstn_firstn, Nat.min_id, Nat.mul_succ_r, Nat.add_comm, g_firstn_add.
    reflexivity.
Qed.
