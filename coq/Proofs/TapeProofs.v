(* Proofs/TapeProofs.v — lemmas behind Props/C01, C03, C08, C09 and the tape half of C18.
   The statements marked TOP are the ones the Props files close with [exact]; their wording is
   fixed.  Everything else may be reorganised freely. *)
From Coq Require Import ZArith List Bool Lia ZifyBool.
Require Import PyBase GenTape TapeFacts Tape K7 PyFacts TapeLemmas1 TapeLemmas2 TapeLemmasW TapeLemmasC TapeLemmasR.
Import ListNotations.
Open Scope Z_scope.
Ltac Zify.zify_post_hook ::= Z.to_euclidean_division_equations.

(* the label under which list and extract show a third-party file: fields stripped of blanks *)
Definition k7_leader (f : k7_file) : leader :=
  mkLeader (strip_py (k_name f)) (strip_py (k_ext f)) (k_kind f) (k_mode f).
Definition k7_line (v : bool) (e : k7_file * Z) : list Z :=
  render_entry v (k7_leader (fst e)) (zlen (k_chunks (fst e))) (zlen (k_content (fst e))) (snd e).
Definition k7_write (target : list Z) (f : k7_file) : effect :=
  WriteFile (path_join target (safe_label (k7_leader f))) (k_content f).
Definition target_of (into : option (list Z)) (arch : list Z) : list Z :=
  match into with Some d => d | None => dirname arch end.
Definition mkdir_of (into : option (list Z)) : list effect :=
  match into with Some d => [MkDir d] | None => [] end.
Definition no_nul_path (target : list Z) (f : k7_file) : bool :=
  negb (existsb (Z.eqb 0) (path_join target (safe_label (k7_leader f)))).

(* ---------------- TOP: C08 ---------------- *)
(* any tape that follows the format is read exactly, by list and by extract *)
Theorem tape_third_party_read : forall (raw : list Z) (files : list k7_file) (v : bool) (into : option (list Z)) (arch : list Z),
  K7 raw files -> forallb k7_file_ok files = true ->
  forallb (no_nul_path (target_of into arch)) files = true ->
  tar_list v raw = mkOutcome 0 (map (k7_line v) (k7_positions 0 files)) [] None /\
  tar_extract v into arch raw =
    mkOutcome 0 (map (k7_line v) (k7_positions 0 files))
              (mkdir_of into ++ map (k7_write (target_of into arch)) files) None.
Proof.
  intros raw files v into arch HK Hok Hnul.
  assert (Hx : tar_extract v into arch raw =
               mkOutcome 0 (map (k7_line v) (k7_positions 0 files))
                 (mkdir_of into ++ map (k7_write (target_of into arch)) files) None).
  { exact (tar_extract_K7 v into arch raw files HK Hok Hnul). }
  split; [|exact Hx].
  pose proof (tar_list_extract_agree raw v into arch) as Hag.
  pose proof (tar_list_effects v raw) as Hfx.
  rewrite Hx in Hag. cbn [o_lines o_status o_crash] in Hag.
  destruct Hag as [(Hl & Hs & Hc)|[Hc _]]; [|discriminate].
  destruct (tar_list v raw) as [st ls fx cr]. cbn [o_lines o_status o_crash o_effects] in *.
  now subst.
Qed.

(* on EVERY byte string the two actions print the same report and end the same way; the only
   exception is an extraction stopped by a file name with an embedded NUL (open() refuses it:
   ValueError), in which case list simply goes on *)
Theorem tape_list_extract_agree : forall (raw : list Z) (v : bool) (into : option (list Z)) (arch : list Z),
  (o_lines (tar_list v raw) = o_lines (tar_extract v into arch raw) /\
   o_status (tar_list v raw) = o_status (tar_extract v into arch raw) /\
   o_crash (tar_list v raw) = o_crash (tar_extract v into arch raw)) \/
  (o_crash (tar_extract v into arch raw) = Some EValue /\
   exists more, o_lines (tar_list v raw) = o_lines (tar_extract v into arch raw) ++ more).
Proof. exact tar_list_extract_agree. Qed.

(* ---------------- TOP: C03 / C09 / C01 ---------------- *)
Definition entries (fs : fsmap) (srcs : list (list Z)) : list k7_file := map (src_entry fs) srcs.

(* what create writes is the concatenation of the file images, zero padded to the tape size *)
Theorem tape_create_conforms : forall (fs : fsmap) (srcs : list (list Z)) (arch : list Z) (v : bool),
  forallb (src_readable fs) srcs = true ->
  k7_encoded_size (entries fs srcs) < 21504 ->
  let raw := concat (map k7_file_image (entries fs srcs)) ++ repeat 0 (Z.to_nat (21504 - k7_encoded_size (entries fs srcs))) in
  o_status (tar_create v fs arch srcs) = 0 /\
  o_effects (tar_create v fs arch srcs) = [WriteFile arch raw] /\
  zlen raw = 21504 /\
  k7_decode raw = Some (entries fs srcs) /\
  K7 raw (entries fs srcs).
Proof.
  intros fs srcs arch v Hr Hs raw. unfold entries in *.
  destruct (tar_create_fits v fs arch srcs Hr Hs) as (ls & H). rewrite H. cbn [o_status o_effects].
  pose proof (entries_ok fs srcs Hr) as Hok.
  pose proof (k7_encoded_size_nonneg (map (src_entry fs) srcs)) as Hnn.
  split; [reflexivity|]. split; [reflexivity|]. split; [|split].
  - unfold raw. rewrite zlen_app, zlen_images, zlen_repeat by exact Hr. lia.
  - apply k7_decode_images. exact Hok.
  - apply K7_images. exact Hok.
Qed.

Theorem tape_create_refuses : forall (fs : fsmap) (srcs : list (list Z)) (arch : list Z) (v : bool),
  forallb (src_readable fs) srcs = true ->
  21504 <= k7_encoded_size (entries fs srcs) ->
  o_status (tar_create v fs arch srcs) <> 0 /\
  o_effects (tar_create v fs arch srcs) = [] /\
  (exists ls, o_lines (tar_create v fs arch srcs) = ls ++ [inj_overflow_message]).
Proof.
  intros fs srcs arch v Hr Hs. destruct (tar_create_overflows v fs arch srcs Hr Hs) as (ls & H).
  rewrite H. cbn [o_status o_effects o_lines]. split; [lia|]. split; [reflexivity|]. now exists ls.
Qed.

(* whatever the sources (missing, unreadable, too big): all or nothing *)
Theorem tape_create_all_or_nothing : forall (fs : fsmap) (srcs : list (list Z)) (arch : list Z) (v : bool),
  (o_status (tar_create v fs arch srcs) = 0 /\
   exists raw, o_effects (tar_create v fs arch srcs) = [WriteFile arch raw] /\ zlen raw = 21504) \/
  (o_status (tar_create v fs arch srcs) <> 0 /\ o_effects (tar_create v fs arch srcs) = []).
Proof.
  intros fs srcs arch v. unfold tar_create.
  destruct (inject_loop v fs blank_tape lst0 srcs []) as [ls [t|e]] eqn:E.
  - left. cbn [o_status o_effects]. split; [reflexivity|]. exists (t_raw t). split; [reflexivity|].
    rewrite (inject_loop_twf _ _ _ _ _ _ _ _ blank_tape_twf E). apply blank_tape_len.
  - right. destruct e; cbn [o_status o_effects]; (split; [|reflexivity]); unfold inj_overflow_status; lia.
Qed.

(* C01: the round trip, for 8.3 names *)
Theorem tape_roundtrip : forall (fs : fsmap) (srcs : list (list Z)) (arch : list Z) (v : bool),
  forallb (src_readable fs) srcs = true -> forallb src_83 srcs = true ->
  negb (existsb (Z.eqb 0) (dirname arch)) = true ->
  k7_encoded_size (entries fs srcs) < 21504 ->
  exists raw,
    o_status (tar_create v fs arch srcs) = 0 /\
    o_effects (tar_create v fs arch srcs) = [WriteFile arch raw] /\
    o_status (tar_list false raw) = 0 /\
    o_lines (tar_list false raw) = map src_catname srcs /\
    o_status (tar_extract v None arch raw) = 0 /\
    o_effects (tar_extract v None arch raw) =
      map (fun s => WriteFile (path_join (dirname arch) (src_catname s)) (src_content fs s)) srcs.
Proof.
  intros fs srcs arch v Hr H83 Hdir Hs.
  destruct (tape_create_conforms fs srcs arch v Hr Hs) as (Hst & Hfx & _ & _ & HK).
  set (raw := concat (map k7_file_image (entries fs srcs)) ++
              repeat 0 (Z.to_nat (21504 - k7_encoded_size (entries fs srcs)))) in *.
  exists raw. split; [exact Hst|]. split; [exact Hfx|].
  pose proof (entries_ok fs srcs Hr) as Hok. fold (entries fs srcs) in Hok.
  apply negb_true_iff in Hdir.
  assert (Hnul : forallb (no_nul_path (target_of None arch)) (entries fs srcs) = true).
  { unfold entries. clear -Hr H83 Hdir. induction srcs as [|s srcs IH]; [reflexivity|].
    cbn [forallb map] in *. apply andb_prop in Hr. apply andb_prop in H83.
    destruct Hr as [Hr1 Hr2], H83 as [H1 H2]. rewrite IH by assumption.
    destruct (entry_roundtrip fs s Hr1 H1) as (_ & Hsafe & _ & Hn0).
    unfold no_nul_path, target_of. change (k7_leader (src_entry fs s)) with (kleader (src_entry fs s)).
    rewrite Hsafe, path_join_no_nul by assumption. reflexivity. }
  destruct (tape_third_party_read raw (entries fs srcs) false None arch HK Hok Hnul) as [Hlist _].
  destruct (tape_third_party_read raw (entries fs srcs) v None arch HK Hok Hnul) as [_ Hext].
  rewrite Hlist, Hext. cbn [o_status o_lines o_effects mkdir_of app target_of].
  split; [reflexivity|]. split; [|split; [reflexivity|]].
  - unfold entries. generalize 0. clear -Hr H83. induction srcs as [|s srcs IH]; intros idx; [reflexivity|].
    cbn [forallb map k7_positions] in *. apply andb_prop in Hr. apply andb_prop in H83.
    destruct Hr as [Hr1 Hr2], H83 as [H1 H2]. rewrite IH by assumption. f_equal.
    destruct (entry_roundtrip fs s Hr1 H1) as (Hlab & _ & _ & _).
    unfold k7_line, render_entry. cbn [fst snd]. exact Hlab.
  - unfold entries. clear -Hr H83. induction srcs as [|s srcs IH]; [reflexivity|].
    cbn [forallb map] in *. apply andb_prop in Hr. apply andb_prop in H83.
    destruct Hr as [Hr1 Hr2], H83 as [H1 H2]. rewrite IH by assumption. f_equal.
    destruct (entry_roundtrip fs s Hr1 H1) as (_ & Hsafe & Hcont & _).
    unfold k7_write. change (k7_leader (src_entry fs s)) with (kleader (src_entry fs s)).
    now rewrite Hsafe, Hcont.
Qed.

(* ---------------- TOP: C18 (tape) ---------------- *)
Theorem tape_cursor_advances : forall (t : tape) (b : list Z) (t' : tape),
  0 <= t_pos t -> next_block t = (Some b, t') -> t_pos t + 7 <= t_pos t'.
Proof. intros t b t' Hp H. now destruct (next_block_some _ _ _ Hp H) as (_ & _ & H7 & _). Qed.

(* the loops never run out of the fuel len(raw)+1: list and extract terminate on every input *)
Theorem tape_loops_terminate : forall (raw : list Z) (v : bool) (into : option (list Z)) (arch : list Z),
  o_status (tar_list v raw) <> -1 /\ o_status (tar_extract v into arch raw) <> -1.
Proof. intros raw v into arch. split; [apply tar_list_terminates|apply tar_extract_terminates]. Qed.

(* every file extract writes lies directly inside the destination *)
Theorem tape_extract_confined : forall (raw : list Z) (v : bool) (into : option (list Z)) (arch : list Z) (e : effect),
  In e (o_effects (tar_extract v into arch raw)) ->
  e = MkDir (target_of into arch) /\ into <> None \/
  exists l c, e = WriteFile (path_join (target_of into arch) l) c /\ existsb (Z.eqb 47) l = false /\ existsb (Z.eqb 0) l = false.
Proof.
  intros raw v into arch e. unfold tar_extract.
  change (match into with Some d => d | None => dirname arch end) with (target_of into arch).
  destruct (extract_loop (fuel_of raw) v (target_of into arch) (tape_of_bytes raw) lst0 None None []
              (rev match into with Some d => [MkDir d] | None => [] end)) as [[[ls fxs] err]|] eqn:E.
  - assert (Hin : In e fxs -> In e (rev match into with Some d => [MkDir d] | None => [] end) \/
                               confined_fx (target_of into arch) e)
      by (apply (extract_effects _ _ _ _ _ _ _ _ _ _ _ _ E)).
    intros H. assert (H' : In e fxs) by (destruct err; exact H). clear H.
    destruct (Hin H') as [Hpre|Hc]; [|right; exact Hc].
    rewrite <- in_rev in Hpre. destruct into as [d|]; [|destruct Hpre].
    destruct Hpre as [Hpre|[]]. left. subst e. split; [reflexivity|discriminate].
  - cbn [finish o_effects]. intros [].
Qed.
