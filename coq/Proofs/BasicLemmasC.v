(* Proofs/BasicLemmasC.v — the tokenizer against the reference encoder on delimited lexeme
   lists (C13, third part). *)
From Coq Require Import ZArith List Bool Lia ZifyBool.
Require Import PyBase GenBasic BasicFacts Basic Mo5Basic PyFacts BasicLemmasA BasicLemmasB.
Import ListNotations.
Open Scope Z_scope.
Ltac Zify.zify_post_hook ::= Z.to_euclidean_division_equations.

(* ---------- committed states, pending output, the done-frame ---------- *)
Definition out (t : tctx) : list Z := t_done t ++ t_cand t ++ utf8 (t_bucket t).
Definition fresh (d : list Z) : tctx := mkT d [] [] [].
Definition pre (d : list Z) (t : tctx) : tctx := mkT (d ++ t_done t) (t_cand t) (t_src t) (t_bucket t).

Lemma commit_fresh t : commit t = fresh (out t).
Proof. reflexivity. Qed.
Lemma out_fresh d : out (fresh d) = d.
Proof. unfold out, fresh. cbn [t_done t_cand t_bucket utf8 flat_map]. now rewrite !app_nil_r. Qed.

Lemma pre_commit d t : commit (pre d t) = pre d (commit t).
Proof. unfold commit, pre. cbn [t_done t_cand t_src t_bucket]. now rewrite <- app_assoc. Qed.

Lemma pre_plain d t s c : append_plain (pre d t) s c = pre d (append_plain t s c).
Proof.
  unfold append_plain. destruct (tok_of [c]) as [v|]; [|reflexivity].
  unfold commit, pre. cbn [t_done t_cand t_src t_bucket]. now rewrite <- !app_assoc.
Qed.

Lemma pre_token d t c : append_token (pre d t) c = pre d (append_token t c).
Proof.
  unfold append_token. cbn [pre t_done t_cand t_src t_bucket].
  destruct (tok_of (t_src t ++ [c])) as [v|]; [reflexivity|].
  destruct (tok_of (t_bucket t)) as [v|].
  - unfold commit. cbn [t_done t_cand t_src t_bucket].
    destruct (tok_of [c]) as [v1|].
    + unfold pre. cbn [t_done t_cand t_src t_bucket]. now rewrite <- !app_assoc.
    + unfold append_plain. destruct (tok_of [c]) as [v2|].
      * unfold commit, pre. cbn [t_done t_cand t_src t_bucket]. now rewrite <- !app_assoc.
      * unfold pre. cbn [t_done t_cand t_src t_bucket]. now rewrite <- !app_assoc.
  - exact (pre_plain d t (t_src t ++ [c]) c).
Qed.

Lemma pre_fold d k : forall t, fold_left append_token k (pre d t) = pre d (fold_left append_token k t).
Proof. induction k as [|c k IH]; intros t; cbn [fold_left]; [reflexivity|]. now rewrite pre_token, IH. Qed.

(* ---------- characters ---------- *)
Lemma is_word_tok k : is_word k = match tok_of k with Some _ => true | None => false end.
Proof. unfold is_word. rewrite (tok_of_code k). reflexivity. Qed.

Lemma delim_or_op_lt c : is_delim_or_op c = true -> 32 <= c < 128.
Proof. unfold is_delim_or_op, delim_chars, operator_chars. cbn [app existsb]. lia. Qed.

Lemma text_char_facts c : text_char c = true ->
  (c =? 34) = false /\ is_delim_or_op c = false /\ 32 <= c <= 126.
Proof.
  unfold text_char, printable. intros H.
  apply andb_prop in H. destruct H as [H H3]. apply andb_prop in H. destruct H as [H1 H2].
  apply negb_true_iff in H2. apply negb_true_iff in H3. repeat split; try assumption; lia.
Qed.

Lemma text_char_upper c : text_char c = true -> text_char (upper_char c) = true.
Proof.
  unfold text_char, printable, is_delim_or_op, delim_chars, operator_chars, upper_char.
  cbn [app existsb]. intros H. destruct ((97 <=? c) && (c <=? 122)) eqn:E; [lia|exact H].
Qed.

Lemma not_op_no_token c : is_delim_or_op c = false -> tok_of [c] = None.
Proof.
  intros H. destruct (tok_of [c]) as [v|] eqn:E; [|reflexivity].
  apply tok_shape in E. congruence.
Qed.

Lemma parse_char_text t c : text_char c = true ->
  parse_char (t, false) c = (append_token t (upper_char c), false).
Proof.
  intros H. destruct (text_char_facts _ H) as (H34 & Hd & _).
  unfold parse_char. rewrite H34.
  assert (Hs : is_special c = false).
  { destruct (is_special c) eqn:E; [|reflexivity]. apply special_is_delim in E. congruence. }
  assert (Ho : is_one_char_token c = false).
  { unfold is_one_char_token. now rewrite not_op_no_token. }
  now rewrite Hs, Ho.
Qed.

Lemma fold_text w : forall t, forallb text_char w = true ->
  fold_left parse_char w (t, false) = (fold_left append_token (upper_ascii w) t, false).
Proof.
  induction w as [|c w IH]; intros t H; [reflexivity|].
  cbn [forallb] in H. apply andb_prop in H. destruct H as [Hc Hw].
  cbn [fold_left upper_ascii map]. rewrite parse_char_text by exact Hc. now apply IH.
Qed.

(* ---------- LText: a run none of whose prefixes is a word stays in the bucket ---------- *)
Lemma text_run Q : forall d P, tok_of P = None ->
  (forall c, In c Q -> tok_of [c] = None) ->
  existsb is_word (map (app P) (prefixes Q)) = false ->
  fold_left append_token Q (mkT d [] P P) = mkT d [] (P ++ Q) (P ++ Q) /\ tok_of (P ++ Q) = None.
Proof.
  induction Q as [|c Q IH]; intros d P HP Hc Hw.
  - cbn [fold_left]. now rewrite app_nil_r.
  - cbn [prefixes map existsb] in Hw. apply orb_false_elim in Hw. destruct Hw as [Hw1 Hw2].
    rewrite is_word_tok in Hw1.
    assert (E1 : tok_of (P ++ [c]) = None) by (destruct (tok_of (P ++ [c])); [discriminate|reflexivity]).
    assert (E3 : tok_of [c] = None) by (apply Hc; now left).
    cbn [fold_left]. unfold append_token at 2. cbn [t_done t_cand t_src t_bucket].
    rewrite E1, HP. unfold append_plain. rewrite E3. cbn [t_done t_cand t_src t_bucket].
    rewrite map_map in Hw2.
    rewrite (map_ext (fun x => P ++ c :: x) (app (P ++ [c]))) in Hw2
      by (intros x; now rewrite <- app_assoc).
    destruct (IH d (P ++ [c]) E1 (fun c' H' => Hc c' (or_intror H')) Hw2) as [F1 F2].
    rewrite <- !app_assoc in F1, F2. cbn [app] in F1, F2. now split.
Qed.

(* ---------- LKeyword: FINITE TABLE FACT — feeding the characters of any vocabulary word
   without delimiter/operator characters to append_token from the clean state leaves exactly
   that word's token as the candidate (checked by computation over the 152 entries) ---------- *)
Definition kw_ok (kv : list Z * Z) : bool :=
  let '(k, v) := kv in
  if existsb is_delim_or_op k then true else
  let t := fold_left append_token k (mkT [] [] [] []) in
  zeqb_list (t_done t) [] && zeqb_list (t_cand t) (token_bytes k v)
  && zeqb_list (t_src t) k && zeqb_list (t_bucket t) [].

Lemma kw_table_ok : forallb kw_ok basic_tokens = true.
Proof. vm_compute. reflexivity. Qed.

Lemma keyword_run K v d : tok_of K = Some v -> existsb is_delim_or_op K = false ->
  fold_left append_token K (fresh d) = mkT d (token_bytes K v) K [].
Proof.
  intros H Hd. pose proof kw_table_ok as T. rewrite forallb_forall in T.
  specialize (T (K, v) (lookup_In _ _ _ H)). unfold kw_ok in T. rewrite Hd in T. cbn zeta in T.
  apply andb_prop in T. destruct T as [T T4]. apply andb_prop in T. destruct T as [T T3].
  apply andb_prop in T. destruct T as [T1 T2].
  apply zeqb_list_true in T1, T2, T3, T4.
  change (fresh d) with (mkT d [] [] []).
  replace (mkT d [] [] []) with (pre d (mkT [] [] [] [])) by (unfold pre; cbn; now rewrite app_nil_r).
  rewrite pre_fold. destruct (fold_left append_token K (mkT [] [] [] [])) as [a b c e].
  cbn [t_done t_cand t_src t_bucket] in *. subst. unfold pre. cbn. now rewrite app_nil_r.
Qed.

(* ---------- delimiters and operators ---------- *)
Lemma utf8_one c : c < 128 -> utf8 [c] = [c].
Proof. intros H. apply utf8_ascii. constructor; [exact H|constructor]. Qed.

Lemma commit_plain t s c : c < 128 ->
  commit (append_plain t s c) =
  fresh (out t ++ match tok_of [c] with Some v => code_bytes v | None => [c] end).
Proof.
  intros Hc. unfold append_plain. destruct (tok_of [c]) as [v|] eqn:E.
  - unfold commit, fresh, out. cbn [t_done t_cand t_src t_bucket utf8 flat_map app].
    rewrite bytes_from_uint_code by (pose proof (tok_range _ _ E); lia).
    now rewrite !app_nil_r, <- !app_assoc.
  - unfold commit, fresh, out. cbn [t_done t_cand t_src t_bucket].
    rewrite utf8_app, utf8_one by exact Hc. now rewrite <- !app_assoc.
Qed.

Definition isfresh (t : tctx) : Prop := t_cand t = [] /\ t_src t = [] /\ t_bucket t = [].
Definition pend (t : tctx) : Prop := t_src t <> [] /\ tok_of (t_bucket t) = None.

Lemma long_word_no_delim s c : s <> [] -> is_delim_or_op c = true -> tok_of (s ++ [c]) = None.
Proof.
  intros Hs Hc. destruct (tok_of (s ++ [c])) as [v|] eqn:E; [|reflexivity].
  apply tok_shape in E. destruct s as [|a s]; [congruence|]. cbn [app] in E.
  destruct (s ++ [c]) as [|b r] eqn:E2; [apply app_eq_nil in E2; destruct E2; discriminate|].
  rewrite <- E2 in E. change (a :: s ++ [c]) with ((a :: s) ++ [c]) in E.
  rewrite existsb_app in E. cbn [existsb] in E. rewrite Hc in E.
  rewrite orb_true_r in E. discriminate.
Qed.

Lemma delim_step t c : is_delim_or_op c = true -> isfresh t \/ pend t ->
  commit (append_token t c) = fresh (out t ++ lex_encode (LDelim c)).
Proof.
  intros Hc Ht. pose proof (delim_or_op_lt _ Hc) as Hlt.
  cbn [lex_encode]. rewrite <- tok_of_code. unfold append_token.
  destruct Ht as [(Hcd & Hs & Hb)|(Hs & Hb)].
  - rewrite Hs, Hb. cbn [app]. destruct (tok_of [c]) as [v|] eqn:E.
    + unfold commit, fresh, out. cbn [t_done t_cand t_src t_bucket utf8 flat_map].
      rewrite Hcd, Hb. cbn [utf8 flat_map app]. rewrite (one_char_no_colon _ _ E).
      rewrite bytes_from_uint_code by (pose proof (tok_range _ _ E); lia).
      now rewrite !app_nil_r.
    + rewrite tok_of_nil. rewrite commit_plain by lia. now rewrite E.
  - rewrite long_word_no_delim by assumption. rewrite Hb. apply commit_plain. lia.
Qed.

Lemma delim_is_special_or_token c : is_delim_or_op c = true ->
  is_special c || is_one_char_token c = true /\ (c =? 34) = false.
Proof.
  unfold is_delim_or_op. intros H. apply existsb_exists in H. destruct H as (x & Hx & E).
  assert (c = x) by lia. subst x. unfold delim_chars, operator_chars in Hx. cbn [app In] in Hx.
  repeat (destruct Hx as [Hx|Hx]; [subst c; split; vm_compute; reflexivity|]). destruct Hx.
Qed.

Lemma parse_char_delim t c : is_delim_or_op c = true -> isfresh t \/ pend t ->
  parse_char (t, false) c = (fresh (out t ++ lex_encode (LDelim c)), false).
Proof.
  intros Hc Ht. destruct (delim_is_special_or_token _ Hc) as [H1 H2].
  unfold parse_char. rewrite H2, H1. now rewrite delim_step.
Qed.

(* ---------- string literals ---------- *)
Lemma tok_of_quote : tok_of [34] = None.
Proof.
  destruct (tok_of [34]) as [v|] eqn:E; [|reflexivity]. apply tok_no_quote in E. discriminate.
Qed.

Lemma quote_open t : parse_char (t, false) 34 = (fresh (out t ++ [34]), true).
Proof.
  unfold parse_char. change (34 =? 34) with true. cbn [negb].
  unfold append_literal, commit, fresh, out. cbn [t_done t_cand t_src t_bucket utf8 flat_map app].
  reflexivity.
Qed.

Lemma quote_close d s : parse_char (mkT d [] s s, true) 34 = (fresh (d ++ utf8 s ++ [34]), false).
Proof.
  unfold parse_char. change (34 =? 34) with true. cbn [negb].
  change (commit (mkT d [] s s)) with (mkT (d ++ utf8 s) [] [] []).
  unfold append_token. cbn [t_done t_cand t_src t_bucket app].
  rewrite tok_of_quote, tok_of_nil. rewrite commit_plain by lia. rewrite tok_of_quote.
  unfold out. cbn [t_done t_cand t_src t_bucket app utf8 flat_map]. now rewrite app_nil_r, <- app_assoc.
Qed.

Lemma lit_run s : forall d a, forallb (fun c => printable c && negb (c =? 34)) s = true ->
  fold_left parse_char s (mkT d [] a a, true) = (mkT d [] (a ++ s) (a ++ s), true).
Proof.
  induction s as [|c s IH]; intros d a H.
  - cbn [fold_left]. now rewrite app_nil_r.
  - cbn [forallb] in H. apply andb_prop in H. destruct H as [Hc Hs].
    apply andb_prop in Hc. destruct Hc as [_ Hc]. apply negb_true_iff in Hc.
    cbn [fold_left]. unfold parse_char at 2. rewrite Hc. unfold append_literal.
    cbn [t_done t_cand t_src t_bucket]. rewrite IH by exact Hs. now rewrite <- !app_assoc.
Qed.

Lemma printable_lt s : forallb (fun c => printable c && negb (c =? 34)) s = true ->
  Forall (fun c => c < 128) s.
Proof.
  intros H. rewrite forallb_forall in H. apply Forall_forall. intros c Hc.
  specialize (H c Hc). unfold printable in H. lia.
Qed.

(* ---------- the run over a delimited lexeme list ---------- *)
Definition state_ok (t : tctx) (lx : list lexeme) : Prop :=
  isfresh t \/ (pend t /\ match lx with y :: _ => is_wordlike y = false | [] => True end).

Lemma isfresh_fresh d : isfresh (fresh d).
Proof. now repeat split. Qed.

Lemma isfresh_eq t : isfresh t -> t = fresh (t_done t).
Proof. destruct t as [d c s b]. intros (H1 & H2 & H3). cbn in *. now subst. Qed.

Lemma text_chars_upper s : forallb text_char s = true -> forallb text_char (upper_ascii s) = true.
Proof.
  induction s as [|c s IH]; [reflexivity|]. cbn [forallb upper_ascii map]. intros H.
  apply andb_prop in H. destruct H as [Hc Hs]. rewrite text_char_upper by exact Hc. now apply IH.
Qed.

Lemma text_chars_lt s : forallb text_char s = true -> Forall (fun c => c < 128) s.
Proof.
  intros H. rewrite forallb_forall in H. apply Forall_forall. intros c Hc.
  destruct (text_char_facts _ (H c Hc)) as (_ & _ & Hr). lia.
Qed.

Lemma text_chars_no_delim s : forallb text_char s = true -> existsb is_delim_or_op s = false.
Proof.
  induction s as [|c s IH]; [reflexivity|]. cbn [forallb existsb]. intros H.
  apply andb_prop in H. destruct H as [Hc Hs].
  destruct (text_char_facts _ Hc) as (_ & Hd & _). now rewrite Hd, IH.
Qed.

Lemma run_lex lx : forall t, lex_delimited lx = true -> state_ok t lx ->
  t_done (commit (fst (fold_left parse_char (ref_source lx) (t, false)))) = out t ++ ref_encode lx.
Proof.
  induction lx as [|x r IH]; intros t Hl Hst.
  - cbn [ref_source ref_encode flat_map fold_left fst]. rewrite commit_fresh. cbn [fresh t_done].
    now rewrite app_nil_r.
  - cbn [lex_delimited] in Hl. apply andb_prop in Hl. destruct Hl as [Hl Hr].
    apply andb_prop in Hl. destruct Hl as [Hx Hnext].
    cbn [ref_source ref_encode flat_map]. fold (ref_source r). fold (ref_encode r).
    rewrite fold_left_app.
    destruct x as [w|s|s closed|c].
    + (* keyword *)
      cbn [lex_ok] in Hx. apply andb_prop in Hx. destruct Hx as [Hx Hw3].
      apply andb_prop in Hx. destruct Hx as [Hw1 _].
      destruct Hst as [Hf|[_ Hn]]; [|discriminate].
      rewrite (isfresh_eq _ Hf). cbn [lex_source lex_encode].
      rewrite fold_text by exact Hw3.
      rewrite is_word_tok in Hw1. destruct (tok_of (upper_ascii w)) as [v|] eqn:E; [|discriminate].
      rewrite <- tok_of_code, E.
      rewrite (keyword_run _ v) by (try exact E; apply text_chars_no_delim; now apply text_chars_upper).
      rewrite IH; [| exact Hr |].
      * unfold out, fresh. cbn [t_done t_cand t_src t_bucket utf8 flat_map].
        rewrite (token_bytes_word _ _ E). now rewrite !app_nil_r, <- !app_assoc.
      * right. split.
        -- split; cbn [t_src t_bucket]; [|apply tok_of_nil].
           intros Hk. rewrite Hk in E. rewrite tok_of_nil in E. discriminate.
        -- destruct r as [|y r']; [exact I|]. now apply negb_true_iff in Hnext.
    + (* text run *)
      cbn [lex_ok] in Hx. apply andb_prop in Hx. destruct Hx as [Hx Hs3].
      apply andb_prop in Hx. destruct Hx as [Hs1 Hs2]. apply negb_true_iff in Hs3.
      destruct Hst as [Hf|[_ Hn]]; [|discriminate].
      rewrite (isfresh_eq _ Hf). cbn [lex_source lex_encode].
      rewrite fold_text by exact Hs2.
      pose proof (text_chars_upper _ Hs2) as Hu.
      destruct (text_run (upper_ascii s) (t_done t) [] tok_of_nil) as [F1 F2].
      { intros c Hc. rewrite forallb_forall in Hu. apply not_op_no_token.
        now destruct (text_char_facts _ (Hu c Hc)) as (_ & Hd & _). }
      { rewrite (map_ext (app []) (fun x => x)) by reflexivity. now rewrite map_id. }
      cbn [app] in F1, F2. unfold fresh. rewrite F1.
      rewrite IH; [| exact Hr |].
      * unfold out. cbn [t_done t_cand t_src t_bucket utf8 flat_map app].
        rewrite utf8_ascii by now apply text_chars_lt. now rewrite !app_nil_r, <- !app_assoc.
      * right. split.
        -- split; cbn [t_src t_bucket]; [|exact F2].
           destruct s as [|c s]; [discriminate|]. discriminate.
        -- destruct r as [|y r']; [exact I|]. now apply negb_true_iff in Hnext.
    + (* string literal *)
      cbn [lex_ok] in Hx. cbn [lex_source lex_encode].
      cbn [fold_left app]. rewrite quote_open. rewrite fold_left_app.
      unfold fresh at 1. rewrite (lit_run s _ [] Hx). cbn [app].
      pose proof (utf8_ascii s (printable_lt _ Hx)) as Hu8.
      destruct closed.
      * cbn [fold_left]. rewrite quote_close, Hu8. rewrite IH; [|exact Hr|left; apply isfresh_fresh].
        rewrite out_fresh. now rewrite <- !app_assoc.
      * destruct r as [|y r']; [|discriminate].
        cbn [fold_left ref_source ref_encode flat_map fst]. unfold commit. cbn [t_done t_cand t_bucket].
        rewrite Hu8. cbn [app]. now rewrite !app_nil_r, <- !app_assoc.
    + (* delimiter / operator *)
      cbn [lex_ok] in Hx. cbn [lex_source fold_left].
      rewrite parse_char_delim; [|exact Hx|destruct Hst as [Hf|[Hp _]]; [now left|now right]].
      rewrite IH; [|exact Hr|left; apply isfresh_fresh].
      rewrite out_fresh. now rewrite <- !app_assoc.
Qed.

Lemma parse_line_ref lx : lex_delimited lx = true -> parse_line (ref_source lx) = ref_encode lx.
Proof.
  intros H. unfold parse_line. rewrite (run_lex lx tctx0 H).
  - reflexivity.
  - left. now repeat split.
Qed.
