(* Proofs/TapeForeignState.v — a third-party tape, from effects to the state of the destination. *)
From Coq Require Import ZArith List Bool Lia.
Require Import PyBase Tape K7 TapeProofs TapeStateProofs EffectState.
Import ListNotations.
Open Scope Z_scope.

(* TOP (C08): a tape the tools did not write, extracted over any earlier state of the destination:
   every file the tape encodes is then read back with exactly its bytes under its (stripped,
   separator-free) name - provided no two files of the tape claim one path *)
Theorem tape_third_party_directory :
  forall (raw : list Z) (files : list k7_file) (v : bool) (into : option (list Z)) (arch : list Z) (fs0 : fsmap),
  K7 raw files -> forallb k7_file_ok files = true ->
  forallb (no_nul_path (TapeProofs.target_of into arch)) files = true ->
  NoDup (write_paths (o_effects (tar_extract v into arch raw))) ->
  forall f : k7_file, In f files ->
    fs_read (apply_effects fs0 (o_effects (tar_extract v into arch raw)))
            (path_join (TapeProofs.target_of into arch) (safe_label (k7_leader f))) = Some (k_content f).
Proof.
  intros raw files v into arch fs0 HK Hok Hnn Hnd f Hf.
  destruct (tape_third_party_read raw files v into arch HK Hok Hnn) as [_ Hx].
  rewrite Hx in Hnd |- *. cbn [o_effects] in Hnd |- *.
  apply read_unique_write; [exact Hnd|].
  apply in_or_app. right. apply in_map_iff. exists f. split; [reflexivity|exact Hf].
Qed.
