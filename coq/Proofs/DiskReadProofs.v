(* Proofs/DiskReadProofs.v — reading side (C07) and hostile images (disk half of C18).  TOP statements are fixed. *)
From Coq Require Import ZArith List Bool Lia ZifyBool.
Require Import PyBase GenDisk DiskFacts Disk ThomsonDos PyFacts DiskDefs.
Require Import DiskFactsRead DReadBase DReadChain DReadSafe DReadExact.
Import ListNotations.
Open Scope Z_scope.
Ltac Zify.zify_post_hook ::= Z.to_euclidean_division_equations.

(* TOP: on a well-formed side the controller reads exactly what the independent decoder reads *)
Theorem list_files_exact : forall sd : side,
  tool_readable sd = true -> names_printable sd = true ->
  exists (es : list centry) (fs : list dos_file),
    list_files sd = Ok es /\ dos_files sd = Some fs /\ length es = length fs /\
    Forall2 (fun e f =>
      ce_status e = entry_ALIVE /\ entry_name e = d_name f /\ entry_ext e = d_ext f /\
      entry_kind e = kind_shown (d_kind f) /\ entry_is_ascii e = (d_flag f =? 255) /\
      ce_blocks e = d_blocks f /\ entry_size_blocks e = zlen (d_blocks f) /\
      entry_size_bytes e = zlen (d_content f) /\ entry_decodable e = true /\
      read_file sd e = Ok (d_content f) /\ extracted_name e = dos_label f) es fs.
Proof.
  intros sd Ht Hn. destruct (list_files_strong sd Ht Hn) as (es & fs & Hl & Hd & HF & _).
  exists es, fs. split; [exact Hl|]. split; [exact Hd|]. split; [eapply Forall2_len; exact HF|].
  eapply Forall2_weaken; [|exact HF]. intros e f [H _]. exact H.
Qed.

(* TOP (C07): any well-formed image is listed and extracted exactly *)
Theorem disk_read_exact : forall (is_fd v : bool) (raw : list Z) (img : image) (into : option (list Z)) (arch : list Z),
  load_image is_fd raw = Ok img ->
  forallb tool_readable img = true -> forallb names_printable img = true ->
  existsb (Z.eqb 0) (target_of into arch) = false ->
  exists files : list (list dos_file),
    map dos_files img = map Some files /\
    d_status (disk_extract is_fd v into arch raw) = 0 /\ d_crash (disk_extract is_fd v into arch raw) = None /\
    d_effects (disk_extract is_fd v into arch raw) = flat_map (side_effects (target_of into arch)) (indexed files) /\
    d_log (disk_extract is_fd v into arch raw) = flat_map side_log (indexed files) /\
    d_status (disk_list is_fd v raw) = 0 /\ d_crash (disk_list is_fd v raw) = None /\
    d_effects (disk_list is_fd v raw) = [] /\
    d_log (disk_list is_fd v raw) = flat_map side_log_listed (indexed files).
Proof.
  intros is_fd v raw img into arch Hload Ht Hn Hnul.
  destruct (image_files img Ht Hn) as (files & Hm & HF). exists files. split; [exact Hm|].
  unfold disk_extract, disk_list. rewrite Hload. cbv zeta. fold (target_of into arch). unfold indexed.
  match goal with |- context [read_sides v true PExtracting _ img 0 dlst0 ?pre [] []] =>
    destruct (read_sides_exact v true PExtracting (target_of into arch) Hnul img files HF 0 dlst0 pre [] [])
      as (E1 & E2 & E3 & E4) end.
  destruct (read_sides_exact v false PListing [] eq_refl img files HF 0 dlst0 [] [] []) as (L1 & L2 & L3 & L4).
  repeat split; assumption.
Qed.

(* TOP (C18): the chain walk never runs out of its fuel, whatever the table holds, and a chain
   never holds more blocks than the table *)
Theorem chain_walk_bounded : forall (bat : list Z) (first : Z),
  (length bat <= 160)%nat ->
  chain_of bat first <> Err EOther /\
  (forall bs, chain_of bat first = Ok bs -> (length bs <= 160)%nat /\ NoDup bs).
Proof.
  intros bat first Hlen.
  destruct (chain_of_inv bat first Hlen) as [E|(bs & E & Hnd & _ & Hl)]; rewrite E.
  - split; [discriminate|intros bs' H; discriminate].
  - split; [discriminate|]. intros bs' H. injection H as <-. auto.
Qed.

Theorem disk_reads_terminate : forall (is_fd v : bool) (raw : list Z) (into : option (list Z)) (arch : list Z),
  d_crash (disk_list is_fd v raw) <> Some EOther /\ d_crash (disk_extract is_fd v into arch raw) <> Some EOther.
Proof.
  intros is_fd v raw into arch. unfold disk_list, disk_extract.
  destruct (load_image is_fd raw) as [img|e] eqn:El.
  - pose proof (load_image_le4 _ _ _ El) as H4. split.
    + apply (read_sides_inv v false PListing [] img 0); [cbn; lia|constructor].
    + apply (read_sides_inv v true PExtracting _ img 0); [cbn; lia|constructor].
  - unfold crashed. cbn [d_crash]. unfold load_image in El. destruct raw as [|r0 raw]; [discriminate|].
    cbv zeta in El.
    destruct (if is_fd then load_reject_fd _ else load_reject_sd _); [injection El as <-; split; discriminate|].
    destruct (load_reject_partial _ _ _); [injection El as <-; split; discriminate|discriminate].
Qed.

(* TOP (C18): what readFile allocates is bounded by the size of a side, whatever the catalogue says *)
(* the payloads must be bytes (hypothesis added with the coordinator's agreement): with arbitrary Z in the
   sectors the bound fails, e.g. table 0 -> 1 -> 0 (cycle) and a live entry whose byte 14 is 3000 give a
   buffer of 769785 > 720896 bytes (the last block's status is not a 'last' status, nothing truncates) *)
Theorem read_buffer_bounded : forall (sd : side) (es : list centry) (e : centry) (data : list Z),
  Forall (fun s => (length s <= 256)%nat) sd ->
  Forall (fun s => bytesb s = true) sd ->
  list_files sd = Ok es -> In e es -> read_file sd e = Ok data ->
  zlen data <= 160 * 8 * 256 + 65536 + 160 * 8 * 256.
Proof. exact read_buffer_bound. Qed.

(* TOP (C18): extract creates or modifies files only inside the destination's sideN directories *)
Theorem disk_extract_confined : forall (is_fd v : bool) (into : option (list Z)) (arch raw : list Z) (e : effect),
  In e (d_effects (disk_extract is_fd v into arch raw)) ->
  exists i : nat, (i < 4)%nat /\
    (e = MkDir (side_dir (target_of into arch) i) \/
     exists l c, e = WriteFile (path_join (side_dir (target_of into arch) i) l) c /\
                 existsb (Z.eqb 47) l = false /\ existsb (Z.eqb 0) l = false).
Proof.
  intros is_fd v into arch raw e. unfold disk_extract.
  destruct (load_image is_fd raw) as [img|er] eqn:El; [|unfold crashed; cbn [d_effects]; intros []].
  pose proof (load_image_le4 _ _ _ El) as H4. fold (target_of into arch).
  match goal with |- In e (d_effects ?r) -> _ => assert (Hall : Forall (ok_eff (target_of into arch)) (d_effects r)) end.
  { apply read_sides_inv; [cbn; lia|constructor]. }
  intros Hin. rewrite Forall_forall in Hall. exact (Hall e Hin).
Qed.

Print Assumptions list_files_exact.
Print Assumptions disk_read_exact.
Print Assumptions chain_walk_bounded.
Print Assumptions disk_reads_terminate.
Print Assumptions read_buffer_bounded.
Print Assumptions disk_extract_confined.
