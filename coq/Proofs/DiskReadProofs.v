(* Proofs/DiskReadProofs.v — reading side (C07) and hostile images (disk half of C18).  TOP statements are fixed. *)
From Coq Require Import ZArith List Bool Lia ZifyBool.
Require Import PyBase GenDisk DiskFacts Disk ThomsonDos PyFacts DiskDefs.
Import ListNotations.
Open Scope Z_scope.
Ltac Zify.zify_post_hook ::= Z.to_euclidean_division_equations.

(* TOP: on a well-formed side the controller reads exactly what the independent decoder reads *)
Theorem list_files_exact : forall sd : side,
  tool_readable sd = true -> names_printable sd = true ->
  exists (es : list centry) (fs : list dos_file),
    list_files sd = Ok es /\ dos_files sd = Some fs /\ length es = length fs /\
    Forall2 (fun e f =>
      ce_status e = entry_ALIVE /\ entry_name e = d_name f /\ entry_ext e = d_ext f /\
      entry_kind e = kind_shown (d_kind f) /\ entry_is_ascii e = (d_flag f =? 255) /\
      ce_blocks e = d_blocks f /\ entry_size_blocks e = zlen (d_blocks f) /\
      entry_size_bytes e = zlen (d_content f) /\ entry_decodable e = true /\
      read_file sd e = Ok (d_content f) /\ extracted_name e = dos_label f) es fs.
Admitted.

(* TOP (C07): any well-formed image is listed and extracted exactly *)
Theorem disk_read_exact : forall (is_fd v : bool) (raw : list Z) (img : image) (into : option (list Z)) (arch : list Z),
  load_image is_fd raw = Ok img ->
  forallb tool_readable img = true -> forallb names_printable img = true ->
  existsb (Z.eqb 0) (target_of into arch) = false ->
  exists files : list (list dos_file),
    map dos_files img = map Some files /\
    d_status (disk_extract is_fd v into arch raw) = 0 /\ d_crash (disk_extract is_fd v into arch raw) = None /\
    d_effects (disk_extract is_fd v into arch raw) = flat_map (side_effects (target_of into arch)) (indexed files) /\
    d_log (disk_extract is_fd v into arch raw) = flat_map side_log (indexed files) /\
    d_status (disk_list is_fd v raw) = 0 /\ d_crash (disk_list is_fd v raw) = None /\
    d_effects (disk_list is_fd v raw) = [] /\
    d_log (disk_list is_fd v raw) = flat_map side_log_listed (indexed files).
Admitted.

(* TOP (C18): the chain walk never runs out of its fuel, whatever the table holds, and a chain
   never holds more blocks than the table *)
Theorem chain_walk_bounded : forall (bat : list Z) (first : Z),
  (length bat <= 160)%nat ->
  chain_of bat first <> Err EOther /\
  (forall bs, chain_of bat first = Ok bs -> (length bs <= 160)%nat /\ NoDup bs).
Admitted.

Theorem disk_reads_terminate : forall (is_fd v : bool) (raw : list Z) (into : option (list Z)) (arch : list Z),
  d_crash (disk_list is_fd v raw) <> Some EOther /\ d_crash (disk_extract is_fd v into arch raw) <> Some EOther.
Admitted.

(* TOP (C18): what readFile allocates is bounded by the size of a side, whatever the catalogue says *)
Theorem read_buffer_bounded : forall (sd : side) (es : list centry) (e : centry) (data : list Z),
  Forall (fun s => (length s <= 256)%nat) sd ->
  list_files sd = Ok es -> In e es -> read_file sd e = Ok data ->
  zlen data <= 160 * 8 * 256 + 65536 + 160 * 8 * 256.
Admitted.

(* TOP (C18): extract creates or modifies files only inside the destination's sideN directories *)
Theorem disk_extract_confined : forall (is_fd v : bool) (into : option (list Z)) (arch raw : list Z) (e : effect),
  In e (d_effects (disk_extract is_fd v into arch raw)) ->
  exists i : nat, (i < 4)%nat /\
    (e = MkDir (side_dir (target_of into arch) i) \/
     exists l c, e = WriteFile (path_join (side_dir (target_of into arch) i) l) c /\
                 existsb (Z.eqb 47) l = false /\ existsb (Z.eqb 0) l = false).
Admitted.
