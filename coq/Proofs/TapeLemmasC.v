(* Proofs/TapeLemmasC.v — conformance of file images: the strict decoder inverts them, they
   satisfy K7, and the entries built from readable sources are well-formed files. *)
From Coq Require Import ZArith List Bool Lia ZifyBool.
Require Import PyBase GenTape TapeFacts Tape K7 PyFacts TapeLemmas1 TapeLemmas2 TapeLemmasW.
Import ListNotations.
Open Scope Z_scope.
Ltac Zify.zify_post_hook ::= Z.to_euclidean_division_equations.

Lemma starts_with_app a b : starts_with a (a ++ b) = true.
Proof. induction a as [|x a IH]; cbn [app starts_with]; [reflexivity|]. now rewrite Z.eqb_refl, IH. Qed.

Lemma ck_ok_ck_of p : ck_ok p (ck_of p) = true.
Proof. unfold ck_ok, ck_of. generalize (sum_bytes p). intros s. lia. Qed.

Lemma k7_block_shape ty p rest :
  k7_block ty p ++ rest = strict_prefix ++ ty :: (zlen p + 2) mod 256 :: (p ++ ck_of p :: rest).
Proof. unfold k7_block, strict_prefix. rewrite <- !app_assoc. cbn [app]. reflexivity. Qed.

Lemma parse_block_k7 ty p rest : zlen p <= 254 -> bytesb p = true -> byteb ty = true ->
  parse_block (k7_block ty p ++ rest) = Some (ty, p, rest).
Proof.
  intros Hl Hb Ht. pose proof (zlen_nonneg p) as Hp.
  rewrite k7_block_shape. unfold parse_block. rewrite starts_with_app.
  rewrite skipn_exact by reflexivity.
  set (lb := (zlen p + 2) mod 256).
  assert (Hn : (if lb =? 0 then 256 else lb) = zlen p + 2) by (unfold lb; destruct (_ =? 0) eqn:E; lia).
  rewrite Hn.
  assert (Hc : (2 <=? zlen p + 2) && (zlen p + 2 - 2 <=? 254) && byteb ty && byteb lb = true).
  { rewrite Ht. unfold byteb, lb. lia. }
  rewrite Hc.
  assert (Hk : Z.to_nat (zlen p + 2 - 2) = length p) by (unfold zlen; lia).
  rewrite Hk, firstn_exact, skipn_exact by reflexivity.
  rewrite Hb, ck_ok_ck_of.
  assert (He : (zlen p =? zlen p + 2 - 2) = true) by lia. rewrite He. reflexivity.
Qed.

Definition chunk_ok (c : list Z) : bool := bytesb c && (zlen c <=? 254).

Lemma parse_data_blocks R : forall cs acc fuel, (length cs < fuel)%nat -> forallb chunk_ok cs = true ->
  parse_data fuel (concat (map (k7_block 1) cs) ++ k7_end_block ++ R) acc = Some (rev acc ++ cs, R).
Proof.
  induction cs as [|c cs IH]; intros acc fuel Hf Hok; (destruct fuel as [|fuel]; [lia|]); cbn [parse_data map concat].
  - cbn [app]. rewrite k7_end_block_is, parse_block_k7 by (try reflexivity; cbn; lia).
    cbv beta iota. now rewrite app_nil_r.
  - cbn [forallb] in Hok. apply andb_prop in Hok. destruct Hok as [Hc Hcs].
    unfold chunk_ok in Hc. apply andb_prop in Hc. destruct Hc as [Hcb Hcl].
    rewrite <- app_assoc, parse_block_k7 by (try reflexivity; try assumption; lia).
    cbv beta iota. rewrite IH by (try assumption; cbn [length] in Hf; lia).
    cbn [rev]. now rewrite <- app_assoc.
Qed.

Lemma length_data_blocks cs : (length cs <= length (concat (map (k7_block 1) cs)))%nat.
Proof.
  induction cs as [|c cs IH]; [cbn; lia|]. cbn [map concat length]. rewrite app_length.
  pose proof (zlen_k7_block 1 c) as H. pose proof (zlen_nonneg c). unfold zlen in *. lia.
Qed.

(* the part of k7_file_ok that the format itself needs *)
Lemma file_ok_parts f : k7_file_ok f = true ->
  zlen (k_name f) = 8 /\ zlen (k_ext f) = 3 /\
  forallb (fun c => (0 <=? c) && (c <? 128)) (k_name f ++ k_ext f) = true /\
  byteb (k_kind f) = true /\ 0 <= k_mode f < 65536 /\ forallb chunk_ok (k_chunks f) = true.
Proof.
  unfold k7_file_ok. intros H.
  repeat (apply andb_prop in H; let H' := fresh "H" in destruct H as [H H']).
  repeat split; try assumption; lia.
Qed.

Lemma file_ok_payload f : k7_file_ok f = true ->
  zlen (k7_leader_payload f) = 14 /\ bytesb (k7_leader_payload f) = true.
Proof.
  intros H. destruct (file_ok_parts f H) as (Hn & He & H7 & Hk & Hm & _).
  unfold k7_leader_payload. split.
  - rewrite !zlen_app, Hn, He. reflexivity.
  - unfold bytesb. rewrite app_assoc, forallb_app. apply andb_true_intro. split.
    + revert H7. apply forallb_impl. intros x. unfold byteb. lia.
    + cbn [forallb]. rewrite Hk. unfold byteb. lia.
Qed.

Lemma parse_file_image f R : k7_file_ok f = true -> parse_file (k7_file_image f ++ R) = Some (f, R).
Proof.
  intros Hok. destruct (file_ok_payload f Hok) as [Hl Hb].
  destruct (file_ok_parts f Hok) as (Hn & He & _ & _ & Hm & Hcs).
  unfold parse_file, k7_file_image. rewrite <- !app_assoc.
  rewrite parse_block_k7 by (try reflexivity; try assumption; lia).
  cbv beta iota. rewrite Hl. change (14 =? 14) with true. cbv iota.
  rewrite parse_data_blocks; [|rewrite !app_length; pose proof (length_data_blocks (k_chunks f)); lia|exact Hcs].
  cbn [rev app]. f_equal. f_equal.
  destruct f as [nm ex kind mode chunks]. unfold k7_leader_payload. cbn [k_name k_ext k_kind k_mode k_chunks] in *.
  unfold zlen in Hn, He.
  destruct nm as [|n1 [|n2 [|n3 [|n4 [|n5 [|n6 [|n7 [|n8 [|n9 nm]]]]]]]]]; cbn [length] in Hn; try lia.
  destruct ex as [|e1 [|e2 [|e3 [|e4 ex]]]]; cbn [length] in He; try lia.
  cbn [app firstn skipn nth]. f_equal. lia.
Qed.

Lemma file_image_head f R : exists X, k7_file_image f ++ R = 1 :: X.
Proof. eexists. reflexivity. Qed.

Lemma length_images fs : (length fs <= length (concat (map k7_file_image fs)))%nat.
Proof.
  induction fs as [|f fs IH]; [cbn; lia|]. cbn [map concat length]. rewrite app_length.
  destruct (file_image_head f []) as (X & HX). rewrite app_nil_r in HX. rewrite HX. cbn [length]. lia.
Qed.

Lemma parse_files_images Zs : forallb (fun c => c =? 0) Zs = true ->
  forall fs acc fuel, (length fs < fuel)%nat -> forallb k7_file_ok fs = true ->
  parse_files fuel (concat (map k7_file_image fs) ++ Zs) acc = Some (rev acc ++ fs).
Proof.
  intros HZ. induction fs as [|f fs IH]; intros acc fuel Hf Hok; (destruct fuel as [|fuel]; [lia|]);
    cbn [parse_files map concat].
  - cbn [app]. rewrite HZ. now rewrite app_nil_r.
  - cbn [forallb] in Hok. apply andb_prop in Hok. destruct Hok as [Hok1 Hok2].
    rewrite <- app_assoc. destruct (file_image_head f (concat (map k7_file_image fs) ++ Zs)) as (X & HX).
    rewrite HX. cbn [forallb]. change (1 =? 0) with false. cbn [andb]. rewrite <- HX.
    rewrite parse_file_image by exact Hok1. rewrite IH by (try assumption; cbn [length] in Hf; lia).
    cbn [rev]. now rewrite <- app_assoc.
Qed.

Lemma k7_decode_images fs k : forallb k7_file_ok fs = true ->
  k7_decode (concat (map k7_file_image fs) ++ repeat 0 k) = Some fs.
Proof.
  intros Hok. unfold k7_decode. rewrite parse_files_images; [reflexivity| | |exact Hok].
  - now apply forallb_repeat.
  - rewrite app_length. pose proof (length_images fs). lia.
Qed.

(* ---------- K7 ---------- *)
Lemma contains_zeros k : contains marker5 (repeat 0 k) = false.
Proof. induction k as [|k IH]; [reflexivity|]. cbn [repeat contains]. rewrite IH. reflexivity. Qed.

Lemma K7_block_cons ty p rest bs : zlen p <= 254 -> bytesb p = true -> byteb ty = true ->
  K7_blocks rest bs -> K7_blocks (k7_block ty p ++ rest) ((ty, p) :: bs).
Proof.
  intros Hl Hb Ht Hr.
  replace (k7_block ty p ++ rest) with ([] ++ repeat 1 16 ++ k7_marker ++ k7_body ty p ++ rest).
  - apply K7_cons; try assumption; [reflexivity|lia].
  - unfold k7_block, k7_body. rewrite <- !app_assoc. cbn [app]. reflexivity.
Qed.

Lemma K7_data_blocks rest bs : forall cs, forallb chunk_ok cs = true -> K7_blocks rest bs ->
  K7_blocks (concat (map (k7_block 1) cs) ++ rest) (map (fun c => (1, c)) cs ++ bs).
Proof.
  induction cs as [|c cs IH]; intros Hok Hr; [exact Hr|].
  cbn [forallb] in Hok. apply andb_prop in Hok. destruct Hok as [Hc Hcs].
  unfold chunk_ok in Hc. apply andb_prop in Hc. destruct Hc as [Hcb Hcl].
  cbn [map concat app]. rewrite <- app_assoc. apply K7_block_cons; try assumption; try reflexivity; try lia.
  now apply IH.
Qed.

Lemma K7_file_image f rest bs : k7_file_ok f = true -> K7_blocks rest bs ->
  K7_blocks (k7_file_image f ++ rest) (blocks_of_file f ++ bs).
Proof.
  intros Hok Hr. destruct (file_ok_payload f Hok) as [Hl Hb].
  destruct (file_ok_parts f Hok) as (_ & _ & _ & _ & _ & Hcs).
  unfold k7_file_image, blocks_of_file. rewrite <- !app_assoc. cbn [app].
  apply K7_block_cons; try assumption; try reflexivity; try lia.
  rewrite <- app_assoc. apply K7_data_blocks; [exact Hcs|]. cbn [app].
  rewrite k7_end_block_is. apply K7_block_cons; try reflexivity; try assumption. cbn; lia.
Qed.

Lemma K7_images fs k : forallb k7_file_ok fs = true -> K7 (concat (map k7_file_image fs) ++ repeat 0 k) fs.
Proof.
  unfold K7. induction fs as [|f fs IH]; intros Hok.
  - cbn [map concat app flat_map]. apply K7_nil. apply contains_zeros.
  - cbn [forallb] in Hok. apply andb_prop in Hok. destruct Hok as [Hok1 Hok2].
    cbn [map concat flat_map]. rewrite <- app_assoc. apply K7_file_image; [exact Hok1|]. now apply IH.
Qed.

(* ---------- entries built from readable sources ---------- *)
Lemma rfind_aux_none c : forall l i acc, rfind_aux c l i acc = None -> acc = None /\ existsb (Z.eqb c) l = false.
Proof.
  induction l as [|x l IH]; intros i acc H; cbn [rfind_aux existsb] in *; [auto|].
  apply IH in H. destruct H as [H1 H2]. rewrite H2.
  destruct (x =? c) eqn:E; [discriminate|]. split; [exact H1|]. lia.
Qed.
Lemma rfind_aux_some c : forall l i acc j, rfind_aux c l i acc = Some j ->
  (acc = Some j /\ existsb (Z.eqb c) l = false) \/
  ((i <= j)%nat /\ existsb (Z.eqb c) (skipn (S (j - i)) l) = false).
Proof.
  induction l as [|x l IH]; intros i acc j H; cbn [rfind_aux] in H.
  - left. auto.
  - apply IH in H. destruct H as [[H1 H2]|[H1 H2]].
    + destruct (x =? c) eqn:E.
      * inversion H1; subst. right. split; [lia|]. rewrite Nat.sub_diag. exact H2.
      * left. split; [exact H1|]. cbn [existsb]. rewrite H2. lia.
    + right. split; [lia|]. replace (j - i)%nat with (S (j - S i)) by lia. exact H2.
Qed.

Lemma basename_no_slash p : existsb (Z.eqb 47) (basename p) = false.
Proof.
  unfold basename, after_last_slash, rfind_char.
  destruct (rfind_aux 47 p 0 None) as [j|] eqn:E.
  - apply rfind_aux_some in E. destruct E as [[E _]|[_ E]]; [discriminate|].
    now rewrite Nat.sub_0_r in E.
  - apply rfind_aux_none in E. tauto.
Qed.

Definition okc (c : Z) : bool := name_char c && negb (c =? 47).

Lemma existsb_false_forallb {A} (p : A -> bool) l : existsb p l = false -> forallb (fun x => negb (p x)) l = true.
Proof.
  induction l as [|x l IH]; cbn [existsb forallb]; [easy|].
  intros H. apply orb_false_elim in H. destruct H as [H1 H2]. now rewrite H1, IH.
Qed.
Lemma forallb_and {A} (p q : A -> bool) l : forallb p l = true -> forallb q l = true ->
  forallb (fun x => p x && q x) l = true.
Proof.
  induction l as [|x l IH]; cbn [forallb]; [easy|]. intros H1 H2.
  apply andb_prop in H1. apply andb_prop in H2. destruct H1 as [-> H1], H2 as [-> H2]. now rewrite IH.
Qed.

Lemma basename_okc src : forallb name_char (basename src) = true -> forallb okc (basename src) = true.
Proof.
  intros H. unfold okc. apply forallb_and; [exact H|].
  pose proof (existsb_false_forallb _ _ (basename_no_slash src)) as H2.
  revert H2. apply forallb_impl. intros x. lia.
Qed.

Lemma okc_upper c : okc c = true -> okc (upper_char c) = true.
Proof. unfold okc, name_char, upper_char. destruct ((97 <=? c) && (c <=? 122)) eqn:E; lia. Qed.
Lemma forallb_okc_upper l : forallb okc l = true -> forallb okc (upper_ascii l) = true.
Proof. intros H. unfold upper_ascii. rewrite forallb_map. revert H. apply forallb_impl. apply okc_upper. Qed.

Lemma doc_fields src : forallb name_char (basename src) = true ->
  exists name ext0 ext kind mode, doc_split src = (name, ext0) /\ doc_kind_mode ext0 = (ext, kind, mode) /\
    forallb okc name = true /\ forallb okc ext = true /\ byteb kind = true /\ (mode = 0 \/ mode = 65535).
Proof.
  intros H. apply basename_okc in H.
  assert (Hs : exists name ext0, doc_split src = (name, ext0) /\ forallb okc name = true /\ forallb okc ext0 = true).
  { unfold doc_split. destruct (rfind_char 46 (basename src)) as [d|].
    - eexists; eexists. split; [reflexivity|]. split; apply forallb_okc_upper; [now apply forallb_firstn|now apply forallb_skipn].
    - eexists; eexists. split; [reflexivity|]. split; [now apply forallb_okc_upper|reflexivity]. }
  destruct Hs as (name & ext0 & Hs & Hn & He). exists name, ext0. unfold doc_kind_mode.
  destruct (zeqb_list ext0 [66;65;83;44;65]); [|destruct (zeqb_list ext0 [66;65;83]); [|destruct (zeqb_list ext0 [67;83;86])]];
    eexists; eexists; eexists; (split; [exact Hs|]); (split; [reflexivity|]); (split; [exact Hn|]);
    (split; [first [exact He|reflexivity]|]); (split; [reflexivity|]); auto.
Qed.

Lemma forallb_pad_field (p : Z -> bool) n s : forallb p s = true -> p 32 = true -> forallb p (pad_field n s) = true.
Proof.
  intros Hs H32. unfold pad_field. apply forallb_firstn. rewrite forallb_app, Hs. now apply forallb_repeat.
Qed.

Lemma chunks_of_ok fuel : forall l, bytesb l = true -> forallb chunk_ok (chunks_of fuel 254 l) = true.
Proof.
  induction fuel as [|fuel IH]; intros l Hl; [reflexivity|]. cbn [chunks_of].
  destruct l as [|x l]; [reflexivity|]. cbn [forallb]. rewrite IH by (now apply forallb_skipn).
  unfold chunk_ok. unfold bytesb in *. rewrite forallb_firstn by exact Hl.
  unfold zlen. rewrite firstn_length. cbn [andb]. lia.
Qed.

Lemma chunks_of_concat fuel : forall l, (length l < fuel)%nat -> concat (chunks_of fuel 254 l) = l.
Proof.
  induction fuel as [|fuel IH]; intros l Hl; [lia|]. cbn [chunks_of].
  destruct l as [|x l]; [reflexivity|]. cbn [concat]. rewrite IH; [apply firstn_skipn|].
  rewrite skipn_length. cbn [length] in *. lia.
Qed.

Lemma doc_entry_ok src c : forallb name_char (basename src) = true -> bytesb c = true ->
  k7_file_ok (doc_entry src c) = true.
Proof.
  intros Hb Hc. destruct (doc_fields src Hb) as (name & ext0 & ext & kind & mode & Hs & Hk & Hn & He & Hkb & Hm).
  unfold doc_entry. rewrite Hs, Hk. unfold k7_file_ok. cbn [k_name k_ext k_kind k_mode k_chunks].
  rewrite !zlen_pad_field. change (Z.of_nat 8 =? 8) with true. change (Z.of_nat 3 =? 3) with true. cbn [andb].
  assert (H7 : forall l, forallb okc l = true -> forallb (fun c => (0 <=? c) && (c <? 128)) l = true).
  { intros l. apply forallb_impl. intros x. unfold okc, name_char. lia. }
  rewrite forallb_app, !forallb_pad_field by (try reflexivity; now apply H7). cbn [andb]. rewrite Hkb. cbn [andb].
  fold chunk_ok. rewrite chunks_of_ok by exact Hc. destruct Hm as [-> | ->]; reflexivity.
Qed.

Lemma entries_ok fs srcs : forallb (src_readable fs) srcs = true ->
  forallb k7_file_ok (map (src_entry fs) srcs) = true.
Proof.
  induction srcs as [|src rest IH]; [reflexivity|]. cbn [forallb map]. intros H.
  apply andb_prop in H. destruct H as [H1 H2]. rewrite IH by exact H2.
  destruct (src_readable_read _ _ H1) as (c & _ & Hc & He & _ & Hb). rewrite He.
  now rewrite doc_entry_ok.
Qed.
