(* Proofs/BasicLemmasB.v — the token table (finite facts), atoms and the detokenizer (C14). *)
From Coq Require Import ZArith List Bool Lia ZifyBool.
Require Import PyBase GenBasic BasicFacts Basic Mo5Basic PyFacts BasicLemmasA.
Import ListNotations.
Open Scope Z_scope.
Ltac Zify.zify_post_hook ::= Z.to_euclidean_division_equations.

(* ---------- generic list facts ---------- *)
Lemma zeqb_list_true a : forall b, zeqb_list a b = true -> a = b.
Proof.
  induction a as [|x a IH]; intros [|y b] H; cbn [zeqb_list] in H; try discriminate; [reflexivity|].
  apply andb_prop in H. destruct H as [Hx Hr]. apply IH in Hr. f_equal; [lia|exact Hr].
Qed.
Lemma zeqb_list_refl a : zeqb_list a a = true.
Proof. induction a as [|x a IH]; cbn [zeqb_list]; [reflexivity|]. rewrite IH. lia. Qed.

Lemma lookup_vocab k tbl : lookup k tbl = vocab_code k tbl.
Proof. induction tbl as [|[k' v] r IH]; cbn [lookup vocab_code]; [reflexivity|]. now rewrite IH. Qed.
Lemma tok_of_code k : tok_of k = code_of k.
Proof. unfold tok_of, code_of. rewrite basic_tokens_is. apply lookup_vocab. Qed.

Lemma lookup_In k tbl : forall v, lookup k tbl = Some v -> In (k, v) tbl.
Proof.
  induction tbl as [|[k' v'] r IH]; intros v H; cbn [lookup] in H; [discriminate|].
  destruct (zeqb_list k k') eqn:E.
  - apply zeqb_list_true in E. subst k'. inversion H; subst. now left.
  - right. now apply IH.
Qed.

Lemma utf8_ascii s : Forall (fun c => c < 128) s -> utf8 s = s.
Proof.
  induction 1 as [|c s Hc _ IH]; [reflexivity|].
  unfold utf8 in *. cbn [flat_map]. rewrite IH. unfold utf8_char.
  destruct (c <? 128) eqn:E; [reflexivity|lia].
Qed.
Lemma utf8_app a b : utf8 (a ++ b) = utf8 a ++ utf8 b.
Proof. unfold utf8. apply flat_map_app. Qed.

(* ---------- FINITE TABLE FACTS: one boolean check per table entry, proved by computation
   over the 152 entries of basic_tokens and lifted with forallb_forall ---------- *)
Definition is_else (k : list Z) : bool := zeqb_list k else_word.
Definition entry_ok (kv : list Z * Z) : bool :=
  let '(k, v) := kv in
  (* codes are pairwise distinct: the code leads back to the word *)
  match word_of v with Some k' => zeqb_list k k' | None => false end
  (* only ELSE takes the colon, and it is the only entry with code 8F *)
  && Bool.eqb (needs_colon k) (v =? 143) && Bool.eqb (is_else k) (v =? 143)
  (* one-byte codes 80..FE, two-byte codes FF80..FFFF *)
  && (((128 <=? v) && (v <? 255)) || ((65408 <=? v) && (v <? 65536)))
  (* a one-character word is an operator; longer words contain no delimiter/operator *)
  && match k with
     | [] => false
     | [c] => is_delim_or_op c
     | _ => negb (existsb is_delim_or_op k)
     end
  (* no quote in a word *)
  && negb (existsb (Z.eqb 34) k).

Lemma table_ok : forallb entry_ok basic_tokens = true.
Proof. vm_compute. reflexivity. Qed.

Lemma entry_ok_of k v : tok_of k = Some v -> entry_ok (k, v) = true.
Proof.
  intros H. apply lookup_In in H. pose proof table_ok as T.
  rewrite forallb_forall in T. now apply T.
Qed.

Lemma tok_word_of k v : tok_of k = Some v -> word_of v = Some k.
Proof.
  intros H. apply entry_ok_of in H. unfold entry_ok in H.
  repeat (apply andb_prop in H; destruct H as [H ?]).
  destruct (word_of v) as [k'|]; [|discriminate]. apply zeqb_list_true in H. now subst.
Qed.

Lemma tok_range k v : tok_of k = Some v -> 128 <= v < 255 \/ 65408 <= v < 65536.
Proof.
  intros H. apply entry_ok_of in H. unfold entry_ok in H.
  repeat (apply andb_prop in H; destruct H as [H ?]). lia.
Qed.

Lemma tok_colon k v : tok_of k = Some v -> needs_colon k = (v =? 143).
Proof.
  intros H. apply entry_ok_of in H. unfold entry_ok in H.
  repeat (apply andb_prop in H; destruct H as [H ?]).
  now apply eqb_prop.
Qed.

Lemma tok_else k v : tok_of k = Some v -> zeqb_list k else_word = (v =? 143).
Proof.
  intros H. apply entry_ok_of in H. unfold entry_ok in H.
  repeat (apply andb_prop in H; destruct H as [H ?]).
  now apply eqb_prop.
Qed.

Lemma tok_shape k v : tok_of k = Some v ->
  match k with [] => False | [c] => is_delim_or_op c = true | _ => existsb is_delim_or_op k = false end.
Proof.
  intros H. apply entry_ok_of in H. unfold entry_ok in H.
  repeat (apply andb_prop in H; destruct H as [H ?]).
  destruct k as [|c [|d k]]; [discriminate|assumption|]. now apply negb_true_iff.
Qed.

Lemma tok_no_quote k v : tok_of k = Some v -> existsb (Z.eqb 34) k = false.
Proof.
  intros H. apply entry_ok_of in H. unfold entry_ok in H.
  repeat (apply andb_prop in H; destruct H as [H ?]). now apply negb_true_iff.
Qed.

Lemma tok_of_nil : tok_of [] = None.
Proof. destruct (tok_of []) as [v|] eqn:E; [|reflexivity]. apply tok_shape in E. destruct E. Qed.

(* ---------- byte encodings of codes ---------- *)
Lemma bytes_from_uint_code v : 0 <= v -> bytes_from_uint v = code_bytes v.
Proof.
  intros Hv. unfold bytes_from_uint, code_bytes, tok_u8, tok_u16, u16. rewrite !land255.
  destruct (v <? 256) eqn:E; [|reflexivity]. f_equal. lia.
Qed.

Lemma token_bytes_word k v : tok_of k = Some v -> token_bytes k v = word_bytes k v.
Proof.
  intros H. unfold token_bytes, word_bytes. rewrite (tok_colon _ _ H), (tok_else _ _ H).
  rewrite bytes_from_uint_code by (pose proof (tok_range _ _ H); lia). reflexivity.
Qed.

Lemma code_bytes_1 v : 128 <= v < 255 -> code_bytes v = [v].
Proof. intros H. unfold code_bytes. destruct (v <? 256) eqn:E; [reflexivity|lia]. Qed.
Lemma code_bytes_2 v : 65408 <= v < 65536 -> code_bytes v = [255; v - 65280].
Proof.
  intros H. unfold code_bytes, u16. destruct (v <? 256) eqn:E; [lia|].
  f_equal; [lia|f_equal; lia].
Qed.

(* ---------- one step of the detokenizer ---------- *)
Ltac dpos p n :=
  match n with
  | O => idtac
  | S ?m => destruct p as [p|p|]; [dpos p m|dpos p m|]
  end.

Lemma expand_else fuel r :
  expand (S fuel) (58 :: 143 :: r) = match expand fuel r with Some t => Some (else_word ++ t) | None => None end.
Proof. reflexivity. Qed.

Lemma expand_two fuel x r :
  expand (S fuel) (255 :: x :: r) =
  match word_of (65280 + x), expand fuel r with Some w, Some t => Some (w ++ t) | _, _ => None end.
Proof. reflexivity. Qed.

Definition expand_one_rhs (fuel : nat) (b : Z) (r : list Z) : option (list Z) :=
  if b <? 128 then match expand fuel r with Some t => Some (b :: t) | None => None end
  else match word_of b, expand fuel r with Some w, Some t => Some (w ++ t) | _, _ => None end.

Lemma expand_one_not58 fuel b r : b <> 255 -> b <> 58 -> expand (S fuel) (b :: r) = expand_one_rhs fuel b r.
Proof.
  intros H255 H58. unfold expand_one_rhs.
  destruct b as [|p|p]; [reflexivity| |reflexivity].
  dpos p 8%nat; try reflexivity; exfalso; congruence.
Qed.

Lemma expand_one_58 fuel r : hd 0 r <> 143 -> expand (S fuel) (58 :: r) = expand_one_rhs fuel 58 r.
Proof.
  intros H. unfold expand_one_rhs. destruct r as [|x r]; [reflexivity|]. cbn [hd] in H.
  destruct x as [|p|p]; [reflexivity| |reflexivity].
  dpos p 8%nat; try reflexivity; exfalso; congruence.
Qed.

Lemma expand_one fuel b r : b <> 255 -> (b = 58 -> hd 0 r <> 143) ->
  expand (S fuel) (b :: r) = expand_one_rhs fuel b r.
Proof.
  intros H255 H58. destruct (Z.eq_dec b 58) as [->|Hn].
  - apply expand_one_58. now apply H58.
  - now apply expand_one_not58.
Qed.

(* ---------- atoms: what the tokenizer emits ---------- *)
Inductive atom := AChar (c : Z) | AWord (k : list Z) (v : Z).
Definition aenc (a : atom) : list Z := match a with AChar c => [c] | AWord k v => token_bytes k v end.
Definition atext (a : atom) : list Z := match a with AChar c => [c] | AWord k v => k end.
Definition awf (a : atom) : Prop := match a with AChar c => 1 <= c < 128 | AWord k v => tok_of k = Some v end.
Definition enc (l : list atom) : list Z := flat_map aenc l.
Definition text (l : list atom) : list Z := flat_map atext l.

Lemma enc_app a b : enc (a ++ b) = enc a ++ enc b.
Proof. apply flat_map_app. Qed.
Lemma text_app a b : text (a ++ b) = text a ++ text b.
Proof. apply flat_map_app. Qed.
Lemma enc_chars s : enc (map AChar s) = s.
Proof.
  induction s as [|c s IH]; [reflexivity|]. cbn [map].
  change (enc (AChar c :: map AChar s)) with (c :: enc (map AChar s)). now rewrite IH.
Qed.
Lemma text_chars s : text (map AChar s) = s.
Proof.
  induction s as [|c s IH]; [reflexivity|]. cbn [map].
  change (text (AChar c :: map AChar s)) with (c :: text (map AChar s)). now rewrite IH.
Qed.
Lemma awf_chars s : Forall (fun c => 1 <= c < 128) s -> Forall awf (map AChar s).
Proof. induction 1 as [|c s Hc _ IH]; cbn [map]; constructor; assumption. Qed.

(* the three shapes of a token's bytes *)
Lemma aenc_word_cases k v : tok_of k = Some v ->
  (v = 143 /\ k = else_word /\ token_bytes k v = [58; 143]) \/
  (128 <= v < 255 /\ v <> 143 /\ token_bytes k v = [v]) \/
  (65408 <= v < 65536 /\ token_bytes k v = [255; v - 65280]).
Proof.
  intros H. rewrite (token_bytes_word _ _ H). unfold word_bytes.
  pose proof (tok_else _ _ H) as He. pose proof (tok_range _ _ H) as Hr.
  destruct (zeqb_list k else_word) eqn:E.
  - left. assert (v = 143) by lia. subst v. apply zeqb_list_true in E. now repeat split.
  - right. assert (v <> 143) by lia. destruct Hr as [Hr|Hr].
    + left. rewrite code_bytes_1 by exact Hr. now repeat split.
    + right. rewrite code_bytes_2 by exact Hr. now repeat split.
Qed.

Lemma aenc_hd a rest : awf a -> hd 0 (aenc a ++ rest) <> 143.
Proof.
  destruct a as [c|k v]; cbn [awf aenc]; intros H.
  - cbn [app hd]. lia.
  - destruct (aenc_word_cases _ _ H) as [(_ & _ & ->)|[(? & ? & ->)|(? & ->)]]; cbn [app hd]; lia.
Qed.

Lemma enc_hd l : Forall awf l -> hd 0 (enc l) <> 143.
Proof.
  destruct 1 as [|a l Ha _]; [cbn; lia|]. cbn [enc flat_map]. now apply aenc_hd.
Qed.

Lemma aenc_bytes a : awf a -> Forall (fun b => 1 <= b < 256) (aenc a).
Proof.
  destruct a as [c|k v]; cbn [awf aenc]; intros H.
  - constructor; [lia|constructor].
  - destruct (aenc_word_cases _ _ H) as [(_ & _ & ->)|[(? & ? & ->)|(? & ->)]];
      repeat (constructor; [lia|]); constructor.
Qed.

Lemma enc_bytes l : Forall awf l -> Forall (fun b => 1 <= b < 256) (enc l).
Proof.
  induction 1 as [|a l Ha _ IH]; [constructor|]. cbn [enc flat_map].
  apply Forall_app. split; [now apply aenc_bytes|exact IH].
Qed.

(* the detokenizer inverts the byte encoding of any well-formed atom list *)
Lemma expand_enc l : Forall awf l -> forall fuel, (length (enc l) < fuel)%nat ->
  expand fuel (enc l) = Some (text l).
Proof.
  induction 1 as [|a l Ha Hl IH]; intros fuel Hf.
  - destruct fuel as [|fuel]; [cbn [enc flat_map length] in Hf; lia|]. reflexivity.
  - destruct fuel as [|fuel]; [lia|].
    cbn [enc flat_map text] in *. fold (enc l) in *. fold (text l) in *.
    rewrite app_length in Hf.
    destruct a as [c|k v]; cbn [awf aenc atext] in *.
    + cbn [app length] in *. rewrite expand_one; [|lia|intros _; now apply enc_hd].
      unfold expand_one_rhs. destruct (c <? 128) eqn:E; [|lia].
      rewrite IH by lia. reflexivity.
    + pose proof (tok_word_of _ _ Ha) as Hw.
      destruct (aenc_word_cases _ _ Ha) as [(Hv & Hk & E)|[(Hv & Hn & E)|(Hv & E)]]; rewrite E in *; cbn [app length] in *.
      * rewrite expand_else, IH by lia. now subst k.
      * rewrite expand_one; [|lia|lia]. unfold expand_one_rhs.
        destruct (v <? 128) eqn:E2; [lia|]. rewrite Hw, IH by lia. reflexivity.
      * rewrite expand_two. replace (65280 + (v - 65280)) with v by lia.
        rewrite Hw, IH by lia. reflexivity.
Qed.

(* ---------- the tokenizer state invariant ---------- *)
Definition Inv (t : tctx) (U : list Z) : Prop :=
  exists A C, Forall awf A /\ Forall awf C /\ t_done t = enc A /\ t_cand t = enc C /\
    t_src t = text C ++ t_bucket t /\ U = text A ++ text C ++ t_bucket t /\
    Forall (fun c => 1 <= c < 128) (t_bucket t).

Lemma chars_lt128 s : Forall (fun c => 1 <= c < 128) s -> Forall (fun c => c < 128) s.
Proof. apply Forall_impl. intros c Hc. lia. Qed.

Lemma Inv_commit_atoms t U : Inv t U ->
  exists A, Forall awf A /\ t_done (commit t) = enc A /\ text A = U.
Proof.
  intros (A & C & HA & HC & Hd & Hc & Hs & HU & Hb).
  exists (A ++ C ++ map AChar (t_bucket t)). split; [|split].
  - apply Forall_app. split; [exact HA|]. apply Forall_app. split; [exact HC|now apply awf_chars].
  - unfold commit. cbn [t_done]. rewrite !enc_app, enc_chars, utf8_ascii by now apply chars_lt128.
    now rewrite Hd, Hc.
  - now rewrite !text_app, text_chars.
Qed.

Lemma Inv_commit t U : Inv t U -> Inv (commit t) U.
Proof.
  intros H. destruct (Inv_commit_atoms _ _ H) as (A & HA & Hd & HU).
  exists A, []. cbn [commit t_cand t_src t_bucket]. repeat split; try assumption; try constructor.
  cbn [text flat_map app]. now rewrite app_nil_r.
Qed.

Lemma Inv_literal t U c : Inv t U -> 1 <= c < 128 -> Inv (append_literal t c) (U ++ [c]).
Proof.
  intros (A & C & HA & HC & Hd & Hc & Hs & HU & Hb) Hr.
  exists A, C. unfold append_literal. cbn [t_done t_cand t_src t_bucket].
  repeat split; try assumption.
  - now rewrite Hs, app_assoc.
  - now rewrite HU, <- !app_assoc.
  - apply Forall_app. split; [exact Hb|]. constructor; [exact Hr|constructor].
Qed.

Lemma one_char_no_colon c v : tok_of [c] = Some v -> token_bytes [c] v = bytes_from_uint v.
Proof.
  intros H. unfold token_bytes. rewrite (tok_colon _ _ H), <- (tok_else _ _ H).
  unfold else_word. cbn [zeqb_list]. now rewrite andb_false_r.
Qed.

Lemma Inv_plain t U c : Inv t U -> 1 <= c < 128 ->
  Inv (append_plain t (t_src t ++ [c]) c) (U ++ [c]).
Proof.
  intros HI Hr. unfold append_plain. destruct (tok_of [c]) as [v|] eqn:E.
  - destruct (Inv_commit_atoms _ _ HI) as (A & HA & Hd & HU).
    unfold commit in *. cbn [t_done t_cand t_src t_bucket] in *.
    exists (A ++ [AWord [c] v]), []. cbn [t_done t_cand t_src t_bucket]. repeat split; try constructor.
    + apply Forall_app. split; [exact HA|]. constructor; [exact E|constructor].
    + rewrite enc_app, <- Hd. cbn [enc flat_map aenc utf8 app].
      rewrite (one_char_no_colon _ _ E). now rewrite !app_nil_r.
    + rewrite text_app, HU. cbn [text flat_map atext app]. now rewrite !app_nil_r.
  - destruct HI as (A & C & HA & HC & Hd & Hc & Hs & HU & Hb).
    exists A, C. cbn [t_done t_cand t_src t_bucket]. repeat split; try assumption.
    + now rewrite Hs, app_assoc.
    + now rewrite HU, <- !app_assoc.
    + apply Forall_app. split; [exact Hb|]. constructor; [exact Hr|constructor].
Qed.

Lemma Inv_token t U c : Inv t U -> 1 <= c < 128 -> Inv (append_token t c) (U ++ [c]).
Proof.
  intros HI Hr. unfold append_token.
  destruct (tok_of (t_src t ++ [c])) as [v|] eqn:E1.
  - destruct HI as (A & C & HA & HC & Hd & Hc & Hs & HU & Hb).
    exists A, [AWord (t_src t ++ [c]) v]. cbn [t_done t_cand t_src t_bucket].
    repeat split; try assumption; try constructor; try assumption; try constructor.
    + cbn [enc flat_map aenc]. now rewrite app_nil_r.
    + cbn [text flat_map atext]. now rewrite !app_nil_r.
    + cbn [text flat_map atext]. rewrite !app_nil_r. now rewrite HU, Hs, <- !app_assoc.
  - destruct (tok_of (t_bucket t)) as [v|] eqn:E2; [|now apply Inv_plain].
    destruct HI as (A & C & HA & HC & Hd & Hc & Hs & HU & Hb).
    unfold commit. cbn [t_done t_cand t_src t_bucket].
    assert (HA' : Forall awf (A ++ C ++ [AWord (t_bucket t) v])).
    { apply Forall_app. split; [exact HA|]. apply Forall_app. split; [exact HC|].
      constructor; [exact E2|constructor]. }
    assert (Hd' : t_done t ++ (t_cand t ++ token_bytes (t_bucket t) v) ++ utf8 [] = enc (A ++ C ++ [AWord (t_bucket t) v])).
    { rewrite !enc_app, Hd, Hc. cbn [enc flat_map aenc utf8]. now rewrite !app_nil_r. }
    assert (HU' : U ++ [c] = text (A ++ C ++ [AWord (t_bucket t) v]) ++ [c]).
    { rewrite !text_app, HU. cbn [text flat_map atext]. now rewrite !app_nil_r, <- !app_assoc. }
    rewrite Hd', HU'.
    destruct (tok_of [c]) as [v1|] eqn:E3.
    + exists (A ++ C ++ [AWord (t_bucket t) v]), [AWord [c] v1]. cbn [t_done t_cand t_src t_bucket].
      repeat split; try assumption; try constructor; try assumption; try constructor.
      cbn [enc flat_map aenc]. now rewrite app_nil_r.
    + unfold append_plain. rewrite E3. cbn [t_done t_cand t_src t_bucket app].
      exists (A ++ C ++ [AWord (t_bucket t) v]), []. cbn [t_done t_cand t_src t_bucket].
      repeat split; try assumption; try constructor; try assumption; try constructor.
Qed.

Lemma upper_char_range c : 1 <= c < 128 -> 1 <= upper_char c < 128.
Proof. intros H. unfold upper_char. destruct ((97 <=? c) && (c <=? 122)) eqn:E; lia. Qed.

Lemma delim_or_op_upper c : is_delim_or_op c = true -> upper_char c = c.
Proof.
  unfold is_delim_or_op, delim_chars, operator_chars, upper_char. cbn [app existsb]. intros H.
  destruct ((97 <=? c) && (c <=? 122)) eqn:E; [lia|reflexivity].
Qed.

Lemma one_char_token_op c : is_one_char_token c = true -> is_delim_or_op c = true.
Proof.
  unfold is_one_char_token. destruct (tok_of [c]) as [v|] eqn:E; [|discriminate].
  intros _. exact (tok_shape _ _ E).
Qed.

Lemma special_is_delim c : is_special c = true -> is_delim_or_op c = true.
Proof.
  unfold is_special, is_delim_or_op, special_chars, delim_chars, operator_chars.
  cbn [app existsb]. lia.
Qed.

Lemma special_or_token_upper c : is_special c || is_one_char_token c = true -> upper_char c = c.
Proof.
  intros H. apply delim_or_op_upper. apply orb_prop in H.
  destruct H as [H|H]; [now apply special_is_delim|now apply one_char_token_op].
Qed.

Lemma parse_char_inv t b c U : Inv t U -> 1 <= c < 128 ->
  Inv (fst (parse_char (t, b) c)) (U ++ [if c =? 34 then c else if b then c else upper_char c]) /\
  snd (parse_char (t, b) c) = (if c =? 34 then negb b else b).
Proof.
  intros HI Hr. unfold parse_char. destruct (c =? 34) eqn:E34.
  - cbn [fst snd]. split; [|reflexivity]. apply Inv_commit.
    destruct (negb b); [apply Inv_literal|apply Inv_token]; try exact Hr; now apply Inv_commit.
  - destruct b.
    + cbn [fst snd]. split; [|reflexivity]. now apply Inv_literal.
    + destruct (is_special c || is_one_char_token c) eqn:Esp; cbn [fst snd]; (split; [|reflexivity]).
      * rewrite (special_or_token_upper _ Esp). apply Inv_commit. now apply Inv_token.
      * (* a non-literal character goes in upper-cased *)
        pose proof (upper_char_range _ Hr) as Hu.
        exact (Inv_token t U (upper_char c) HI Hu).
Qed.

Lemma fold_inv s : forall t b U, Inv t U -> Forall (fun c => 1 <= c < 128) s ->
  Inv (fst (fold_left parse_char s (t, b))) (U ++ upper_outside_strings b s).
Proof.
  induction s as [|c s IH]; intros t b U HI Hs.
  - cbn [fold_left fst upper_outside_strings]. now rewrite app_nil_r.
  - inversion Hs as [|? ? Hc Hs']; subst. cbn [fold_left upper_outside_strings].
    destruct (parse_char_inv t b c U HI Hc) as [H1 H2].
    destruct (parse_char (t, b) c) as [t' b'] eqn:Ep. cbn [fst snd] in H1, H2. subst b'.
    destruct (c =? 34) eqn:E34.
    + specialize (IH t' (negb b) _ H1 Hs'). now rewrite <- app_assoc in IH.
    + specialize (IH t' b _ H1 Hs'). now rewrite <- app_assoc in IH.
Qed.

Lemma Inv_init : Inv tctx0 [].
Proof. exists [], []. cbn. repeat split; constructor. Qed.

Lemma parse_line_atoms s : Forall (fun c => 1 <= c < 128) s ->
  exists A, Forall awf A /\ parse_line s = enc A /\ text A = upper_outside_strings false s.
Proof.
  intros Hs. unfold parse_line. apply Inv_commit_atoms.
  exact (fold_inv s tctx0 false [] Inv_init Hs).
Qed.

Lemma parse_line_expand s : Forall (fun c => 1 <= c < 128) s ->
  expand (S (length (parse_line s))) (parse_line s) = Some (upper_outside_strings false s) /\
  Forall (fun b => 1 <= b < 256) (parse_line s).
Proof.
  intros Hs. destruct (parse_line_atoms s Hs) as (A & HA & He & Ht). rewrite He, <- Ht. split.
  - apply expand_enc; [exact HA|lia].
  - now apply enc_bytes.
Qed.

(* ---------- listing lines: the text of a printable numbered line ---------- *)
Lemma rstrip_by_none p l : existsb p l = false -> rstrip_by p l = l.
Proof.
  induction l as [|a l IH]; cbn [existsb rstrip_by]; intros H; [reflexivity|].
  apply orb_false_elim in H. destruct H as [Ha Hl]. rewrite IH by exact Hl.
  destruct l; [now rewrite Ha|reflexivity].
Qed.

Lemma existsb_eqb_sym x l : existsb (Z.eqb x) l = existsb (fun c => c =? x) l.
Proof. induction l as [|a l IH]; cbn [existsb]; [reflexivity|]. now rewrite IH, Z.eqb_sym. Qed.

Lemma take_digits_app_nl x y : take_digits (x ++ 10 :: y) = take_digits x.
Proof.
  induction x as [|d x IH]; cbn [app take_digits]; [reflexivity|].
  destruct (is_digit d); [now rewrite IH|reflexivity].
Qed.

Lemma skipn_In {A} k (l : list A) a : In a (skipn k l) -> In a l.
Proof. intros H. rewrite <- (firstn_skipn k l). apply in_or_app. now right. Qed.

Lemma drop_blank_In (r : list Z) a : In a (match r with 32 :: t => t | _ => r end) -> In a r.
Proof.
  destruct r as [|b t]; [easy|]. destruct (Z.eq_dec b 32) as [->|Hn].
  - intros H. now right.
  - intros H. destruct b as [|p|p]; try exact H. dpos p 6%nat; try exact H. congruence.
Qed.

Lemma line_text_In l a : In a (line_text l) -> In a l.
Proof.
  unfold line_text. intros H. apply drop_blank_In in H.
  apply (skipn_In (length (take_digits l))).
  destruct (rev (skipn (length (take_digits l)) l)) as [|b t] eqn:E; [exact H|].
  assert (Ht : In a (rev t) -> In a (skipn (length (take_digits l)) l)).
  { intros Hi. apply in_rev in Hi. apply in_rev. rewrite E. now right. }
  destruct (Z.eq_dec b 10) as [->|Hn]; [now apply Ht|].
  destruct b as [|p|p]; try exact H. dpos p 4%nat; try exact H. congruence.
Qed.

Lemma line_text_nl_In x a : In a (line_text (x ++ [10])) -> In a x.
Proof.
  unfold line_text. rewrite take_digits_app_nl. intros H. apply drop_blank_In in H.
  pose proof (take_digits_length x) as Hk.
  rewrite skipn_app in H.
  replace (length (take_digits x) - length x)%nat with 0%nat in H by lia.
  cbn [skipn] in H. rewrite rev_app_distr in H. cbn [rev app] in H.
  rewrite rev_involutive in H. now apply skipn_In in H.
Qed.

Lemma listing_line_text l : listing_line_ok l = true ->
  Forall (fun c => 1 <= c < 128) (line_text l).
Proof.
  unfold listing_line_ok. intros H.
  apply andb_prop in H. destruct H as [H H4].
  apply andb_prop in H. destruct H as [H H3].
  apply andb_prop in H. destruct H as [H1 H2].
  assert (Hp : forall c, printable c = true -> 1 <= c < 128) by (intros c; unfold printable; lia).
  destruct l as [|c0 l0]; [discriminate|].
  destruct (exists_last (l := c0 :: l0) ltac:(discriminate)) as (x & c & E). rewrite E in *. clear E.
  rewrite removelast_last in H3. apply negb_true_iff in H3. rewrite existsb_eqb_sym in H3.
  rewrite forallb_forall in H2. apply Forall_forall. intros a Ha. apply Hp.
  destruct (c =? 10) eqn:Ec.
  - assert (c = 10) by lia. subst c. apply line_text_nl_In in Ha. apply H2.
    unfold rstrip_nl. rewrite rstrip_by_app_stripped by reflexivity. now rewrite rstrip_by_none.
  - apply line_text_In in Ha. apply H2. unfold rstrip_nl. now rewrite rstrip_by_keep.
Qed.

Lemma listing_line_numbered l : listing_line_ok l = true ->
  match l with c :: _ => is_digit19 c | [] => false end && negb (existsb (Z.eqb 10) (removelast l)) = true.
Proof.
  unfold listing_line_ok. intros H.
  apply andb_prop in H. destruct H as [H H4].
  apply andb_prop in H. destruct H as [H H3].
  apply andb_prop in H. destruct H as [H1 H2]. now rewrite H1, H3.
Qed.

Lemma listing_line_number l : listing_line_ok l = true -> 0 <= line_number l < 65536.
Proof.
  unfold listing_line_ok. intros H.
  apply andb_prop in H. destruct H as [H H4]. split; [|lia].
  unfold line_number. apply undec_nonneg. apply take_digits_digits.
Qed.

Lemma expand_all_lines lines :
  (forall l, In l lines -> Forall (fun c => 1 <= c < 128) (line_text l)) ->
  expand_all (map (fun l => (line_number l, parse_line (line_text l))) lines) =
  Some (map (fun l => (line_number l, upper_outside_strings false (line_text l))) lines).
Proof.
  induction lines as [|l r IH]; intros H; [reflexivity|].
  cbn [map expand_all].
  destruct (parse_line_expand (line_text l) (H l (or_introl eq_refl))) as [He _].
  rewrite He, IH; [reflexivity|]. intros l' Hl'. apply H. now right.
Qed.

Lemma tokenize_detok_lines lines :
  forallb listing_line_ok lines = true ->
  exists img, tokenize_program lines = Ok img /\
    detok img = Some (map (fun l => (line_number l, upper_outside_strings false (line_text l))) lines).
Proof.
  intros H. rewrite forallb_forall in H.
  eexists. split.
  - apply tokenize_program_spec. apply forallb_forall. intros l Hl. apply listing_line_numbered. now apply H.
  - unfold detok. rewrite program_records_spec.
    + apply expand_all_lines. intros l Hl. apply listing_line_text. now apply H.
    + apply Forall_forall. intros [n bs] Hr. apply in_map_iff in Hr. destruct Hr as (l & E & Hl).
      inversion E; subst. cbn [fst snd]. split.
      * apply listing_line_number. now apply H.
      * apply parse_line_expand. apply listing_line_text. now apply H.
Qed.
