(* Proofs/DLoopSlot.v — where a successful writeFile puts the new catalogue entry: in the first
   slot that holds no live entry.  (Needed for the report order of inject_report_matches_image;
   the one-step theorem of DiskWriteProofs.v does not say which free slot is taken.) *)
From Coq Require Import ZArith List Bool Lia ZifyBool.
Require Import PyBase GenDisk DiskFacts DiskFactsLoop Disk ThomsonDos PyFacts DiskDefs DLoopBase DLoopArgs
  DiskGeoProofs DiskWriteProofs.
Import ListNotations.
Open Scope Z_scope.
Ltac Zify.zify_post_hook ::= Z.to_euclidean_division_equations.

(* length of the leading run of live entries *)
Fixpoint lenlive (es : list (list Z)) : nat :=
  match es with
  | e :: r => if e_live e then S (lenlive r) else 0%nat
  | [] => 0%nat
  end.

Lemma lenlive_app E1 e E2 : forallb e_live E1 = true ->
  lenlive (E1 ++ e :: E2) = (length E1 + (if e_live e then S (lenlive E2) else 0))%nat.
Proof.
  induction E1 as [|x E1 IH]; cbn [app lenlive forallb length]; intros H; [reflexivity|].
  apply andb_prop in H. destruct H as [Hx H]. rewrite Hx, (IH H). reflexivity.
Qed.

(* ---------- the decoder of the specification, entry by entry ---------- *)
Lemma chain_head fuel f : forall b seen bs u, chain fuel f b seen = Some (bs, u) ->
  exists t, bs = rev seen ++ b :: t.
Proof.
  induction fuel as [|fuel IH]; intros b seen bs u H; cbn [chain] in H; [discriminate|].
  destruct (negb ((0 <=? b) && (b <? 160)) || existsb (Z.eqb b) seen); [discriminate|].
  destruct (st_last (fstatus f b)).
  - injection H as <- _. exists []. reflexivity.
  - destruct (st_next (fstatus f b)); [|discriminate].
    destruct (IH _ _ _ _ H) as (t & ->). exists (fstatus f b :: t).
    cbn [rev]. rewrite <- app_assoc. reflexivity.
Qed.

Lemma file_chain_head f e bs u : file_chain f e = Some (bs, u) -> exists t, bs = e_first e :: t.
Proof. intros H. destruct (chain_head _ _ _ _ _ _ H) as (t & ->). exists t. reflexivity. Qed.

Lemma chain_not_free n f b seen r : chain (S n) f b seen = Some r -> st_free (fstatus f b) = false.
Proof.
  cbn [chain].
  destruct (negb ((0 <=? b) && (b <? 160)) || existsb (Z.eqb b) seen); [discriminate|].
  unfold st_last, st_next, st_free.
  destruct ((193 <=? fstatus f b) && (fstatus f b <=? 200)) eqn:E1; [intros _; lia|].
  destruct ((0 <=? fstatus f b) && (fstatus f b <? 160)) eqn:E2; [intros _; lia|discriminate].
Qed.
Lemma file_chain_not_free f e r : file_chain f e = Some r -> st_free (fstatus f (e_first e)) = false.
Proof. unfold file_chain. change 161%nat with (S 160). apply chain_not_free. Qed.

Lemma foe_cons sd f e r :
  files_of_entries sd f (e :: r) =
  if e_live e then
    match file_chain f e, files_of_entries sd f r with
    | Some (bs, u), Some fs => Some (mkDos (e_name e) (e_ext e) (e_kind e) (e_flag e) bs (chain_content sd bs u (e_lastbytes e)) :: fs)
    | _, _ => None
    end
  else files_of_entries sd f r.
Proof. reflexivity. Qed.

Lemma foe_app sd f X : forall Y L, files_of_entries sd f (X ++ Y) = Some L ->
  exists LX LY, files_of_entries sd f X = Some LX /\ files_of_entries sd f Y = Some LY /\ L = LX ++ LY.
Proof.
  induction X as [|e X IH]; intros Y L H.
  - exists [], L. repeat split; assumption.
  - cbn [app] in H. rewrite foe_cons in H |- *.
    destruct (e_live e).
    + destruct (file_chain f e) as [[bs u]|]; [|discriminate].
      destruct (files_of_entries sd f (X ++ Y)) as [L0|] eqn:E0; [|discriminate].
      injection H as <-. destruct (IH Y L0 E0) as (LX & LY & -> & HY & ->).
      eexists _, LY. split; [reflexivity|]. split; [exact HY|reflexivity].
    + exact (IH Y L H).
Qed.

Lemma foe_live_length sd f X : forall LX, forallb e_live X = true ->
  files_of_entries sd f X = Some LX -> length LX = length X.
Proof.
  induction X as [|e X IH]; intros LX Hl H.
  - injection H as <-. reflexivity.
  - cbn [forallb] in Hl. apply andb_prop in Hl. destruct Hl as [He Hl].
    rewrite foe_cons, He in H.
    destruct (file_chain f e) as [[bs u]|]; [|discriminate].
    destruct (files_of_entries sd f X) as [L0|]; [|discriminate].
    injection H as <-. cbn [length]. f_equal. now apply IH.
Qed.

(* every decoded file comes from a live entry and starts at that entry's first block *)
Lemma foe_in sd f E : forall L x, files_of_entries sd f E = Some L -> In x L ->
  exists e t, In e E /\ e_live e = true /\ d_blocks x = e_first e :: t.
Proof.
  induction E as [|e E IH]; intros L x H Hx.
  - injection H as <-. contradiction.
  - rewrite foe_cons in H. destruct (e_live e) eqn:He.
    + destruct (file_chain f e) as [[bs u]|] eqn:Ec; [|discriminate].
      destruct (files_of_entries sd f E) as [L0|]; [|discriminate].
      injection H as <-. destruct Hx as [<-|Hx].
      * destruct (file_chain_head _ _ _ _ Ec) as (t & ->). exists e, t.
        split; [now left|]. split; [exact He|reflexivity].
      * destruct (IH L0 x eq_refl Hx) as (e0 & t & Hin & Hl & Hb). exists e0, t.
        split; [now right|]. split; assumption.
    + destruct (IH L x H Hx) as (e0 & t & Hin & Hl & Hb). exists e0, t.
      split; [now right|]. split; assumption.
Qed.

(* every live entry of a decodable catalogue starts on a block that is not free *)
Lemma foe_live_not_free sd f E : forall L e, files_of_entries sd f E = Some L -> In e E -> e_live e = true ->
  st_free (fstatus f (e_first e)) = false.
Proof.
  induction E as [|e0 E IH]; intros L e H Hin Hl; [contradiction|].
  rewrite foe_cons in H. destruct Hin as [->|Hin].
  - rewrite Hl in H. destruct (file_chain f e) as [r|] eqn:Ec; [|discriminate].
    exact (file_chain_not_free _ _ _ Ec).
  - destruct (e_live e0).
    + destruct (file_chain f e0) as [[bs u]|]; [|discriminate].
      destruct (files_of_entries sd f E) as [L0|]; [|discriminate].
      exact (IH L0 e eq_refl Hin Hl).
    + exact (IH L e H Hin Hl).
Qed.

Lemma app_mid_cases {A} (a : list A) x b : forall c y d, a ++ x :: b = c ++ y :: d ->
  length a = length c \/ In y a \/ In y b.
Proof.
  induction a as [|z a IH]; intros [|w c] y d H; cbn [app] in H.
  - now left.
  - injection H as _ H. right; right. rewrite H. apply in_or_app. right. now left.
  - injection H as -> _. right; left. now left.
  - injection H as _ H. destruct (IH c y d H) as [Hl|[Hi|Hi]].
    + left. cbn [length]. now f_equal.
    + right; left. now right.
    + right; right. exact Hi.
Qed.

(* the position of the new file, once the catalogue is known to change in its first free slot *)
Lemma position_from_entries sd sd' E1 e e' E2 fs1 fs2 f :
  cat_entries sd = E1 ++ e :: E2 -> cat_entries sd' = E1 ++ e' :: E2 ->
  forallb e_live E1 = true -> e_live e = false -> e_live e' = true ->
  dos_files sd = Some (fs1 ++ fs2) -> dos_files sd' = Some (fs1 ++ f :: fs2) ->
  Forall (fun b => st_free (fstatus (fat sd) b) = true) (d_blocks f) ->
  length fs1 = lenlive (cat_entries sd) /\ (S (lenlive (cat_entries sd)) <= lenlive (cat_entries sd'))%nat.
Proof.
  intros Hc Hc' Hl1 He He' Hd Hd' Hfree.
  rewrite Hc, Hc', !lenlive_app, He, He' by assumption.
  unfold dos_files in Hd, Hd'. rewrite Hc in Hd. rewrite Hc' in Hd'.
  destruct (foe_app _ _ _ _ _ Hd') as (A' & R' & HA' & HR' & Heq).
  rewrite foe_cons, He' in HR'.
  destruct (file_chain (fat sd') e') as [[bs u]|]; [|discriminate].
  destruct (files_of_entries sd' (fat sd') E2) as [B'|] eqn:HB'; [|discriminate].
  injection HR' as <-.
  pose proof (foe_live_length _ _ _ _ Hl1 HA') as HlenA.
  assert (Hno : forall e0 t, In e0 (E1 ++ e :: E2) -> e_live e0 = true -> d_blocks f = e_first e0 :: t -> False).
  { intros e0 t Hin Hlive Hb.
    pose proof (foe_live_not_free _ _ _ _ e0 Hd Hin Hlive) as Hnf.
    rewrite Hb in Hfree. inversion Hfree as [|? ? Hf0 _]. rewrite Hf0 in Hnf. discriminate. }
  symmetry in Heq. destruct (app_mid_cases _ _ _ _ _ _ Heq) as [Hlen|[Hin|Hin]].
  - split; lia.
  - exfalso. destruct (foe_in _ _ _ _ _ HA' Hin) as (e0 & t & Hin0 & Hl0 & Hb0).
    apply (Hno e0 t); [apply in_or_app; now left|exact Hl0|exact Hb0].
  - exfalso. destruct (foe_in _ _ _ _ _ HB' Hin) as (e0 & t & Hin0 & Hl0 & Hb0).
    apply (Hno e0 t); [apply in_or_app; right; now right|exact Hl0|exact Hb0].
Qed.

(* ---------- the catalogue as the model walks it ---------- *)
Definition ent (sd : side) (p : nat * nat) : list Z := firstn 32 (skipn (snd p) (nsec sd (fst p))).

Lemma cat_entries_slots sd : cat_entries sd = map (ent sd) all_slots.
Proof. reflexivity. Qed.

Definition slot_ok (p : nat * nat) : bool :=
  Nat.leb 322 (fst p) && Nat.ltb (fst p) 336 && Nat.eqb (snd p mod 32) 0 && Nat.leb (snd p + 32) 256.
Lemma all_slots_ok : forallb slot_ok all_slots = true.
Proof. reflexivity. Qed.

Definition eqp (p q : nat * nat) : bool := Nat.eqb (fst p) (fst q) && Nat.eqb (snd p) (snd q).
Fixpoint nodupb (l : list (nat * nat)) : bool :=
  match l with [] => true | x :: r => negb (existsb (eqp x) r) && nodupb r end.
Lemma all_slots_nodup : nodupb all_slots = true.
Proof. reflexivity. Qed.
Lemma eqp_true p q : eqp p q = true -> p = q.
Proof.
  destruct p as [a b], q as [c d]. unfold eqp. cbn [fst snd]. intros H.
  apply andb_prop in H. destruct H as [H1 H2]. apply Nat.eqb_eq in H1, H2. now subst.
Qed.
Lemma eqp_refl p : eqp p p = true.
Proof. destruct p as [a b]. unfold eqp. cbn [fst snd]. now rewrite !Nat.eqb_refl. Qed.
Lemma nodupb_split S1 x S2 : nodupb (S1 ++ x :: S2) = true -> ~ In x S1 /\ ~ In x S2.
Proof.
  induction S1 as [|y S1 IH]; cbn [app nodupb]; intros H; apply andb_prop in H; destruct H as [H1 H2].
  - split; [intros []|]. intros Hin. apply negb_true_iff in H1.
    assert (existsb (eqp x) S2 = true) by (apply existsb_exists; exists x; split; [exact Hin|apply eqp_refl]).
    congruence.
  - destruct (IH H2) as [Ha Hb]. split; [|exact Hb]. intros [->|Hin]; [|now apply Ha].
    apply negb_true_iff in H1.
    assert (existsb (eqp x) (S1 ++ x :: S2) = true).
    { apply existsb_exists. exists x. split; [apply in_or_app; right; now left|apply eqp_refl]. }
    congruence.
Qed.

(* ---------- set_sec ---------- *)
Lemma set_sec_upd sd i v : set_sec sd i v = if Nat.ltb i (length sd) then upd i v sd else sd.
Proof. reflexivity. Qed.
Lemma set_sec_length sd i v : length (set_sec sd i v) = length sd.
Proof.
  rewrite set_sec_upd. destruct (Nat.ltb i (length sd)) eqn:E; [|reflexivity].
  apply Nat.ltb_lt in E. now apply upd_length.
Qed.
Lemma set_sec_other sd i v j : j <> i -> nth j (set_sec sd i v) [] = nth j sd [].
Proof.
  intros Hj. rewrite set_sec_upd. destruct (Nat.ltb i (length sd)) eqn:E; [|reflexivity].
  apply Nat.ltb_lt in E. now apply upd_nth_other.
Qed.
Lemma set_sec_same sd i v : (i < length sd)%nat -> nth i (set_sec sd i v) [] = v.
Proof.
  intros Hi. rewrite set_sec_upd. destruct (Nat.ltb i (length sd)) eqn:E; [|apply Nat.ltb_ge in E; lia].
  now apply upd_nth_same.
Qed.

(* ---------- blocks the write may take ---------- *)
Lemma free_blocks_in bat : forall i0 b, In b (free_blocks bat i0) ->
  i0 <= b /\ nth_error bat (Z.to_nat (b - i0)) = Some 255.
Proof.
  induction bat as [|st bat IH]; intros i0 b H; cbn [free_blocks] in H; [contradiction|].
  assert (Hrec : In b (free_blocks bat (i0 + 1)) -> i0 <= b /\ nth_error (st :: bat) (Z.to_nat (b - i0)) = Some 255).
  { intros H'. destruct (IH _ _ H') as [H1 H2]. split; [lia|].
    replace (Z.to_nat (b - i0)) with (S (Z.to_nat (b - (i0 + 1)))) by lia. exact H2. }
  destruct (ba_is_free st) eqn:E; [|exact (Hrec H)].
  destruct H as [<-|H]; [|exact (Hrec H)].
  split; [lia|]. rewrite Z.sub_diag. cbn [Z.to_nat nth_error]. rewrite ba_is_free_is in E. f_equal. lia.
Qed.

Definition data_block (b : Z) : Prop := 0 <= b /\ b <> 40 /\ b <> 41.

Lemma free_blocks_data sd b : st_reserved (fstatus (fat sd) 40) = true -> st_reserved (fstatus (fat sd) 41) = true ->
  In b (free_blocks (fat sd) 0) -> data_block b.
Proof.
  intros H40 H41 Hin. destruct (free_blocks_in _ _ _ Hin) as [H0 Hn]. rewrite Z.sub_0_r in Hn.
  unfold data_block. split; [exact H0|]. unfold st_reserved, fstatus in H40, H41.
  split; intros ->; rewrite (nth_error_nth _ _ 255 Hn) in *; discriminate.
Qed.

(* a sector of a data block is neither the table nor a catalogue sector *)
Lemma sec_of_block_data b j : data_block b -> 0 <= j < 8 ->
  (sec_of_block b j < 320 \/ 336 <= sec_of_block b j)%nat.
Proof.
  intros (H0 & H40 & H41) Hj. unfold sec_of_block, sec_at. rewrite block_sector_is by assumption. lia.
Qed.

(* the slice loop leaves track 20 alone *)
Lemma write_slices_frame : forall fuel sd bat alloc content ulb cb cs idx len sd1 bat1,
  write_slices fuel sd bat alloc content ulb cb cs idx len = Ok (sd1, bat1) ->
  0 <= cs < 8 -> (forall b, In b alloc -> data_block b) ->
  length sd1 = length sd /\ forall i, (320 <= i < 336)%nat -> nth i sd1 [] = nth i sd [].
Proof.
  induction fuel as [|fuel IH]; intros sd bat alloc content ulb cb cs idx len sd1 bat1 H Hcs Hall;
    cbn [write_slices] in H.
  - injection H as <- _. split; [reflexivity|]. intros i _. reflexivity.
  - destruct (idx <? Z.max len 1); [|injection H as <- _; split; [reflexivity|intros i _; reflexivity]].
    destruct (nth_error alloc cb) as [b|] eqn:Eb; [|discriminate].
    cbv zeta in H. apply IH in H; [|unfold sectors_per_block; lia|exact Hall].
    destruct H as [Hl Hn]. rewrite set_sec_length in Hl. split; [exact Hl|].
    intros i Hi. rewrite (Hn i Hi). apply set_sec_other.
    pose proof (sec_of_block_data b cs (Hall b (nth_error_In _ _ Eb)) Hcs). lia.
Qed.

(* ---------- find_slot stops at the first slot that is not live ---------- *)
Lemma entry_of_bytes_status data bat en : entry_of_bytes data bat = Ok en ->
  ce_status en = entry_status_of (znth0 0 data).
Proof.
  unfold entry_of_bytes.
  destruct (entry_status_of (znth0 0 data) =? entry_NEVER_USED).
  - intros H. injection H as <-. reflexivity.
  - destruct (chain_of bat (znth0 rec_first_index data)) as [bs|er]; cbn [bind]; [|discriminate].
    intros H. injection H as <-. reflexivity.
Qed.

Lemma slice_entry off (l : list Z) : slice off (off + entry_size) l = firstn 32 (skipn off l).
Proof. unfold slice. replace (off + entry_size - off)%nat with 32%nat; [reflexivity|]. unfold entry_size, cat_entry_size. lia. Qed.

Lemma status_alive_live (e : list Z) :
  (entry_status_of (znth0 0 e) =? entry_ALIVE) = e_live e.
Proof.
  rewrite entry_status_of_alive. unfold e_live, znth0. change (Z.to_nat 0) with 0%nat.
  destruct e as [|x e]; reflexivity.
Qed.

Lemma find_slot_spec sd bat : forall slots s off, find_slot sd bat slots = Ok (Some (s, off)) ->
  exists S1 S2, slots = S1 ++ (s, off) :: S2 /\
    forallb (fun p => e_live (ent sd p)) S1 = true /\ e_live (ent sd (s, off)) = false.
Proof.
  induction slots as [|[s0 off0] slots IH]; intros s off H; cbn [find_slot] in H; [discriminate|].
  destruct (entry_of_bytes (slice off0 (off0 + entry_size) (get_sec sd s0)) bat) as [en|er] eqn:Een; [|discriminate].
  pose proof (entry_of_bytes_status _ _ _ Een) as Hst. rewrite slice_entry in Hst.
  assert (Hlive : e_live (ent sd (s0, off0)) = (ce_status en =? entry_ALIVE)).
  { unfold ent. cbn [fst snd]. rewrite <- status_alive_live. unfold nsec, get_sec in *. now rewrite Hst. }
  destruct ((ce_status en =? entry_NEVER_USED) || (ce_status en =? entry_DELETED)) eqn:E.
  - injection H as <- <-. exists [], slots. split; [reflexivity|]. split; [reflexivity|].
    rewrite Hlive. unfold entry_NEVER_USED, entry_DELETED, entry_ALIVE in *. lia.
  - destruct (IH s off H) as (S1 & S2 & -> & Hall & Hnl). exists ((s0, off0) :: S1), S2.
    split; [reflexivity|]. split; [|exact Hnl]. cbn [forallb]. rewrite Hall, andb_true_r, Hlive.
    destruct (entry_status_of_cases (znth0 0 (firstn 32 (skipn off0 (get_sec sd s0))))) as [Hc|[Hc|Hc]];
      rewrite <- Hst in Hc; rewrite Hc in *; try reflexivity; discriminate.
Qed.

(* ---------- replacing one 32-byte entry in a sector ---------- *)
Lemma firstn_skipn_app_l {A} n k (p r : list A) : (k + n <= length p)%nat ->
  firstn n (skipn k (p ++ r)) = firstn n (skipn k p).
Proof.
  intros H. rewrite skipn_app, firstn_app, skipn_length.
  replace (n - (length p - k))%nat with 0%nat by lia. cbn [firstn]. now rewrite app_nil_r.
Qed.
Lemma skipn_app_r {A} k (p r : list A) : (length p <= k)%nat -> skipn k (p ++ r) = skipn (k - length p) r.
Proof. intros H. rewrite skipn_app, skipn_all2 by lia. reflexivity. Qed.

Lemma skipn_skipn' {A} x y : forall l : list A, skipn x (skipn y l) = skipn (y + x) l.
Proof.
  induction y as [|y IH]; intros l; [reflexivity|].
  destruct l as [|a l]; cbn [skipn Nat.add]; [now rewrite !skipn_nil|apply IH].
Qed.

Lemma entry_replace_other (cs rec : list Z) off off' : length rec = 32%nat -> (off + 32 <= length cs)%nat ->
  (off' + 32 <= off \/ off + 32 <= off')%nat ->
  firstn 32 (skipn off' (splice off (off + 32) rec cs)) = firstn 32 (skipn off' cs).
Proof.
  intros Hr Hl Ho. unfold splice. replace (Nat.max off (off + 32)) with (off + 32)%nat by lia.
  destruct Ho as [Ho|Ho].
  - rewrite firstn_skipn_app_l by (rewrite firstn_length; lia).
    symmetry. rewrite <- (firstn_skipn off cs) at 1.
    rewrite firstn_skipn_app_l by (rewrite firstn_length; lia). reflexivity.
  - rewrite app_assoc, skipn_app_r by (rewrite app_length, firstn_length; lia).
    rewrite skipn_skipn'. do 2 f_equal. rewrite app_length, firstn_length. lia.
Qed.
Lemma entry_replace_same (cs rec : list Z) off : length rec = 32%nat -> (off + 32 <= length cs)%nat ->
  firstn 32 (skipn off (splice off (off + 32) rec cs)) = rec.
Proof.
  intros Hr Hl. unfold splice. rewrite skipn_app_r by (rewrite firstn_length; lia).
  rewrite firstn_length. replace (off - Nat.min off (length cs))%nat with 0%nat by lia. rewrite skipn_O.
  rewrite firstn_app, Hr, Nat.sub_diag, firstn_O, app_nil_r. apply firstn_all2. lia.
Qed.
Lemma splice_length (cs rec : list Z) off : length rec = 32%nat -> (off + 32 <= length cs)%nat ->
  length (splice off (off + 32) rec cs) = length cs.
Proof.
  intros Hr Hl. unfold splice. rewrite !app_length, firstn_length, skipn_length. lia.
Qed.

(* ---------- the record written ---------- *)
Lemma sanitize_length l : length (sanitize l) = length l.
Proof.
  unfold sanitize. rewrite app_length, map_length. rewrite <- (firstn_skipn (Z.to_nat rec_sanitized_count) l) at 3.
  now rewrite app_length.
Qed.
Lemma bytes_from_str_ok s size n : bytes_from_str s size = Ok n -> 0 < size ->
  zlen n = size /\ forallb (fun c => (0 <=? c) && (c <? 128)) n = true.
Proof.
  unfold bytes_from_str. intros H Hs.
  destruct (forallb (fun c => (0 <=? c) && (c <? 128)) s) eqn:E; [|discriminate].
  injection H as <-. destruct (size <=? zlen s) eqn:E2.
  - split; [|now apply forallb_firstn']. unfold zlen in *. rewrite firstn_length. lia.
  - split.
    + rewrite zlen_app'. unfold zlen at 2. rewrite repeat_length. pose proof (zlen_nonneg' s). lia.
    + rewrite forallb_app', E. cbn [andb]. apply forallb_repeat'. reflexivity.
Qed.

Lemma new_record_ok name ext kind dtype first last rec : new_record name ext kind dtype first last = Ok rec ->
  length rec = 32%nat /\ e_live rec = true.
Proof.
  unfold new_record. destruct (bytes_from_str (upper_ascii name) size_of_entry_name) as [n|] eqn:En; [|discriminate].
  destruct (bytes_from_str (upper_ascii ext) size_of_entry_extension) as [x|] eqn:Ex; [|discriminate].
  cbn [bind]. intros H. injection H as <-.
  destruct (bytes_from_str_ok _ _ _ En ltac:(reflexivity)) as [Hn1 Hn2].
  destruct (bytes_from_str_ok _ _ _ Ex ltac:(reflexivity)) as [Hx1 _].
  change size_of_entry_name with 8 in Hn1. change size_of_entry_extension with 3 in Hx1.
  split.
  - rewrite app_length, sanitize_length, !app_length. unfold zlen in *. cbn [length]. 
    change (length padding_of_record) with 16%nat. lia.
  - destruct n as [|c n]; [discriminate|]. cbn [forallb] in Hn2. apply andb_prop in Hn2. destruct Hn2 as [Hc _].
    unfold sanitize. change (Z.to_nat rec_sanitized_count) with 11%nat. cbn [app firstn map].
    unfold e_live. cbn [nth]. unfold rec_is_invalid_char, invalid_char.
    destruct (c <? 32) eqn:E; lia.
Qed.

(* ---------- a successful writeFile changes the catalogue in its first free slot only ---------- *)
Lemma in_firstn {A} n : forall (l : list A) x, In x (firstn n l) -> In x l.
Proof.
  induction n as [|n IH]; intros [|y l] x H; cbn [firstn] in H; try contradiction.
  destruct H as [->|H]; [now left|right; now apply IH].
Qed.

Lemma ent_same_sector (sdA sdB : side) p : nth (fst p) sdA [] = nth (fst p) sdB [] -> ent sdA p = ent sdB p.
Proof. intros H. unfold ent, nsec. do 2 f_equal. exact H. Qed.

Lemma side_geometry_sector sd i : side_geometry sd = true -> (i < 1280)%nat ->
  length sd = 1280%nat /\ length (nth i sd []) = 256%nat.
Proof.
  intros H Hi. destruct (side_geometry_geo sd H) as [Hl Hs]. split; [exact Hl|].
  rewrite Forall_forall in Hs. apply Hs. apply nth_In. nlia.
Qed.

Lemma mult32_apart a b : (a mod 32 =? 0)%nat = true -> (b mod 32 =? 0)%nat = true -> a <> b ->
  (a + 32 <= b \/ b + 32 <= a)%nat.
Proof.
  intros Ha Hb Hne. apply Nat.eqb_eq in Ha, Hb.
  pose proof (Nat.div_mod a 32 ltac:(discriminate)). pose proof (Nat.div_mod b 32 ltac:(discriminate)). lia.
Qed.

Lemma write_ok_entries sd content name ext kind dtype sd' :
  tool_readable sd = true -> write_file sd content name ext kind dtype = (sd', Ok tt) ->
  exists E1 e e' E2, cat_entries sd = E1 ++ e :: E2 /\ cat_entries sd' = E1 ++ e' :: E2 /\
    forallb e_live E1 = true /\ e_live e = false /\ e_live e' = true.
Proof.
  intros Htr. destruct (tool_readable_parts sd Htr) as (Hgeo & Hvalid & H40 & H41 & _).
  unfold write_file. rewrite (bat_get_ok sd Hvalid).
  destruct (compute_required_slots (zlen content) payload_per_sector) as [sectors0 last0].
  destruct (if zlen content =? 0 then (1, 0) else (sectors0, last0)) as [sectors last_sector].
  destruct (compute_required_slots sectors sectors_per_block) as [nblocks last_block].
  set (alloc := firstn (Z.to_nat nblocks) (free_blocks (fat sd) 0)).
  destruct (zlen alloc <? nblocks); [discriminate|].
  destruct (nth_error alloc 0) as [first|]; [|discriminate].
  destruct (new_record name ext kind dtype first last_sector) as [rec|er] eqn:Erec; [|discriminate].
  destruct (write_slices (S (length content)) sd (fat sd) alloc content last_block 0 0 0 (zlen content))
    as [[sd1 bat1]|er] eqn:Ews; [|discriminate].
  destruct (find_slot (bat_set sd1 bat1) bat1 all_slots) as [[[s off]|]|er] eqn:Efs; try discriminate.
  intros H. injection H as <-.
  (* the slice loop and the table setter leave the catalogue sectors alone *)
  assert (Hall : forall b, In b alloc -> data_block b).
  { intros b Hb. apply (free_blocks_data sd b H40 H41). exact (in_firstn _ _ _ Hb). }
  destruct (write_slices_frame _ _ _ _ _ _ _ _ _ _ _ _ Ews ltac:(lia) Hall) as [Hl1 Hn1].
  set (sd2 := bat_set sd1 bat1) in *.
  assert (Hl2 : length sd2 = length sd).
  { unfold sd2, bat_set. rewrite set_sec_length. exact Hl1. }
  assert (Hn2 : forall i, (322 <= i < 336)%nat -> nth i sd2 [] = nth i sd []).
  { intros i Hi. unfold sd2, bat_set. change bat_index with 321%nat.
    rewrite set_sec_other by lia. apply Hn1. lia. }
  destruct (find_slot_spec _ _ _ _ _ Efs) as (S1 & S2 & Hslots & HS1 & Hnl).
  pose proof all_slots_ok as Hok. pose proof all_slots_nodup as Hnd.
  rewrite Hslots in Hok, Hnd. rewrite forallb_app' in Hok. cbn [forallb] in Hok.
  apply andb_prop in Hok. destruct Hok as [Hok1 Hok]. apply andb_prop in Hok. destruct Hok as [Hok0 Hok2].
  destruct (nodupb_split _ _ _ Hnd) as [Hni1 Hni2].
  assert (Hsame : forall p, slot_ok p = true -> ent sd2 p = ent sd p).
  { intros p Hp. apply ent_same_sector. apply Hn2. unfold slot_ok in Hp. lia. }
  unfold slot_ok in Hok0. cbn [fst snd] in Hok0.
  destruct (side_geometry_sector sd s Hgeo ltac:(lia)) as [Hlen Hsec].
  set (cs := get_sec sd2 s).
  assert (Hcs : cs = nth s sd []) by (unfold cs, get_sec; apply Hn2; lia).
  destruct (new_record_ok _ _ _ _ _ _ _ Erec) as [Hrl Hrlive].
  assert (Hcl : length cs = 256%nat) by (rewrite Hcs; exact Hsec).
  assert (Hx : set_payload cs (splice off (off + entry_size) rec cs) = splice off (off + 32) rec cs).
  { change entry_size with 32%nat.
    assert (Hsl : length (splice off (off + 32) rec cs) = 256%nat).
    { rewrite splice_length; [exact Hcl|exact Hrl|lia]. }
    destruct (set_payload_exact cs (splice off (off + 32) rec cs) Hcl) as [Hsp _].
    rewrite Hsp, Hsl. change (Nat.min 256 256) with 256%nat.
    rewrite firstn_all2, skipn_all2 by lia. apply app_nil_r. }
  rewrite Hx. set (sd3 := set_sec sd2 s (splice off (off + 32) rec cs)).
  assert (Hnew : ent sd3 (s, off) = rec).
  { unfold ent, nsec, sd3. cbn [fst snd]. rewrite set_sec_same by lia.
    apply entry_replace_same; [exact Hrl|lia]. }
  assert (Hother : forall p, slot_ok p = true -> p <> (s, off) -> ent sd3 p = ent sd p).
  { intros [s' off'] Hp Hne. rewrite <- (Hsame _ Hp). unfold slot_ok in Hp. cbn [fst snd] in Hp.
    destruct (Nat.eq_dec s' s) as [->|Hs].
    - unfold ent, nsec, sd3. cbn [fst snd]. rewrite set_sec_same by lia. change (nth s sd2 []) with cs.
      apply entry_replace_other; [exact Hrl|lia|].
      assert (Hoff : off' <> off) by (intros ->; now apply Hne).
      apply andb_prop in Hp. destruct Hp as [Hp _]. apply andb_prop in Hp. destruct Hp as [_ Hp].
      apply andb_prop in Hok0. destruct Hok0 as [Hok0 _]. apply andb_prop in Hok0. destruct Hok0 as [_ Hok0].
      exact (mult32_apart off' off Hp Hok0 Hoff).
    - apply ent_same_sector. cbn [fst]. unfold sd3. now apply set_sec_other. }
  exists (map (ent sd) S1), (ent sd (s, off)), rec, (map (ent sd) S2).
  rewrite !cat_entries_slots, Hslots, !map_app. cbn [map].
  split; [reflexivity|]. split.
  - rewrite Hnew. f_equal; [|f_equal]; apply map_ext_in; intros p Hp; apply Hother.
    + rewrite forallb_forall in Hok1. now apply Hok1.
    + intros ->. now apply Hni1.
    + rewrite forallb_forall in Hok2. now apply Hok2.
    + intros ->. now apply Hni2.
  - split; [|split; [|exact Hrlive]].
    + apply forallb_forall. intros e He. apply in_map_iff in He. destruct He as (p & <- & Hp).
      rewrite forallb_forall in HS1, Hok1. rewrite <- (Hsame p (Hok1 p Hp)). now apply HS1.
    + rewrite <- Hsame; [exact Hnl|]. unfold slot_ok. cbn [fst snd]. exact Hok0.
Qed.

Lemma write_file_position sd content name ext kind dtype fs1 fs2 blocks :
  tool_readable sd = true -> write_args_ok name ext kind dtype content = true ->
  snd (write_file sd content name ext kind dtype) = Ok tt ->
  dos_files sd = Some (fs1 ++ fs2) ->
  dos_files (fst (write_file sd content name ext kind dtype)) =
    Some (fs1 ++ stored_file name ext kind (dtype =? 1) content blocks :: fs2) ->
  zlen blocks = needed_blocks (zlen content) ->
  Forall (fun b => st_free (fstatus (fat sd) b) = true) blocks ->
  length fs1 = lenlive (cat_entries sd) /\
  (S (lenlive (cat_entries sd)) <= lenlive (cat_entries (fst (write_file sd content name ext kind dtype))))%nat.
Proof.
  intros Htr _ Hok Hd Hd' _ Hfree.
  destruct (write_file sd content name ext kind dtype) as [sd' r] eqn:Ew. cbn [fst snd] in *. subst r.
  destruct (write_ok_entries sd content name ext kind dtype sd' Htr Ew) as (E1 & e & e' & E2 & Hc & Hc' & Hl & He & He').
  exact (position_from_entries sd sd' E1 e e' E2 fs1 fs2 _ Hc Hc' Hl He He' Hd Hd' Hfree).
Qed.
