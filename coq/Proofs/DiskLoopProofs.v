(* Proofs/DiskLoopProofs.v — the injector's loops (C02, C04, C05 histories, C10, C12 for create/add).
   TOP statements are fixed.  They rest on the one-step theorems of DiskWriteProofs.v and on the
   geometry lemmas of DiskGeoProofs.v. *)
From Coq Require Import ZArith List Bool Lia ZifyBool.
Require Import PyBase GenDisk DiskFacts Disk ThomsonDos PyFacts DiskDefs DiskGeoProofs DiskWriteProofs DiskReadProofs.
Import ListNotations.
Open Scope Z_scope.
Ltac Zify.zify_post_hook ::= Z.to_euclidean_division_equations.

(* the image the injector starts from *)
Definition start_image (init : bool) (img : image) : image := if init then map init_fs img else img.
Definition start_ok (init : bool) (img : image) : Prop :=
  length img = 4%nat /\
  if init then Forall (fun sd => side_geometry sd = true) img
  else forallb tool_readable img = true.
Definition srcs_printable (srcs : list (list Z)) : Prop := Forall (fun s => forallb printable_char s = true) srcs.

(* TOP (C05, C04): whatever the sources - refusals for lack of blocks or of catalogue entries at
   any position, --eos anywhere, more sources than four sides hold - the injector either writes
   nothing or writes, at the archive path, an image whose four sides are all well-formed file
   systems (strict ones if it started from strict ones, in particular on create). *)
Theorem inject_keeps_fs : forall (is_fd v init : bool) (fs : fsmap) (arch : list Z) (img : image) (srcs : list (list Z)),
  start_ok init img -> sources_ok fs -> srcs_printable srcs ->
  d_effects (inject_perform is_fd v init fs arch img srcs) = [] \/
  exists img', d_effects (inject_perform is_fd v init fs arch img srcs) = [WriteFile arch (save_image is_fd img')] /\
    d_status (inject_perform is_fd v init fs arch img srcs) = 0 /\
    length img' = 4%nat /\ geo_image img' /\ forallb tool_readable img' = true /\
    (forallb names_printable (start_image init img) = true -> forallb names_printable img' = true) /\
    (forallb fsck_strict (start_image init img) = true -> forallb fsck_strict img' = true).
Admitted.

(* TOP: on a well-formed start the injector never crashes: the image is always written *)
Theorem inject_always_saves : forall (is_fd v init : bool) (fs : fsmap) (arch : list Z) (img : image) (srcs : list (list Z)),
  start_ok init img -> sources_ok fs -> srcs_printable srcs ->
  d_status (inject_perform is_fd v init fs arch img srcs) = 0 /\ d_crash (inject_perform is_fd v init fs arch img srcs) = None /\
  exists c, d_effects (inject_perform is_fd v init fs arch img srcs) = [WriteFile arch c].
Admitted.

(* TOP (C02, C06, C10d, C12): report and image agree, side by side.  On every side the files of
   the final image are an order-preserving interleaving of the files that were there and of the
   files the report says were stored on that side, in report order, with the announced
   catalogue name, kind, flag and exactly the announced bytes; the announced size is the
   content's length and the announced block count is the length of the file's chain. *)
Theorem inject_report_matches_image : forall (is_fd v init : bool) (fs : fsmap) (arch : list Z) (img img' : image) (srcs : list (list Z)),
  start_ok init img -> sources_ok fs -> srcs_printable srcs ->
  d_effects (inject_perform is_fd v init fs arch img srcs) = [WriteFile arch (save_image is_fd img')] ->
  geo_image img' -> length img' = 4%nat ->
  forall i : nat, (i < 4)%nat ->
  exists old new merged : list dos_file,
    dos_files (nth i (start_image init img) []) = Some old /\
    dos_files (nth i img' []) = Some merged /\ interleave old new merged /\
    let stored := filter item_stored (files_of_log (Z.of_nat i) (d_log (inject_perform is_fd v init fs arch img srcs))) in
    map dos_view new = map item_dos stored /\ map file_view new = map item_view stored.
Admitted.

(* TOP (C10): shape of the report: sides in order, every file under the open side, a refused file
   retried on the next side only (never split, never stored twice), dropped once the fourth side
   is passed *)
Theorem inject_report_shape : forall (is_fd v init : bool) (fs : fsmap) (arch : list Z) (img : image) (srcs : list (list Z)),
  start_ok init img -> sources_ok fs -> srcs_printable srcs ->
  log_wf (-1) (d_log (inject_perform is_fd v init fs arch img srcs)) = true.
Admitted.

(* TOP (C10a, C20): the files stored, over all sides and in report order, are a subsequence of the
   sources in the order given, each with its own bytes: nothing stored twice, nothing invented *)
Theorem inject_stores_sources_in_order : forall (is_fd v init : bool) (fs : fsmap) (arch : list Z) (img : image) (srcs : list (list Z)),
  start_ok init img -> sources_ok fs -> srcs_printable srcs ->
  subseq (somes (map item_core (filter item_stored (all_files_of_log (d_log (inject_perform is_fd v init fs arch img srcs))))))
         (somes (map (source_item fs) srcs)).
Admitted.

(* TOP (C02): create, then list/extract: every file reported stored on side i is listed on side i
   and extracted byte for byte *)
Theorem create_roundtrip : forall (is_fd v v2 : bool) (fs : fsmap) (arch : list Z) (srcs : list (list Z)) (raw : list Z) (into : option (list Z)),
  sources_ok fs -> srcs_printable srcs ->
  existsb (Z.eqb 0) (target_of into arch) = false ->
  d_effects (disk_create is_fd v fs arch srcs) = [WriteFile arch raw] ->
  exists files : list (list dos_file),
    length files = 4%nat /\
    d_status (disk_extract is_fd v2 into arch raw) = 0 /\
    d_effects (disk_extract is_fd v2 into arch raw) = flat_map (side_effects (target_of into arch)) (indexed files) /\
    d_log (disk_extract is_fd v2 into arch raw) = flat_map side_log (indexed files) /\
    d_log (disk_list is_fd v2 raw) = flat_map side_log_listed (indexed files) /\
    forall i : nat, (i < 4)%nat ->
      let stored := filter item_stored (files_of_log (Z.of_nat i) (d_log (disk_create is_fd v fs arch srcs))) in
      map dos_view (nth i files []) = map item_dos stored /\ map file_view (nth i files []) = map item_view stored.
Admitted.
