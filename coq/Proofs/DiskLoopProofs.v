(* Proofs/DiskLoopProofs.v — the injector's loops (C02, C04, C05 histories, C10, C12 for create/add).
   TOP statements are fixed.  They rest on the one-step theorems of DiskWriteProofs.v and on the
   geometry lemmas of DiskGeoProofs.v. *)
From Coq Require Import ZArith List Bool Lia ZifyBool.
Require Import PyBase GenDisk DiskFacts Disk ThomsonDos PyFacts DiskDefs DiskGeoProofs DiskWriteProofs DiskReadProofs.
Require Import DiskFactsLoop DLoopBase DLoopArgs DLoopSlot DLoopInv.
Import ListNotations.
Open Scope Z_scope.
Ltac Zify.zify_post_hook ::= Z.to_euclidean_division_equations.

(* the image the injector starts from *)
Definition start_image (init : bool) (img : image) : image := if init then map init_fs img else img.
Definition start_ok (init : bool) (img : image) : Prop :=
  length img = 4%nat /\
  if init then Forall (fun sd => side_geometry sd = true) img
  else forallb tool_readable img = true.
Definition srcs_printable (srcs : list (list Z)) : Prop := Forall (fun s => forallb printable_char s = true) srcs.


(* ---------- from the invariant of Proofs/DLoopInv.v to the statements ---------- *)
Lemma start_image_readable init img : start_ok init img ->
  length img = 4%nat /\ forallb tool_readable (start_image init img) = true.
Proof.
  intros [Hl H]. split; [exact Hl|]. unfold start_image. destruct init; [|exact H].
  apply forallb_forall. intros sd Hsd. apply in_map_iff in Hsd. destruct Hsd as (sd0 & <- & Hsd0).
  rewrite Forall_forall in H. apply (init_fs_strict sd0 (H sd0 Hsd0)).
Qed.

Lemma perform_main is_fd v init fs arch img srcs :
  start_ok init img -> sources_ok fs -> srcs_printable srcs ->
  exists st text,
    inject_perform is_fd v init fs arch img srcs =
      mkDOutcome 0 text [WriteFile arch (save_image is_fd (i_img st))] None (i_log st) /\
    sinv (start_image init img) (somes (map (source_item fs) srcs)) PNone st.
Proof.
  intros Hso Hfs Hsrcs. destruct (start_image_readable init img Hso) as [Hl Htr].
  exact (inject_perform_inv is_fd v init fs arch img srcs (start_image init img) Hl eq_refl Htr Hfs Hsrcs).
Qed.

(* TOP (C05, C04): whatever the sources - refusals for lack of blocks or of catalogue entries at
   any position, --eos anywhere, more sources than four sides hold - the injector either writes
   nothing or writes, at the archive path, an image whose four sides are all well-formed file
   systems (strict ones if it started from strict ones, in particular on create). *)
Theorem inject_keeps_fs : forall (is_fd v init : bool) (fs : fsmap) (arch : list Z) (img : image) (srcs : list (list Z)),
  start_ok init img -> sources_ok fs -> srcs_printable srcs ->
  d_effects (inject_perform is_fd v init fs arch img srcs) = [] \/
  exists img', d_effects (inject_perform is_fd v init fs arch img srcs) = [WriteFile arch (save_image is_fd img')] /\
    d_status (inject_perform is_fd v init fs arch img srcs) = 0 /\
    length img' = 4%nat /\ geo_image img' /\ forallb tool_readable img' = true /\
    (forallb names_printable (start_image init img) = true -> forallb names_printable img' = true) /\
    (forallb fsck_strict (start_image init img) = true -> forallb fsck_strict img' = true).
Proof.
  intros is_fd v init fs arch img srcs Hso Hfs Hsrcs.
  destruct (perform_main is_fd v init fs arch img srcs Hso Hfs Hsrcs) as (st & text & Heq & Hinv).
  right. exists (i_img st). rewrite Heq. cbn [d_effects d_status].
  split; [reflexivity|]. split; [reflexivity|].
  split; [exact (inv_len _ _ _ _ _ _ Hinv)|].
  split; [exact (tool_readable_geo_image _ (inv_tr _ _ _ _ _ _ Hinv))|].
  split; [exact (inv_tr _ _ _ _ _ _ Hinv)|].
  split; [exact (inv_np _ _ _ _ _ _ Hinv)|exact (inv_st _ _ _ _ _ _ Hinv)].
Qed.

(* TOP: on a well-formed start the injector never crashes: the image is always written *)
Theorem inject_always_saves : forall (is_fd v init : bool) (fs : fsmap) (arch : list Z) (img : image) (srcs : list (list Z)),
  start_ok init img -> sources_ok fs -> srcs_printable srcs ->
  d_status (inject_perform is_fd v init fs arch img srcs) = 0 /\ d_crash (inject_perform is_fd v init fs arch img srcs) = None /\
  exists c, d_effects (inject_perform is_fd v init fs arch img srcs) = [WriteFile arch c].
Proof.
  intros is_fd v init fs arch img srcs Hso Hfs Hsrcs.
  destruct (perform_main is_fd v init fs arch img srcs Hso Hfs Hsrcs) as (st & text & Heq & Hinv).
  rewrite Heq. cbn [d_effects d_status d_crash].
  split; [reflexivity|]. split; [reflexivity|]. eexists. reflexivity.
Qed.

(* TOP (C02, C06, C10d, C12): report and image agree, side by side.  On every side the files of
   the final image are an order-preserving interleaving of the files that were there and of the
   files the report says were stored on that side, in report order, with the announced
   catalogue name, kind, flag and exactly the announced bytes; the announced size is the
   content's length and the announced block count is the length of the file's chain. *)
Theorem inject_report_matches_image : forall (is_fd v init : bool) (fs : fsmap) (arch : list Z) (img img' : image) (srcs : list (list Z)),
  start_ok init img -> sources_ok fs -> srcs_printable srcs ->
  d_effects (inject_perform is_fd v init fs arch img srcs) = [WriteFile arch (save_image is_fd img')] ->
  geo_image img' -> length img' = 4%nat ->
  forall i : nat, (i < 4)%nat ->
  exists old new merged : list dos_file,
    dos_files (nth i (start_image init img) []) = Some old /\
    dos_files (nth i img' []) = Some merged /\ interleave old new merged /\
    let stored := filter item_stored (files_of_log (Z.of_nat i) (d_log (inject_perform is_fd v init fs arch img srcs))) in
    map dos_view new = map item_dos stored /\ map file_view new = map item_view stored.
Proof.
  intros is_fd v init fs arch img img' srcs Hso Hfs Hsrcs Heff Hgeo Hlen i Hi.
  destruct (perform_main is_fd v init fs arch img srcs Hso Hfs Hsrcs) as (st & text & Heq & Hinv).
  rewrite Heq in Heff |- *. cbn [d_effects d_log] in Heff |- *.
  injection Heff as Hsave.
  pose proof (save_load is_fd img' Hgeo Hlen) as Hl1.
  pose proof (save_load is_fd (i_img st) (tool_readable_geo_image _ (inv_tr _ _ _ _ _ _ Hinv))
                (inv_len _ _ _ _ _ _ Hinv)) as Hl2.
  rewrite Hsave, Hl1 in Hl2. injection Hl2 as Himg. subst img'.
  cbv zeta. exact (side_rel_final _ _ _ (inv_rel _ _ _ _ _ _ Hinv i Hi)).
Qed.

(* TOP (C10): shape of the report: sides in order, every file under the open side, a refused file
   retried on the next side only (never split, never stored twice), dropped once the fourth side
   is passed *)
Theorem inject_report_shape : forall (is_fd v init : bool) (fs : fsmap) (arch : list Z) (img : image) (srcs : list (list Z)),
  start_ok init img -> sources_ok fs -> srcs_printable srcs ->
  log_wf (-1) (d_log (inject_perform is_fd v init fs arch img srcs)) = true.
Proof.
  intros is_fd v init fs arch img srcs Hso Hfs Hsrcs.
  destruct (perform_main is_fd v init fs arch img srcs Hso Hfs Hsrcs) as (st & text & Heq & Hinv).
  rewrite Heq. cbn [d_log]. exact (sinv_log_wf _ _ _ Hinv).
Qed.

(* TOP (C10a, C20): the files stored, over all sides and in report order, are a subsequence of the
   sources in the order given, each with its own bytes: nothing stored twice, nothing invented *)
Theorem inject_stores_sources_in_order : forall (is_fd v init : bool) (fs : fsmap) (arch : list Z) (img : image) (srcs : list (list Z)),
  start_ok init img -> sources_ok fs -> srcs_printable srcs ->
  subseq (somes (map item_core (filter item_stored (all_files_of_log (d_log (inject_perform is_fd v init fs arch img srcs))))))
         (somes (map (source_item fs) srcs)).
Proof.
  intros is_fd v init fs arch img srcs Hso Hfs Hsrcs.
  destruct (perform_main is_fd v init fs arch img srcs Hso Hfs Hsrcs) as (st & text & Heq & Hinv).
  rewrite Heq. cbn [d_log]. exact (inv_sub _ _ _ _ _ _ Hinv).
Qed.


(* ---------- create: the blank image ---------- *)
Lemma load_blank is_fd : load_image is_fd [] = Ok (repeat blank_side 4).
Proof. destruct is_fd; reflexivity. Qed.

Lemma blank_side_geometry : side_geometry blank_side = true.
Proof.
  unfold side_geometry, blank_side. rewrite repeat_length.
  apply andb_true_intro. split; [reflexivity|].
  apply forallb_repeat'. unfold blank_sector. rewrite repeat_length.
  apply andb_true_intro. split; [reflexivity|].
  unfold bytesb. apply forallb_repeat'. reflexivity.
Qed.

Lemma nth_map_some {A} (l : list A) (d : A) i : nth i (map Some l) None = if Nat.ltb i (length l) then Some (nth i l d) else None.
Proof.
  revert i. induction l as [|x l IH]; intros [|i]; cbn [map nth length]; try reflexivity.
  rewrite IH. reflexivity.
Qed.
Lemma nth_map_opt {A B} (f : A -> option B) (l : list A) (d : A) i : (i < length l)%nat ->
  nth i (map f l) None = f (nth i l d).
Proof.
  revert i. induction l as [|x l IH]; intros [|i] Hi; cbn [map nth length] in *; try lia; [reflexivity|].
  apply IH. lia.
Qed.

(* TOP (C02): create, then list/extract: every file reported stored on side i is listed on side i
   and extracted byte for byte *)
Theorem create_roundtrip : forall (is_fd v v2 : bool) (fs : fsmap) (arch : list Z) (srcs : list (list Z)) (raw : list Z) (into : option (list Z)),
  sources_ok fs -> srcs_printable srcs ->
  existsb (Z.eqb 0) (target_of into arch) = false ->
  d_effects (disk_create is_fd v fs arch srcs) = [WriteFile arch raw] ->
  exists files : list (list dos_file),
    length files = 4%nat /\
    d_status (disk_extract is_fd v2 into arch raw) = 0 /\
    d_effects (disk_extract is_fd v2 into arch raw) = flat_map (side_effects (target_of into arch)) (indexed files) /\
    d_log (disk_extract is_fd v2 into arch raw) = flat_map side_log (indexed files) /\
    d_log (disk_list is_fd v2 raw) = flat_map side_log_listed (indexed files) /\
    forall i : nat, (i < 4)%nat ->
      let stored := filter item_stored (files_of_log (Z.of_nat i) (d_log (disk_create is_fd v fs arch srcs))) in
      map dos_view (nth i files []) = map item_dos stored /\ map file_view (nth i files []) = map item_view stored.
Proof.
  intros is_fd v v2 fs arch srcs raw into Hfs Hsrcs Htgt Heff.
  unfold disk_create in *. rewrite load_blank in *.
  assert (Hso : start_ok true (repeat blank_side 4)).
  { split; [reflexivity|]. apply Forall_forall. intros sd Hsd. apply repeat_spec in Hsd. subst sd.
    exact blank_side_geometry. }
  destruct (perform_main is_fd v true fs arch _ srcs Hso Hfs Hsrcs) as (st & text & Heq & Hinv).
  rewrite Heq in Heff |- *. cbn [d_effects d_log] in Heff |- *. injection Heff as Hraw.
  pose proof (inv_len _ _ _ _ _ _ Hinv) as Hlen.
  pose proof (inv_tr _ _ _ _ _ _ Hinv) as Htr.
  pose proof (save_load is_fd (i_img st) (tool_readable_geo_image _ Htr) Hlen) as Hload.
  rewrite Hraw in Hload.
  assert (Hinit : forall sd, In sd (start_image true (repeat blank_side 4)) ->
                   names_printable sd = true /\ dos_files sd = Some []).
  { intros sd Hsd. unfold start_image in Hsd. apply in_map_iff in Hsd. destruct Hsd as (sd0 & <- & Hsd0).
    apply repeat_spec in Hsd0. subst sd0.
    destruct (init_fs_strict blank_side blank_side_geometry) as (_ & _ & Hn & Hd & _). split; assumption. }
  assert (Hnp : forallb names_printable (i_img st) = true).
  { apply (inv_np _ _ _ _ _ _ Hinv). apply forallb_forall. intros sd Hsd. apply (Hinit sd Hsd). }
  destruct (disk_read_exact is_fd v2 raw (i_img st) into arch Hload Htr Hnp Htgt)
    as (files & Hmap & Hs & _ & He & Hlg & _ & _ & _ & Hll).
  assert (Hlf : length files = 4%nat).
  { rewrite <- Hlen. rewrite <- (map_length Some files), <- Hmap, map_length. reflexivity. }
  exists files. repeat (split; [assumption|]).
  intros i Hi. cbv zeta.
  destruct (side_rel_final _ _ _ (inv_rel _ _ _ _ _ _ Hinv i Hi)) as (old & new & merged & H0 & H1 & Hil & Hv & Hw).
  assert (Hold : old = []).
  { destruct (Hinit (nth i (start_image true (repeat blank_side 4)) [])) as [_ Hd].
    - apply nth_In. unfold start_image. rewrite map_length, repeat_length. exact Hi.
    - rewrite Hd in H0. now injection H0 as <-. }
  subst old. apply interleave_nil_left in Hil. subst merged.
  assert (Hnth : Some (nth i files []) = Some new).
  { pose proof (nth_map_opt dos_files (i_img st) [] i ltac:(nlia)) as Hn.
    rewrite Hmap, (nth_map_some files [] i) in Hn.
    replace (Nat.ltb i (length files)) with true in Hn by (symmetry; apply Nat.ltb_lt; lia).
    exact (eq_trans Hn H1). }
  injection Hnth as Hnth. rewrite Hnth. split; assumption.
Qed.
