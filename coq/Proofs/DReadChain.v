(* Proofs/DReadChain.v — the chain walk: invariant (C18) and agreement with the Spec's chain (C07). *)
From Coq Require Import ZArith List Bool Lia ZifyBool.
Require Import PyBase GenDisk DiskFacts DiskFactsRead Disk ThomsonDos PyFacts DReadBase.
Import ListNotations.
Open Scope Z_scope.
Ltac Zify.zify_post_hook ::= Z.to_euclidean_division_equations.

(* ---------- status_of ---------- *)
Lemma status_of_some bat b s : status_of bat b = Some s -> 0 <= b < zlen bat /\ In s bat.
Proof.
  unfold status_of. destruct (b <? 0) eqn:E; [discriminate|]. intros H. split.
  - assert (Hn : nth_error bat (Z.to_nat b) <> None) by congruence.
    apply nth_error_Some in Hn. unfold zlen. lia.
  - eapply nth_error_In. exact H.
Qed.
Lemma status_of_inrange bat b d : 0 <= b < zlen bat -> status_of bat b = Some (nth (Z.to_nat b) bat d).
Proof.
  intros H. unfold status_of. destruct (b <? 0) eqn:E; [lia|].
  apply nth_error_nth'. unfold zlen in H. lia.
Qed.

(* ---------- pigeonhole ---------- *)
Lemma pigeon (n : nat) (l : list Z) :
  NoDup l -> Forall (fun b => 0 <= b < Z.of_nat n) l -> (length l <= n)%nat.
Proof.
  intros Hnd Hr. rewrite <- (seq_length n 0), <- (map_length Z.of_nat).
  apply NoDup_incl_length; [exact Hnd|]. intros x Hx. rewrite Forall_forall in Hr. apply Hr in Hx.
  apply in_map_iff. exists (Z.to_nat x). split; [lia|apply in_seq; lia].
Qed.

(* ---------- the invariant of walk ---------- *)
(* every collected block is inside the table and is neither free nor reserved *)
Definition blk_ok (bat : list Z) (b : Z) : Prop :=
  exists s, status_of bat b = Some s /\ ba_is_free s || ba_is_reserved s = false.

Lemma blk_ok_range bat l : Forall (blk_ok bat) l -> Forall (fun b => 0 <= b < Z.of_nat (length bat)) l.
Proof.
  intros H. eapply Forall_impl; [|exact H]. intros b (s & Hs & _).
  apply status_of_some in Hs. exact (proj1 Hs).
Qed.

Lemma walk_inv bat : forall fuel st blocks,
  NoDup blocks -> Forall (blk_ok bat) blocks -> (length bat - length blocks < fuel)%nat ->
  exists bs, walk fuel bat st blocks = Some bs /\ NoDup bs /\ Forall (blk_ok bat) bs /\
             (blocks <> [] -> bs <> []).
Proof.
  induction fuel as [|fuel IH]; intros st blocks Hnd Hok Hf; [lia|].
  cbn [walk]. destruct (ba_is_last st) eqn:El; [exists blocks; auto|].
  destruct (status_of bat st) as [st'|] eqn:Es; [|exists blocks; auto].
  destruct (ba_is_free st' || ba_is_reserved st' || existsb (Z.eqb st) blocks) eqn:Ec; [exists blocks; auto|].
  apply orb_false_iff in Ec. destruct Ec as [Efr Ein]. apply existsb_eqb_notin in Ein.
  assert (Hnd' : NoDup (blocks ++ [st])).
  { apply NoDup_snoc; assumption. }
  assert (Hok' : Forall (blk_ok bat) (blocks ++ [st])).
  { apply Forall_app. split; [exact Hok|]. constructor; [|constructor]. exists st'. auto. }
  pose proof (pigeon _ _ Hnd' (blk_ok_range _ _ Hok')) as Hp. rewrite app_length in Hp. cbn [length] in Hp.
  destruct (IH st' (blocks ++ [st]) Hnd' Hok') as (bs & Hw & H1 & H2 & H3).
  { rewrite app_length. cbn [length]. lia. }
  exists bs. repeat split; auto. intros _. apply H3. intros E. apply app_eq_nil in E. destruct E; discriminate.
Qed.

Lemma chain_of_inv bat first : (length bat <= 160)%nat ->
  chain_of bat first = Err EIndex \/
  exists bs, chain_of bat first = Ok bs /\ NoDup bs /\ Forall (blk_ok bat) bs /\ (length bs <= 160)%nat.
Proof.
  intros Hlen. unfold chain_of. destruct (status_of bat first) as [st|] eqn:Es; [|now left]. right.
  destruct (ba_is_free st || ba_is_reserved st) eqn:Ef.
  - exists []. repeat split; [constructor|constructor|cbn; lia].
  - destruct (walk_inv bat walk_fuel st [first]) as (bs & Hw & H1 & H2 & _).
    + constructor; [intros []|constructor].
    + constructor; [|constructor]. exists st. auto.
    + unfold walk_fuel. cbn [length]. lia.
    + rewrite Hw. exists bs. repeat split; auto.
      pose proof (pigeon _ _ H1 (blk_ok_range _ _ H2)). lia.
Qed.
