(* Proofs/DLoopBase.v — list, interleaving, subsequence and report-shape lemmas used by the
   injector loop proofs.  No model reasoning here. *)
From Coq Require Import ZArith List Bool Lia ZifyBool.
Require Import PyBase GenDisk DiskFacts DiskFactsLoop Disk ThomsonDos PyFacts DiskDefs.
Import ListNotations.
Open Scope Z_scope.
Ltac Zify.zify_post_hook ::= Z.to_euclidean_division_equations.

(* lia, after making the two spellings of the list types (Model / Spec) syntactically equal *)
Ltac nlia := unfold dside, dsector, image, side, sector in *; lia.

(* ---------- generic ---------- *)
Lemma zlen_nonneg' {A} (l : list A) : 0 <= zlen l.
Proof. unfold zlen. lia. Qed.
Lemma zlen_app' {A} (a b : list A) : zlen (a ++ b) = zlen a + zlen b.
Proof. unfold zlen. rewrite app_length. lia. Qed.

Lemma zeqb_list_refl' a : zeqb_list a a = true.
Proof. induction a as [|x a IH]; cbn [zeqb_list]; [reflexivity|]. rewrite IH. lia. Qed.
Lemma zeqb_list_true' a : forall b, zeqb_list a b = true -> a = b.
Proof.
  induction a as [|x a IH]; intros [|y b] H; cbn [zeqb_list] in H; try discriminate; [reflexivity|].
  apply andb_prop in H. destruct H as [H1 H2]. apply IH in H2. f_equal; [lia|exact H2].
Qed.

Lemma forallb_app' {A} (p : A -> bool) a b : forallb p (a ++ b) = forallb p a && forallb p b.
Proof. apply forallb_app. Qed.
Lemma forallb_firstn' {A} (p : A -> bool) n : forall l, forallb p l = true -> forallb p (firstn n l) = true.
Proof.
  induction n as [|n IH]; intros [|x l] H; cbn [firstn forallb]; try reflexivity.
  cbn [forallb] in H. apply andb_prop in H. destruct H as [H1 H2]. rewrite H1, (IH _ H2). reflexivity.
Qed.
Lemma forallb_skipn' {A} (p : A -> bool) n : forall l, forallb p l = true -> forallb p (skipn n l) = true.
Proof.
  induction n as [|n IH]; intros [|x l] H; cbn [skipn]; try exact H; try reflexivity.
  cbn [forallb] in H. apply andb_prop in H. destruct H as [H1 H2]. exact (IH _ H2).
Qed.
Lemma forallb_repeat' {A} (p : A -> bool) x k : p x = true -> forallb p (repeat x k) = true.
Proof. intros H. induction k as [|k IH]; cbn [repeat forallb]; [reflexivity|]. now rewrite H, IH. Qed.
Lemma forallb_nth {A} (p : A -> bool) (d : A) l : forallb p l = true ->
  forall i, (i < length l)%nat -> p (nth i l d) = true.
Proof.
  intros H i Hi. rewrite forallb_forall in H. apply H. now apply nth_In.
Qed.
Lemma forallb_impl' {A} (p q : A -> bool) l :
  (forall x, In x l -> p x = true -> q x = true) -> forallb p l = true -> forallb q l = true.
Proof.
  intros Hpq H. rewrite forallb_forall in *. intros x Hx. apply Hpq; [exact Hx|]. now apply H.
Qed.

(* replacing one element *)
Definition upd {A} (i : nat) (x : A) (l : list A) : list A := firstn i l ++ [x] ++ skipn (S i) l.
Lemma upd_length {A} i (x : A) l : (i < length l)%nat -> length (upd i x l) = length l.
Proof.
  intros Hi. unfold upd. rewrite !app_length, firstn_length, skipn_length. cbn [length]. lia.
Qed.
Lemma upd_nth_same {A} i (x d : A) l : (i < length l)%nat -> nth i (upd i x l) d = x.
Proof.
  intros Hi. unfold upd. rewrite app_nth2; rewrite firstn_length; [|lia].
  replace (i - Nat.min i (length l))%nat with 0%nat by lia. reflexivity.
Qed.
Lemma upd_nth_other {A} i j (x d : A) l : (i < length l)%nat -> j <> i -> nth j (upd i x l) d = nth j l d.
Proof.
  intros Hi Hj. unfold upd.
  destruct (Nat.ltb j i) eqn:E.
  - apply Nat.ltb_lt in E. rewrite app_nth1 by (rewrite firstn_length; lia).
    rewrite <- (firstn_skipn i l) at 2. rewrite app_nth1 by (rewrite firstn_length; lia). reflexivity.
  - apply Nat.ltb_ge in E. rewrite app_nth2 by (rewrite firstn_length; lia).
    rewrite firstn_length. replace (Nat.min i (length l)) with i by lia.
    destruct (j - i)%nat as [|k] eqn:Ek; [lia|]. cbn [app nth].
    rewrite <- (firstn_skipn (S i) l) at 2. rewrite app_nth2 by (rewrite firstn_length; lia).
    rewrite firstn_length. f_equal. lia.
Qed.
Lemma upd_forallb {A} (p : A -> bool) i x l :
  forallb p l = true -> p x = true -> forallb p (upd i x l) = true.
Proof.
  intros Hl Hx. unfold upd. rewrite !forallb_app'. cbn [forallb].
  rewrite (forallb_firstn' p i l Hl), Hx, (forallb_skipn' p (S i) l Hl). reflexivity.
Qed.

(* ---------- interleavings ---------- *)
Lemma interleave_left_only {A} (l : list A) : interleave l [] l.
Proof. induction l as [|x l IH]; [constructor|now constructor]. Qed.
Lemma interleave_nil_left {A} (b m : list A) : interleave [] b m -> m = b.
Proof.
  intros H. remember (@nil A) as a eqn:Ea. induction H as [|x a b m H IH|x a b m H IH];
    [reflexivity|discriminate|]. f_equal. exact (IH Ea).
Qed.
Lemma interleave_app_left {A} (a b m t : list A) : interleave a b m -> interleave (a ++ t) b (m ++ t).
Proof.
  induction 1 as [|x a b m H IH|x a b m H IH]; cbn [app].
  - apply interleave_left_only.
  - now constructor.
  - now constructor.
Qed.
Lemma interleave_snoc_right {A} (a b m : list A) f : interleave a b m -> interleave a (b ++ [f]) (m ++ [f]).
Proof.
  induction 1 as [|x a b m H IH|x a b m H IH]; cbn [app].
  - constructor. constructor.
  - now constructor.
  - now constructor.
Qed.

(* ---------- subsequences ---------- *)
Lemma subseq_refl {A} (l : list A) : subseq l l.
Proof. induction l as [|x l IH]; [constructor|now constructor]. Qed.
Lemma subseq_app_right {A} (a l t : list A) : subseq a l -> subseq a (l ++ t).
Proof.
  induction 1 as [l|x a l H IH|x a l H IH]; cbn [app]; [constructor|now constructor|now constructor].
Qed.
Lemma subseq_snoc {A} (a l : list A) x : subseq a l -> subseq (a ++ [x]) (l ++ [x]).
Proof.
  induction 1 as [l|y a l H IH|y a l H IH]; cbn [app].
  - induction l as [|y l IH]; cbn [app]; [constructor; constructor|now constructor].
  - now constructor.
  - now constructor.
Qed.
Lemma somes_app {A} (a b : list (option A)) : somes (a ++ b) = somes a ++ somes b.
Proof.
  induction a as [|[x|] a IH]; cbn [app somes]; [reflexivity| |exact IH]. now rewrite IH.
Qed.

(* ---------- the log restricted to a side / to stored files ---------- *)
Lemma files_of_log_app i a b : files_of_log i (a ++ b) = files_of_log i a ++ files_of_log i b.
Proof.
  induction a as [|x a IH]; cbn [app files_of_log]; [reflexivity|].
  destruct x as [n|s n e k asc st sz bl c]; [exact IH|].
  destruct (s =? i); [cbn [app]; now rewrite IH|exact IH].
Qed.
Lemma all_files_of_log_app a b : all_files_of_log (a ++ b) = all_files_of_log a ++ all_files_of_log b.
Proof. unfold all_files_of_log. apply filter_app. Qed.

Definition stored_on (i : nat) (lg : list log_item) : list log_item :=
  filter item_stored (files_of_log (Z.of_nat i) lg).
Definition cores (lg : list log_item) : list (list Z * list Z * Z * bool * list Z) :=
  somes (map item_core (filter item_stored (all_files_of_log lg))).

Lemma stored_on_app i a b : stored_on i (a ++ b) = stored_on i a ++ stored_on i b.
Proof. unfold stored_on. now rewrite files_of_log_app, filter_app. Qed.
Lemma cores_app a b : cores (a ++ b) = cores a ++ cores b.
Proof. unfold cores. now rewrite all_files_of_log_app, filter_app, map_app, somes_app. Qed.
Lemma stored_on_side i n : stored_on i [LSide n] = [].
Proof. reflexivity. Qed.
Lemma cores_side n : cores [LSide n] = [].
Proof. reflexivity. Qed.
Lemma stored_on_file i s n e k a st sz b c :
  stored_on i [LFile s n e k a st sz b c] =
  if (s =? Z.of_nat i) && st then [LFile s n e k a st sz b c] else [].
Proof.
  unfold stored_on. cbn [files_of_log]. destruct (s =? Z.of_nat i); cbn [filter item_stored andb]; [|reflexivity].
  destruct st; reflexivity.
Qed.
Lemma cores_file s n e k a st sz b c :
  cores [LFile s n e k a st sz b c] = if st then [(n, e, k, a, c)] else [].
Proof. unfold cores. cbn [all_files_of_log filter item_stored]. destruct st; reflexivity. Qed.

(* ---------- shape of the report, on prefixes ---------- *)
(* what the report still owes: nothing; the retry of a refused file (side not yet opened); the
   retry of a refused file on the side just opened *)
Inductive pend :=
| PNone
| PRef (n e : list Z) (sz : Z) (c : list Z)
| POpen (n e : list Z) (sz : Z) (c : list Z).

Definition cont_ok (pd : pend) (cur : Z) (r : list log_item) : Prop :=
  match pd with
  | PNone => True
  | PRef n e sz c =>
    match r with
    | [] => cur = 3
    | LSide _ :: LFile _ n2 e2 _ _ _ sz2 _ c2 :: _ => n2 = n /\ e2 = e /\ sz2 = sz /\ c2 = c
    | _ => False
    end
  | POpen n e sz c =>
    match r with
    | LFile _ n2 e2 _ _ _ sz2 _ c2 :: _ => n2 = n /\ e2 = e /\ sz2 = sz /\ c2 = c
    | _ => False
    end
  end.

Definition log_inv (lg : list log_item) (cur : Z) (pd : pend) : Prop :=
  forall r, cont_ok pd cur r -> log_wf cur r = true -> log_wf (-1) (lg ++ r) = true.

Lemma log_inv_start : log_inv [] (-1) PNone.
Proof. intros r _ H. exact H. Qed.

Lemma log_inv_weaken lg cur pd : log_inv lg cur PNone -> log_inv lg cur pd.
Proof. intros H r _ Hr. apply H; [exact I|exact Hr]. Qed.

Lemma log_inv_side lg cur : log_inv lg cur PNone -> cur + 1 < 4 ->
  log_inv (lg ++ [LSide (cur + 1)]) (cur + 1) PNone.
Proof.
  intros H Hc r _ Hr. rewrite <- app_assoc. cbn [app]. apply H; [exact I|].
  cbn [log_wf]. rewrite Hr. lia.
Qed.

Lemma log_inv_side_ref lg cur n e sz c : log_inv lg cur (PRef n e sz c) -> cur + 1 < 4 ->
  log_inv (lg ++ [LSide (cur + 1)]) (cur + 1) (POpen n e sz c).
Proof.
  intros H Hc r Hk Hr. rewrite <- app_assoc. cbn [app]. apply H.
  - cbn [cont_ok]. destruct r as [|[m|s n2 e2 k2 a2 st2 sz2 b2 c2] r]; cbn [cont_ok] in Hk; try contradiction.
    exact Hk.
  - cbn [log_wf]. rewrite Hr. lia.
Qed.

Lemma log_inv_stored lg cur n e k a sz b c :
  log_inv lg cur (POpen n e sz c) ->
  log_inv (lg ++ [LFile cur n e k a true sz b c]) cur PNone.
Proof.
  intros H r _ Hr. rewrite <- app_assoc. cbn [app]. apply H.
  - cbn [cont_ok]. repeat split; reflexivity.
  - cbn [log_wf]. rewrite Hr. lia.
Qed.

Lemma log_inv_refused lg cur n e k a sz b c :
  log_inv lg cur (POpen n e sz c) ->
  log_inv (lg ++ [LFile cur n e k a false sz b c]) cur (PRef n e sz c).
Proof.
  intros H r Hk Hr. rewrite <- app_assoc. cbn [app]. apply H.
  - cbn [cont_ok]. repeat split; reflexivity.
  - cbn [log_wf]. rewrite Hr, Z.eqb_refl. cbn [andb]. rewrite andb_true_r.
    cbn [cont_ok] in Hk.
    destruct r as [|[m|s2 n2 e2 k2 a2 st2 sz2 b2 c2] r]; try contradiction.
    + lia.
    + destruct r as [|[m2|s2 n2 e2 k2 a2 st2 sz2 b2 c2] r]; try contradiction.
      destruct Hk as (-> & -> & -> & ->). rewrite !zeqb_list_refl', Z.eqb_refl. reflexivity.
Qed.

Lemma log_inv_done lg cur : log_inv lg cur PNone -> log_wf (-1) lg = true.
Proof. intros H. rewrite <- (app_nil_r lg). apply H; [exact I|reflexivity]. Qed.
Lemma log_inv_done_ref lg n e sz c : log_inv lg 3 (PRef n e sz c) -> log_wf (-1) lg = true.
Proof. intros H. rewrite <- (app_nil_r lg). apply H; [reflexivity|reflexivity]. Qed.
