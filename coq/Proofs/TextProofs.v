(* Proofs/TextProofs.v — lemmas behind Props/C16.v and Props/C17.v *)
From Coq Require Import ZArith List Bool Lia ZifyBool.
Require Import PyBase GenText TextFacts Text TextSpec PyFacts.
Import ListNotations.
Open Scope Z_scope.
Ltac Zify.zify_post_hook ::= Z.to_euclidean_division_equations.

(* ================= C17 ================= *)
Lemma pretty_spec_length b l : length (pretty_spec b l) = length l.
Proof.
  revert b; induction l as [|c l IH]; intros b; cbn [pretty_spec]; [reflexivity|].
  destruct (c =? 34); cbn [length]; now rewrite IH.
Qed.

Lemma pretty_spec_idem b l : pretty_spec b (pretty_spec b l) = pretty_spec b l.
Proof.
  revert b; induction l as [|c l IH]; intros b; cbn [pretty_spec]; [reflexivity|].
  destruct (c =? 34) eqn:E.
  - cbn [pretty_spec]. rewrite E. now rewrite IH.
  - cbn [pretty_spec]. destruct b.
    + rewrite E. now rewrite IH.
    + rewrite upper_char_quote, E, upper_char_idem. now rewrite IH.
Qed.

Lemma upper_quotes k : upper_ascii (repeat 34 k) = repeat 34 k.
Proof. induction k as [|k IH]; cbn; [reflexivity|]. unfold upper_ascii in IH. now rewrite IH. Qed.

Lemma rev_repeat {A} (x : A) k : rev (repeat x k) = repeat x k.
Proof.
  induction k as [|k IH]; cbn [repeat rev]; [reflexivity|].
  rewrite IH. clear IH. induction k as [|k IH]; cbn; [reflexivity|]. now rewrite IH.
Qed.

Lemma repeat_snoc {A} (x : A) k l : repeat x (S k) ++ l = repeat x k ++ x :: l.
Proof. induction k as [|k IH]; cbn [repeat app] in *; [reflexivity|]. now rewrite IH. Qed.

Lemma land1 x : Z.land x 1 = x mod 2.
Proof. change 1 with (Z.ones 1). now rewrite Z.land_ones by lia. Qed.

Lemma zlen_repeat {A} (x : A) k : zlen (repeat x k) = Z.of_nat k.
Proof. unfold zlen. now rewrite repeat_length. Qed.

Lemma odd_succ_nat d k : Z.odd (d + Z.of_nat (S k)) = negb (Z.odd (d + Z.of_nat k)).
Proof.
  rewrite Nat2Z.inj_succ. replace (d + Z.succ (Z.of_nat k)) with (Z.succ (d + Z.of_nat k)) by lia.
  rewrite Z.odd_succ. symmetry. apply Z.negb_odd.
Qed.

Lemma prettier_groups_spec l : forall k d, (d = 0 \/ d = 1) ->
  prettier_groups d (split_groups l (repeat 34 k)) =
  repeat 34 k ++ pretty_spec (Z.odd (d + Z.of_nat k)) l.
Proof.
  induction l as [|c l IH]; intros k d Hd.
  - cbn [split_groups prettier_groups pretty_spec]. rewrite rev_repeat, upper_quotes.
    now destruct (prettier_upper_test _); rewrite app_nil_r.
  - cbn [split_groups pretty_spec]. destruct (c =? 34) eqn:E.
    + assert (c = 34) by lia. subst c.
      change (34 :: repeat 34 k) with (repeat 34 (S k)). rewrite IH by exact Hd.
      rewrite repeat_snoc, odd_succ_nat. reflexivity.
    + rewrite rev_repeat. cbn [prettier_groups].
      rewrite !prettier_toggle_test_is, !prettier_toggle_is, !prettier_upper_test_is, upper_quotes.
      set (d' := if starts_with [34] (repeat 34 k) then Z.land (d + zlen (repeat 34 k)) 1 else d).
      assert (Hd' : (d' = 0 \/ d' = 1) /\ Z.odd d' = Z.odd (d + Z.of_nat k)).
      { subst d'. destruct k as [|k].
        - cbn [repeat starts_with]. rewrite Z.add_0_r. tauto.
        - cbn [repeat starts_with]. rewrite Z.eqb_refl. cbn [andb].
          change (34 :: repeat 34 k) with (repeat 34 (S k)). rewrite zlen_repeat, land1.
          split; [lia|]. rewrite !Zodd_mod. rewrite Z.mod_mod by lia. reflexivity. }
      destruct Hd' as [Hd01 Hodd].
      assert (Hsw : starts_with [34] [c] = false) by (cbn [starts_with]; lia).
      rewrite (prettier_toggle_test_is [c]), Hsw. change (split_groups l []) with (split_groups l (repeat 34 0)). rewrite IH by exact Hd01.
      cbn [repeat app]. rewrite Z.add_0_r, Hodd.
      replace (if d' =? 0 then repeat 34 k else repeat 34 k) with (repeat 34 k) by now destruct (d' =? 0).
      f_equal. 
      assert (Hb : (d' =? 0) = negb (Z.odd (d + Z.of_nat k))).
      { rewrite <- Hodd. destruct Hd01 as [-> | ->]; reflexivity. }
      rewrite Hb. destruct (Z.odd (d + Z.of_nat k)); reflexivity.
Qed.

Lemma in_set_nl c : in_set prettier_rstrip_arg c = (c =? 10).
Proof. rewrite prettier_rstrip_arg_is. unfold in_set. cbn [existsb]. lia. Qed.

Lemma rstrip_by_ext p q l : (forall c, p c = q c) -> rstrip_by p l = rstrip_by q l.
Proof. intros H. induction l as [|c l IH]; cbn [rstrip_by]; [reflexivity|]. now rewrite IH, H. Qed.

Theorem prettier_line_spec raw : prettier_line raw = pretty_spec false (rstrip_nl raw).
Proof.
  unfold prettier_line, rstrip_nl.
  rewrite (rstrip_by_ext _ (fun c => c =? 10)) by apply in_set_nl.
  change (@nil Z) with (repeat 34 0). rewrite prettier_groups_spec by (left; reflexivity).
  reflexivity.
Qed.

(* position-wise reading of the spec: a character is inside a literal iff an odd number of
   double quotes precede it *)
Fixpoint count_quotes (l : list Z) : nat :=
  match l with [] => 0%nat | c :: r => ((if (c =? 34)%Z then 1 else 0) + count_quotes r)%nat end.

Lemma pretty_spec_pointwise l : forall b i c, nth_error l i = Some c ->
  nth_error (pretty_spec b l) i =
  Some (if c =? 34 then c
        else if xorb b (Nat.odd (count_quotes (firstn i l))) then c else upper_char c).
Proof.
  induction l as [|x l IH]; intros b i c H; [destruct i; discriminate|].
  destruct i as [|i].
  - cbn in H. inversion H; subst x. cbn [pretty_spec firstn count_quotes Nat.odd].
    destruct (c =? 34); cbn [nth_error]; [reflexivity|]. now destruct b.
  - cbn [nth_error] in H. cbn [pretty_spec firstn count_quotes].
    destruct (x =? 34) eqn:E; cbn [nth_error]; rewrite (IH _ _ _ H); repeat f_equal.
    + change (1 + count_quotes (firstn i l))%nat with (S (count_quotes (firstn i l))).
      rewrite Nat.odd_succ, <- Nat.negb_odd. now destruct b, (Nat.odd _).
Qed.

Lemma pretty_spec_last_nl b l c : pretty_spec b (l ++ [c]) = pretty_spec b l ++ pretty_spec (xorb b (Nat.odd (count_quotes l))) [c].
Proof.
  revert b; induction l as [|x l IH]; intros b; cbn [app pretty_spec count_quotes].
  - cbn [Nat.odd]. now rewrite xorb_false_r.
  - destruct (x =? 34) eqn:E; cbn [app]; rewrite IH; repeat f_equal.
    + change (1 + count_quotes l)%nat with (S (count_quotes l)).
      rewrite Nat.odd_succ, <- Nat.negb_odd. now destruct b, (Nat.odd _).
Qed.

(* the printed line never ends in a newline, so feeding the output back is the identity *)
Lemma pretty_spec_no_trailing_nl b l : rstrip_nl l = l -> rstrip_nl (pretty_spec b l) = pretty_spec b l.
Proof.
  intros H. destruct (rev l) as [|c r] eqn:E.
  - apply (f_equal (@rev Z)) in E. rewrite rev_involutive in E. subst l. reflexivity.
  - apply (f_equal (@rev Z)) in E. rewrite rev_involutive in E. cbn [rev] in E. subst l.
    pose proof (rstrip_by_last _ _ _ _ H) as Hc. cbn beta in Hc.
    rewrite pretty_spec_last_nl. cbn [pretty_spec].
    assert (c =? 34 = false \/ c =? 34 = true) as [Eq|Eq] by (destruct (c =? 34); tauto); rewrite Eq.
    + unfold rstrip_nl. destruct (xorb b _).
      * apply rstrip_by_keep. exact Hc.
      * apply rstrip_by_keep. unfold upper_char. destruct ((97 <=? c) && (c <=? 122)) eqn:E2; lia.
    + unfold rstrip_nl. apply rstrip_by_keep. exact Hc.
Qed.

Theorem prettier_idempotent raw : prettier_line (prettier_line raw ++ [10]) = prettier_line raw.
Proof.
  rewrite !prettier_line_spec.
  assert (H : rstrip_nl (pretty_spec false (rstrip_nl raw) ++ [10]) = pretty_spec false (rstrip_nl raw)).
  { unfold rstrip_nl at 1. rewrite rstrip_by_app_stripped by reflexivity.
    apply pretty_spec_no_trailing_nl. apply rstrip_by_idem. }
  rewrite H. apply pretty_spec_idem.
Qed.

Theorem prettier_run_lines inputs :
  length (prettier_run inputs) = length (flat_map read_input inputs).
Proof. unfold prettier_run. apply map_length. Qed.

(* ================= C16 ================= *)
Definition is_line (raw : list Z) : bool := negb (existsb (Z.eqb 10) (removelast raw)).

Definition next_of (start inc : Z) (prev : option Z) : Z :=
  match prev with None => start | Some p => p + inc end.

Lemma in_set_nl' c : in_set nl_rstrip_arg c = (c =? 10).
Proof. rewrite nl_rstrip_arg_is. unfold in_set. cbn [existsb]. lia. Qed.

Lemma existsb_app' {A} (f : A -> bool) a b : existsb f (a ++ b) = existsb f a || existsb f b.
Proof. apply existsb_app. Qed.

Lemma removelast_snoc {A} (l : list A) x : removelast (l ++ [x]) = l.
Proof. now rewrite removelast_app, app_nil_r by discriminate. Qed.

(* a chomped line (as readlines yields them) holds no newline at all *)
Lemma chomp_no_nl raw : is_line raw = true -> existsb (Z.eqb 10) (chomp raw) = false.
Proof.
  unfold is_line, chomp, rstrip_nl. intros H.
  destruct (rev raw) as [|c r] eqn:E.
  - apply (f_equal (@rev Z)) in E. rewrite rev_involutive in E. now subst raw.
  - apply (f_equal (@rev Z)) in E. rewrite rev_involutive in E. cbn [rev] in E. subst raw.
    rewrite removelast_snoc in H. apply negb_true_iff in H.
    destruct (c =? 10) eqn:Ec.
    + rewrite rstrip_by_app_stripped by (cbn; now rewrite Ec).
      destruct (rstrip_by_prefix (fun c => c =? 10) (rev r)) as (s & Hs & _).
      rewrite Hs, existsb_app in H. apply orb_false_elim in H. tauto.
    + rewrite rstrip_by_keep by exact Ec. rewrite existsb_app, H. cbn [existsb orb]. rewrite Z.eqb_sym, Ec. reflexivity.
Qed.

Lemma nl_match_chomped line : existsb (Z.eqb 10) line = false ->
  nl_match line = if begins_numbered line then Some (take_digits line) else None.
Proof.
  intros H. destruct line as [|c r]; [reflexivity|].
  unfold nl_match, begins_numbered.
  assert (Hr : existsb (Z.eqb 10) (removelast (c :: r)) = false).
  { destruct (rev (c :: r)) as [|x t] eqn:E.
    - apply (f_equal (@rev Z)) in E. rewrite rev_involutive in E. discriminate.
    - apply (f_equal (@rev Z)) in E. rewrite rev_involutive in E. cbn [rev] in E. rewrite E in *.
      rewrite removelast_snoc. rewrite existsb_app in H. apply orb_false_elim in H. tauto. }
  rewrite Hr. cbn [negb]. rewrite andb_true_r.
  destruct (is_digit19 c) eqn:E; [|reflexivity].
  cbn [take_digits]. assert (is_digit c = true) as -> by (unfold is_digit, is_digit19 in *; lia).
  reflexivity.
Qed.

Lemma nl_lines_spec start inc width raws : Forall (fun r => is_line r = true) raws ->
  forall prev, nl_lines inc width (next_of start inc prev) raws =
               nl_spec start inc width prev (map chomp raws).
Proof.
  induction 1 as [|raw raws Hl _ IH]; intros prev; [reflexivity|].
  cbn [nl_lines map nl_spec]. unfold nl_step.
  rewrite (rstrip_by_ext _ (fun c => c =? 10)) by apply in_set_nl'.
  change (rstrip_by (fun c => c =? 10) raw) with (chomp raw).
  rewrite nl_match_chomped by (apply chomp_no_nl; exact Hl).
  destruct (begins_numbered (chomp raw)) eqn:E.
  - rewrite nl_next_numbered_is. f_equal. apply (IH (Some (leading_number (chomp raw)))).
  - rewrite nl_next_unnumbered_is, nl_pad_test_is, nl_pad_count_is, nl_separator_is.
    f_equal. apply (IH (Some (next_of start inc prev))).
Qed.

Lemma nl_spec_length start inc width lines : forall prev,
  length (nl_spec start inc width prev lines) = length lines.
Proof.
  induction lines as [|l r IH]; intros prev; cbn [nl_spec]; [reflexivity|].
  destruct (begins_numbered l); cbn [length]; now rewrite IH.
Qed.

(* shape of a numbered output line *)
Lemma numbered_line_facts w n l : 1 <= n ->
  begins_numbered (ljust w (dec n) ++ [32] ++ l) = true /\
  leading_number (ljust w (dec n) ++ [32] ++ l) = n.
Proof.
  intros Hn. destruct (dec_first n Hn) as (c & r & Hd & Hc).
  destruct (ljust_shape w (dec n)) as (k & Hk). rewrite Hk. split.
  - rewrite Hd. cbn [app begins_numbered]. exact Hc.
  - unfold leading_number. rewrite <- app_assoc.
    assert (Ht : take_digits (dec n ++ repeat 32 k ++ [32] ++ l) = dec n).
    { destruct k as [|k]; cbn [repeat app]; apply take_digits_app; try reflexivity; apply dec_digits; lia. }
    rewrite Ht. apply undec_dec. lia.
Qed.

Lemma leading_number_nonneg l : 0 <= leading_number l.
Proof. apply undec_nonneg, take_digits_digits. Qed.

Theorem nl_spec_idempotent start inc width lines : 1 <= start -> 1 <= inc ->
  forall prev, 1 <= next_of start inc prev ->
  nl_spec start inc width prev (nl_spec start inc width prev lines) = nl_spec start inc width prev lines.
Proof.
  intros Hs Hi. induction lines as [|l r IH]; intros prev Hp; [reflexivity|].
  cbn [nl_spec]. destruct (begins_numbered l) eqn:E.
  - cbn [nl_spec]. rewrite E. f_equal. apply IH. cbn [next_of].
    pose proof (leading_number_nonneg l). lia.
  - fold (next_of start inc prev).
    destruct (numbered_line_facts width (next_of start inc prev) l Hp) as [Hb Hn].
    cbn [nl_spec]. rewrite Hb, Hn. f_equal. apply IH. cbn [next_of]. lia.
Qed.

(* files behave as the concatenation of their line sequences: by definition of nl_run;
   and for newline-terminated text, line sequences concatenate like the texts do *)
Lemma readlines_lf_aux_app a b : forall cur,
  readlines_lf_aux ((a ++ [10]) ++ b) cur = readlines_lf_aux (a ++ [10]) cur ++ readlines_lf_aux b [].
Proof.
  induction a as [|c a IH]; intros cur.
  - reflexivity.
  - cbn [app]. 
    assert (Hc : forall X Y : list (list Z), 
      (match c with 10 => X | _ => Y end) = if c =? 10 then X else Y).
    { intros X Y. destruct (c =? 10) eqn:E; [assert (c = 10) by lia; subst; reflexivity|].
      destruct c as [|p|p]; try reflexivity.
      do 4 (destruct p as [p|p|]; try reflexivity). lia. }
    cbn [readlines_lf_aux]. rewrite !Hc. destruct (c =? 10).
    + cbn [app]. f_equal. apply IH.
    + apply IH.
Qed.
Theorem readlines_stdin_concat a b :
  readlines_stdin ((a ++ [10]) ++ b) = readlines_stdin (a ++ [10]) ++ readlines_stdin b.
Proof. apply readlines_lf_aux_app. Qed.

(* ---- final forms used by Props ---- *)
Lemma prettier_same_length raw : length (prettier_line raw) = length (chomp raw).
Proof. rewrite prettier_line_spec. fold (chomp raw). apply pretty_spec_length. Qed.

Lemma prettier_pointwise (raw : list Z) (i : nat) (c : Z) :
  nth_error (chomp raw) i = Some c ->
  nth_error (prettier_line raw) i =
    Some (if c =? 34 then c
          else if Nat.odd (count_quotes (firstn i (chomp raw))) then c else upper_char c).
Proof.
  intros H. rewrite prettier_line_spec. fold (chomp raw).
  rewrite (pretty_spec_pointwise (chomp raw) false i c H), xorb_false_l. reflexivity.
Qed.

Lemma nl_shape start inc width (raws : list (list Z)) :
  Forall (fun r => is_line r = true) raws ->
  nl_lines inc width start raws = nl_spec start inc width None (map chomp raws).
Proof. intros H. exact (nl_lines_spec start inc width raws H None). Qed.

Lemma nl_idempotent start inc width lines : 1 <= start -> 1 <= inc ->
  nl_spec start inc width None (nl_spec start inc width None lines) = nl_spec start inc width None lines.
Proof. intros Hs Hi. exact (nl_spec_idempotent start inc width lines Hs Hi None Hs). Qed.
