(* Proofs/CliLemmas.v — lemmas behind Proofs/CliProofs.v (C19, C20): path facts, the two injectors
   seen as functions of the catalogue keys of their sources, the enumerators write nothing. *)
From Coq Require Import ZArith List Bool Lia ZifyBool String.
Require Import PyBase CliTypes GenCli GenTape TapeFacts Tape GenDisk DiskFacts Disk Cli PyFacts TapeLemmas1 TapeLemmas2 TapeLemmasC DiskDefs.
Import ListNotations.
Open Scope Z_scope.

(* ---------------- paths ---------------- *)
Lemma rfind_aux_app c a : forall b i acc,
  rfind_aux c (a ++ b) i acc = rfind_aux c b (i + length a) (rfind_aux c a i acc).
Proof.
  induction a as [|x a IH]; intros b i acc; cbn [app rfind_aux length].
  - now rewrite Nat.add_0_r.
  - rewrite IH. f_equal. lia.
Qed.

Lemma rfind_aux_absent c l : forall i acc, existsb (Z.eqb c) l = false -> rfind_aux c l i acc = acc.
Proof.
  induction l as [|x l IH]; intros i acc H; cbn [rfind_aux existsb] in *; [reflexivity|].
  apply orb_false_iff in H. destruct H as [H1 H2]. rewrite IH by exact H2.
  rewrite Z.eqb_sym, H1. reflexivity.
Qed.

Lemma basename_no_dir base : existsb (Z.eqb 47) base = false -> basename base = base.
Proof.
  intros H. unfold basename, after_last_slash, rfind_char. now rewrite rfind_aux_absent.
Qed.

Lemma basename_join dir base : existsb (Z.eqb 47) base = false -> basename (dir ++ [47] ++ base) = base.
Proof.
  intros H. unfold basename, after_last_slash, rfind_char.
  rewrite rfind_aux_app. cbn [app rfind_aux]. rewrite Z.eqb_refl, rfind_aux_absent by exact H.
  cbn [Nat.add]. change (dir ++ 47 :: base) with (dir ++ [47] ++ base). rewrite app_assoc.
  apply skipn_exact. rewrite app_length. cbn [length]. lia.
Qed.

(* ---------------- tape injector ---------------- *)
Lemma inject_one_sim v1 v2 fs1 fs2 t s src1 src2 :
  fst (source_fields src1) = fst (source_fields src2) ->
  fs_read fs1 (snd (source_fields src1)) = fs_read fs2 (snd (source_fields src2)) ->
  match inject_one v1 fs1 t s src1, inject_one v2 fs2 t s src2 with
  | Ok (t1, s1, _), Ok (t2, s2, _) => t1 = t2 /\ s1 = s2
  | Err e1, Err e2 => e1 = e2
  | _, _ => False
  end.
Proof.
  unfold inject_one. destruct (source_fields src1) as [d1 p1], (source_fields src2) as [d2 p2].
  cbn [fst snd]. intros -> ->.
  destruct (write_block t (leader_block d2)) as [t1|e]; cbn [bind]; [|reflexivity].
  destruct (fs_read fs2 p2) as [data|]; [|reflexivity].
  destruct (write_data (S (length data)) t1 (on_begin s d2) data 0) as [[t2 s2]|e]; cbn [bind]; [|reflexivity].
  destruct (write_block t2 (build_block block_type_EOF None)) as [t3|e]; cbn [bind]; [|reflexivity].
  unfold on_end. destruct (ls_cur s2) as [[d|]|]; try reflexivity.
  destruct (ls_counts s2) as [[[bc f] fb]|]; cbn [bind]; [|reflexivity]. split; reflexivity.
Qed.

Lemma inject_loop_sim v1 v2 fs1 fs2 : forall srcs1 srcs2 t s acc1 acc2,
  map (fun src => (fst (source_fields src), fs_read fs1 (snd (source_fields src)))) srcs1 =
  map (fun src => (fst (source_fields src), fs_read fs2 (snd (source_fields src)))) srcs2 ->
  snd (inject_loop v1 fs1 t s srcs1 acc1) = snd (inject_loop v2 fs2 t s srcs2 acc2).
Proof.
  induction srcs1 as [|a r1 IH]; intros [|b r2] t s acc1 acc2 H; try discriminate H; [reflexivity|].
  cbn [map] in H. injection H as Hf Hr Hm. cbn [inject_loop].
  pose proof (inject_one_sim v1 v2 fs1 fs2 t s a b Hf Hr) as Hs.
  destruct (inject_one v1 fs1 t s a) as [[[t1 s1] l1]|e1], (inject_one v2 fs2 t s b) as [[[t2 s2] l2]|e2];
    try contradiction.
  - destruct Hs as [-> ->]. apply IH. exact Hm.
  - cbn [snd]. now subst.
Qed.

Lemma tar_create_sim v1 v2 fs1 fs2 a1 a2 srcs1 srcs2 :
  map (fun src => (fst (source_fields src), fs_read fs1 (snd (source_fields src)))) srcs1 =
  map (fun src => (fst (source_fields src), fs_read fs2 (snd (source_fields src)))) srcs2 ->
  o_status (tar_create v1 fs1 a1 srcs1) = o_status (tar_create v2 fs2 a2 srcs2) /\
  ((o_effects (tar_create v1 fs1 a1 srcs1) = [] /\ o_effects (tar_create v2 fs2 a2 srcs2) = []) \/
   exists c, o_effects (tar_create v1 fs1 a1 srcs1) = [WriteFile a1 c] /\
             o_effects (tar_create v2 fs2 a2 srcs2) = [WriteFile a2 c]).
Proof.
  intros H. unfold tar_create.
  pose proof (inject_loop_sim v1 v2 fs1 fs2 srcs1 srcs2 blank_tape lst0 [] [] H) as Hs.
  destruct (inject_loop v1 fs1 blank_tape lst0 srcs1 []) as [l1 r1],
           (inject_loop v2 fs2 blank_tape lst0 srcs2 []) as [l2 r2].
  cbn [snd] in Hs. subst r2. destruct r1 as [t|e].
  - cbn [o_status o_effects]. split; [reflexivity|]. right. exists (t_raw t). split; reflexivity.
  - destruct e; cbn [o_status o_effects]; (split; [reflexivity|left; split; reflexivity]).
Qed.

Lemma source_fields_basename src1 src2 : basename src1 = basename src2 ->
  fst (source_fields src1) = fst (source_fields src2).
Proof.
  intros H. unfold source_fields. rewrite H.
  destruct (rfind_char 46 (basename src2)) as [dot|]; [|reflexivity].
  destruct (inj_dispatch (upper_ascii (skipn (S dot) (basename src2)))) as [[[ext ty] mode] strip].
  reflexivity.
Qed.

(* ---------------- disk injector ---------------- *)
(* two injector states that agree on everything but the printed text and the listener *)
Definition ieq (a b : istate) : Prop := i_img a = i_img b /\ i_cur a = i_cur b /\ i_log a = i_log b.
Definition req (r1 r2 : res istate) : Prop :=
  match r1, r2 with Ok a, Ok b => ieq a b | Err _, Err _ => True | _, _ => False end.

Lemma ieq_emit a b o1 o2 : ieq a b -> ieq (emit a o1) (emit b o2).
Proof. intros H. exact H. Qed.
Lemma ieq_note a b x : ieq a b -> ieq (note a x) (note b x).
Proof. intros (H1 & H2 & H3). unfold ieq, note. cbn. now rewrite H3. Qed.
Lemma ieq_next_side a b : ieq a b -> ieq (next_side a) (next_side b).
Proof. intros (H1 & H2 & H3). unfold ieq, next_side. cbn. now rewrite H2. Qed.
Lemma ieq_set_cur_side a b sd : ieq a b -> ieq (set_cur_side a sd) (set_cur_side b sd).
Proof. intros (H1 & H2 & H3). unfold ieq, set_cur_side. cbn. now rewrite H1, H2. Qed.
Lemma ieq_open_side v1 v2 a b : ieq a b -> ieq (open_side v1 a) (open_side v2 b).
Proof.
  intros H. unfold open_side. destruct H as (H1 & H2 & H3). unfold ieq, note, emit. cbn.
  now rewrite H1, H2, H3.
Qed.
Lemma ieq_has_controller a b : ieq a b -> has_controller a = has_controller b.
Proof. intros (H1 & H2 & H3). unfold has_controller. now rewrite H2. Qed.
Lemma ieq_cur_side a b : ieq a b -> cur_side a = cur_side b.
Proof. intros (H1 & H2 & H3). unfold cur_side. now rewrite H1, H2. Qed.

Lemma inject_file_sim v1 v2 name ext kind dtype data : forall fuel a b, ieq a b ->
  req (inject_file fuel v1 a name ext kind dtype data) (inject_file fuel v2 b name ext kind dtype data).
Proof.
  induction fuel as [|fuel IH]; intros a b H; cbn [inject_file]; [exact H|].
  rewrite (ieq_has_controller a b H). destruct (has_controller b); cbn [negb]; [|exact H].
  set (a1 := emit a _). set (b1 := emit b _).
  assert (H1 : ieq a1 b1) by (apply ieq_emit; exact H).
  rewrite (ieq_cur_side a1 b1 H1).
  destruct (write_file (cur_side b1) data name ext kind dtype) as [sd' [u|e]].
  - cbn [req]. destruct H as (_ & Hc & _). rewrite Hc. apply ieq_note, ieq_emit, ieq_set_cur_side, H1.
  - destruct e; try exact I.
    set (a3 := note _ _). set (b3 := note _ _).
    assert (H3 : ieq a3 b3).
    { unfold a3, b3. destruct H as (_ & Hc & _). rewrite Hc. apply ieq_note, ieq_emit, ieq_set_cur_side, H1. }
    rewrite (ieq_cur_side a3 b3 H3). destruct (compute_usage (cur_side b3)) as [u|e]; [|exact I].
    set (a5 := next_side _). set (b5 := next_side _).
    assert (H5 : ieq a5 b5) by (apply ieq_next_side, ieq_emit, H3).
    rewrite (ieq_has_controller a5 b5 H5). destruct (has_controller b5); cbn [negb]; [|exact H5].
    apply IH. apply ieq_open_side. exact H5.
Qed.

Lemma processor_dtype name ext ext_opt forced kind dtype :
  processor_of name ext ext_opt = (forced, kind, dtype) -> dtype = 0 \/ dtype = 1.
Proof.
  unfold processor_of, inj_processors, inj_default_processor. cbn [lookup_proc fst snd].
  repeat match goal with |- context [if ?c then _ else _] => destruct c end;
    intros H; inversion H; auto.
Qed.

Lemma inject_sources_eos v fs st src rest : zeqb_list (upper_ascii (basename src)) eos_marker = true ->
  inject_sources v fs st (src :: rest) =
  match compute_usage (cur_side st) with
  | Err e => Err e
  | Ok u =>
    let st2 := next_side (emit st (on_end_side v PUpdating (i_lst st) u)) in
    if negb (has_controller st2) then Ok st2 else inject_sources v fs (open_side v st2) rest
  end.
Proof. intros H. cbn [inject_sources]. rewrite H. reflexivity. Qed.

Lemma inject_sources_skip v fs st src rest : zeqb_list (upper_ascii (basename src)) eos_marker = false ->
  source_item fs src = None ->
  exists msg, inject_sources v fs st (src :: rest) = inject_sources v fs (emit st (on_message true (i_lst st) msg)) rest.
Proof.
  intros H. unfold source_item. cbn [inject_sources]. rewrite H.
  destruct (split_source src) as [[[name ext] ext_opt] clean].
  destruct (fs_read fs clean) as [data|]; [|intros _; eexists; reflexivity].
  destruct (inj_name_max <? zlen name); cbn [orb]; [intros _; eexists; reflexivity|].
  destruct (inj_ext_max <? zlen ext); [intros _; eexists; reflexivity|].
  destruct (processor_of name ext ext_opt) as [[forced kind] dtype]. discriminate.
Qed.

Lemma inject_sources_file v fs st src rest n e k a d : zeqb_list (upper_ascii (basename src)) eos_marker = false ->
  source_item fs src = Some (n, e, k, a, d) ->
  exists dtype, (dtype =? 1) = a /\ (dtype = 0 \/ dtype = 1) /\
    inject_sources v fs st (src :: rest) =
    match inject_file (S (Z.to_nat side_count)) v st n e k dtype d with
    | Err er => Err er
    | Ok st1 => if negb (has_controller st1) then Ok st1 else inject_sources v fs st1 rest
    end.
Proof.
  intros H. unfold source_item. cbn [inject_sources]. rewrite H.
  destruct (split_source src) as [[[name ext] ext_opt] clean].
  destruct (fs_read fs clean) as [data|]; [|discriminate].
  destruct (inj_name_max <? zlen name); cbn [orb]; [discriminate|].
  destruct (inj_ext_max <? zlen ext); [discriminate|].
  destruct (processor_of name ext ext_opt) as [[forced kind] dtype] eqn:E.
  intros Hs. inversion Hs; subst. exists dtype. split; [reflexivity|].
  split; [exact (processor_dtype _ _ _ _ _ _ E)|reflexivity].
Qed.

Definition dkey (fs : fsmap) (src : list Z) : bool * option (list Z * list Z * Z * bool * list Z) * bool :=
  (zeqb_list (upper_ascii (basename src)) eos_marker, source_item fs src,
   match fs_read fs (snd (split_source src)) with Some _ => true | None => false end).

Lemma inject_sources_sim v1 v2 fs1 fs2 : forall s1 s2 a b,
  map (dkey fs1) s1 = map (dkey fs2) s2 -> ieq a b ->
  req (inject_sources v1 fs1 a s1) (inject_sources v2 fs2 b s2).
Proof.
  induction s1 as [|x r1 IH]; intros [|y r2] a b Hk H; try discriminate Hk; [exact H|].
  cbn [map] in Hk. injection Hk as He Hi _ Hm.
  destruct (zeqb_list (upper_ascii (basename y)) eos_marker) eqn:Ey.
  - rewrite (inject_sources_eos v1 fs1 a x r1 He), (inject_sources_eos v2 fs2 b y r2 Ey).
    rewrite (ieq_cur_side a b H). destruct (compute_usage (cur_side b)) as [u|e]; [|exact I].
    cbv zeta. set (a2 := next_side _). set (b2 := next_side _).
    assert (H2 : ieq a2 b2) by (apply ieq_next_side, ieq_emit, H).
    rewrite (ieq_has_controller a2 b2 H2). destruct (has_controller b2); cbn [negb]; [|exact H2].
    apply IH; [exact Hm|]. apply ieq_open_side, H2.
  - destruct (source_item fs2 y) as [[[[[n e] k] fl] d]|] eqn:Ei.
    + destruct (inject_sources_file v1 fs1 a x r1 n e k fl d He Hi) as (dt1 & Hd1 & Hr1 & ->).
      destruct (inject_sources_file v2 fs2 b y r2 n e k fl d Ey Ei) as (dt2 & Hd2 & Hr2 & ->).
      assert (dt1 = dt2) by (rewrite <- Hd2 in Hd1; destruct Hr1, Hr2; subst; try reflexivity; discriminate Hd1). subst dt2.
      pose proof (inject_file_sim v1 v2 n e k dt1 d (S (Z.to_nat side_count)) a b H) as Hs.
      destruct (inject_file (S (Z.to_nat side_count)) v1 a n e k dt1 d) as [a1|e1],
               (inject_file (S (Z.to_nat side_count)) v2 b n e k dt1 d) as [b1|e2]; try contradiction; [|exact I].
      cbn [req] in Hs. rewrite (ieq_has_controller a1 b1 Hs). destruct (has_controller b1); cbn [negb]; [|exact Hs].
      apply IH; assumption.
    + destruct (inject_sources_skip v1 fs1 a x r1 He Hi) as (m1 & ->).
      destruct (inject_sources_skip v2 fs2 b y r2 Ey Ei) as (m2 & ->).
      apply IH; [exact Hm|]. apply ieq_emit, H.
Qed.

Lemma finish_sides_sim v1 v2 : forall fuel a b, ieq a b -> req (finish_sides fuel v1 a) (finish_sides fuel v2 b).
Proof.
  induction fuel as [|fuel IH]; intros a b H; cbn [finish_sides]; [exact H|].
  destruct H as (Hi & Hc & Hl). rewrite Hc.
  destruct (Nat.ltb (S (i_cur b)) (Z.to_nat side_count)); [|exact (conj Hi (conj Hc Hl))].
  set (a2 := open_side v1 _). set (b2 := open_side v2 _).
  assert (H2 : ieq a2 b2) by (apply ieq_open_side, ieq_next_side; exact (conj Hi (conj Hc Hl))).
  rewrite (ieq_cur_side a2 b2 H2). destruct (compute_usage (cur_side b2)) as [u|e]; [|exact I].
  apply IH. apply ieq_emit, H2.
Qed.

Lemma inject_perform_sim is_fd v1 v2 init fs1 fs2 a1 a2 img s1 s2 :
  map (dkey fs1) s1 = map (dkey fs2) s2 ->
  d_status (inject_perform is_fd v1 init fs1 a1 img s1) = d_status (inject_perform is_fd v2 init fs2 a2 img s2) /\
  d_log (inject_perform is_fd v1 init fs1 a1 img s1) = d_log (inject_perform is_fd v2 init fs2 a2 img s2) /\
  ((d_effects (inject_perform is_fd v1 init fs1 a1 img s1) = [] /\
    d_effects (inject_perform is_fd v2 init fs2 a2 img s2) = []) \/
   exists c, d_effects (inject_perform is_fd v1 init fs1 a1 img s1) = [WriteFile a1 c] /\
             d_effects (inject_perform is_fd v2 init fs2 a2 img s2) = [WriteFile a2 c]).
Proof.
  intros Hk. unfold inject_perform.
  destruct (Nat.ltb (length img) (Z.to_nat side_count)).
  { cbn. split; [reflexivity|]. split; [reflexivity|]. left. split; reflexivity. }
  set (img0 := if init then map init_fs (firstn (Z.to_nat side_count) img) ++ skipn (Z.to_nat side_count) img else img).
  set (a0 := open_side v1 _). set (b0 := open_side v2 _).
  assert (H0 : ieq a0 b0) by (apply ieq_open_side; repeat split).
  pose proof (inject_sources_sim v1 v2 fs1 fs2 s1 s2 a0 b0 Hk H0) as Hs.
  destruct (inject_sources v1 fs1 a0 s1) as [a|e1], (inject_sources v2 fs2 b0 s2) as [b|e2]; try contradiction.
  2:{ cbn. split; [reflexivity|]. split; [reflexivity|]. left. split; reflexivity. }
  cbn [req] in Hs. rewrite (ieq_has_controller a b Hs).
  assert (Hf : req (if has_controller b then match compute_usage (cur_side a) with
                      | Err e => Err e
                      | Ok u => finish_sides (Z.to_nat side_count) v1 (emit a (on_end_side v1 PUpdating (i_lst a) u)) end
                    else Ok a)
                   (if has_controller b then match compute_usage (cur_side b) with
                      | Err e => Err e
                      | Ok u => finish_sides (Z.to_nat side_count) v2 (emit b (on_end_side v2 PUpdating (i_lst b) u)) end
                    else Ok b)).
  { destruct (has_controller b); [|exact Hs]. rewrite (ieq_cur_side a b Hs).
    destruct (compute_usage (cur_side b)) as [u|e]; [|exact I]. apply finish_sides_sim, ieq_emit, Hs. }
  destruct (if has_controller b then match compute_usage (cur_side a) with
                      | Err e => Err e
                      | Ok u => finish_sides (Z.to_nat side_count) v1 (emit a (on_end_side v1 PUpdating (i_lst a) u)) end
                    else Ok a) as [af|e1],
           (if has_controller b then match compute_usage (cur_side b) with
                      | Err e => Err e
                      | Ok u => finish_sides (Z.to_nat side_count) v2 (emit b (on_end_side v2 PUpdating (i_lst b) u)) end
                    else Ok b) as [bf|e2]; try contradiction.
  2:{ cbn. split; [reflexivity|]. split; [reflexivity|]. left. split; reflexivity. }
  cbn [req] in Hf. destruct Hf as (Hi & Hc & Hl).
  destruct (on_done v1 PUpdating (i_lst af)) as [o1 x1], (on_done v2 PUpdating (i_lst bf)) as [o2 x2].
  cbn [d_status d_log d_effects]. split; [reflexivity|]. split; [exact Hl|]. right.
  exists (save_image is_fd (i_img bf)). rewrite Hi. split; reflexivity.
Qed.

(* ---------------- the disk fields of a source come from its base name ---------------- *)
Lemma existsb_firstn_false {A} (p : A -> bool) n : forall l, existsb p l = false -> existsb p (firstn n l) = false.
Proof.
  induction n as [|n IH]; intros [|x l] H; cbn [firstn existsb] in *; try reflexivity.
  apply orb_false_iff in H. destruct H as [H1 H2]. now rewrite H1, IH.
Qed.

Lemma last_n2_app (l : list Z) x y : last_n 2 (l ++ [x; y]) = [x; y].
Proof.
  unfold last_n. rewrite app_length. cbn [length].
  replace (length l + 2 - 2)%nat with (length l) by lia. now apply skipn_exact.
Qed.

Definition comma_a (src : list Z) : bool := zeqb_list (upper_ascii (last_n 2 src)) (str ",A").
Definition cleaned (src : list Z) : list Z := if comma_a src then drop_last 2 src else src.

Lemma cleaned_join dir base : existsb (Z.eqb 47) base = false ->
  basename (cleaned (dir ++ [47] ++ base)) = basename (cleaned base).
Proof.
  intros H. unfold cleaned, comma_a.
  destruct base as [|c1 [|c2 r]].
  - (* empty base *)
    assert (E : zeqb_list (upper_ascii (last_n 2 (dir ++ [47] ++ []))) (str ",A") = false).
    { cbn [app]. destruct dir as [|d0 dr]; [reflexivity|].
      destruct (@exists_last _ (d0 :: dr)) as (d' & z & E); [discriminate|].
      rewrite E. rewrite <- app_assoc. cbn [app]. rewrite last_n2_app.
      cbn [upper_ascii map]. change (str ",A") with [44; 65]. cbn [zeqb_list].
      change (upper_char 47 =? 65) with false. cbn [andb]. apply andb_false_r. }
    rewrite E. cbn [app]. change (last_n 2 []) with (@nil Z). cbn.
    exact (basename_join dir [] eq_refl).
  - assert (E : zeqb_list (upper_ascii (last_n 2 (dir ++ [47] ++ [c1]))) (str ",A") = false).
    { cbn [app]. rewrite last_n2_app. reflexivity. }
    rewrite E. change (last_n 2 [c1]) with [c1].
    assert (E2 : zeqb_list (upper_ascii [c1]) (str ",A") = false).
    { cbn [upper_ascii map]. change (str ",A") with [44; 65]. cbn [zeqb_list]. apply andb_false_r. }
    rewrite E2. rewrite (basename_join dir [c1] H), (basename_no_dir [c1] H). reflexivity.
  - set (base := c1 :: c2 :: r) in *.
    assert (Hl : (2 <= length base)%nat) by (unfold base; cbn [length]; lia).
    assert (E : last_n 2 (dir ++ [47] ++ base) = last_n 2 base).
    { unfold last_n. rewrite app_assoc, skipn_app, app_length. cbn [length].
      rewrite skipn_all2 by (rewrite app_length; cbn [length]; lia).
      rewrite app_length. cbn [length app]. f_equal. lia. }
    rewrite E. destruct (zeqb_list (upper_ascii (last_n 2 base)) (str ",A")).
    + assert (E3 : drop_last 2 (dir ++ [47] ++ base) = dir ++ [47] ++ drop_last 2 base).
      { unfold drop_last. rewrite (app_assoc dir [47] base), firstn_app.
        rewrite firstn_all2 by (rewrite !app_length; cbn [length]; lia).
        rewrite <- app_assoc. do 2 f_equal. rewrite !app_length. cbn [length]. f_equal. lia. }
      rewrite E3.
      assert (Hd : existsb (Z.eqb 47) (drop_last 2 base) = false) by (apply existsb_firstn_false, H).
      rewrite (basename_join dir _ Hd), (basename_no_dir _ Hd). reflexivity.
    + rewrite (basename_join dir base H), (basename_no_dir base H). reflexivity.
Qed.

Lemma split_source_join dir base : existsb (Z.eqb 47) base = false ->
  exists n e o c1 c2, split_source (dir ++ [47] ++ base) = (n, e, o, c1) /\ split_source base = (n, e, o, c2).
Proof.
  intros H. unfold split_source.
  fold (comma_a (dir ++ [47] ++ base)). fold (comma_a base).
  fold (cleaned (dir ++ [47] ++ base)). fold (cleaned base).
  rewrite (basename_join dir base H), (basename_no_dir base H), (cleaned_join dir base H).
  destruct (rfind_char 46 base) as [dot|]; repeat eexists.
Qed.

(* ---------------- listing writes nothing ---------------- *)
Lemma side_files_list_fx v p sd i dir : forall es s text fx lg,
  snd (fst (fst (fst (side_files v false p sd i dir es s text fx lg)))) = fx.
Proof.
  induction es as [|e r IH]; intros s text fx lg; cbn [side_files]; [reflexivity|].
  destruct (negb (entry_decodable e)); [reflexivity|].
  destruct (on_begin_file v p s (ce_status e) (entry_name e) (entry_ext e) (entry_kind e) (entry_is_ascii e)) as [o1 s1].
  destruct (on_end_file v p s1 (ce_status e) (entry_size_bytes e) (entry_size_blocks e)) as [o2 s2].
  apply IH.
Qed.

Lemma read_sides_list_fx v p target : forall sides i s text fx lg,
  d_effects (read_sides v false p target sides i s text fx lg) = fx.
Proof.
  induction sides as [|sd r IH]; intros i s text fx lg; cbn [read_sides].
  - destruct (on_done v p s) as [o x]. reflexivity.
  - destruct (on_begin_side v p s (Z.of_nat i)) as [o0 s0].
    destruct (list_files sd) as [es|e]; [|reflexivity].
    pose proof (side_files_list_fx v p sd i (side_dir target i) es s0 (text ++ o0) fx (lg ++ [LSide (Z.of_nat i)])) as Hf.
    destruct (side_files v false p sd i (side_dir target i) es s0 (text ++ o0) fx (lg ++ [LSide (Z.of_nat i)]))
      as [[[[text1 fx1] s1] lg1] [e|]]; cbn [fst snd] in Hf; subst fx1; [reflexivity|].
    destruct (compute_usage sd) as [u|e]; [|reflexivity].
    destruct (on_end_side v p s1 u) as [o2 s2]. apply IH.
Qed.

Lemma disk_list_effects is_fd v raw : d_effects (disk_list is_fd v raw) = [].
Proof.
  unfold disk_list. destruct (load_image is_fd raw) as [img|e]; [|reflexivity]. apply read_sides_list_fx.
Qed.

(* re-exported for CliProofs *)
Lemma tar_list_no_effects v raw : o_effects (tar_list v raw) = [].
Proof. exact (TapeLemmas2.tar_list_effects v raw). Qed.

(* closed comparisons of action names *)
Lemma act_extract_create : zeqb_list (str "extract") (str "create") = false. Proof. reflexivity. Qed.
Lemma act_extract_list : zeqb_list (str "extract") (str "list") = false. Proof. reflexivity. Qed.
Lemma act_extract_add : zeqb_list (str "extract") (str "add") = false. Proof. reflexivity. Qed.
Lemma act_extract_extract : zeqb_list (str "extract") (str "extract") = true. Proof. reflexivity. Qed.

(* ---------------- the parser ---------------- *)
Lemma find_opt_some t : forall opts o, find_opt t opts = Some o ->
  In o opts /\ exists f, In f (o_flags o) /\ t = f.
Proof.
  induction opts as [|a opts IH]; cbn [find_opt]; intros o H; [discriminate|].
  destruct (existsb (tok_eq t) (o_flags a)) eqn:E.
  - inversion H; subst. split; [now left|]. apply existsb_exists in E. destruct E as (f & Hf & He).
    exists f. split; [exact Hf|]. apply zeqb_list_eq. exact He.
  - destruct (IH _ H) as [H1 H2]. split; [now right|exact H2].
Qed.

Lemma p_group_close s : p_group (close_pos s) = p_group s.
Proof. unfold close_pos. now destruct (p_pos s). Qed.
Lemma p_unknown_close s : p_unknown (close_pos s) = p_unknown s.
Proof. unfold close_pos. now destruct (p_pos s). Qed.
Lemma add_pos_keeps s ts s' : add_pos s ts = Some s' -> p_unknown s' = p_unknown s /\ p_group s' = p_group s.
Proof.
  unfold add_pos. destruct ts; [inversion 1; auto|]. destruct (p_pos_closed s); [discriminate|].
  inversion 1; auto.
Qed.
Lemma finish_ok spec s vs pos : Cli.finish spec s = POk vs pos ->
  p_unknown s = false /\ (c_group_required spec = true -> p_group s <> None).
Proof.
  unfold Cli.finish. destruct (p_unknown s); [discriminate|].
  destruct (Nat.ltb _ _); [discriminate|]. destruct (negb _ && _); [discriminate|].
  destruct (c_group_required spec); destruct (p_group s); cbn [andb]; intros H; split; auto; try discriminate.
Qed.
