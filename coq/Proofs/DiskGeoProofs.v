(* Proofs/DiskGeoProofs.v — geometry, load/save, flavours (C11).  TOP statements are fixed. *)
From Coq Require Import ZArith List Bool Lia ZifyBool.
Require Import PyBase GenDisk DiskFacts Disk ThomsonDos PyFacts DiskDefs.
Require Import DiskFactsGeo DGeoLists DGeoSides DGeoInject.
Import ListNotations.
Open Scope Z_scope.
Ltac Zify.zify_post_hook ::= Z.to_euclidean_division_equations.

(* ---------- helpers for the load/save theorems ---------- *)
Lemma save_loaded_sd b (G : list Z -> list Z) raw k :
  (forall s, save_sector b (firstn 256 s) = G s) ->
  save_image b (map (load_side false) (chunks (512 * 1280) k raw)) = flat_map G (chunks 512 (k * 1280) raw).
Proof.
  intros HG. rewrite save_image_is, g_flat_map_map.
  rewrite (g_flat_map_ext_Forall _ (fun c => flat_map G (chunks 512 1280 c))).
  - rewrite <- (g_flat_map_flat_map G (chunks 512 1280)). now rewrite chunks_chunks.
  - apply Forall_forall. intros c _. rewrite save_load_side_sd.
    apply g_flat_map_ext_Forall. apply Forall_forall. intros s _. apply HG.
Qed.

Lemma save_image_flat b img : save_image b img = flat_map (save_sector b) (flat_map (fun sd : side => sd) img).
Proof. rewrite save_image_is. symmetry. apply g_flat_map_flat_map. Qed.

Lemma all_sectors_256 img : geo_image img -> Forall (fun s : sector => length s = 256%nat) (flat_map (fun sd : side => sd) img).
Proof.
  induction 1 as [|sd img [_ Hsd] _ IH]; cbn [flat_map]; [constructor|].
  apply Forall_app. split; assumption.
Qed.

(* TOP: a payload assignment of ANY length keeps the sector's size: the first min(n,256) bytes
   are replaced, the rest kept *)
Theorem set_payload_exact : forall (old v : list Z), length old = 256%nat ->
  set_payload old v = firstn (Nat.min (length v) 256) v ++ skipn (Nat.min (length v) 256) old /\
  length (set_payload old v) = 256%nat.
Proof.
  intros old v H. split; [apply set_payload_is|now apply set_payload_length].
Qed.

(* TOP: loading a valid emulator image (1, 2 or 4 sides) and saving it is the identity *)
Theorem load_save_fd : forall (raw : list Z) (n : Z),
  (n = 1 \/ n = 2 \/ n = 4) -> zlen raw = n * 327680 ->
  exists img, load_image true raw = Ok img /\ save_image true img = raw /\
              length img = Z.to_nat n /\ geo_image img.
Proof.
  intros raw n Hn Hlen.
  assert (Hne : raw <> []). { intros ->. unfold zlen in Hlen. cbn [length] in Hlen. lia. }
  assert (HL : length raw = (256 * 1280 * Z.to_nat n)%nat) by (unfold zlen in Hlen; lia).
  exists (map (load_side true) (chunks (slot true * 1280) (Z.to_nat n) raw)).
  split; [apply load_image_ok; [exact Hne|rewrite size_of_side_fd; exact Hlen|exact Hn]|].
  split; [|split].
  - rewrite save_image_is, g_flat_map_map.
    rewrite (g_flat_map_ext_Forall _ (firstn (256 * 1280))).
    + unfold slot. rewrite flat_firstn_chunks, <- HL. apply firstn_all.
    + apply Forall_forall. intros c _. apply save_load_side_fd_fd.
  - now rewrite map_length, chunks_length.
  - apply geo_loaded. unfold slot. lia.
Qed.

(* TOP: loading a 4-sided SDDrive image and saving it keeps every payload and rewrites the padding as FF *)
Theorem load_save_sd : forall raw : list Z,
  zlen raw = 4 * 655360 ->
  exists img, load_image false raw = Ok img /\ save_image false img = normalise_padding raw /\
              save_image true img = payloads_of raw /\ length img = 4%nat /\ geo_image img.
Proof.
  intros raw Hlen.
  assert (Hne : raw <> []). { intros ->. unfold zlen in Hlen. cbn [length] in Hlen. lia. }
  assert (HL : length raw = (512 * (4 * 1280))%nat) by (unfold zlen in Hlen; lia).
  exists (map (load_side false) (chunks (slot false * 1280) (Z.to_nat 4) raw)).
  split; [apply load_image_ok; [exact Hne|rewrite size_of_side_sd; exact Hlen|reflexivity]|].
  change (Z.to_nat 4) with 4%nat. unfold slot.
  split; [|split; [|split]].
  - rewrite (save_loaded_sd false (fun s => firstn 256 s ++ repeat 255 256)).
    + unfold normalise_padding. rewrite (chunk_chunks 512 (4 * 1280)) by lia. reflexivity.
    + intros s. unfold save_sector. now rewrite nat_pad.
  - rewrite (save_loaded_sd true (firstn 256)) by reflexivity.
    unfold payloads_of. rewrite (chunk_chunks 512 (4 * 1280)) by lia. reflexivity.
  - now rewrite map_length, chunks_length.
  - apply (geo_loaded false). unfold slot. lia.
Qed.

(* TOP: saving an image and loading it back is the identity too *)
Theorem save_load : forall (is_fd : bool) (img : image),
  geo_image img -> length img = 4%nat -> load_image is_fd (save_image is_fd img) = Ok img.
Proof.
  intros b img Hg Hl.
  pose proof (save_image_length b img Hg) as HL. rewrite Hl in HL.
  pose proof (slot_pos b) as Hs.
  assert (Hne : save_image b img <> []).
  { intros E. rewrite E in HL. cbn [length] in HL. lia. }
  rewrite (load_image_ok b _ 4 Hne).
  - replace (Z.to_nat 4) with (length img) by (rewrite Hl; reflexivity). now rewrite chunks_save_image.
  - rewrite z_side. unfold zlen. rewrite HL. lia.
  - destruct b; [right; right; reflexivity|reflexivity].
Qed.

(* TOP: the .sd of an image is its .fd with 256 bytes FF after every sector; lengths are fixed *)
Theorem save_flavours : forall img : image, geo_image img ->
  payloads_of (save_image false img) = save_image true img /\
  normalise_padding (save_image false img) = save_image false img /\
  zlen (save_image true img) = Z.of_nat (length img) * 327680 /\
  zlen (save_image false img) = Z.of_nat (length img) * 655360.
Proof.
  intros img Hg.
  pose proof (all_sectors_256 img Hg) as Hall.
  assert (Hslots : Forall (fun s => length (save_sector false s) = 512%nat) (flat_map (fun sd : side => sd) img)).
  { eapply g_Forall_impl2; [|exact Hall]. intros s. apply (save_sector_length false). }
  assert (Hchunk : chunk 512 (S (length (save_image false img))) (save_image false img)
                   = map (save_sector false) (flat_map (fun sd : side => sd) img)).
  { rewrite (save_image_flat false). apply chunk_flat_map; [lia|exact Hslots|].
    rewrite (g_flat_map_length_const _ 512 _ Hslots). lia. }
  split; [|split; [|split]].
  - unfold payloads_of. rewrite Hchunk, g_flat_map_map, (save_image_flat true).
    apply g_flat_map_ext_Forall. eapply g_Forall_impl2; [|exact Hall].
    intros s Hs. cbv beta. now rewrite firstn_save_sector.
  - unfold normalise_padding. rewrite Hchunk, g_flat_map_map, (save_image_flat false).
    apply g_flat_map_ext_Forall. eapply g_Forall_impl2; [|exact Hall].
    intros s Hs. cbv beta. rewrite firstn_save_sector by exact Hs.
    unfold save_sector. now rewrite nat_pad.
  - unfold zlen. rewrite save_image_length by exact Hg. unfold slot. lia.
  - unfold zlen. rewrite save_image_length by exact Hg. unfold slot. lia.
Qed.

(* ---------- the blank image of create ---------- *)
Lemma load_image_blank b : load_image b [] = Ok (repeat blank_side 4).
Proof. unfold load_image. destruct b; [rewrite blank_sides_fd_4|]; reflexivity. Qed.

Lemma geo_blank_side : geo blank_side.
Proof.
  unfold blank_side. split.
  - now rewrite repeat_length, sps_eq.
  - apply Forall_forall. intros s Hs. apply repeat_spec in Hs. subst s.
    unfold blank_sector. now rewrite repeat_length, nat_payload.
Qed.
Lemma geo_blank_image : geo_image (repeat blank_side 4).
Proof.
  apply Forall_forall. intros sd Hsd. apply repeat_spec in Hsd. subst sd. exact geo_blank_side.
Qed.

(* TOP: the two tools build the same disk from the same sources: same report, same log, and the
   same image, saved in the two flavours *)
Theorem create_same_disk : forall (v : bool) (fs : fsmap) (arch1 arch2 : list Z) (srcs : list (list Z)),
  d_text (disk_create true v fs arch1 srcs) = d_text (disk_create false v fs arch2 srcs) /\
  d_log (disk_create true v fs arch1 srcs) = d_log (disk_create false v fs arch2 srcs) /\
  d_status (disk_create true v fs arch1 srcs) = d_status (disk_create false v fs arch2 srcs) /\
  ((d_effects (disk_create true v fs arch1 srcs) = [] /\ d_effects (disk_create false v fs arch2 srcs) = []) \/
   exists img, geo_image img /\ length img = 4%nat /\
     d_effects (disk_create true v fs arch1 srcs) = [WriteFile arch1 (save_image true img)] /\
     d_effects (disk_create false v fs arch2 srcs) = [WriteFile arch2 (save_image false img)]).
Proof.
  intros v fs a1 a2 srcs. unfold disk_create.
  rewrite !load_image_blank.
  destruct (inject_perform_cases v true fs (repeat blank_side 4) srcs geo_blank_image)
    as [[t [e H]]|[t [img' [lg [Hg [Hl [_ H]]]]]]].
  - rewrite (H true a1), (H false a2). unfold crashed. cbn [d_text d_log d_status d_effects].
    split; [reflexivity|]. split; [reflexivity|]. split; [reflexivity|]. left. split; reflexivity.
  - rewrite (H true a1), (H false a2). cbn [d_text d_log d_status d_effects].
    split; [reflexivity|]. split; [reflexivity|]. split; [reflexivity|]. right. exists img'.
    rewrite repeat_length in Hl.
    split; [exact Hg|]. split; [exact Hl|]. split; reflexivity.
Qed.

(* TOP: whatever is stored, the archive's length and sector boundaries never move *)
Theorem add_geometry_fixed : forall (is_fd v : bool) (fs : fsmap) (arch raw : list Z) (srcs : list (list Z)) (img0 : image) (p c : list Z),
  load_image is_fd raw = Ok img0 -> geo_image img0 ->
  In (WriteFile p c) (d_effects (disk_add is_fd v fs arch raw srcs)) ->
  p = arch /\ exists img, c = save_image is_fd img /\ geo_image img /\ length img = length img0.
Proof.
  intros is_fd v fs arch raw srcs img0 p c Hload Hg Hin. unfold disk_add in Hin. rewrite Hload in Hin.
  destruct (inject_perform_cases v false fs img0 srcs Hg)
    as [[t [e H]]|[t [img' [lg [Hg' [Hl [_ H]]]]]]]; rewrite H in Hin.
  - unfold crashed in Hin. cbn [d_effects In] in Hin. contradiction.
  - cbn [d_effects In] in Hin. destruct Hin as [E|E]; [|contradiction].
    inversion E; subst. split; [reflexivity|]. exists img'.
    split; [reflexivity|]. split; [exact Hg'|exact Hl].
Qed.

(* TOP: adding nothing to a valid 4-sided emulator image rewrites it unchanged *)
Theorem noop_add_identity_fd : forall (v : bool) (fs : fsmap) (arch raw : list Z) (img : image),
  zlen raw = 4 * 327680 -> load_image true raw = Ok img ->
  Forall (fun sd => forallb st_valid (fat sd) = true) img ->
  d_status (disk_add true v fs arch raw []) = 0 /\
  d_effects (disk_add true v fs arch raw []) = [WriteFile arch raw].
Proof.
  intros v fs arch raw img Hlen Hload Hvalid.
  destruct (load_save_fd raw 4 (or_intror (or_intror eq_refl)) Hlen) as [img' [Hl' [Hs [Hn Hg]]]].
  rewrite Hload in Hl'. inversion Hl'; subst img'.
  unfold disk_add. rewrite Hload.
  destruct (inject_perform_nop true v fs arch img Hn (all_usage_ok img Hvalid)) as [t [lg H]].
  rewrite H. cbn [d_status d_effects]. rewrite Hs. split; reflexivity.
Qed.

Print Assumptions set_payload_exact.
Print Assumptions load_save_fd.
Print Assumptions load_save_sd.
Print Assumptions save_load.
Print Assumptions save_flavours.
Print Assumptions create_same_disk.
Print Assumptions add_geometry_fixed.
Print Assumptions noop_add_identity_fd.
