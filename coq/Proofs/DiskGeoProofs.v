(* Proofs/DiskGeoProofs.v — geometry, load/save, flavours (C11).  TOP statements are fixed. *)
From Coq Require Import ZArith List Bool Lia ZifyBool.
Require Import PyBase GenDisk DiskFacts Disk ThomsonDos PyFacts DiskDefs.
Import ListNotations.
Open Scope Z_scope.
Ltac Zify.zify_post_hook ::= Z.to_euclidean_division_equations.

(* TOP: a payload assignment of ANY length keeps the sector's size: the first min(n,256) bytes
   are replaced, the rest kept *)
Theorem set_payload_exact : forall (old v : list Z), length old = 256%nat ->
  set_payload old v = firstn (Nat.min (length v) 256) v ++ skipn (Nat.min (length v) 256) old /\
  length (set_payload old v) = 256%nat.
Admitted.

(* TOP: loading a valid emulator image (1, 2 or 4 sides) and saving it is the identity *)
Theorem load_save_fd : forall (raw : list Z) (n : Z),
  (n = 1 \/ n = 2 \/ n = 4) -> zlen raw = n * 327680 ->
  exists img, load_image true raw = Ok img /\ save_image true img = raw /\
              length img = Z.to_nat n /\ geo_image img.
Admitted.

(* TOP: loading a 4-sided SDDrive image and saving it keeps every payload and rewrites the padding as FF *)
Theorem load_save_sd : forall raw : list Z,
  zlen raw = 4 * 655360 ->
  exists img, load_image false raw = Ok img /\ save_image false img = normalise_padding raw /\
              save_image true img = payloads_of raw /\ length img = 4%nat /\ geo_image img.
Admitted.

(* TOP: saving an image and loading it back is the identity too *)
Theorem save_load : forall (is_fd : bool) (img : image),
  geo_image img -> length img = 4%nat -> load_image is_fd (save_image is_fd img) = Ok img.
Admitted.

(* TOP: the .sd of an image is its .fd with 256 bytes FF after every sector; lengths are fixed *)
Theorem save_flavours : forall img : image, geo_image img ->
  payloads_of (save_image false img) = save_image true img /\
  normalise_padding (save_image false img) = save_image false img /\
  zlen (save_image true img) = Z.of_nat (length img) * 327680 /\
  zlen (save_image false img) = Z.of_nat (length img) * 655360.
Admitted.

(* TOP: the two tools build the same disk from the same sources: same report, same log, and the
   same image, saved in the two flavours *)
Theorem create_same_disk : forall (v : bool) (fs : fsmap) (arch1 arch2 : list Z) (srcs : list (list Z)),
  d_text (disk_create true v fs arch1 srcs) = d_text (disk_create false v fs arch2 srcs) /\
  d_log (disk_create true v fs arch1 srcs) = d_log (disk_create false v fs arch2 srcs) /\
  d_status (disk_create true v fs arch1 srcs) = d_status (disk_create false v fs arch2 srcs) /\
  ((d_effects (disk_create true v fs arch1 srcs) = [] /\ d_effects (disk_create false v fs arch2 srcs) = []) \/
   exists img, geo_image img /\ length img = 4%nat /\
     d_effects (disk_create true v fs arch1 srcs) = [WriteFile arch1 (save_image true img)] /\
     d_effects (disk_create false v fs arch2 srcs) = [WriteFile arch2 (save_image false img)]).
Admitted.

(* TOP: whatever is stored, the archive's length and sector boundaries never move *)
Theorem add_geometry_fixed : forall (is_fd v : bool) (fs : fsmap) (arch raw : list Z) (srcs : list (list Z)) (img0 : image) (p c : list Z),
  load_image is_fd raw = Ok img0 -> geo_image img0 ->
  In (WriteFile p c) (d_effects (disk_add is_fd v fs arch raw srcs)) ->
  p = arch /\ exists img, c = save_image is_fd img /\ geo_image img /\ length img = length img0.
Admitted.

(* TOP: adding nothing to a valid 4-sided emulator image rewrites it unchanged *)
Theorem noop_add_identity_fd : forall (v : bool) (fs : fsmap) (arch raw : list Z) (img : image),
  zlen raw = 4 * 327680 -> load_image true raw = Ok img ->
  Forall (fun sd => forallb st_valid (fat sd) = true) img ->
  d_status (disk_add true v fs arch raw []) = 0 /\
  d_effects (disk_add true v fs arch raw []) = [WriteFile arch raw].
Admitted.
