(* Proofs/DGeoInject.v — the injector keeps the geometry of the image (sector sizes, number of
   sectors per side, number of sides). *)
From Coq Require Import ZArith List Bool Lia ZifyBool.
Require Import PyBase GenDisk DiskFacts DiskFactsGeo Disk ThomsonDos DiskDefs DGeoLists DGeoSides.
Import ListNotations.
Open Scope Z_scope.
Ltac Zify.zify_post_hook ::= Z.to_euclidean_division_equations.

(* ---------- sectors ---------- *)
Lemma set_payload_is (old v : list Z) :
  set_payload old v = firstn (Nat.min (length v) 256) v ++ skipn (Nat.min (length v) 256) old.
Proof.
  unfold set_payload, splice. rewrite setter_copy_len_is.
  assert (E : Z.to_nat (Z.min (zlen v) 256) = Nat.min (length v) 256) by (unfold zlen; lia).
  rewrite E. cbn [firstn app]. now rewrite Nat.max_0_l.
Qed.
Lemma set_payload_length (old v : list Z) : length old = 256%nat -> length (set_payload old v) = 256%nat.
Proof. intros H. rewrite set_payload_is, app_length, firstn_length, skipn_length, H. lia. Qed.

Lemma g_Forall_firstn {A} (P : A -> Prop) n : forall l, Forall P l -> Forall P (firstn n l).
Proof.
  induction n as [|n IH]; intros l H; [constructor|].
  destruct H as [|x l Hx Hl]; cbn [firstn]; constructor; auto.
Qed.
Lemma g_Forall_skipn {A} (P : A -> Prop) n : forall l, Forall P l -> Forall P (skipn n l).
Proof.
  induction n as [|n IH]; intros l H; [exact H|].
  destruct H as [|x l Hx Hl]; cbn [skipn]; [constructor|auto].
Qed.
Lemma g_Forall_nth {A} (P : A -> Prop) d : forall l i, Forall P l -> (i < length l)%nat -> P (nth i l d).
Proof.
  intros l i H Hi. eapply Forall_forall; [exact H|]. now apply nth_In.
Qed.

Lemma replace_length {A} (l : list A) i x : (i < length l)%nat ->
  length (firstn i l ++ [x] ++ skipn (S i) l) = length l.
Proof. intros H. rewrite !app_length, firstn_length, skipn_length. cbn [length]. lia. Qed.
Lemma replace_Forall {A} (P : A -> Prop) (l : list A) i x : Forall P l -> P x ->
  Forall P (firstn i l ++ [x] ++ skipn (S i) l).
Proof.
  intros H Hx. apply Forall_app. split; [now apply g_Forall_firstn|].
  apply Forall_app. split; [constructor; [exact Hx|constructor]|now apply g_Forall_skipn].
Qed.

Lemma geo_upd sd i v : geo sd -> geo (set_sec sd i (set_payload (get_sec sd i) v)).
Proof.
  intros [Hl Hs]. unfold set_sec. destruct (Nat.ltb i (length sd)) eqn:E; [|now split].
  apply Nat.ltb_lt in E. split.
  - rewrite replace_length; assumption.
  - apply replace_Forall; [exact Hs|]. apply set_payload_length.
    unfold get_sec. now apply (g_Forall_nth (fun s => length s = 256%nat)).
Qed.

Lemma geo_bat_set sd bat : geo sd -> geo (bat_set sd bat).
Proof. intros H. unfold bat_set. cbv zeta. now apply geo_upd. Qed.

Lemma geo_fold_upd (v : nat -> list Z) l : forall sd, geo sd ->
  geo (fold_left (fun sd s => set_sec sd s (set_payload (get_sec sd s) (v s))) l sd).
Proof.
  induction l as [|s l IH]; intros sd H; cbn [fold_left]; [exact H|].
  apply IH. now apply geo_upd.
Qed.

Lemma geo_init_fs sd : geo sd -> geo (init_fs sd).
Proof.
  intros H. unfold init_fs. cbv zeta.
  apply (geo_fold_upd (fun _ => repeat init_catalog_filler 256)).
  apply geo_bat_set. now apply geo_upd.
Qed.

Lemma geo_write_slices fuel : forall sd bat alloc content ulb cb cs idx len sd1 bat1,
  geo sd -> write_slices fuel sd bat alloc content ulb cb cs idx len = Ok (sd1, bat1) -> geo sd1.
Proof.
  induction fuel as [|fuel IH]; intros sd bat alloc content ulb cb cs idx len sd1 bat1 H E;
    cbn [write_slices] in E.
  - inversion E; subst. exact H.
  - destruct (idx <? Z.max len 1); [|inversion E; subst; exact H].
    destruct (nth_error alloc cb) as [b|]; [|discriminate].
    cbv zeta in E. eapply IH; [|exact E]. now apply geo_upd.
Qed.

Lemma geo_write_file sd cont name ext kind dtype :
  geo sd -> geo (fst (write_file sd cont name ext kind dtype)).
Proof.
  intros H. unfold write_file.
  destruct (bat_get sd) as [bat|e]; [|exact H].
  destruct (compute_required_slots (zlen cont) payload_per_sector) as [sectors0 last0].
  destruct (if zlen cont =? 0 then (1, 0) else (sectors0, last0)) as [sectors last_sector].
  destruct (compute_required_slots sectors sectors_per_block) as [nblocks last_block].
  cbv zeta.
  match goal with |- context [if ?c then _ else _] => destruct c end; [exact H|].
  destruct (nth_error _ 0) as [first|]; [|exact H].
  destruct (new_record name ext kind dtype first last_sector) as [rec|e]; [|exact H].
  match goal with |- context [write_slices ?x1 ?x2 ?x3 ?x4 ?x5 ?x6 ?x7 ?x8 ?x9 ?x10] =>
    destruct (write_slices x1 x2 x3 x4 x5 x6 x7 x8 x9 x10) as [[sd1 bat1]|e] eqn:Ews end; [|exact H].
  apply geo_write_slices in Ews; [|exact H].
  pose proof (geo_bat_set sd1 bat1 Ews) as H2.
  destruct (find_slot _ bat1 all_slots) as [[[s off]|]|e]; cbn [fst].
  - now apply geo_upd.
  - now apply geo_bat_set.
  - exact H2.
Qed.

(* ---------- the injector state ---------- *)
Definition inv (L : nat) (st : istate) : Prop := geo_image (i_img st) /\ length (i_img st) = L.

Lemma nat_side_count : Z.to_nat side_count = 4%nat.
Proof. reflexivity. Qed.
Lemma has_controller_lt st : has_controller st = true -> (i_cur st < 4)%nat.
Proof. unfold has_controller. rewrite nat_side_count. apply Nat.ltb_lt. Qed.

Lemma inv_emit L st o : inv L st -> inv L (emit st o).
Proof. exact (fun H => H). Qed.
Lemma inv_note L st x : inv L st -> inv L (note st x).
Proof. exact (fun H => H). Qed.
Lemma inv_next_side L st : inv L st -> inv L (next_side st).
Proof. exact (fun H => H). Qed.
Lemma inv_open_side L v st : inv L st -> inv L (open_side v st).
Proof. exact (fun H => H). Qed.

Lemma cur_side_geo L st : inv L st -> (i_cur st < L)%nat -> geo (cur_side st).
Proof.
  intros [Hg Hl] Hc. unfold cur_side. apply (g_Forall_nth geo); [exact Hg|lia].
Qed.
Lemma inv_set_cur_side L st sd : inv L st -> (i_cur st < L)%nat -> geo sd -> inv L (set_cur_side st sd).
Proof.
  intros [Hg Hl] Hc Hsd. unfold inv, set_cur_side. cbn [i_img]. split.
  - now apply replace_Forall.
  - rewrite replace_length; [exact Hl|lia].
Qed.

Lemma inject_file_inv L v name ext kind dtype data : (4 <= L)%nat ->
  forall fuel st st', inv L st -> inject_file fuel v st name ext kind dtype data = Ok st' -> inv L st'.
Proof.
  intros HL. induction fuel as [|fuel IH]; intros st st' Hinv H; cbn [inject_file] in H.
  - inversion H; subst. exact Hinv.
  - destruct (has_controller st) eqn:Hc; cbn [negb] in H; [|inversion H; subst; exact Hinv].
    apply has_controller_lt in Hc.
    set (st1 := emit st _) in H.
    assert (Hinv1 : inv L st1) by exact Hinv.
    assert (Hc1 : (i_cur st1 < L)%nat) by (change (i_cur st1) with (i_cur st); lia).
    pose proof (geo_write_file (cur_side st1) data name ext kind dtype (cur_side_geo L st1 Hinv1 Hc1)) as Hw.
    destruct (write_file (cur_side st1) data name ext kind dtype) as [sd' [u|e]]; cbn [fst] in Hw.
    + inversion H; subst. apply inv_note, inv_emit. now apply inv_set_cur_side.
    + pose proof (inv_set_cur_side L st1 sd' Hinv1 Hc1 Hw) as Hinv2.
      destruct e; try discriminate H.
      match type of H with match compute_usage ?c with _ => _ end = _ =>
        destruct (compute_usage c) as [u|e] end; [|discriminate H].
      match type of H with (if negb (has_controller ?s) then _ else _) = _ =>
        set (st5 := s) in H; assert (Hinv5 : inv L st5) by exact Hinv2 end.
      destruct (has_controller st5); cbn [negb] in H.
      * eapply IH; [|exact H]. exact Hinv5.
      * inversion H; subst. exact Hinv5.
Qed.

Lemma inject_sources_inv L v fs : (4 <= L)%nat ->
  forall srcs st st', inv L st -> inject_sources v fs st srcs = Ok st' -> inv L st'.
Proof.
  intros HL. induction srcs as [|src rest IH]; intros st st' Hinv H; cbn [inject_sources] in H.
  - inversion H; subst. exact Hinv.
  - destruct (zeqb_list (upper_ascii (basename src)) eos_marker).
    + destruct (compute_usage (cur_side st)) as [u|e]; [|discriminate H].
      match type of H with (if negb (has_controller ?s) then _ else _) = _ =>
        set (st2 := s) in H; assert (Hinv2 : inv L st2) by exact Hinv end.
      destruct (has_controller st2); cbn [negb] in H.
      * eapply IH; [|exact H]. exact Hinv2.
      * inversion H; subst. exact Hinv2.
    + destruct (split_source src) as [[[name ext] ext_opt] clean].
      destruct (fs_read fs clean) as [data|]; [|eapply IH; [|exact H]; exact Hinv].
      destruct (inj_name_max <? zlen name); [eapply IH; [|exact H]; exact Hinv|].
      destruct (inj_ext_max <? zlen ext); [eapply IH; [|exact H]; exact Hinv|].
      destruct (processor_of name ext ext_opt) as [[forced kind] dtype].
      match type of H with match inject_file ?a ?b ?c ?d ?e ?f ?g ?h with _ => _ end = _ =>
        destruct (inject_file a b c d e f g h) as [st1|er] eqn:Ef end; [|discriminate H].
      apply (inject_file_inv L _ _ _ _ _ _ HL) in Ef; [|exact Hinv].
      destruct (has_controller st1); cbn [negb] in H.
      * eapply IH; [|exact H]. exact Ef.
      * inversion H; subst. exact Ef.
Qed.

Lemma finish_sides_img v : forall fuel st st', finish_sides fuel v st = Ok st' -> i_img st' = i_img st.
Proof.
  induction fuel as [|fuel IH]; intros st st' H; cbn [finish_sides] in H.
  - now inversion H.
  - destruct (Nat.ltb (S (i_cur st)) (Z.to_nat side_count)); [|now inversion H].
    cbv zeta in H.
    destruct (compute_usage (cur_side (open_side v (next_side st)))) as [u|e]; [|discriminate H].
    apply IH in H. exact H.
Qed.

Lemma inject_perform_cases v init fs img srcs : geo_image img ->
  (exists t e, forall is_fd a, inject_perform is_fd v init fs a img srcs = crashed t [] e) \/
  (exists t img' lg, geo_image img' /\ length img' = length img /\ (4 <= length img)%nat /\
     forall is_fd a, inject_perform is_fd v init fs a img srcs
                     = mkDOutcome 0 t [WriteFile a (save_image is_fd img')] None lg).
Proof.
  intros Hg. unfold inject_perform. rewrite nat_side_count.
  destruct (Nat.ltb (length img) 4) eqn:E4.
  { left. exists [], EIndex. reflexivity. }
  apply Nat.ltb_ge in E4. cbv zeta.
  set (img0 := if init then map init_fs (firstn 4 img) ++ skipn 4 img else img).
  assert (Hinv0 : inv (length img) (open_side v (mkI img0 0 dlst0 [] []))).
  { apply inv_open_side. unfold inv. cbn [i_img]. subst img0. destruct init; [|now split]. split.
    - apply Forall_app. split; [|now apply g_Forall_skipn].
      apply g_Forall_map. apply g_Forall_firstn.
      eapply g_Forall_impl2; [|exact Hg]. apply geo_init_fs.
    - rewrite app_length, map_length, firstn_length, skipn_length. lia. }
  set (st0 := open_side v (mkI img0 0 dlst0 [] [])) in *.
  destruct (inject_sources v fs st0 srcs) as [st1|e] eqn:Es.
  2:{ left. exists (i_text st0), e. reflexivity. }
  apply (inject_sources_inv _ _ _ E4) in Es; [|exact Hinv0].
  destruct Es as [Hg1 Hl1].
  destruct (has_controller st1).
  - destruct (compute_usage (cur_side st1)) as [u|e].
    2:{ left. exists (i_text st1), e. reflexivity. }
    match goal with |- context [finish_sides ?a ?b ?c] => destruct (finish_sides a b c) as [st2|e] eqn:Ef end.
    2:{ left. exists (i_text st1), e. reflexivity. }
    apply finish_sides_img in Ef. cbn [emit i_img] in Ef.
    destruct (on_done v PUpdating (i_lst st2)) as [o s2].
    right. exists (i_text st2 ++ o), (i_img st2), (i_log st2). rewrite Ef.
    split; [exact Hg1|]. split; [exact Hl1|]. split; [exact E4|]. reflexivity.
  - destruct (on_done v PUpdating (i_lst st1)) as [o s2].
    right. exists (i_text st1 ++ o), (i_img st1), (i_log st1).
    split; [exact Hg1|]. split; [exact Hl1|]. split; [exact E4|]. reflexivity.
Qed.

(* ---------- nothing to add: only the usages are computed ---------- *)
Lemma g_forallb_impl {A} (p q : A -> bool) l :
  (forall x, p x = true -> q x = true) -> forallb p l = true -> forallb q l = true.
Proof.
  intros H. induction l as [|x l IH]; cbn [forallb]; [easy|].
  intros Hx. apply andb_prop in Hx. destruct Hx as [Hx Hl]. now rewrite (H _ Hx), IH.
Qed.

Lemma st_valid_is_valid s : st_valid s = true -> is_valid_status s = true.
Proof.
  rewrite is_valid_status_is. unfold st_valid, st_next, st_last, st_reserved, st_free. lia.
Qed.

Lemma bat_get_ok sd : forallb st_valid (fat sd) = true -> bat_get sd = Ok (fat sd).
Proof.
  intros H. unfold bat_get. cbv zeta.
  change (slice (Z.to_nat bat_first_index) (Z.to_nat bat_end_index) (get_sec sd bat_index)) with (fat sd).
  now rewrite (g_forallb_impl _ _ _ st_valid_is_valid H).
Qed.

Lemma compute_usage_ok sd : forallb st_valid (fat sd) = true -> exists u, compute_usage sd = Ok u.
Proof. intros H. unfold compute_usage. rewrite (bat_get_ok sd H). cbn [bind]. eexists. reflexivity. Qed.

Lemma all_usage_ok (img : image) : Forall (fun sd => forallb st_valid (fat sd) = true) img ->
  forall i, exists u, compute_usage (nth i img []) = Ok u.
Proof.
  intros H i. destruct (Nat.lt_ge_cases i (length img)) as [Hi|Hi].
  - apply compute_usage_ok. now apply (g_Forall_nth (fun sd => forallb st_valid (fat sd) = true)).
  - rewrite nth_overflow by exact Hi. apply compute_usage_ok. reflexivity.
Qed.

Lemma finish_sides_ok v : forall fuel st,
  (forall i, exists u, compute_usage (nth i (i_img st) []) = Ok u) ->
  exists st', finish_sides fuel v st = Ok st' /\ i_img st' = i_img st.
Proof.
  induction fuel as [|fuel IH]; intros st H; cbn [finish_sides].
  - eexists; split; reflexivity.
  - destruct (Nat.ltb (S (i_cur st)) (Z.to_nat side_count)); [|eexists; split; reflexivity].
    cbv zeta. destruct (H (S (i_cur st))) as [u Hu].
    change (cur_side (open_side v (next_side st))) with (nth (S (i_cur st)) (i_img st) []).
    rewrite Hu.
    match goal with |- context [finish_sides fuel v ?s] => destruct (IH s H) as [st' [E1 E2]] end.
    exists st'. split; [exact E1|exact E2].
Qed.

Lemma inject_perform_nop is_fd v fs a img : @length side img = 4%nat ->
  (forall i, exists u, compute_usage (nth i img []) = Ok u) ->
  exists t lg, inject_perform is_fd v false fs a img [] = mkDOutcome 0 t [WriteFile a (save_image is_fd img)] None lg.
Proof.
  intros Hl Hu. unfold inject_perform. rewrite nat_side_count, Hl.
  change (Nat.ltb 4 4) with false. cbv iota zeta. cbn [inject_sources].
  set (st0 := open_side v (mkI img 0 dlst0 [] [])).
  change (has_controller st0) with true. cbv iota.
  destruct (Hu 0%nat) as [u0 Hu0].
  change (cur_side st0) with (nth 0 img []). rewrite Hu0.
  match goal with |- context [finish_sides 4 v ?s] => destruct (finish_sides_ok v 4 s Hu) as [st2 [E1 E2]] end.
  rewrite E1. cbn [emit i_img] in E2.
  destruct (on_done v PUpdating (i_lst st2)) as [o s2].
  exists (i_text st2 ++ o), (i_log st2). rewrite E2. reflexivity.
Qed.
