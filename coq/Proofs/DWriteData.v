(* Proofs/DWriteData.v — what the slice loop leaves on the side and in the table. *)
From Coq Require Import ZArith List Bool Lia ZifyBool.
Require Import PyBase GenDisk DiskFacts DiskFactsWrite Disk ThomsonDos DiskDefs DWriteList DWriteLens DWriteSpec DWriteAlloc DWriteSlices.
Import ListNotations.
Open Scope Z_scope.
Ltac Zify.zify_post_hook ::= Z.to_euclidean_division_equations.

(* ---------- reading a chain back ---------- *)
Lemma wd_block_sectors_S sd b m :
  block_sectors sd b (S m) = block_sectors sd b m ++ firstn 255 (nsec sd (Z.to_nat b * 8 + m)).
Proof.
  unfold block_sectors. rewrite seq_S, flat_map_app. cbn [flat_map Nat.add]. now rewrite app_nil_r.
Qed.

Lemma wd_block (content : list Z) sd b k0 : forall m,
  (forall j, (j < m)%nat -> firstn 255 (nsec sd (Z.to_nat b * 8 + j)) = firstn 255 (skipn (255 * (k0 + j)) content)) ->
  block_sectors sd b m ++ skipn (255 * (k0 + m)) content = skipn (255 * k0) content.
Proof.
  induction m as [|m IH]; intros H.
  - unfold block_sectors. cbn [seq flat_map app]. now rewrite Nat.add_0_r.
  - rewrite wd_block_sectors_S, H by lia. rewrite <- app_assoc.
    replace (255 * (k0 + S m))%nat with (255 * (k0 + m) + 255)%nat by lia.
    rewrite wl_firstn_skipn_step. apply IH. intros j Hj. apply H. lia.
Qed.

Lemma wd_chain_content (content : list Z) sd (u lb : Z) (sn : nat) : 1 <= u <= 8 ->
  forall r k0, r <> [] -> (sn = k0 + 8 * (length r - 1) + Z.to_nat u)%nat ->
  (forall i j, (i < length r)%nat -> (j < 8)%nat -> (k0 + 8 * i + j < sn - 1)%nat ->
     firstn 255 (nsec sd (Z.to_nat (nth i r 0) * 8 + j)) = firstn 255 (skipn (255 * (k0 + 8 * i + j)) content)) ->
  firstn (Z.to_nat lb) (nsec sd (Z.to_nat (nth (length r - 1) r 0) * 8 + (Z.to_nat u - 1))) = skipn (255 * (sn - 1)) content ->
  chain_content sd r u lb = skipn (255 * k0) content.
Proof.
  intros Hu. induction r as [|b r IH]; intros k0 Hne Hsn H Hlast; [congruence|].
  destruct r as [|b' r'].
  - cbn [chain_content]. cbn [length Nat.sub nth] in Hlast, Hsn. rewrite Hlast.
    replace (sn - 1)%nat with (k0 + (Z.to_nat u - 1))%nat by lia.
    apply wd_block. intros j Hj. specialize (H 0%nat j). cbn [length nth] in H.
    replace (k0 + 8 * 0 + j)%nat with (k0 + j)%nat in H by lia. apply H; lia.
  - change (chain_content sd (b :: b' :: r') u lb) with (block_sectors sd b 8 ++ chain_content sd (b' :: r') u lb).
    cbn [length] in Hsn, H, Hlast.
    rewrite (IH (k0 + 8)%nat).
    + apply wd_block. intros j Hj. specialize (H 0%nat j). cbn [nth] in H.
      replace (k0 + 8 * 0 + j)%nat with (k0 + j)%nat in H by lia. apply H; lia.
    + discriminate.
    + cbn [length]. lia.
    + intros i j Hi Hj Hk. specialize (H (S i) j). cbn [nth] in H. cbn [length] in Hi.
      replace (k0 + 8 * S i + j)%nat with (k0 + 8 + 8 * i + j)%nat in H by lia. apply H; lia.
    + cbn [length]. replace (S (S (length r')) - 1)%nat with (S (S (length r') - 1)) in Hlast by lia.
      cbn [nth] in Hlast. exact Hlast.
Qed.

(* ---------- the sectors a writeFile may touch ---------- *)
Definition touched (alloc : list Z) (i : nat) : Prop :=
  exists b j, In b alloc /\ 0 <= j < 8 /\ i = Z.to_nat (8 * b + j).

Lemma wd_result sd bat content alloc :
  geom sd -> bytesb content = true -> length bat = 160%nat -> NoDup alloc ->
  (forall x, In x alloc -> 0 <= x < 160) ->
  length alloc = Z.to_nat (needed_blocks (zlen content)) ->
  exists sd1 bat1,
    write_slices (S (length content)) sd bat alloc content (plan_lastblk (zlen content)) 0 0 0 (zlen content) = Ok (sd1, bat1) /\
    geom sd1 /\
    (forall i, ~ touched alloc i -> nsec sd1 i = nsec sd i) /\
    chain_content sd1 alloc (plan_lastblk (zlen content)) (plan_lastsec (zlen content)) = content /\
    length bat1 = 160%nat /\
    (forall b, ~ In (Z.of_nat b) alloc -> nth b bat1 255 = nth b bat 255) /\
    (forall i, (i < length alloc)%nat ->
       nth (Z.to_nat (nth i alloc 0)) bat1 255 = link alloc (plan_lastblk (zlen content)) i).
Proof.
  intros Hg Hc Hbl Hnd Hr Hal.
  pose proof (wl_zlen_nonneg content) as Hlen0.
  destruct (wa_plan_facts (zlen content) Hlen0) as (P1 & P2 & P3 & P4 & P5 & P6 & P7 & P8).
  set (len := zlen content) in *. set (u := plan_lastblk len) in *. set (lb := plan_lastsec len) in *.
  set (sn := Z.to_nat (needed_sectors len)).
  assert (Hsn : Z.of_nat sn = needed_sectors len) by (unfold sn; lia).
  assert (Hn : Z.of_nat (length alloc) = needed_blocks len) by lia.
  assert (Hlc : Z.of_nat (length content) = len) by reflexivity.
  assert (Hb1 : 255 * (Z.of_nat sn - 1) < Z.max len 1 <= 255 * Z.of_nat sn) by (rewrite Hsn; exact P8).
  assert (Hb2 : Z.of_nat sn <= 8 * Z.of_nat (length alloc)) by lia.
  assert (Hb3 : (sn <= S (length content))%nat) by lia.
  exists (fold_left (step_sd alloc content) (seq 0 sn) sd), (fold_left (step_bat alloc u) (seq 0 sn) bat).
  destruct (wsl_sd_props alloc content u Hnd Hr sd Hg Hc sn Hb2) as (G & Hout & Hin).
  destruct (wsl_bat_props alloc u Hnd Hr bat 255 Hbl sn Hb2) as (L & Bout & Bin).
  assert (Hsec : forall i j, (i < length alloc)%nat -> (j < 8)%nat ->
            sec alloc (8 * i + j) = (Z.to_nat (nth i alloc 0%Z) * 8 + j)%nat).
  { intros i j Hi Hj. pose proof (Hr _ (nth_In alloc 0 Hi)) as Hb. unfold sec, blk.
    replace (Z.to_nat (Z.of_nat (8 * i + j) / 8)) with i by lia. lia. }
  split; [apply wsl_top; assumption|]. split; [exact G|]. split; [|split; [|split; [exact L|split]]].
  - intros i Hi. apply Hout. intros k Hk E. apply Hi.
    assert (Hkb : (Z.to_nat (Z.of_nat k / 8) < length alloc)%nat) by lia.
    exists (blk alloc k), (Z.of_nat k mod 8). split; [unfold blk; now apply nth_In|]. split; [lia|].
    rewrite <- E. reflexivity.
  - assert (Hread : forall k, (k < sn)%nat ->
              firstn (length (slice_k content k)) (nsec (fold_left (step_sd alloc content) (seq 0 sn) sd) (sec alloc k))
              = slice_k content k).
    { intros k Hk. rewrite Hin by exact Hk. rewrite wn_set_payload_short.
      - now apply wl_firstn_app_exact.
      - unfold slice_k. rewrite firstn_length. lia. }
    assert (Hne : alloc <> []) by (intros E; rewrite E in Hn; cbn in Hn; lia).
    rewrite (wd_chain_content content _ u lb sn P3 alloc 0%nat Hne).
    + reflexivity.
    + lia.
    + intros i j Hi Hj Hk. cbn [Nat.add] in Hk |- *. rewrite <- Hsec by assumption.
      assert (E : length (slice_k content (8 * i + j)) = 255%nat).
      { unfold slice_k. rewrite firstn_length, skipn_length. lia. }
      pose proof (Hread (8 * i + j)%nat ltac:(lia)) as R. rewrite E in R. exact R.
    + assert (Hi : (length alloc - 1 < length alloc)%nat) by lia.
      assert (Hj : (Z.to_nat u - 1 < 8)%nat) by lia.
      rewrite <- (Hsec _ _ Hi Hj).
      replace (8 * (length alloc - 1) + (Z.to_nat u - 1))%nat with (sn - 1)%nat by lia.
      assert (Hl : length (slice_k content (sn - 1)) = Z.to_nat lb).
      { unfold slice_k. rewrite firstn_length, skipn_length. lia. }
      rewrite <- Hl, Hread by lia. unfold slice_k. apply firstn_all2. rewrite skipn_length. lia.
  - intros b Hb. apply Bout. intros i Hi E. apply Hb.
    assert (Hii : (i < length alloc)%nat) by lia.
    pose proof (Hr _ (nth_In alloc 0 Hii)) as Hx.
    replace (Z.of_nat b) with (nth i alloc 0) by lia. now apply nth_In.
  - intros i Hi. apply Bin. lia.
Qed.
