(* Proofs/DiskDefs.v — definitions shared by the disk theorems (statements only, no proofs). *)
From Coq Require Import ZArith List Bool.
Require Import PyBase GenDisk Disk ThomsonDos.
Import ListNotations.
Open Scope Z_scope.

(* geometry of a side / of an image *)
Definition geo (sd : side) : Prop := length sd = 1280%nat /\ Forall (fun s => length s = 256%nat) sd.
Definition geo_image (img : image) : Prop := Forall geo img.

Definition indexed {A} (l : list A) : list (nat * A) := combine (seq 0 (length l)) l.
Definition target_of (into : option (list Z)) (arch : list Z) : list Z :=
  match into with Some d => d | None => dirname arch end.

(* how list / extract present a file of the Spec decoder *)
Definition kind_shown (k : Z) : Z := if (0 <=? k) && (k <? 4) then k else 1.
Definition dos_label (f : dos_file) : list Z :=
  map (fun c => if c =? 47 then 95 else c) (rstrip_py (d_name f) ++ [46] ++ rstrip_py (d_ext f)).
Definition dos_item (i : nat) (f : dos_file) : log_item :=
  LFile (Z.of_nat i) (d_name f) (d_ext f) (kind_shown (d_kind f)) (d_flag f =? 255) true (zlen (d_content f)) (zlen (d_blocks f)) (d_content f).
(* list does not read the files: its items carry no bytes *)
Definition dos_item_listed (i : nat) (f : dos_file) : log_item :=
  LFile (Z.of_nat i) (d_name f) (d_ext f) (kind_shown (d_kind f)) (d_flag f =? 255) true (zlen (d_content f)) (zlen (d_blocks f)) [].
Definition side_log_listed (x : nat * list dos_file) : list log_item := LSide (Z.of_nat (fst x)) :: map (dos_item_listed (fst x)) (snd x).
Definition side_log (x : nat * list dos_file) : list log_item := LSide (Z.of_nat (fst x)) :: map (dos_item (fst x)) (snd x).
Definition side_effects (target : list Z) (x : nat * list dos_file) : list effect :=
  MkDir (side_dir target (fst x)) ::
  map (fun f => WriteFile (path_join (side_dir target (fst x)) (dos_label f)) (d_content f)) (snd x).

(* arguments of FileSystemController.writeFile as the injector passes them *)
Definition write_args_ok (name ext : list Z) (kind dtype : Z) (content : list Z) : bool :=
  forallb printable_char name && forallb printable_char ext
  && (0 <=? kind) && (kind <? 4) && ((dtype =? 0) || (dtype =? 1)) && bytesb content.

Definition free_count (sd : side) : Z := count_status st_free (fat sd).
Definition has_free_slot (sd : side) : bool := existsb (fun e => negb (e_live e)) (cat_entries sd).

(* the log restricted to one side: its file items, in order *)
Fixpoint files_of_log (i : Z) (lg : list log_item) : list log_item :=
  match lg with
  | [] => []
  | LFile s n e k a st sz b c :: r => if s =? i then LFile s n e k a st sz b c :: files_of_log i r else files_of_log i r
  | _ :: r => files_of_log i r
  end.
Definition item_stored (x : log_item) : bool := match x with LFile _ _ _ _ _ st _ _ _ => st | _ => false end.
(* (name8, ext3, kind, flag, size, blocks) announced by a stored item *)
Definition item_view (x : log_item) : list Z * list Z * Z * Z * Z * Z :=
  match x with
  | LFile _ n e k a _ sz b _ => (pad_to 8 (upper_ascii n), pad_to 3 (upper_ascii e), k, if a then 255 else 0, sz, b)
  | LSide _ => ([], [], 0, 0, 0, 0)
  end.
(* ... and the file it stands for: catalogue fields and bytes *)
Definition item_dos (x : log_item) : list Z * list Z * Z * Z * list Z :=
  match x with
  | LFile _ n e k a _ _ _ c => (pad_to 8 (upper_ascii n), pad_to 3 (upper_ascii e), k, if a then 255 else 0, c)
  | LSide _ => ([], [], 0, 0, [])
  end.
Definition all_files_of_log (lg : list log_item) : list log_item :=
  filter (fun x => match x with LFile _ _ _ _ _ _ _ _ _ => true | _ => false end) lg.

(* the sources of an injection as catalogue candidates: (name, ext, kind, ascii, content), None
   for an end-of-side marker, an unreadable source or a name too long for 8.3 *)
Definition source_item (fs : fsmap) (src : list Z) : option (list Z * list Z * Z * bool * list Z) :=
  if zeqb_list (upper_ascii (basename src)) eos_marker then None
  else let '(name, ext, ext_opt, clean) := split_source src in
       match fs_read fs clean with
       | None => None
       | Some data =>
         if (inj_name_max <? zlen name) || (inj_ext_max <? zlen ext) then None
         else let '(forced, kind, dtype) := processor_of name ext ext_opt in
              Some (name, match forced with Some x => x | None => ext end, kind, dtype =? 1, data)
       end.
Definition item_core (x : log_item) : option (list Z * list Z * Z * bool * list Z) :=
  match x with LFile _ n e k a _ _ _ c => Some (n, e, k, a, c) | LSide _ => None end.
Fixpoint somes {A} (l : list (option A)) : list A :=
  match l with [] => [] | Some a :: r => a :: somes r | None :: r => somes r end.
Inductive subseq {A} : list A -> list A -> Prop :=
| sub_nil : forall l, subseq [] l
| sub_take : forall x a l, subseq a l -> subseq (x :: a) (x :: l)
| sub_skip : forall x a l, subseq a l -> subseq a (x :: l).

(* shape of an injection report: sides open in order 0,1,2,3; every file item belongs to the open
   side; a refused file is retried on the next side, or dropped when the fourth side is passed *)
Fixpoint log_wf (cur : Z) (lg : list log_item) : bool :=
  match lg with
  | [] => true
  | LSide n :: r => (n =? cur + 1) && (n <? 4) && log_wf n r
  | LFile s n e k a true sz b c :: r => (s =? cur) && log_wf cur r
  | LFile s n e k a false sz b c :: r =>
    (s =? cur) &&
    match r with
    | [] => cur =? 3
    | LSide _ :: LFile _ n2 e2 _ _ _ sz2 _ c2 :: _ => zeqb_list n n2 && zeqb_list e e2 && (sz =? sz2) && zeqb_list c c2
    | _ => false
    end && log_wf cur r
  end.
Definition file_view (f : dos_file) : list Z * list Z * Z * Z * Z * Z :=
  (d_name f, d_ext f, d_kind f, d_flag f, zlen (d_content f), zlen (d_blocks f)).

(* sources of an injection: every readable one holds bytes *)
Definition sources_ok (fs : fsmap) : Prop := forall p c, fs_read fs p = Some c -> bytesb c = true.
