(* Proofs/DLoopArgs.v — what the injector passes to writeFile (names, kinds, flags), and the
   parts of a well-formed side the loops rely on (geometry, usage never fails). *)
From Coq Require Import ZArith List Bool Lia ZifyBool.
Require Import PyBase GenDisk DiskFacts DiskFactsLoop Disk ThomsonDos PyFacts DiskDefs DLoopBase.
Import ListNotations.
Open Scope Z_scope.
Ltac Zify.zify_post_hook ::= Z.to_euclidean_division_equations.

(* ---------- parts of tool_readable ---------- *)
Lemma tool_readable_parts sd : tool_readable sd = true ->
  side_geometry sd = true /\ forallb st_valid (fat sd) = true /\
  st_reserved (fstatus (fat sd) 40) = true /\ st_reserved (fstatus (fat sd) 41) = true /\
  exists fs, dos_files sd = Some fs.
Proof.
  unfold tool_readable, fsck_read. intros H.
  apply andb_prop in H. destruct H as [H _].
  apply andb_prop in H. destruct H as [H H5].
  apply andb_prop in H. destruct H as [H H4].
  apply andb_prop in H. destruct H as [H H3].
  apply andb_prop in H. destruct H as [H1 H2].
  repeat (split; [assumption|]).
  destruct (dos_files sd) as [fs|]; [now exists fs|discriminate].
Qed.

Lemma side_geometry_geo sd : side_geometry sd = true -> geo sd.
Proof.
  unfold side_geometry, geo. intros H. apply andb_prop in H. destruct H as [H1 H2].
  split; [now apply Nat.eqb_eq|].
  apply Forall_forall. intros s Hs. rewrite forallb_forall in H2. specialize (H2 s Hs).
  apply andb_prop in H2. destruct H2 as [H2 _]. now apply Nat.eqb_eq.
Qed.
Lemma tool_readable_geo sd : tool_readable sd = true -> geo sd.
Proof. intros H. apply side_geometry_geo. apply (tool_readable_parts sd H). Qed.
Lemma tool_readable_geo_image img : forallb tool_readable img = true -> geo_image img.
Proof.
  intros H. unfold geo_image. apply Forall_forall. intros sd Hsd.
  apply tool_readable_geo. rewrite forallb_forall in H. now apply H.
Qed.

(* ---------- computeUsage never fails on a well-formed side ---------- *)
Lemma bat_slice_is_fat sd :
  slice (Z.to_nat bat_first_index) (Z.to_nat bat_end_index) (get_sec sd bat_index) = fat sd.
Proof. reflexivity. Qed.

Lemma st_valid_is_valid v : st_valid v = true -> is_valid_status v = true.
Proof.
  intros H. apply is_valid_status_of. exact H.
Qed.

Lemma bat_get_ok sd : forallb st_valid (fat sd) = true -> bat_get sd = Ok (fat sd).
Proof.
  intros H. unfold bat_get. rewrite bat_slice_is_fat.
  rewrite (forallb_impl' st_valid is_valid_status (fat sd)); [reflexivity| |exact H].
  intros x _. apply st_valid_is_valid.
Qed.

Lemma compute_usage_ok sd : tool_readable sd = true -> exists u, compute_usage sd = Ok u.
Proof.
  intros H. destruct (tool_readable_parts sd H) as (_ & Hv & _).
  unfold compute_usage. rewrite (bat_get_ok sd Hv). cbn [bind]. eexists. reflexivity.
Qed.

(* ---------- printable names ---------- *)
Lemma upper_char_printable c : printable_char c = true -> printable_char (upper_char c) = true.
Proof.
  unfold printable_char, upper_char. intros H.
  destruct ((97 <=? c) && (c <=? 122)) eqn:E; lia.
Qed.
Lemma upper_ascii_printable s : forallb printable_char s = true -> forallb printable_char (upper_ascii s) = true.
Proof.
  unfold upper_ascii. induction s as [|c s IH]; cbn [map forallb]; [reflexivity|].
  intros H. apply andb_prop in H. destruct H as [H1 H2].
  rewrite (upper_char_printable c H1), (IH H2). reflexivity.
Qed.

Lemma split_source_printable src name ext ext_opt clean :
  forallb printable_char src = true -> split_source src = (name, ext, ext_opt, clean) ->
  forallb printable_char name = true /\ forallb printable_char ext = true.
Proof.
  intros Hp. unfold split_source.
  set (cl := if zeqb_list (upper_ascii (last_n 2 src)) _ then drop_last 2 src else src).
  assert (Hcl : forallb printable_char cl = true).
  { unfold cl. destruct (zeqb_list (upper_ascii (last_n 2 src)) _); [|exact Hp].
    unfold drop_last. now apply forallb_firstn'. }
  assert (Hb : forallb printable_char (basename src) = true) by (unfold basename; now apply forallb_skipn').
  assert (Hbc : forallb printable_char (basename cl) = true) by (unfold basename; now apply forallb_skipn').
  destruct (rfind_char 46 (basename src)) as [dot|]; intros E; injection E as En Ee _ _; subst name ext.
  - split; apply upper_ascii_printable; [now apply forallb_firstn'|now apply (forallb_skipn' printable_char (S dot))].
  - split; [now apply upper_ascii_printable|reflexivity].
Qed.

(* ---------- the processors table ---------- *)
Lemma lookup_proc_ok k : forall tbl v,
  forallb (fun kv => proc_entry_ok (snd kv)) tbl = true -> lookup_proc k tbl = Some v -> proc_entry_ok v = true.
Proof.
  induction tbl as [|[k' v'] tbl IH]; intros v Ht H; cbn [lookup_proc] in H; [discriminate|].
  cbn [forallb snd] in Ht. apply andb_prop in Ht. destruct Ht as [Ht1 Ht2].
  destruct (zeqb_list k k'); [inversion H; subst; exact Ht1|exact (IH v Ht2 H)].
Qed.

Lemma processor_of_ok name ext ext_opt : proc_entry_ok (processor_of name ext ext_opt) = true.
Proof.
  unfold processor_of.
  destruct (lookup_proc (name ++ _ ++ ext) inj_processors) as [v|] eqn:E1.
  - exact (lookup_proc_ok _ _ _ inj_processors_ok E1).
  - destruct (lookup_proc ext_opt inj_processors) as [v|] eqn:E2.
    + exact (lookup_proc_ok _ _ _ inj_processors_ok E2).
    + exact inj_default_processor_ok.
Qed.

Lemma injector_args_ok fs src name ext ext_opt clean data forced kind dtype :
  sources_ok fs -> forallb printable_char src = true ->
  split_source src = (name, ext, ext_opt, clean) -> fs_read fs clean = Some data ->
  processor_of name ext ext_opt = (forced, kind, dtype) ->
  write_args_ok name (match forced with Some x => x | None => ext end) kind dtype data = true.
Proof.
  intros Hfs Hp Hs Hr Hpr.
  destruct (split_source_printable _ _ _ _ _ Hp Hs) as [Hn He].
  pose proof (processor_of_ok name ext ext_opt) as Hok. rewrite Hpr in Hok.
  unfold proc_entry_ok in Hok.
  apply andb_prop in Hok. destruct Hok as [Hok Hd].
  apply andb_prop in Hok. destruct Hok as [Hok Hk2].
  apply andb_prop in Hok. destruct Hok as [Hf Hk1].
  unfold write_args_ok. rewrite Hn, Hk1, Hk2, Hd, (Hfs _ _ Hr).
  destruct forced as [x|]; [|now rewrite He].
  unfold printable_char. rewrite Hf. reflexivity.
Qed.
