(* Proofs/DWriteSlices.v — the slice loop of writeFile: which sectors and statuses it writes. *)
From Coq Require Import ZArith List Bool Lia ZifyBool.
Require Import PyBase GenDisk DiskFacts DiskFactsWrite Disk ThomsonDos DiskDefs DWriteList DWriteLens DWriteSpec DWriteAlloc.
Import ListNotations.
Open Scope Z_scope.
Ltac Zify.zify_post_hook ::= Z.to_euclidean_division_equations.

Section Loop.
Variables (alloc content : list Z) (u len : Z).

Definition blk (k : nat) : Z := nth (Z.to_nat (Z.of_nat k / 8)) alloc 0.
Definition step_sd (sd : side) (k : nat) : side :=
  let si := sec_of_block (blk k) (Z.of_nat k mod 8) in
  set_sec sd si (set_payload (get_sec sd si) (dslice (255 * Z.of_nat k) (255 * Z.of_nat k + slice_step) content)).
Definition step_bat (bat : list Z) (k : nat) : list Z :=
  if Z.of_nat k mod 8 =? 0 then
    (if Z.of_nat (length alloc) - 1 <=? Z.of_nat (Z.to_nat (Z.of_nat k / 8))
     then set_status bat (Z.to_nat (blk k)) (last_status_of u)
     else match nth_error alloc (S (Z.to_nat (Z.of_nat k / 8))) with
          | Some nb => set_status bat (Z.to_nat (blk k)) nb
          | None => bat
          end)
  else bat.

Lemma wsl_step fuel sd bat k :
  (Z.to_nat (Z.of_nat k / 8) < length alloc)%nat -> 255 * Z.of_nat k < Z.max len 1 ->
  write_slices (S fuel) sd bat alloc content u (Z.to_nat (Z.of_nat k / 8)) (Z.of_nat k mod 8) (255 * Z.of_nat k) len =
  write_slices fuel (step_sd sd k) (step_bat bat k) alloc content u
    (Z.to_nat (Z.of_nat (S k) / 8)) (Z.of_nat (S k) mod 8) (255 * Z.of_nat (S k)) len.
Proof.
  intros Hb Hc. cbn [write_slices].
  destruct (255 * Z.of_nat k <? Z.max len 1) eqn:E; [|lia].
  rewrite (nth_error_nth' alloc 0 Hb). fold (blk k).
  unfold step_sd, step_bat. change last_sector_of_block with 7. change sectors_per_block with 8.
  change slice_step with 255.
  f_equal.
  - destruct (Z.of_nat k mod 8 =? 7) eqn:E7; lia.
  - lia.
  - lia.
Qed.

Lemma wsl_stop fuel sd bat cb cs k : Z.max len 1 <= 255 * Z.of_nat k ->
  write_slices fuel sd bat alloc content u cb cs (255 * Z.of_nat k) len = Ok (sd, bat).
Proof.
  intros H. destruct fuel as [|fuel]; [reflexivity|]. cbn [write_slices].
  destruct (255 * Z.of_nat k <? Z.max len 1) eqn:E; [lia|reflexivity].
Qed.

Lemma wsl_run (sn : nat) :
  255 * (Z.of_nat sn - 1) < Z.max len 1 <= 255 * Z.of_nat sn -> (Z.of_nat sn <= 8 * Z.of_nat (length alloc)) ->
  forall m k fuel sd bat, (k + m = sn)%nat -> (m <= fuel)%nat ->
  write_slices fuel sd bat alloc content u (Z.to_nat (Z.of_nat k / 8)) (Z.of_nat k mod 8) (255 * Z.of_nat k) len =
  Ok (fold_left step_sd (seq k m) sd, fold_left step_bat (seq k m) bat).
Proof.
  intros Hsn Hal. induction m as [|m IH]; intros k fuel sd bat Hk Hf.
  - cbn [seq fold_left]. apply wsl_stop. replace k with sn by lia. lia.
  - destruct fuel as [|fuel]; [lia|]. rewrite wsl_step by lia.
    cbn [seq fold_left]. apply IH; lia.
Qed.

Lemma wsl_top (sn : nat) sd bat :
  255 * (Z.of_nat sn - 1) < Z.max len 1 <= 255 * Z.of_nat sn -> (Z.of_nat sn <= 8 * Z.of_nat (length alloc)) ->
  (sn <= S (length content))%nat ->
  write_slices (S (length content)) sd bat alloc content u 0 0 0 len =
  Ok (fold_left step_sd (seq 0 sn) sd, fold_left step_bat (seq 0 sn) bat).
Proof.
  intros Hsn Hal Hf. exact (wsl_run sn Hsn Hal sn 0%nat (S (length content)) sd bat eq_refl Hf).
Qed.

(* ---------- the sectors written ---------- *)
Hypothesis Hnd : NoDup alloc.
Hypothesis Hrange : forall x, In x alloc -> 0 <= x < 160.

Definition sec (k : nat) : nat := Z.to_nat (8 * blk k + Z.of_nat k mod 8).
Definition slice_k (k : nat) : list Z := firstn 255 (skipn (255 * k) content).

Lemma wsl_blk_range k : (Z.to_nat (Z.of_nat k / 8) < length alloc)%nat -> 0 <= blk k < 160.
Proof. intros H. apply Hrange. unfold blk. now apply nth_In. Qed.

Lemma wsl_step_sd sd k : (Z.to_nat (Z.of_nat k / 8) < length alloc)%nat ->
  step_sd sd k = set_sec sd (sec k) (set_payload (nsec sd (sec k)) (slice_k k)).
Proof.
  intros H. pose proof (wsl_blk_range k H) as Hb. unfold step_sd. cbv zeta.
  rewrite wn_sec_of_block by lia. fold (sec k). rewrite wn_get_sec. f_equal. f_equal.
  unfold dslice, slice, slice_k. change slice_step with 255.
  replace (Z.to_nat (255 * Z.of_nat k + 255) - Z.to_nat (255 * Z.of_nat k))%nat with 255%nat by lia.
  replace (Z.to_nat (255 * Z.of_nat k)) with (255 * k)%nat by lia. reflexivity.
Qed.

Lemma wsl_sec_bound k : (Z.to_nat (Z.of_nat k / 8) < length alloc)%nat -> (sec k < 1280)%nat.
Proof. intros H. pose proof (wsl_blk_range k H). unfold sec. lia. Qed.

Lemma wsl_sec_inj k k' :
  (Z.to_nat (Z.of_nat k / 8) < length alloc)%nat -> (Z.to_nat (Z.of_nat k' / 8) < length alloc)%nat ->
  sec k = sec k' -> k = k'.
Proof.
  intros H H' E. pose proof (wsl_blk_range k H) as Hb. pose proof (wsl_blk_range k' H') as Hb'.
  unfold sec in E.
  assert (Eb : blk k = blk k') by lia.
  assert (Em : Z.of_nat k mod 8 = Z.of_nat k' mod 8) by lia.
  unfold blk in Eb. apply (wl_NoDup_nth alloc 0) in Eb; [|exact Hnd|exact H|exact H']. lia.
Qed.

Lemma wsl_slice_bytes k : bytesb content = true -> bytesb (slice_k k) = true.
Proof. intros H. unfold slice_k, bytesb in *. now apply wl_forallb_firstn, wl_forallb_skipn. Qed.

Lemma wsl_fold_S {A} (f : A -> nat -> A) n a : fold_left f (seq 0 (S n)) a = f (fold_left f (seq 0 n) a) n.
Proof. rewrite seq_S, fold_left_app. reflexivity. Qed.

Lemma wsl_sd_props sd : geom sd -> bytesb content = true ->
  forall n, (Z.of_nat n <= 8 * Z.of_nat (length alloc)) ->
  geom (fold_left step_sd (seq 0 n) sd) /\
  (forall i, (forall k, (k < n)%nat -> sec k <> i) -> nsec (fold_left step_sd (seq 0 n) sd) i = nsec sd i) /\
  (forall k, (k < n)%nat -> nsec (fold_left step_sd (seq 0 n) sd) (sec k) = set_payload (nsec sd (sec k)) (slice_k k)).
Proof.
  intros Hg Hc. induction n as [|n IH]; intros Hn.
  - cbn [seq fold_left]. split; [exact Hg|]. split; [reflexivity|]. intros k Hk. lia.
  - destruct IH as (G & Hout & Hin); [lia|]. rewrite wsl_fold_S.
    assert (Hbn : (Z.to_nat (Z.of_nat n / 8) < length alloc)%nat) by lia.
    rewrite wsl_step_sd by exact Hbn.
    pose proof (wsl_sec_bound n Hbn) as Hsb.
    assert (Hfresh : forall k, (k < n)%nat -> sec k <> sec n).
    { intros k Hk E. apply wsl_sec_inj in E; [lia|lia|exact Hbn]. }
    rewrite (Hout (sec n) Hfresh).
    assert (Hlen : length (fold_left step_sd (seq 0 n) sd) = 1280%nat) by apply G.
    split; [|split].
    + apply wn_set_sec_geom; [exact G|]. apply wn_set_payload_ok; [apply Hg; exact Hsb|now apply wsl_slice_bytes].
    + intros i Hi. rewrite wn_nsec_set_other by (apply Hi; lia). apply Hout. intros k Hk. apply Hi. lia.
    + intros k Hk. destruct (Nat.eq_dec k n) as [->|Hne].
      * apply wn_nsec_set_same. lia.
      * rewrite wn_nsec_set_other by (apply not_eq_sym, Hfresh; lia). apply Hin. lia.
Qed.

(* ---------- the statuses written ---------- *)
Definition link (i : nat) : Z :=
  if Z.of_nat (length alloc) - 1 <=? Z.of_nat i then 192 + u else nth (S i) alloc 0.

Lemma wsl_step_bat bat k : (Z.to_nat (Z.of_nat k / 8) < length alloc)%nat ->
  step_bat bat k = if Z.of_nat k mod 8 =? 0 then set_status bat (Z.to_nat (blk k)) (link (Z.to_nat (Z.of_nat k / 8))) else bat.
Proof.
  intros H. unfold step_bat, link. destruct (Z.of_nat k mod 8 =? 0); [|reflexivity].
  destruct (Z.of_nat (length alloc) - 1 <=? Z.of_nat (Z.to_nat (Z.of_nat k / 8))) eqn:E; [reflexivity|].
  rewrite (nth_error_nth' alloc 0) by lia. reflexivity.
Qed.

Lemma wsl_bat_props bat d : length bat = 160%nat ->
  forall n, (Z.of_nat n <= 8 * Z.of_nat (length alloc)) ->
  length (fold_left step_bat (seq 0 n) bat) = 160%nat /\
  (forall b, (forall i, (8 * i < n)%nat -> Z.to_nat (nth i alloc 0) <> b) ->
     nth b (fold_left step_bat (seq 0 n) bat) d = nth b bat d) /\
  (forall i, (8 * i < n)%nat -> nth (Z.to_nat (nth i alloc 0)) (fold_left step_bat (seq 0 n) bat) d = link i).
Proof.
  intros Hl. induction n as [|n IH]; intros Hn.
  - cbn [seq fold_left]. split; [exact Hl|]. split; [reflexivity|]. intros i Hi. lia.
  - destruct IH as (L & Hout & Hin); [lia|]. rewrite wsl_fold_S.
    assert (Hbn : (Z.to_nat (Z.of_nat n / 8) < length alloc)%nat) by lia.
    rewrite wsl_step_bat by exact Hbn.
    destruct (Z.of_nat n mod 8 =? 0) eqn:E.
    + set (i0 := Z.to_nat (Z.of_nat n / 8)) in *. assert (Hi0 : (8 * i0 = n)%nat) by lia.
      pose proof (wsl_blk_range n Hbn) as Hb. unfold blk in *. fold i0 in Hb |- *.
      split; [now rewrite wn_set_status_length|]. split.
      * intros b Hb'. rewrite wn_set_status_other by (apply Hb'; lia). apply Hout. intros i Hi. apply Hb'. lia.
      * intros i Hi. destruct (Nat.eq_dec i i0) as [->|Hne].
        -- apply wn_set_status_same. lia.
        -- assert (Hii : (i < length alloc)%nat) by lia.
           rewrite wn_set_status_other.
           ++ apply Hin. lia.
           ++ intros Eq. assert (E2 : nth i0 alloc 0 = nth i alloc 0).
              { pose proof (Hrange _ (nth_In alloc 0 Hii)). lia. }
              apply (wl_NoDup_nth alloc 0) in E2; [lia|exact Hnd|lia|exact Hii].
    + split; [exact L|]. split.
      * intros b Hb'. apply Hout. intros i Hi. apply Hb'. lia.
      * intros i Hi. apply Hin. lia.
Qed.

End Loop.
