(* Proofs/BasicProofs.v — lemmas behind Props/C13, C14, C15.  The statements marked TOP are the
   ones the Props files close with [exact]; their wording is fixed. *)
From Coq Require Import ZArith List Bool Lia ZifyBool.
Require Import PyBase GenBasic BasicFacts Basic Mo5Basic AsciiBasic PyFacts BasicLemmasA BasicLemmasB BasicLemmasC.
Import ListNotations.
Open Scope Z_scope.
Ltac Zify.zify_post_hook ::= Z.to_euclidean_division_equations.

(* ---------------- TOP: C15 ---------------- *)
Theorem ascii_basic_shape : forall lines : list (list Z),
  lst_to_ascii lines = ascii_basic_spec lines.
Proof. exact lst_to_ascii_spec. Qed.

Theorem ascii_basic_7bit : forall lines : list (list Z),
  Forall (Forall (fun c => 0 <= c)) lines ->
  Forall (fun b => 0 <= b < 128) (lst_to_ascii lines).
Proof. exact ascii_7bit. Qed.

Theorem listing_shape : forall (dos : bool) (data : list Z),
  ascii_to_lst dos data = listing_spec dos data.
Proof. exact ascii_to_lst_spec. Qed.

(* never an empty line: the output is a sequence of non-empty, separator-free pieces, each
   followed by the line ending *)
Theorem listing_no_empty_line : forall (dos : bool) (data : list Z),
  exists pieces : list (list Z),
    ascii_to_lst dos data = flat_map (fun p => p ++ eol_of dos) pieces /\
    Forall (fun p => p <> [] /\ existsb is_crlf p = false) pieces.
Proof. exact listing_pieces. Qed.

(* listing -> ASCII BASIC -> listing returns the non-blank right-trimmed 7-bit lines *)
Theorem ascii_round_trip : forall (dos : bool) (lines : list (list Z)),
  Forall (fun l => existsb is_crlf (rstrip_py l) = false) lines ->
  ascii_to_lst dos (lst_to_ascii lines) =
  flat_map (fun l => l ++ eol_of dos) (filter nonempty (map (fun l => keep7 (rstrip_py l)) lines)).
Proof. intros dos lines H. now apply ascii_round. Qed.

(* ---------------- TOP: C13 ---------------- *)
Definition numbered_line (l : list Z) : bool :=
  match l with c :: _ => is_digit19 c | [] => false end && negb (existsb (Z.eqb 10) (removelast l)).

Theorem program_structure : forall lines : list (list Z),
  forallb numbered_line lines = true ->
  tokenize_program lines = Ok (mo5_image (map (fun l => (line_number l, parse_line (line_text l))) lines)).
Proof. intros lines H. apply tokenize_program_spec. exact H. Qed.

(* the independent structural parser accepts the image and returns the records *)
Theorem program_image_parses : forall recs : list (Z * list Z),
  Forall (fun r => 0 <= fst r < 65536 /\ Forall (fun b => 1 <= b < 256) (snd r)) recs ->
  program_records (mo5_image recs) = Some recs.
Proof. exact program_records_spec. Qed.

(* reference encoder: on delimited lexeme lists the tokenizer's output is ref_encode *)
Theorem reference_encoding : forall lx : list lexeme,
  lex_delimited lx = true -> parse_line (ref_source lx) = ref_encode lx.
Proof. exact parse_line_ref. Qed.

(* ---------------- TOP: C14 ---------------- *)
Theorem tokenize_detok : forall lines : list (list Z),
  forallb listing_line_ok lines = true ->
  exists img, tokenize_program lines = Ok img /\
    detok img = Some (map (fun l => (line_number l, upper_outside_strings false (line_text l))) lines).
Proof. exact tokenize_detok_lines. Qed.
