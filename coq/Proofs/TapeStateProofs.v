(* Proofs/TapeStateProofs.v — from the list of effects to the state of the directory: after create
   then extract, every source is a file next to the archive with exactly its bytes, provided the
   destinations are pairwise distinct and none of them is the archive itself (cf. finding F18). *)
From Coq Require Import ZArith List Bool Lia.
Require Import PyBase Tape K7 TapeProofs BasicLemmasB.
Import ListNotations.
Open Scope Z_scope.

Definition apply_effect (fs : fsmap) (e : effect) : fsmap :=
  match e with WriteFile p c => (p, c) :: fs | MkDir _ => fs end.
Definition apply_effects (fs : fsmap) (es : list effect) : fsmap := fold_left apply_effect es fs.

Lemma zeqb_list_false a b : a <> b -> zeqb_list a b = false.
Proof.
  intros H. destruct (zeqb_list a b) eqn:E; [|reflexivity].
  apply zeqb_list_true in E. contradiction.
Qed.

(* writes to paths other than p do not change what is read at p *)
Lemma read_after_other_writes (dest : list Z -> list Z) (cont : list Z -> list Z) :
  forall (l : list (list Z)) (fs : fsmap) (p : list Z),
  ~ In p (map dest l) ->
  fs_read (apply_effects fs (map (fun s => WriteFile (dest s) (cont s)) l)) p = fs_read fs p.
Proof.
  induction l as [|x l IH]; intros fs p Hn; [reflexivity|].
  cbn [map apply_effects fold_left apply_effect]. cbn [map In] in Hn.
  fold (apply_effects ((dest x, cont x) :: fs) (map (fun s => WriteFile (dest s) (cont s)) l)).
  rewrite IH by (intros H; apply Hn; now right).
  cbn [fs_read]. rewrite zeqb_list_false; [reflexivity|]. intros E. apply Hn. left. now symmetry.
Qed.

Lemma read_after_writes (dest : list Z -> list Z) (cont : list Z -> list Z) :
  forall (l : list (list Z)) (fs : fsmap) (s : list Z),
  NoDup (map dest l) -> In s l ->
  fs_read (apply_effects fs (map (fun s => WriteFile (dest s) (cont s)) l)) (dest s) = Some (cont s).
Proof.
  induction l as [|x l IH]; intros fs s Hnd Hin; [contradiction|].
  cbn [map] in Hnd. inversion Hnd as [|? ? Hnotin Hnd']; subst.
  cbn [map apply_effects fold_left apply_effect].
  fold (apply_effects ((dest x, cont x) :: fs) (map (fun s => WriteFile (dest s) (cont s)) l)).
  destruct Hin as [->|Hin].
  - rewrite read_after_other_writes by exact Hnotin. cbn [fs_read]. now rewrite zeqb_list_refl.
  - now apply IH.
Qed.

(* TOP *)
Theorem tape_roundtrip_directory :
  forall (fs fs0 : fsmap) (srcs : list (list Z)) (arch : list Z) (v : bool),
  forallb (src_readable fs) srcs = true -> forallb src_83 srcs = true ->
  negb (existsb (Z.eqb 0) (dirname arch)) = true ->
  k7_encoded_size (entries fs srcs) < 21504 ->
  let dest := fun s => path_join (dirname arch) (src_catname s) in
  NoDup (map dest srcs) -> ~ In arch (map dest srcs) ->
  exists raw,
    o_effects (tar_create v fs arch srcs) = [WriteFile arch raw] /\
    let after := apply_effects (apply_effects fs0 (o_effects (tar_create v fs arch srcs)))
                               (o_effects (tar_extract v None arch raw)) in
    (forall s, In s srcs -> fs_read after (dest s) = Some (src_content fs s)) /\
    fs_read after arch = Some raw.
Proof.
  intros fs fs0 srcs arch v H1 H2 H3 H4 dest Hnd Harch.
  destruct (tape_roundtrip fs srcs arch v H1 H2 H3 H4) as (raw & _ & Hc & _ & _ & _ & Hx).
  exists raw. split; [exact Hc|]. cbv zeta. rewrite Hc, Hx. split.
  - intros s Hs. apply (read_after_writes dest (src_content fs)); assumption.
  - rewrite (read_after_other_writes dest (src_content fs)) by exact Harch.
    cbn [apply_effects fold_left apply_effect fs_read]. now rewrite zeqb_list_refl.
Qed.
