(* Proofs/DiskWriteProofs.v — one writeFile on one side (C05 step, C06 frame, C04 conformance of a single store).  TOP statements are fixed. *)
From Coq Require Import ZArith List Bool Lia ZifyBool.
Require Import PyBase GenDisk DiskFacts Disk ThomsonDos PyFacts DiskDefs.
Require Import DiskFactsWrite DWriteList DWriteLens DWriteSpec DWriteInit.
Require Import DWriteAlloc DWriteSlices DWriteData DWriteCat DWriteModel DWriteInsert.
Import ListNotations.
Open Scope Z_scope.
Ltac Zify.zify_post_hook ::= Z.to_euclidean_division_equations.

(* TOP: formatting a side yields a strict, empty file system with 157 free blocks *)
Theorem init_fs_strict : forall sd : side,
  side_geometry sd = true ->
  fsck_strict (init_fs sd) = true /\ tool_readable (init_fs sd) = true /\ names_printable (init_fs sd) = true /\
  dos_files (init_fs sd) = Some [] /\ free_count (init_fs sd) = 157.
Proof. exact wi_init_all. Qed.


(* ---------- helpers for the two writeFile theorems ---------- *)
Lemma dw_forallb_map {A B} (p : B -> bool) (g : A -> B) l : forallb p (map g l) = forallb (fun x => p (g x)) l.
Proof. induction l as [|x l IH]; [reflexivity|]. cbn [map forallb]. now rewrite IH. Qed.

Lemma dw_readable_parts sd : tool_readable sd = true ->
  fsck_read sd = true /\ slots_in_table sd = true /\ geom sd /\
  st_reserved (fstatus (fat sd) 40) = true /\ st_reserved (fstatus (fat sd) 41) = true.
Proof.
  unfold tool_readable. intros H. apply andb_prop in H. destruct H as (Hr & Hs).
  destruct (ws_fsck_read_elim sd Hr) as (Hg & _ & H40 & H41 & _). apply wn_geom_iff in Hg.
  split; [exact Hr|]. split; [exact Hs|]. split; [exact Hg|]. split; assumption.
Qed.

(* a refusal after the slices were written: the three views are as before *)
Lemma dw_same_views sd sd' alloc : tool_readable sd = true -> geom sd' ->
  (forall x, In x alloc -> 0 <= x < 160 /\ st_free (fstatus (fat sd) x) = true) ->
  (forall i, ~ touched alloc i -> nsec sd' i = nsec sd i) ->
  nsec sd' 321 = nsec sd 321 /\ fat sd' = fat sd /\ cat_entries sd' = cat_entries sd /\ dos_files sd' = dos_files sd.
Proof.
  intros Htr Hg' Hal Hout. destruct (dw_readable_parts sd Htr) as (Hread & _ & Hg & H40 & H41).
  pose proof (wm_untouched_fs (fat sd) alloc H40 H41 Hal) as Hfs.
  assert (E321 : nsec sd' 321 = nsec sd 321) by (apply Hout, Hfs; lia).
  assert (Efat : fat sd' = fat sd) by now apply wn_fat_ext.
  assert (Ecat : cat_entries sd' = cat_entries sd) by (apply wn_cat_entries_ext; intros i Hi; apply Hout, Hfs; lia).
  repeat split; try assumption.
  destruct (ws_fsck_read_elim sd Hread) as (_ & _ & _ & _ & fs & Hfs' & _).
  rewrite Hfs'. unfold dos_files in *. rewrite Efat, Ecat.
  apply (ws_foe_stable sd sd' (fat sd) (fat sd)); [intros b _ _; reflexivity| |exact Hfs'].
  intros b j Hb Hus Hj. apply Hout. intros (b' & j' & Hb' & Hj' & E). destruct (Hal b' Hb') as (Hr' & Hf').
  assert (b' = b) by lia. subst b'. apply ws_used_not_free in Hus. destruct Hus as (Hus & _). congruence.
Qed.

Lemma dw_same_checks sd sd' : geom sd -> geom sd' ->
  nsec sd' 321 = nsec sd 321 -> fat sd' = fat sd -> cat_entries sd' = cat_entries sd -> dos_files sd' = dos_files sd ->
  (tool_readable sd = true -> tool_readable sd' = true) /\
  (names_printable sd = true -> names_printable sd' = true) /\
  (fsck_strict sd = true -> fsck_strict sd' = true) /\ free_count sd' = free_count sd.
Proof.
  intros Hg Hg' E321 Efat Ecat Edos.
  apply wn_geom_iff in Hg, Hg'.
  unfold tool_readable, names_printable, fsck_strict, fsck_read, slots_in_table, free_count.
  rewrite wn_fat_sector, E321, Efat, Ecat, Edos, Hg, Hg'. repeat split; intros H; exact H.
Qed.

Lemma dw_first_printable name : forallb printable_char name = true ->
  e_live (record_bytes (pad_to 8 (upper_ascii name)) [] 0 0 0 0) = true.
Proof.
  intros Hn. unfold e_live.
  assert (Hp : forallb printable_char (pad_to 8 (upper_ascii name)) = true)
    by (apply wc_pad_to_printable; now apply wc_upper_ascii_printable).
  pose proof (wc_pad_to_length 8 (upper_ascii name)) as Hl.
  destruct (pad_to 8 (upper_ascii name)) as [|c r]; [discriminate|].
  cbn [forallb] in Hp. apply andb_prop in Hp. destruct Hp as (Hc & _).
  unfold record_bytes. cbn [app nth]. unfold printable_char in Hc. lia.
Qed.

Lemma dw_rec_live n8 x3 k fl fi la : length n8 = 8%nat -> length x3 = 3%nat -> forallb printable_char n8 = true ->
  e_live (record_bytes n8 x3 k fl fi la) = true.
Proof.
  intros L8 L3 Hp. pose proof (wc_record_views n8 x3 k fl fi la L8 L3) as V. cbv zeta in V.
  destruct V as (_ & _ & _ & _ & _ & _ & _ & _ & V & _). unfold e_live. rewrite V.
  destruct n8 as [|c r]; [discriminate|]. cbn [forallb] in Hp. apply andb_prop in Hp. destruct Hp as (Hc & _).
  cbn [nth]. unfold printable_char in Hc. lia.
Qed.

Lemma dw_stored sd content name ext kind dtype res :
  tool_readable sd = true -> write_args_ok name ext kind dtype content = true ->
  outcome_stored sd content name ext kind dtype res ->
  tool_readable (fst res) = true /\
  (names_printable sd = true -> names_printable (fst res) = true) /\
  (fsck_strict sd = true -> fsck_strict (fst res) = true) /\
  has_free_slot sd = true /\
  exists fs1 fs2 blocks,
    dos_files sd = Some (fs1 ++ fs2) /\
    dos_files (fst res) = Some (fs1 ++ stored_file name ext kind (dtype =? 1) content blocks :: fs2) /\
    zlen blocks = needed_blocks (zlen content) /\
    Forall (fun b => st_free (fstatus (fat sd) b) = true) blocks /\
    free_count (fst res) = free_count sd - zlen blocks.
Proof.
  intros Htr Hargs Hout. unfold outcome_stored in Hout. cbv zeta in Hout.
  destruct Hout as (Henough & _ & Hg' & bat1 & l1 & sl & l2 & Htab & Hsplit & Hl1 & Hsl & E321 & Hother & Hrec & Hdata & Hcc).
  destruct (dw_readable_parts sd Htr) as (Hread & Hslots & Hg & H40 & H41).
  destruct (wm_args _ _ _ _ _ Hargs) as (Hname & Hext & Hkind & Hdt & Hcb).
  destruct (wm_alloc_facts sd content Hg Henough) as (Hnd & Hal & Hlen).
  pose proof (wl_zlen_nonneg content) as Hlen0.
  destruct (wa_plan_facts (zlen content) Hlen0) as (P1 & P2 & P3 & P4 & P5 & _).
  set (sd' := fst res) in *. set (alloc := alloc_of sd content) in *.
  set (u := plan_lastblk (zlen content)) in *. set (lb := plan_lastsec (zlen content)) in *.
  set (n8 := pad_to 8 (upper_ascii name)) in *. set (x3 := pad_to 3 (upper_ascii ext)) in *.
  assert (L8 : length n8 = 8%nat) by apply wc_pad_to_length.
  assert (L3 : length x3 = 3%nat) by apply wc_pad_to_length.
  assert (Hp8 : forallb printable_char n8 = true) by (apply wc_pad_to_printable; now apply wc_upper_ascii_printable).
  assert (Hp3 : forallb printable_char x3 = true) by (apply wc_pad_to_printable; now apply wc_upper_ascii_printable).
  set (rec := record_bytes n8 x3 kind (data_to_byte dtype) (nth 0 alloc 0) lb) in *.
  pose proof (wc_record_views n8 x3 kind (data_to_byte dtype) (nth 0 alloc 0) lb L8 L3) as V. cbv zeta in V. fold rec in V.
  destruct V as (V1 & V2 & V3 & V4 & V5 & V6 & V7 & V8 & V9 & V10).
  pose proof wn_all_slots_nodup as Hnds. rewrite Hsplit in Hnds. apply NoDup_remove_2 in Hnds.
  assert (Hin_all : forall x, In x l1 \/ In x l2 -> In x all_slots /\ x <> sl).
  { intros x Hx. split.
    - rewrite Hsplit. apply in_or_app. destruct Hx as [Hx|Hx]; [now left|right; now right].
    - intros ->. apply Hnds. apply in_or_app. exact Hx. }
  assert (Hcat : cat_entries sd = map (entry_at sd) l1 ++ entry_at sd sl :: map (entry_at sd) l2).
  { rewrite wn_cat_entries_slots, Hsplit, map_app. reflexivity. }
  assert (Hcat' : cat_entries sd' = map (entry_at sd) l1 ++ rec :: map (entry_at sd) l2).
  { rewrite wn_cat_entries_slots, Hsplit, map_app. cbn [map]. rewrite Hrec. f_equal; [|f_equal].
    - apply map_ext_in. intros x Hx. apply Hother; apply Hin_all; now left.
    - apply map_ext_in. intros x Hx. apply Hother; apply Hin_all; now right. }
  pose proof Hg as (_ & Hsecs). destruct (Hsecs 321%nat ltac:(lia)) as (Hp256 & _).
  assert (Hfat' : fat sd' = bat1).
  { unfold fat. rewrite wn_fat_sector, E321. apply wn_table_sector_fat; [exact Hp256|apply Htab]. }
  assert (Hne : alloc <> []) by (intros E; rewrite E in Hlen; cbn [length] in Hlen; lia).
  assert (Hb0 : nth 0 (nsec sd' fat_sector) 255 = nth 0 (nsec sd fat_sector) 255).
  { rewrite wn_fat_sector, E321. rewrite wn_table_sector_nth by (try exact Hp256; apply Htab). reflexivity. }
  destruct (wi_all sd sd' alloc bat1 u lb (map (entry_at sd) l1) (map (entry_at sd) l2) (entry_at sd sl) rec content
              Hread Hg' Hfat' Hcat Hcat') as (R1 & R2 & R3 & R4 & R5 & fs1 & fs2 & R6 & R7);
    try assumption.
  - now rewrite dw_forallb_map.
  - now apply dw_rec_live.
  - rewrite V8, forallb_app, Hp8, Hp3. reflexivity.
  - rewrite V7. apply wl_forallb_repeat. reflexivity.
  - split; [unfold tool_readable; now rewrite R1, R2|]. split; [exact R3|]. split; [exact R4|].
    split.
    + apply (wm_has_free_slot_true sd sl); [|exact Hsl]. rewrite Hsplit. apply in_or_app. right. now left.
    + exists fs1, fs2, alloc. split; [exact R6|]. split; [|split; [|split; [|exact R5]]].
      * rewrite R7. unfold stored_file. rewrite V1, V2, V3, V4. do 3 f_equal.
        rewrite gw_data_to_byte. destruct Hdt as [-> | ->]; reflexivity.
      * unfold zlen at 1. lia.
      * apply Forall_forall. intros x Hx. now apply Hal.
Qed.

(* a refusal for want of a catalogue slot *)
Lemma dw_refused_slot sd content res :
  tool_readable sd = true -> outcome_refused_slot sd content res ->
  tool_readable (fst res) = true /\
  (names_printable sd = true -> names_printable (fst res) = true) /\
  (fsck_strict sd = true -> fsck_strict (fst res) = true) /\
  dos_files (fst res) = dos_files sd /\ fat (fst res) = fat sd /\ cat_entries (fst res) = cat_entries sd /\
  nsec (fst res) 321 = nsec sd 321.
Proof.
  intros Htr (Henough & _ & _ & Hg' & Hout).
  destruct (dw_readable_parts sd Htr) as (_ & _ & Hg & _ & _).
  destruct (wm_alloc_facts sd content Hg Henough) as (_ & Hal & _).
  destruct (dw_same_views sd (fst res) _ Htr Hg' Hal Hout) as (E321 & Efat & Ecat & Edos).
  destruct (dw_same_checks sd (fst res) Hg Hg' E321 Efat Ecat Edos) as (C1 & C2 & C3 & _).
  split; [now apply C1|]. split; [exact C2|]. split; [exact C3|]. now repeat split.
Qed.

(* TOP: one writeFile on a well-formed side.  Whatever the outcome the side stays well formed
   (and strict if it was); a success inserts exactly the new file, with its content laid out on
   formerly free blocks, at the first free catalogue slot, leaving the other files and their
   order untouched; a refusal (too few free blocks, or no free catalogue entry) leaves the
   allocation table, the catalogue and every file unchanged; nothing else can happen. *)
Theorem write_file_step : forall (sd : side) (content name ext : list Z) (kind dtype : Z),
  tool_readable sd = true -> write_args_ok name ext kind dtype content = true ->
  let sd' := fst (write_file sd content name ext kind dtype) in
  let r := snd (write_file sd content name ext kind dtype) in
  tool_readable sd' = true /\
  (names_printable sd = true -> names_printable sd' = true) /\
  (fsck_strict sd = true -> fsck_strict sd' = true) /\
  match r with
  | Ok _ =>
    needed_blocks (zlen content) <= free_count sd /\ has_free_slot sd = true /\
    exists fs1 fs2 blocks,
      dos_files sd = Some (fs1 ++ fs2) /\
      dos_files sd' = Some (fs1 ++ stored_file name ext kind (dtype =? 1) content blocks :: fs2) /\
      zlen blocks = needed_blocks (zlen content) /\
      Forall (fun b => st_free (fstatus (fat sd) b) = true) blocks /\
      free_count sd' = free_count sd - zlen blocks
  | Err EValue =>
    (free_count sd < needed_blocks (zlen content) \/ has_free_slot sd = false) /\
    dos_files sd' = dos_files sd /\ fat sd' = fat sd /\ cat_entries sd' = cat_entries sd
  | Err _ => False
  end.
Proof.
  intros sd content name ext kind dtype Htr Hargs sd' r. subst sd' r.
  destruct (wm_cases sd content name ext kind dtype Htr Hargs) as [HA|[HB|HC]].
  - destruct HA as (Hshort & ->). cbn [fst snd].
    split; [exact Htr|]. split; [intros H; exact H|]. split; [intros H; exact H|].
    split; [left; exact Hshort|]. split; [reflexivity|]. split; reflexivity.
  - destruct (dw_refused_slot sd content _ Htr HB) as (C1 & C2 & C3 & Edos & Efat & Ecat & _).
    destruct HB as (_ & Hnoslot & Hsnd & _). rewrite Hsnd.
    split; [exact C1|]. split; [exact C2|]. split; [exact C3|].
    split; [right; exact Hnoslot|]. split; [exact Edos|]. split; [exact Efat|exact Ecat].
  - destruct (dw_stored sd content name ext kind dtype _ Htr Hargs HC) as (C1 & C2 & C3 & Hslot & Hex).
    destruct HC as (Henough & Hsnd & _). rewrite Hsnd.
    split; [exact C1|]. split; [exact C2|]. split; [exact C3|].
    split; [exact Henough|]. split; [exact Hslot|exact Hex].
Qed.

Lemma dw_not_touched f alloc b j :
  (forall x, In x alloc -> 0 <= x < 160 /\ st_free (fstatus f x) = true) ->
  0 <= b < 160 -> 0 <= j < 8 -> st_free (fstatus f b) = false -> ~ touched alloc (Z.to_nat (8 * b + j)).
Proof.
  intros Hal Hb Hj Hnf (b' & j' & Hb' & Hj' & E). destruct (Hal b' Hb') as (Hr' & Hf').
  assert (b' = b) by lia. subst b'. congruence.
Qed.

Lemma dw_nth_entries sd i : (i < 112)%nat -> nth i (cat_entries sd) [] = entry_at sd (nth i all_slots (0%nat, 0%nat)).
Proof.
  intros Hi. rewrite wn_cat_entries_slots.
  rewrite (nth_indep _ [] (entry_at sd (0%nat, 0%nat))) by (rewrite map_length, wn_all_slots_length; exact Hi).
  apply map_nth.
Qed.

(* TOP (C06): what one writeFile may modify.  No sector of a block that was in use or reserved,
   the table and catalogue sectors excepted; in the table sector only status bytes of formerly
   free blocks; in the catalogue only a slot that held no live entry. *)
Theorem write_file_frame : forall (sd : side) (content name ext : list Z) (kind dtype : Z),
  tool_readable sd = true -> write_args_ok name ext kind dtype content = true ->
  let sd' := fst (write_file sd content name ext kind dtype) in
  length sd' = length sd /\
  (forall b j : Z, 0 <= b < 160 -> 0 <= j < 8 -> st_free (fstatus (fat sd) b) = false ->
     8 * b + j <> 321 -> ~ (322 <= 8 * b + j <= 335) ->
     nsec sd' (Z.to_nat (8 * b + j)) = nsec sd (Z.to_nat (8 * b + j))) /\
  (forall k : nat, nth k (nsec sd' fat_sector) 0 <> nth k (nsec sd fat_sector) 0 ->
     (1 <= k <= 160)%nat /\ st_free (nth k (nsec sd fat_sector) 0) = true) /\
  (forall i : nat, nth i (cat_entries sd') [] <> nth i (cat_entries sd) [] ->
     e_live (nth i (cat_entries sd) []) = false).
Proof.
  intros sd content name ext kind dtype Htr Hargs sd'. subst sd'.
  destruct (dw_readable_parts sd Htr) as (Hread & Hslots & Hg & H40 & H41).
  destruct (wm_cases sd content name ext kind dtype Htr Hargs) as [HA|[HB|HC]].
  - destruct HA as (_ & ->). cbn [fst].
    split; [reflexivity|]. split; [intros; reflexivity|]. split; [intros k Hk; now elim Hk|intros i Hi; now elim Hi].
  - destruct (dw_refused_slot sd content _ Htr HB) as (_ & _ & _ & _ & _ & Ecat & E321).
    destruct HB as (Henough & _ & _ & Hg' & Hout).
    destruct (wm_alloc_facts sd content Hg Henough) as (_ & Hal & _).
    split; [destruct Hg as (-> & _); apply Hg'|]. split; [|split].
    + intros b j Hb Hj Hnf _ _. apply Hout. now apply (dw_not_touched (fat sd)).
    + intros k Hk. rewrite wn_fat_sector, E321 in Hk. now elim Hk.
    + intros i Hi. rewrite Ecat in Hi. now elim Hi.
  - unfold outcome_stored in HC. cbv zeta in HC.
    destruct HC as (Henough & _ & Hg' & bat1 & l1 & sl & l2 & Htab & Hsplit & Hl1 & Hsl & E321 & Hother & Hrec & Hdata & Hcc).
    destruct (wm_alloc_facts sd content Hg Henough) as (_ & Hal & _).
    set (res := write_file sd content name ext kind dtype) in *.
    set (alloc := alloc_of sd content) in *.
    pose proof Hg as (_ & Hsecs). destruct (Hsecs 321%nat ltac:(lia)) as (Hp256 & _).
    destruct Htab as (L1 & Bout & _).
    pose proof (wn_fat_length sd Hg) as Hfl.
    split; [destruct Hg as (-> & _); apply Hg'|]. split; [|split].
    + intros b j Hb Hj Hnf N1 N2. apply Hdata; [now apply (dw_not_touched (fat sd))|lia|lia].
    + intros k Hk. rewrite wn_fat_sector, E321 in Hk. rewrite wn_table_sector_nth in Hk by assumption.
      destruct ((1 <=? k) && (k <=? 160))%nat eqn:E; [|now elim Hk].
      split; [lia|]. rewrite wn_fat_sector.
      assert (Ef : forall d, nth (k - 1) (fat sd) d = nth k (nsec sd 321) d).
      { intros d. unfold fat. rewrite wn_fat_sector, wl_nth_firstn by lia. rewrite wl_nth_skipn. f_equal. lia. }
      destruct (in_dec Z.eq_dec (Z.of_nat (k - 1)) alloc) as [Hin|Hnin].
      * destruct (Hal _ Hin) as (_ & Hf). unfold fstatus in Hf. rewrite Nat2Z.id in Hf.
        rewrite <- Ef. rewrite (nth_indep _ 0 255) by lia. exact Hf.
      * exfalso. apply Hk. rewrite <- Ef.
        rewrite (nth_indep bat1 0 255), (nth_indep (fat sd) 0 255) by lia. now apply Bout.
    + intros i Hi. destruct (Nat.lt_ge_cases i 112) as [Hlt|Hge].
      * rewrite !dw_nth_entries in * by exact Hlt.
        assert (Hin : In (nth i all_slots (0%nat, 0%nat)) all_slots) by (apply nth_In; rewrite wn_all_slots_length; exact Hlt).
        set (x := nth i all_slots (0%nat, 0%nat)) in *.
        assert (Hdec : x = sl \/ x <> sl).
        { destruct x as (a1, a2), sl as (b1, b2).
          destruct (Nat.eq_dec a1 b1) as [->|N1]; [|right; congruence].
          destruct (Nat.eq_dec a2 b2) as [->|N2]; [now left|right; congruence]. }
        destruct Hdec as [->|Hne]; [exact Hsl|]. exfalso. apply Hi. now apply Hother.
      * exfalso. apply Hi. rewrite !nth_overflow; [reflexivity| |];
          rewrite wn_cat_entries_slots, map_length, wn_all_slots_length; exact Hge.
Qed.

Print Assumptions init_fs_strict.
Print Assumptions write_file_step.
Print Assumptions write_file_frame.
