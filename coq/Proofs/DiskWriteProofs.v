(* Proofs/DiskWriteProofs.v — one writeFile on one side (C05 step, C06 frame, C04 conformance of a single store).  TOP statements are fixed. *)
From Coq Require Import ZArith List Bool Lia ZifyBool.
Require Import PyBase GenDisk DiskFacts Disk ThomsonDos PyFacts DiskDefs.
Import ListNotations.
Open Scope Z_scope.
Ltac Zify.zify_post_hook ::= Z.to_euclidean_division_equations.

(* TOP: formatting a side yields a strict, empty file system with 157 free blocks *)
Theorem init_fs_strict : forall sd : side,
  side_geometry sd = true ->
  fsck_strict (init_fs sd) = true /\ tool_readable (init_fs sd) = true /\ names_printable (init_fs sd) = true /\
  dos_files (init_fs sd) = Some [] /\ free_count (init_fs sd) = 157.
Admitted.

(* TOP: one writeFile on a well-formed side.  Whatever the outcome the side stays well formed
   (and strict if it was); a success inserts exactly the new file, with its content laid out on
   formerly free blocks, at the first free catalogue slot, leaving the other files and their
   order untouched; a refusal (too few free blocks, or no free catalogue entry) leaves the
   allocation table, the catalogue and every file unchanged; nothing else can happen. *)
Theorem write_file_step : forall (sd : side) (content name ext : list Z) (kind dtype : Z),
  tool_readable sd = true -> write_args_ok name ext kind dtype content = true ->
  let sd' := fst (write_file sd content name ext kind dtype) in
  let r := snd (write_file sd content name ext kind dtype) in
  tool_readable sd' = true /\
  (names_printable sd = true -> names_printable sd' = true) /\
  (fsck_strict sd = true -> fsck_strict sd' = true) /\
  match r with
  | Ok _ =>
    needed_blocks (zlen content) <= free_count sd /\ has_free_slot sd = true /\
    exists fs1 fs2 blocks,
      dos_files sd = Some (fs1 ++ fs2) /\
      dos_files sd' = Some (fs1 ++ stored_file name ext kind (dtype =? 1) content blocks :: fs2) /\
      zlen blocks = needed_blocks (zlen content) /\
      Forall (fun b => st_free (fstatus (fat sd) b) = true) blocks /\
      free_count sd' = free_count sd - zlen blocks
  | Err EValue =>
    (free_count sd < needed_blocks (zlen content) \/ has_free_slot sd = false) /\
    dos_files sd' = dos_files sd /\ fat sd' = fat sd /\ cat_entries sd' = cat_entries sd
  | Err _ => False
  end.
Admitted.

(* TOP (C06): what one writeFile may modify.  No sector of a block that was in use or reserved,
   the table and catalogue sectors excepted; in the table sector only status bytes of formerly
   free blocks; in the catalogue only a slot that held no live entry. *)
Theorem write_file_frame : forall (sd : side) (content name ext : list Z) (kind dtype : Z),
  tool_readable sd = true -> write_args_ok name ext kind dtype content = true ->
  let sd' := fst (write_file sd content name ext kind dtype) in
  length sd' = length sd /\
  (forall b j : Z, 0 <= b < 160 -> 0 <= j < 8 -> st_free (fstatus (fat sd) b) = false ->
     8 * b + j <> 321 -> ~ (322 <= 8 * b + j <= 335) ->
     nsec sd' (Z.to_nat (8 * b + j)) = nsec sd (Z.to_nat (8 * b + j))) /\
  (forall k : nat, nth k (nsec sd' fat_sector) 0 <> nth k (nsec sd fat_sector) 0 ->
     (1 <= k <= 160)%nat /\ st_free (nth k (nsec sd fat_sector) 0) = true) /\
  (forall i : nat, nth i (cat_entries sd') [] <> nth i (cat_entries sd) [] ->
     e_live (nth i (cat_entries sd) []) = false).
Admitted.
