(* Proofs/DReadSafe.v — hostile images (disk half of C18): errors, confinement, buffer size. *)
From Coq Require Import ZArith List Bool Lia ZifyBool.
Require Import PyBase GenDisk DiskFacts DiskFactsRead Disk ThomsonDos PyFacts DiskDefs DReadBase DReadChain.
Import ListNotations.
Open Scope Z_scope.
Ltac Zify.zify_post_hook ::= Z.to_euclidean_division_equations.

(* ---------- load_image: at most 4 sides ---------- *)
Lemma chunks_length {A} n k : forall l : list A, length (chunks n k l) = k.
Proof. induction k as [|k IH]; intros l; cbn [chunks length]; [reflexivity|]. now rewrite IH. Qed.

Lemma load_image_le4 is_fd raw img : load_image is_fd raw = Ok img -> (length img <= 4)%nat.
Proof.
  unfold load_image. destruct raw as [|r0 raw].
  - intros H. injection H as <-. rewrite repeat_length. destruct is_fd; [rewrite blank_sides_fd_4|]; lia.
  - cbv zeta.
    pose proof (load_number_of_sides_le4 (zlen (r0 :: raw)) (size_of_side is_fd)) as Hn.
    destruct (if is_fd then load_reject_fd _ else load_reject_sd _); [discriminate|].
    destruct (load_reject_partial _ _ _); [discriminate|].
    intros H. injection H as <-. rewrite map_length, chunks_length. lia.
Qed.

(* ---------- the table read by bat_get ---------- *)
Lemma bat_get_length sd bat : bat_get sd = Ok bat -> (length bat <= 160)%nat.
Proof.
  unfold bat_get. cbv zeta. destruct (forallb _ _); [|discriminate]. intros H. injection H as <-.
  unfold slice. rewrite firstn_length. unfold bat_first_index, bat_end_index. lia.
Qed.
Lemma bat_get_valid sd bat : bat_get sd = Ok bat -> forallb is_valid_status bat = true.
Proof.
  unfold bat_get. cbv zeta. destruct (forallb _ _) eqn:E; [|discriminate]. intros H. injection H as <-. exact E.
Qed.
Lemma bat_get_err sd e : bat_get sd = Err e -> e = EValue.
Proof. unfold bat_get. cbv zeta. destruct (forallb _ _); [discriminate|]. intros H. now injection H as <-. Qed.

(* ---------- errors ---------- *)
Lemma entry_of_bytes_err data bat e : (length bat <= 160)%nat -> entry_of_bytes data bat = Err e -> e = EIndex.
Proof.
  intros Hl. unfold entry_of_bytes. cbv zeta. destruct (_ =? entry_NEVER_USED); [discriminate|].
  destruct (chain_of_inv bat (znth0 rec_first_index data) Hl) as [E|(bs & E & _)]; rewrite E; cbn [bind].
  - intros H. now injection H as <-.
  - discriminate.
Qed.

Lemma collect_err {A} (l : list (res A)) e : collect l = Err e -> In (Err e) l.
Proof.
  induction l as [|[a|e'] l IH]; cbn [collect]; [discriminate| |].
  - destruct (collect l) as [rs|e2]; [discriminate|]. intros H. injection H as ->. right. now apply IH.
  - intros H. injection H as ->. now left.
Qed.
Lemma collect_ok {A} (l : list (res A)) rs : collect l = Ok rs -> l = map Ok rs.
Proof.
  revert rs; induction l as [|[a|e'] l IH]; intros rs; cbn [collect]; [intros H; now injection H as <-| |discriminate].
  destruct (collect l) as [rs'|e2]; [|discriminate]. intros H. injection H as <-. cbn [map]. f_equal. now apply IH.
Qed.

Lemma all_entries_err sd bat e : (length bat <= 160)%nat -> all_entries sd bat = Err e -> e = EIndex.
Proof.
  intros Hl H. unfold all_entries in H. apply collect_err in H.
  apply in_flat_map in H. destruct H as (s & _ & H). apply in_map_iff in H. destruct H as (off & H & _).
  eapply entry_of_bytes_err; eassumption.
Qed.

Lemma list_files_err sd e : list_files sd = Err e -> e = EValue \/ e = EIndex.
Proof.
  unfold list_files. destruct (bat_get sd) as [bat|e1] eqn:Eb; cbn [bind].
  - destruct (all_entries sd bat) as [es|e2] eqn:Ea; cbn [bind]; [discriminate|].
    intros H. injection H as <-. right. eapply all_entries_err; [|exact Ea]. eapply bat_get_length; eassumption.
  - intros H. injection H as <-. left. eapply bat_get_err; eassumption.
Qed.

Lemma read_file_err sd e er : read_file sd e = Err er -> er = EUnicode \/ er = EValue.
Proof.
  unfold read_file. destruct (negb (ce_status e =? entry_ALIVE)); [discriminate|].
  destruct (negb (entry_decodable e)); [intros H; injection H as <-; now left|].
  destruct (ce_blocks e) as [|b0 bl]; [discriminate|]. cbv zeta.
  destruct (usage_of_last_block (ce_last_status e) =? 0); [|discriminate].
  intros H; injection H as <-; now right.
Qed.

Lemma compute_usage_err sd e : compute_usage sd = Err e -> e = EValue.
Proof.
  unfold compute_usage. destruct (bat_get sd) as [bat|e1] eqn:Eb; cbn [bind]; [discriminate|].
  intros H. injection H as <-. eapply bat_get_err; eassumption.
Qed.

(* ---------- one side: errors and effects ---------- *)
Definition good_write (dir : list Z) (e : effect) : Prop :=
  exists l c, e = WriteFile (path_join dir l) c /\ existsb (Z.eqb 47) l = false /\ existsb (Z.eqb 0) l = false.

Lemma extracted_name_no_slash e : existsb (Z.eqb 47) (extracted_name e) = false.
Proof.
  unfold extracted_name. apply existsb_false_forall. intros x Hx. apply in_map_iff in Hx.
  destruct Hx as (c & <- & _). unfold dex_sep_from, dex_sep_to. destruct (c =? 47) eqn:E; lia.
Qed.

Lemma side_files_inv verbose extract p sd i dir : forall es s text fx lg text' fx' s' lg' oe,
  side_files verbose extract p sd i dir es s text fx lg = (text', fx', s', lg', oe) ->
  (exists extra, fx' = fx ++ extra /\ Forall (good_write dir) extra /\ (extract = false -> extra = [])) /\
  oe <> Some EOther.
Proof.
  induction es as [|e es IH]; intros s text fx lg text' fx' s' lg' oe; cbn [side_files].
  - intros H. injection H as <- <- <- <- <-. split; [|discriminate]. exists []. now rewrite app_nil_r.
  - destruct (negb (entry_decodable e)).
    { intros H. injection H as <- <- <- <- <-. split; [|discriminate]. exists []. now rewrite app_nil_r. }
    destruct (on_begin_file _ _ _ _ _ _ _ _) as [o1 s1].
    destruct extract.
    + destruct (read_file sd e) as [data|er] eqn:Er.
      * destruct (existsb (Z.eqb 0) (path_join dir (extracted_name e))) eqn:Ez.
        { intros H. injection H as <- <- <- <- <-. split; [|discriminate]. exists []. now rewrite app_nil_r. }
        destruct (on_end_file _ _ _ _ _ _) as [o2 s2]. intros H. apply IH in H.
        destruct H as [(extra & -> & Hex & _) Hoe]. split; [|exact Hoe].
        exists (WriteFile (path_join dir (extracted_name e)) data :: extra).
        split; [now rewrite <- app_assoc|]. split; [|discriminate]. constructor; [|exact Hex].
        exists (extracted_name e), data. split; [reflexivity|]. split; [apply extracted_name_no_slash|].
        destruct (path_join_suffix dir (extracted_name e)) as (pre & Hp).
        { intros r Hr. pose proof (extracted_name_no_slash e) as Hs. rewrite Hr in Hs. cbn in Hs. discriminate. }
        rewrite Hp in Ez. apply existsb_app_false in Ez. exact (proj2 Ez).
      * intros H. injection H as <- <- <- <- <-. split; [exists []; now rewrite app_nil_r|].
        apply read_file_err in Er. destruct Er as [->| ->]; discriminate.
    + destruct (on_end_file _ _ _ _ _ _) as [o2 s2]. intros H. apply IH in H.
      destruct H as [(extra & -> & Hex & Hno) Hoe]. split; [|exact Hoe].
      exists extra. auto.
Qed.

(* ---------- all sides ---------- *)
Definition ok_eff (target : list Z) (e : effect) : Prop :=
  exists i : nat, (i < 4)%nat /\
    (e = MkDir (side_dir target i) \/
     exists l c, e = WriteFile (path_join (side_dir target i) l) c /\
                 existsb (Z.eqb 47) l = false /\ existsb (Z.eqb 0) l = false).

Lemma read_sides_inv verbose extract p target : forall sides i s text fx lg,
  (i + length sides <= 4)%nat -> Forall (ok_eff target) fx ->
  Forall (ok_eff target) (d_effects (read_sides verbose extract p target sides i s text fx lg)) /\
  d_crash (read_sides verbose extract p target sides i s text fx lg) <> Some EOther /\
  (extract = false -> fx = [] -> d_effects (read_sides verbose extract p target sides i s text fx lg) = []).
Proof.
  induction sides as [|sd sides IH]; intros i s text fx lg Hi Hfx; cbn [read_sides].
  - destruct (on_done verbose p s) as [o s']. cbn [d_effects d_crash]. repeat split; [exact Hfx|discriminate|auto].
  - destruct (on_begin_side verbose p s (Z.of_nat i)) as [o0 s0]. cbn [length] in Hi.
    set (fx0 := if extract then fx ++ [MkDir (side_dir target i)] else fx).
    assert (Hfx0 : Forall (ok_eff target) fx0).
    { unfold fx0. destruct extract; [|exact Hfx]. apply Forall_app. split; [exact Hfx|].
      constructor; [|constructor]. exists i. split; [lia|now left]. }
    assert (Hno0 : extract = false -> fx = [] -> fx0 = []).
    { intros -> ->. reflexivity. }
    destruct (list_files sd) as [es|e] eqn:El.
    2:{ unfold crashed. cbn [d_effects d_crash]. repeat split; [exact Hfx0| |exact Hno0].
        apply list_files_err in El. destruct El as [->| ->]; discriminate. }
    destruct (side_files verbose extract p sd i (side_dir target i) es s0 (text ++ o0) fx0 (lg ++ [LSide (Z.of_nat i)]))
      as [[[[text1 fx1] s1] lg1] oe] eqn:Es.
    apply side_files_inv in Es. destruct Es as [(extra & -> & Hex & Hno) Hoe].
    assert (Hfx1 : Forall (ok_eff target) (fx0 ++ extra)).
    { apply Forall_app. split; [exact Hfx0|]. eapply Forall_impl; [|exact Hex].
      intros a (l & c & Ha). exists i. split; [lia|]. right. exists l, c. exact Ha. }
    assert (Hno1 : extract = false -> fx = [] -> fx0 ++ extra = []).
    { intros H1 H2. rewrite (Hno H1), (Hno0 H1 H2). reflexivity. }
    destruct oe as [e|].
    { unfold crashed. cbn [d_effects d_crash]. repeat split; [exact Hfx1| |exact Hno1]. congruence. }
    destruct (compute_usage sd) as [u|e] eqn:Eu.
    2:{ unfold crashed. cbn [d_effects d_crash]. repeat split; [exact Hfx1| |exact Hno1].
        apply compute_usage_err in Eu. subst. discriminate. }
    destruct (on_end_side verbose p s1 u) as [o2 s2].
    destruct (IH (S i) s2 (text1 ++ o2) (fx0 ++ extra) lg1 ltac:(lia) Hfx1) as (H1 & H2 & H3).
    repeat split; [exact H1|exact H2|]. intros Ha Hb. apply H3; auto.
Qed.

(* ---------- the read buffer ---------- *)
Lemma splice_length_le {A} i j (v l : list A) : (length (splice i j v l) <= length l + length v)%nat.
Proof. unfold splice. rewrite !app_length, firstn_length, skipn_length. lia. Qed.

Lemma get_sec_P (P : sector -> Prop) sd i : Forall P sd -> P [] -> P (get_sec sd i).
Proof.
  intros H H0. unfold get_sec. destruct (nth_in_or_default i sd []) as [Hin| ->]; [|exact H0].
  rewrite Forall_forall in H. auto.
Qed.

Lemma read_sectors_len sd b smax lastsize : Forall (fun s => (length s <= 256)%nat) sd ->
  forall n s result index,
  (length (fst (read_sectors sd b smax lastsize s n result index)) <= length result + 256 * n)%nat.
Proof.
  intros Hsd. induction n as [|n IH]; intros s result index; cbn [read_sectors]; [cbn [fst]; lia|].
  cbv zeta. eapply Nat.le_trans; [apply IH|].
  match goal with |- (length (splice ?i ?j ?v ?l) + _ <= _)%nat => pose proof (splice_length_le i j v l) as Hs end.
  rewrite firstn_length in Hs.
  pose proof (get_sec_P (fun s => (length s <= 256)%nat) sd (sec_of_block b (Z.of_nat s)) Hsd ltac:(cbn; lia)) as Hg.
  cbv beta in Hg. lia.
Qed.

Lemma read_blocks_len sd lu ls : Forall (fun s => (length s <= 256)%nat) sd -> lu <= 8 ->
  forall blocks result index,
  (length (read_blocks sd blocks lu ls result index) <= length result + 2048 * length blocks)%nat.
Proof.
  intros Hsd Hlu. induction blocks as [|b r IH]; intros result index; cbn [read_blocks length]; [lia|].
  destruct r as [|b' r'].
  - pose proof (read_sectors_len sd b lu ls Hsd (Z.to_nat lu) 0 result index) as Hr.
    destruct (read_sectors sd b lu ls 0 (Z.to_nat lu) result index) as [result' index'].
    cbn [fst] in Hr. cbn [read_blocks]. lia.
  - pose proof (read_sectors_len sd b read_full_sectors read_full_payload Hsd (Z.to_nat read_full_sectors) 0 result index) as Hr.
    destruct (read_sectors sd b read_full_sectors read_full_payload 0 (Z.to_nat read_full_sectors) result index) as [result' index'].
    cbn [fst] in Hr. eapply Nat.le_trans; [apply IH|]. unfold read_full_sectors in Hr. cbn [length] in *. lia.
Qed.

Lemma Forall_firstn {A} (P : A -> Prop) n l : Forall P l -> Forall P (firstn n l).
Proof. intros H. rewrite <- (firstn_skipn n l) in H. apply Forall_app in H. apply H. Qed.
Lemma Forall_skipn {A} (P : A -> Prop) n l : Forall P l -> Forall P (skipn n l).
Proof. intros H. rewrite <- (firstn_skipn n l) in H. apply Forall_app in H. apply H. Qed.
Lemma Forall_slice {A} (P : A -> Prop) i j l : Forall P l -> Forall P (slice i j l).
Proof. intros H. unfold slice. now apply Forall_firstn, Forall_skipn. Qed.

Definition isbyte (b : Z) : Prop := 0 <= b <= 255.
Lemma bytesb_Forall l : bytesb l = true -> Forall isbyte l.
Proof.
  unfold bytesb. rewrite forallb_forall, Forall_forall. intros H x Hx. apply H in Hx.
  unfold byteb in Hx. unfold isbyte. lia.
Qed.
Lemma get_sec_bytes sd i : Forall (fun s => bytesb s = true) sd -> Forall isbyte (get_sec sd i).
Proof.
  intros H. apply (get_sec_P (Forall isbyte)); [|constructor].
  eapply Forall_impl; [|exact H]. intros s. apply bytesb_Forall.
Qed.
Lemma znth0_byte i l : Forall isbyte l -> isbyte (znth0 i l).
Proof.
  intros H. unfold znth0. destruct (nth_in_or_default (Z.to_nat i) l 0) as [Hin| ->]; [|unfold isbyte; lia].
  rewrite Forall_forall in H. auto.
Qed.

Lemma list_files_in sd es e : list_files sd = Ok es -> In e es ->
  exists bat s off, bat_get sd = Ok bat /\
    entry_of_bytes (slice off (off + entry_size) (get_sec sd s)) bat = Ok e /\ ce_status e = entry_ALIVE.
Proof.
  unfold list_files. destruct (bat_get sd) as [bat|e1] eqn:Eb; cbn [bind]; [|discriminate].
  destruct (all_entries sd bat) as [es0|e2] eqn:Ea; cbn [bind]; [|discriminate].
  intros H Hin. injection H as <-. apply filter_In in Hin. destruct Hin as [Hin Hst].
  unfold all_entries in Ea. apply collect_ok in Ea.
  assert (Hin' : In (Ok e) (map Ok es0)) by now apply in_map.
  rewrite <- Ea in Hin'. apply in_flat_map in Hin'. destruct Hin' as (s & _ & Hin').
  apply in_map_iff in Hin'. destruct Hin' as (off & Hoff & _).
  exists bat, s, off. repeat split; [exact Hoff|lia].
Qed.

Lemma entry_of_bytes_shape data bat e : entry_of_bytes data bat = Ok e ->
  ce_blocks e = [] \/
  exists blocks, chain_of bat (znth0 rec_first_index data) = Ok blocks /\ ce_blocks e = blocks /\
    ce_last_sector e = rec_last_of (znth0 rec_last_hi_index data) (znth0 rec_last_lo_index data) /\
    ce_last_status e = last_status bat blocks.
Proof.
  unfold entry_of_bytes. cbv zeta. destruct (_ =? entry_NEVER_USED).
  - intros H. injection H as <-. now left.
  - destruct (chain_of bat (znth0 rec_first_index data)) as [blocks|er]; cbn [bind]; [|discriminate].
    intros H. injection H as <-. right. exists blocks. cbn [ce_blocks ce_last_sector ce_last_status]. auto.
Qed.

Lemma last_status_le200 bat blocks : blocks <> [] -> Forall (blk_ok bat) blocks ->
  Forall isbyte bat -> forallb is_valid_status bat = true -> last_status bat blocks <= 200.
Proof.
  intros Hne Hok Hb Hv. unfold last_status. destruct (rev blocks) as [|b r] eqn:Er.
  { exfalso. apply Hne. rewrite <- (rev_involutive blocks), Er. reflexivity. }
  assert (Hin : In b blocks). { apply in_rev. rewrite Er. now left. }
  rewrite Forall_forall in Hok. destruct (Hok b Hin) as (s & Hs & Hfr). rewrite Hs.
  apply status_of_some in Hs. destruct Hs as [_ Hs].
  rewrite forallb_forall in Hv. apply Hv in Hs as Hv1. rewrite Forall_forall in Hb. apply Hb in Hs as Hb1.
  rewrite is_valid_status_is in Hv1. rewrite ba_is_free_is, ba_is_reserved_is in Hfr. unfold isbyte in Hb1. lia.
Qed.

Lemma read_buffer_bound sd es e data :
  Forall (fun s => (length s <= 256)%nat) sd -> Forall (fun s => bytesb s = true) sd ->
  list_files sd = Ok es -> In e es -> read_file sd e = Ok data ->
  zlen data <= 160 * 8 * 256 + 65536 + 160 * 8 * 256.
Proof.
  intros Hlen Hbytes Hl Hin Hr.
  destruct (list_files_in _ _ _ Hl Hin) as (bat & s & off & Hbat & He & Hst).
  unfold read_file in Hr. destruct (negb (ce_status e =? entry_ALIVE)); [injection Hr as <-; cbn; lia|].
  destruct (negb (entry_decodable e)); [discriminate|].
  apply entry_of_bytes_shape in He. destruct He as [E|(blocks & Hch & Hbl & Hls & Hlst)].
  { rewrite E in Hr. injection Hr as <-. cbn; lia. }
  destruct (ce_blocks e) as [|b0 bl] eqn:Ebl; [injection Hr as <-; cbn; lia|].
  cbv zeta in Hr. destruct (usage_of_last_block (ce_last_status e) =? 0); [discriminate|].
  injection Hr as <-.
  pose proof (bat_get_length _ _ Hbat) as Hbl160. pose proof (bat_get_valid _ _ Hbat) as Hval.
  assert (Hbb : Forall isbyte bat).
  { unfold bat_get in Hbat. cbv zeta in Hbat. destruct (forallb _ _); [|discriminate]. injection Hbat as <-.
    apply Forall_slice, get_sec_bytes, Hbytes. }
  destruct (chain_of_inv bat (znth0 rec_first_index (slice off (off + entry_size) (get_sec sd s))) Hbl160)
    as [E|(bs & E & _ & Hok & Hn)]; rewrite E in Hch; [discriminate|]. injection Hch as ->.
  assert (Hst200 : ce_last_status e <= 200).
  { rewrite Hlst. apply last_status_le200; auto. rewrite <- Hbl. discriminate. }
  assert (Hd : Forall isbyte (slice off (off + entry_size) (get_sec sd s))).
  { apply Forall_slice, get_sec_bytes, Hbytes. }
  pose proof (znth0_byte rec_last_hi_index _ Hd) as Hhi. pose proof (znth0_byte rec_last_lo_index _ Hd) as Hlo.
  rewrite rec_last_of_is in Hls. unfold isbyte in Hhi, Hlo.
  pose proof (ba_usage_le8 _ Hst200) as Hu8.
  pose proof (read_blocks_len sd (usage_of_last_block (ce_last_status e)) (ce_last_sector e) Hlen
                ltac:(rewrite usage_of_last_block_is; lia) (b0 :: bl)
                (repeat 0 (Z.to_nat (entry_size_bytes e))) 0) as Hrb.
  rewrite repeat_length in Hrb. rewrite <- Hbl in Hn. 
  assert (Hsz : entry_size_bytes e <= (8 * 159 + 7) * 255 + 65535).
  { unfold entry_size_bytes. rewrite size_in_bytes_is, Ebl. unfold zlen.
    destruct (Z.of_nat (length (b0 :: bl)) =? 0) eqn:E0; nia. }
  match type of Hrb with (length ?t <= _)%nat => change (zlen t <= 160 * 8 * 256 + 65536 + 160 * 8 * 256) end.
  unfold zlen. lia.
Qed.
