(* Proofs/DiskExactProofs.v — refusals are exact: one writeFile on a well-formed side succeeds exactly
   when the side has enough free blocks and a free (never-used or deleted) catalogue entry. *)
From Coq Require Import ZArith List Bool Lia.
Require Import PyBase GenDisk Disk ThomsonDos DiskDefs DiskWriteProofs.
Import ListNotations.
Open Scope Z_scope.

Theorem write_file_refusal_exact : forall (sd : side) (content name ext : list Z) (kind dtype : Z),
  tool_readable sd = true -> write_args_ok name ext kind dtype content = true ->
  (snd (write_file sd content name ext kind dtype) = Ok tt <->
   needed_blocks (zlen content) <= free_count sd /\ has_free_slot sd = true) /\
  (snd (write_file sd content name ext kind dtype) = Err EValue <->
   free_count sd < needed_blocks (zlen content) \/ has_free_slot sd = false).
Proof.
  intros sd content name ext kind dtype Htr Hargs.
  pose proof (write_file_step sd content name ext kind dtype Htr Hargs) as H. cbv zeta in H.
  destruct H as (_ & _ & _ & H).
  destruct (snd (write_file sd content name ext kind dtype)) as [[]|e] eqn:E.
  - destruct H as (H1 & H2 & _). split; split.
    + intros _. split; assumption.
    + intros _. reflexivity.
    + discriminate.
    + intros [Hlt|Hs]; [lia|congruence].
  - destruct e; try contradiction.
    destruct H as (H1 & _). split; split.
    + discriminate.
    + intros [Hle Hs]. destruct H1 as [Hlt|Hns]; [lia|congruence].
    + intros _. exact H1.
    + intros _. reflexivity.
Qed.
