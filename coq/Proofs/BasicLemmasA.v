(* Proofs/BasicLemmasA.v — helper lemmas for C15 (ASCII BASIC conversions) and for the
   structural half of C13 (program image layout, structural parser). *)
From Coq Require Import ZArith List Bool Lia ZifyBool.
Require Import PyBase GenBasic BasicFacts Basic Mo5Basic AsciiBasic PyFacts.
Import ListNotations.
Open Scope Z_scope.
Ltac Zify.zify_post_hook ::= Z.to_euclidean_division_equations.

(* ================= C15 ================= *)
Lemma lst_to_ascii_spec lines : lst_to_ascii lines = ascii_basic_spec lines.
Proof. reflexivity. Qed.

Lemma rstrip_by_incl p l c : In c (rstrip_by p l) -> In c l.
Proof.
  intros H. destruct (rstrip_by_prefix p l) as (s & Hl & _). rewrite Hl.
  apply in_or_app. now left.
Qed.

Lemma ascii_7bit lines :
  Forall (Forall (fun c => 0 <= c)) lines ->
  Forall (fun b => 0 <= b < 128) (lst_to_ascii lines).
Proof.
  intros H. rewrite lst_to_ascii_spec. unfold ascii_basic_spec.
  apply Forall_app. split; [constructor; [lia|constructor]|].
  induction H as [|l lines Hl _ IH]; cbn [flat_map]; [constructor|].
  apply Forall_app. split; [|exact IH].
  apply Forall_app. split; [|constructor; [lia|constructor]].
  apply Forall_forall. intros c Hc. unfold keep7 in Hc. apply filter_In in Hc.
  destruct Hc as [Hin Hlt]. apply rstrip_by_incl in Hin.
  rewrite Forall_forall in Hl. specialize (Hl _ Hin). cbn beta in Hl. lia.
Qed.

Lemma is_sep_crlf b : b2l_is_sep b = is_crlf b.
Proof. unfold b2l_is_sep, is_crlf. cbn [existsb]. now rewrite orb_false_r. Qed.

Lemma b2l_eol_is dos : b2l_eol dos = eol_of dos.
Proof. reflexivity. Qed.

Lemma zlen_cons {A} (x : A) l : zlen (x :: l) = zlen l + 1.
Proof. unfold zlen. cbn [length]. lia. Qed.
Lemma zlen_nil {A} : zlen (@nil A) = 0.
Proof. reflexivity. Qed.
Lemma zlen_app {A} (a b : list A) : zlen (a ++ b) = zlen a + zlen b.
Proof. unfold zlen. rewrite app_length. lia. Qed.
Lemma zlen_nonneg {A} (l : list A) : 0 <= zlen l.
Proof. unfold zlen. lia. Qed.

Definition listing_of (dos : bool) (ps : list (list Z)) : list Z :=
  flat_map (fun p => p ++ eol_of dos) (filter nonempty ps).

Lemma b2l_loop_spec dos data : forall cur,
  rev cur ++ b2l_loop dos data (zlen cur) = listing_of dos (split_crlf data cur).
Proof.
  induction data as [|b r IH]; intros cur.
  - cbn [b2l_loop split_crlf]. unfold listing_of, b2l_flush_test. rewrite b2l_eol_is.
    destruct cur as [|c cur].
    + reflexivity.
    + rewrite zlen_cons. pose proof (zlen_nonneg cur) as Hn.
      destruct (0 <? zlen cur + 1) eqn:E; [|lia].
      cbn [rev].
      destruct (rev cur ++ [c]) eqn:E2; [apply app_eq_nil in E2; destruct E2; discriminate|].
      cbn [filter nonempty flat_map]. now rewrite app_nil_r.
  - cbn [b2l_loop split_crlf]. rewrite is_sep_crlf. destruct (is_crlf b) eqn:Eb.
    + specialize (IH []). rewrite zlen_nil in IH. cbn [rev app] in IH. rewrite IH.
      unfold listing_of, b2l_flush_test. rewrite b2l_eol_is. cbn [filter].
      destruct cur as [|c cur].
      * reflexivity.
      * rewrite zlen_cons. pose proof (zlen_nonneg cur) as Hn.
        destruct (0 <? zlen cur + 1) eqn:E; [|lia].
        cbn [rev].
        destruct (rev cur ++ [c]) eqn:E2; [apply app_eq_nil in E2; destruct E2; discriminate|].
        cbn [nonempty flat_map]. now rewrite <- !app_assoc.
    + specialize (IH (b :: cur)). rewrite zlen_cons in IH. cbn [rev] in IH.
      rewrite <- IH. now rewrite <- app_assoc.
Qed.

Lemma ascii_to_lst_spec dos data : ascii_to_lst dos data = listing_spec dos data.
Proof.
  unfold ascii_to_lst. change (listing_spec dos data) with (listing_of dos (split_crlf data [])).
  rewrite <- (b2l_loop_spec dos data []). reflexivity.
Qed.

Lemma existsb_rev {A} (f : A -> bool) l : existsb f (rev l) = existsb f l.
Proof.
  induction l as [|x l IH]; [reflexivity|]. cbn [rev existsb].
  rewrite existsb_app, IH. cbn [existsb]. now rewrite orb_false_r, orb_comm.
Qed.

Lemma split_crlf_free data : forall cur, existsb is_crlf cur = false ->
  Forall (fun p => existsb is_crlf p = false) (split_crlf data cur).
Proof.
  induction data as [|b r IH]; intros cur Hc; cbn [split_crlf].
  - constructor; [now rewrite existsb_rev|constructor].
  - destruct (is_crlf b) eqn:Eb.
    + constructor; [now rewrite existsb_rev|]. now apply IH.
    + apply IH. cbn [existsb]. now rewrite Eb, Hc.
Qed.

Lemma listing_pieces dos data :
  exists pieces : list (list Z),
    ascii_to_lst dos data = flat_map (fun p => p ++ eol_of dos) pieces /\
    Forall (fun p => p <> [] /\ existsb is_crlf p = false) pieces.
Proof.
  exists (filter nonempty (split_crlf data [])). split; [apply ascii_to_lst_spec|].
  apply Forall_forall. intros p Hp. apply filter_In in Hp. destruct Hp as [Hin Hne].
  split; [intros ->; discriminate|].
  pose proof (split_crlf_free data [] eq_refl) as H. rewrite Forall_forall in H. now apply H.
Qed.

Lemma split_crlf_piece p rest : forall cur, existsb is_crlf p = false ->
  split_crlf (p ++ 13 :: rest) cur = (rev cur ++ p) :: split_crlf rest [].
Proof.
  induction p as [|c p IH]; intros cur Hp.
  - cbn [app split_crlf]. change (is_crlf 13) with true. cbn iota. now rewrite app_nil_r.
  - cbn [existsb] in Hp. apply orb_false_elim in Hp. destruct Hp as [Hc Hp].
    cbn [app split_crlf]. rewrite Hc. rewrite IH by exact Hp. cbn [rev]. now rewrite <- app_assoc.
Qed.

Lemma split_crlf_pieces ps : Forall (fun p => existsb is_crlf p = false) ps ->
  split_crlf (flat_map (fun p => p ++ [13]) ps) [] = ps ++ [[]].
Proof.
  induction 1 as [|p ps Hp _ IH]; [reflexivity|].
  cbn [flat_map]. rewrite <- app_assoc. cbn [app]. rewrite split_crlf_piece by exact Hp.
  cbn [rev app]. now rewrite IH.
Qed.

Lemma existsb_filter {A} (f g : A -> bool) l : existsb f l = false -> existsb f (filter g l) = false.
Proof.
  induction l as [|x l IH]; [easy|]. cbn [existsb filter]. intros H.
  apply orb_false_elim in H. destruct H as [Hx Hl]. destruct (g x); cbn [existsb]; [rewrite Hx|]; now apply IH.
Qed.

Lemma filter_app_ne (a b : list (list Z)) : filter nonempty (a ++ b) = filter nonempty a ++ filter nonempty b.
Proof. apply filter_app. Qed.

Lemma ascii_round lines dos :
  Forall (fun l => existsb is_crlf (rstrip_py l) = false) lines ->
  ascii_to_lst dos (lst_to_ascii lines) =
  flat_map (fun l => l ++ eol_of dos) (filter nonempty (map (fun l => keep7 (rstrip_py l)) lines)).
Proof.
  intros H. rewrite ascii_to_lst_spec, lst_to_ascii_spec. unfold listing_spec, ascii_basic_spec.
  assert (E : flat_map (fun l => keep7 (rstrip_py l) ++ [13]) lines =
              flat_map (fun p => p ++ [13]) (map (fun l => keep7 (rstrip_py l)) lines)).
  { clear H. induction lines as [|l lines IH]; [reflexivity|]. cbn [flat_map map]. now rewrite IH. }
  rewrite E. change ([13] ++ ?x) with ([] ++ 13 :: x).
  rewrite split_crlf_piece by reflexivity. cbn [rev app filter nonempty].
  rewrite split_crlf_pieces.
  - rewrite filter_app. cbn [filter nonempty]. now rewrite app_nil_r.
  - apply Forall_forall. intros p Hp. apply in_map_iff in Hp. destruct Hp as (l & <- & Hl).
    rewrite Forall_forall in H. apply existsb_filter. now apply H.
Qed.

(* ================= C13, structure ================= *)
Lemma land255 x : Z.land x 255 = x mod 256.
Proof. change 255 with (Z.ones 8). rewrite Z.land_ones by lia. reflexivity. Qed.

Lemma conv_u16_is v : conv_u16 v = u16 v.
Proof. unfold conv_u16, u16. now rewrite !land255. Qed.

Lemma take_digits_length l : (length (take_digits l) <= length l)%nat.
Proof.
  induction l as [|c l IH]; cbn [take_digits length]; [lia|].
  destruct (is_digit c); cbn [length]; lia.
Qed.

Lemma extract_line_parts_ok l :
  match l with c :: _ => is_digit19 c | [] => false end && negb (existsb (Z.eqb 10) (removelast l)) = true ->
  extract_line_parts l = Ok (line_number l, line_text l).
Proof.
  intros H. destruct l as [|c r]; [discriminate|].
  unfold extract_line_parts. rewrite H.
  apply andb_prop in H. destruct H as [Hc _].
  assert (Hd : is_digit c = true) by (unfold is_digit, is_digit19 in *; lia).
  unfold line_number, line_text. cbn [take_digits]. rewrite Hd. reflexivity.
Qed.

Lemma convert_lines_spec lines : forall ptr body,
  forallb (fun l => match l with c :: _ => is_digit19 c | [] => false end
                    && negb (existsb (Z.eqb 10) (removelast l))) lines = true ->
  convert_lines lines ptr body =
  Ok (body ++ mo5_records ptr (map (fun l => (line_number l, parse_line (line_text l))) lines)).
Proof.
  induction lines as [|l r IH]; intros ptr body H.
  - cbn [convert_lines map mo5_records]. now rewrite app_nil_r.
  - cbn [forallb] in H. apply andb_prop in H. destruct H as [Hl Hr].
    cbn [convert_lines map mo5_records]. rewrite (extract_line_parts_ok l Hl).
    assert (Hp : ptr_step ptr (parse_line (line_text l) ++ line_end) = ptr + zlen (parse_line (line_text l)) + 5).
    { unfold ptr_step, line_end. rewrite zlen_app. change (zlen [0]) with 1. lia. }
    rewrite Hp, IH by exact Hr. rewrite !conv_u16_is. unfold line_end.
    rewrite <- !app_assoc. reflexivity.
Qed.

Lemma tokenize_program_spec lines :
  forallb (fun l => match l with c :: _ => is_digit19 c | [] => false end
                    && negb (existsb (Z.eqb 10) (removelast l))) lines = true ->
  tokenize_program lines = Ok (mo5_image (map (fun l => (line_number l, parse_line (line_text l))) lines)).
Proof.
  intros H. unfold tokenize_program. rewrite convert_lines_spec by exact H.
  cbn [app]. unfold mo5_image, prog_marker, prog_end. rewrite conv_u16_is, program_base_is. reflexivity.
Qed.

(* ---------- the structural parser on a well-formed image ---------- *)
Lemma records_step fuel addr lh ll nh nl r :
  records (S fuel) addr (lh :: ll :: nh :: nl :: r) =
  match split_at_zero r [] with
  | Some (text, rest) =>
    let next := addr + zlen text + 5 in
    if (lh * 256 + ll =? next mod 65536) then
      match records fuel next rest with
      | Some recs => Some ((nh * 256 + nl, text) :: recs)
      | None => None
      end
    else None
  | None => None
  end.
Proof.
  destruct lh as [|p|p]; [|reflexivity|reflexivity].
  destruct ll as [|p|p]; reflexivity.
Qed.

Lemma split_at_zero_text t rest : forall acc, Forall (fun b => 1 <= b < 256) t ->
  split_at_zero (t ++ 0 :: rest) acc = Some (rev acc ++ t, rest).
Proof.
  induction t as [|b t IH]; intros acc Ht.
  - cbn [app split_at_zero]. now rewrite app_nil_r.
  - inversion Ht as [|? ? Hb Ht']; subst. cbn [app split_at_zero].
    destruct b as [|p|p]; [lia| |lia].
    rewrite IH by exact Ht'. cbn [rev]. now rewrite <- app_assoc.
Qed.

Lemma records_spec recs : forall fuel addr,
  Forall (fun r => 0 <= fst r < 65536 /\ Forall (fun b => 1 <= b < 256) (snd r)) recs ->
  (length recs < fuel)%nat ->
  records fuel addr (mo5_records addr recs ++ [0; 0]) = Some recs.
Proof.
  induction recs as [|[n t] recs IH]; intros fuel addr H Hf.
  - destruct fuel as [|fuel]; [cbn [length] in Hf; lia|]. reflexivity.
  - destruct fuel as [|fuel]; [cbn [length] in Hf; lia|].
    inversion H as [|? ? [Hn Ht] Hr]; subst. cbn [fst snd] in Hn, Ht.
    cbn [mo5_records]. unfold u16 at 1 2. cbn [app]. rewrite <- !app_assoc. cbn [app].
    rewrite records_step. rewrite split_at_zero_text by exact Ht. cbn [rev app].
    cbn zeta.
    assert (E1 : ((addr + zlen t + 5) / 256 mod 256 * 256 + (addr + zlen t + 5) mod 256 =? (addr + zlen t + 5) mod 65536) = true) by lia.
    rewrite E1. rewrite IH; [|exact Hr|cbn [length] in Hf; lia].
    assert (E2 : n / 256 mod 256 * 256 + n mod 256 = n) by lia.
    now rewrite E2.
Qed.

Lemma mo5_records_bytes recs : forall addr,
  Forall (fun r => 0 <= fst r < 65536 /\ Forall (fun b => 1 <= b < 256) (snd r)) recs ->
  forallb byteb (mo5_records addr recs) = true.
Proof.
  induction recs as [|[n t] recs IH]; intros addr H; [reflexivity|].
  inversion H as [|? ? [Hn Ht] Hr]; subst. cbn [fst snd] in Hn, Ht.
  cbn [mo5_records]. rewrite !forallb_app. rewrite IH by exact Hr.
  assert (Hu : forall x, forallb byteb (u16 x) = true).
  { intros x. unfold u16, byteb. cbn [forallb]. lia. }
  rewrite !Hu. cbn [forallb andb].
  assert (Htb : forallb byteb t = true).
  { apply forallb_forall. intros b Hb. rewrite Forall_forall in Ht. specialize (Ht _ Hb). unfold byteb. lia. }
  rewrite Htb. reflexivity.
Qed.

Lemma mo5_records_length recs : forall addr, (length recs <= length (mo5_records addr recs))%nat.
Proof.
  induction recs as [|[n t] recs IH]; intros addr; cbn [mo5_records length]; [lia|].
  rewrite !app_length. cbn [length]. specialize (IH (addr + zlen t + 5)). lia.
Qed.

Lemma program_records_spec recs :
  Forall (fun r => 0 <= fst r < 65536 /\ Forall (fun b => 1 <= b < 256) (snd r)) recs ->
  program_records (mo5_image recs) = Some recs.
Proof.
  intros H. unfold mo5_image. cbn zeta. unfold u16 at 1. cbn [app].
  set (body := mo5_records mo5_base recs ++ [0; 0]).
  unfold program_records.
  assert (E1 : (zlen body / 256 mod 256 * 256 + zlen body mod 256 =? zlen body mod 65536) = true) by lia.
  rewrite E1.
  assert (E2 : bytesb (255 :: zlen body / 256 mod 256 :: zlen body mod 256 :: body) = true).
  { unfold bytesb. cbn [forallb]. subst body. rewrite forallb_app, mo5_records_bytes by exact H.
    unfold byteb. cbn [forallb]. lia. }
  rewrite E2. cbn [andb]. subst body. apply records_spec; [exact H|].
  rewrite app_length. pose proof (mo5_records_length recs mo5_base). cbn [length]. lia.
Qed.
