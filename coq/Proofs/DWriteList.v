(* Proofs/DWriteList.v — general list plumbing for the writeFile proofs. *)
From Coq Require Import ZArith List Bool Lia ZifyBool.
Require Import PyBase.
Import ListNotations.
Open Scope Z_scope.
Ltac Zify.zify_post_hook ::= Z.to_euclidean_division_equations.

(* ---------- zlen ---------- *)
Lemma wl_zlen_nonneg {A} (l : list A) : 0 <= zlen l.
Proof. unfold zlen. lia. Qed.
Lemma wl_zlen_app {A} (a b : list A) : zlen (a ++ b) = zlen a + zlen b.
Proof. unfold zlen. rewrite app_length. lia. Qed.

(* ---------- nth through firstn / skipn / app ---------- *)
Lemma wl_nth_firstn {A} (l : list A) n i d : (i < n)%nat -> nth i (firstn n l) d = nth i l d.
Proof.
  revert l i; induction n as [|n IH]; intros l i Hi; [lia|].
  destruct l as [|x l]; [now destruct i|].
  destruct i as [|i]; cbn [firstn nth]; [reflexivity|]. apply IH. lia.
Qed.
Lemma wl_nth_firstn_ge {A} (l : list A) n i d : (n <= i)%nat -> nth i (firstn n l) d = d.
Proof. intros H. apply nth_overflow. rewrite firstn_length. lia. Qed.
Lemma wl_nth_skipn {A} (l : list A) n i d : nth i (skipn n l) d = nth (n + i) l d.
Proof.
  revert l; induction n as [|n IH]; intros l; [reflexivity|].
  destruct l as [|x l]; [now destruct i|]. cbn [skipn Nat.add nth]. apply IH.
Qed.
Lemma wl_nth_app {A} (a b : list A) i d :
  nth i (a ++ b) d = if (i <? length a)%nat then nth i a d else nth (i - length a) b d.
Proof.
  destruct (i <? length a)%nat eqn:E.
  - apply app_nth1. apply Nat.ltb_lt. exact E.
  - apply app_nth2. apply Nat.ltb_ge in E. lia.
Qed.

Lemma wl_firstn_S {A} (l : list A) i d : (i < length l)%nat -> firstn (S i) l = firstn i l ++ [nth i l d].
Proof.
  revert i; induction l as [|x l IH]; intros i Hi; [cbn in Hi; lia|].
  destruct i as [|i]; [reflexivity|]. cbn [firstn nth app]. f_equal. apply IH. cbn in Hi. lia.
Qed.

Lemma wl_skipn_skipn {A} (l : list A) a b : skipn a (skipn b l) = skipn (b + a) l.
Proof.
  revert l; induction b as [|b IH]; intros l; [reflexivity|].
  destruct l as [|x l]; [now rewrite !skipn_nil|]. cbn [skipn Nat.add]. apply IH.
Qed.

Lemma wl_firstn_skipn_step {A} (l : list A) a n : firstn n (skipn a l) ++ skipn (a + n) l = skipn a l.
Proof. rewrite <- wl_skipn_skipn. apply firstn_skipn. Qed.

Lemma wl_firstn_short {A} (l : list A) n : (length l <= n)%nat -> firstn n l = l.
Proof. apply firstn_all2. Qed.

Lemma wl_firstn_app_exact {A} (a b : list A) n : n = length a -> firstn n (a ++ b) = a.
Proof. intros ->. rewrite firstn_app, Nat.sub_diag, firstn_all. cbn [firstn]. apply app_nil_r. Qed.
Lemma wl_skipn_app_exact {A} (a b : list A) n : n = length a -> skipn n (a ++ b) = b.
Proof. intros ->. rewrite skipn_app, Nat.sub_diag, skipn_all. reflexivity. Qed.

(* ---------- In / NoDup ---------- *)
Lemma wl_In_firstn {A} (x : A) n l : In x (firstn n l) -> In x l.
Proof.
  revert l; induction n as [|n IH]; intros l H; [destruct H|].
  destruct l as [|y l]; [destruct H|]. cbn [firstn] in H. destruct H as [H|H]; [now left|right; now apply IH].
Qed.
Lemma wl_NoDup_firstn {A} n (l : list A) : NoDup l -> NoDup (firstn n l).
Proof.
  revert l; induction n as [|n IH]; intros l H; [constructor|].
  destruct l as [|y l]; [constructor|]. cbn [firstn]. inversion H; subst. constructor.
  - intros Hin. apply wl_In_firstn in Hin. contradiction.
  - now apply IH.
Qed.
Lemma wl_NoDup_app {A} (a b : list A) :
  NoDup (a ++ b) <-> NoDup a /\ NoDup b /\ (forall x, In x a -> In x b -> False).
Proof.
  induction a as [|x a IH]; cbn [app].
  - split; [intros H; repeat split; [constructor|exact H|intros x []]|tauto].
  - split.
    + intros H. inversion H as [|? ? Hn Hd]; subst. apply IH in Hd. destruct Hd as (Ha & Hb & Hab).
      repeat split.
      * constructor; [|exact Ha]. intros Hin. apply Hn. apply in_or_app. now left.
      * exact Hb.
      * intros y [->|Hy] Hyb; [apply Hn; apply in_or_app; now right|eapply Hab; eassumption].
    + intros (Ha & Hb & Hab). inversion Ha as [|? ? Hn Hd]; subst. constructor.
      * intros Hin. apply in_app_or in Hin. destruct Hin as [Hin|Hin]; [contradiction|].
        apply (Hab x); [now left|exact Hin].
      * apply IH. repeat split; [exact Hd|exact Hb|]. intros y Hy. apply Hab. now right.
Qed.

Lemma wl_NoDup_nth {A} (l : list A) d i j :
  NoDup l -> (i < length l)%nat -> (j < length l)%nat -> nth i l d = nth j l d -> i = j.
Proof. intros H Hi Hj E. now apply (proj1 (NoDup_nth l d) H). Qed.

Lemma wl_existsb_eqb (x : Z) l : existsb (Z.eqb x) l = true <-> In x l.
Proof.
  rewrite existsb_exists. split.
  - intros (y & Hy & E). apply Z.eqb_eq in E. now subst.
  - intros H. exists x. split; [exact H|apply Z.eqb_refl].
Qed.
Lemma wl_existsb_eqb_false (x : Z) l : existsb (Z.eqb x) l = false <-> ~ In x l.
Proof.
  rewrite <- wl_existsb_eqb. destruct (existsb (Z.eqb x) l); split; intros H; try easy.
Qed.

(* pigeonhole for block ids *)
Lemma wl_range_in (x : Z) (n : nat) : 0 <= x < Z.of_nat n -> In x (map Z.of_nat (seq 0 n)).
Proof.
  intros H. apply in_map_iff. exists (Z.to_nat x). split; [lia|]. apply in_seq. lia.
Qed.
Lemma wl_in_range (x : Z) (n : nat) : In x (map Z.of_nat (seq 0 n)) -> 0 <= x < Z.of_nat n.
Proof. intros H. apply in_map_iff in H. destruct H as (k & <- & Hk). apply in_seq in Hk. lia. Qed.
Lemma wl_pigeon (l : list Z) (n : nat) :
  NoDup l -> (forall x, In x l -> 0 <= x < Z.of_nat n) -> (length l <= n)%nat.
Proof.
  intros Hd Hr. assert (E : length (map Z.of_nat (seq 0 n)) = n) by (rewrite map_length; apply seq_length).
  rewrite <- E at 1. apply NoDup_incl_length; [exact Hd|]. intros x Hx. apply wl_range_in. now apply Hr.
Qed.

(* ---------- filter ---------- *)
Lemma wl_filter_partition {A} (p : A -> bool) l :
  (length (filter p l) + length (filter (fun x => negb (p x)) l) = length l)%nat.
Proof.
  induction l as [|x l IH]; [reflexivity|]. cbn [filter]. destruct (p x); cbn [negb length]; lia.
Qed.
Lemma wl_filter_ext_in {A} (p q : A -> bool) l :
  (forall x, In x l -> p x = q x) -> filter p l = filter q l.
Proof.
  induction l as [|x l IH]; intros H; [reflexivity|]. cbn [filter].
  rewrite (H x (or_introl eq_refl)), IH; [reflexivity|]. intros y Hy. apply H. now right.
Qed.
Lemma wl_filter_and {A} (p q : A -> bool) l :
  filter (fun x => p x && q x) l = filter q (filter p l).
Proof.
  induction l as [|x l IH]; [reflexivity|]. cbn [filter].
  destruct (p x); cbn [andb filter]; [destruct (q x); now rewrite IH|exact IH].
Qed.

(* the elements of [a] inside a duplicate-free [l]: as many as [a] has *)
Lemma wl_filter_mem_length (a l : list Z) :
  NoDup a -> NoDup l -> (forall x, In x a -> In x l) ->
  length (filter (fun x => existsb (Z.eqb x) a) l) = length a.
Proof.
  intros Ha Hl Hin. apply Nat.le_antisymm.
  - apply NoDup_incl_length; [now apply NoDup_filter|].
    intros x Hx. apply filter_In in Hx. now apply wl_existsb_eqb.
  - apply NoDup_incl_length; [exact Ha|].
    intros x Hx. apply filter_In. split; [now apply Hin|now apply wl_existsb_eqb].
Qed.

(* ---------- find ---------- *)
Lemma wl_find_split {A} (p : A -> bool) l x :
  find p l = Some x -> exists l1 l2, l = l1 ++ x :: l2 /\ forallb (fun y => negb (p y)) l1 = true /\ p x = true.
Proof.
  induction l as [|y l IH]; cbn [find]; [discriminate|].
  destruct (p y) eqn:E.
  - intros H; inversion H; subst. exists [], l. now repeat split.
  - intros H. destruct (IH H) as (l1 & l2 & -> & H1 & H2).
    exists (y :: l1), l2. repeat split; [|exact H2]. cbn [forallb]. now rewrite E, H1.
Qed.
Lemma wl_find_none {A} (p : A -> bool) l : find p l = None -> forallb (fun y => negb (p y)) l = true.
Proof.
  induction l as [|y l IH]; cbn [find forallb]; [reflexivity|].
  destruct (p y); [discriminate|]. exact IH.
Qed.

(* ---------- forallb / existsb ---------- *)
Lemma wl_forallb_impl {A} (p q : A -> bool) l :
  (forall x, In x l -> p x = true -> q x = true) -> forallb p l = true -> forallb q l = true.
Proof.
  intros H Hp. apply forallb_forall. intros x Hx. apply H; [exact Hx|].
  revert x Hx. now apply forallb_forall.
Qed.
Lemma wl_forallb_app {A} (p : A -> bool) a b : forallb p (a ++ b) = forallb p a && forallb p b.
Proof. apply forallb_app. Qed.
Lemma wl_forallb_repeat {A} (p : A -> bool) x n : p x = true -> forallb p (repeat x n) = true.
Proof. intros H. induction n as [|n IH]; [reflexivity|]. cbn [repeat forallb]. now rewrite H. Qed.
Lemma wl_forallb_firstn {A} (p : A -> bool) n l : forallb p l = true -> forallb p (firstn n l) = true.
Proof.
  intros H. apply forallb_forall. intros x Hx. apply wl_In_firstn in Hx. revert x Hx. now apply forallb_forall.
Qed.
Lemma wl_In_skipn {A} (x : A) n l : In x (skipn n l) -> In x l.
Proof.
  revert l; induction n as [|n IH]; intros l H; [exact H|].
  destruct l as [|y l]; [destruct H|]. right. now apply IH.
Qed.
Lemma wl_forallb_skipn {A} (p : A -> bool) n l : forallb p l = true -> forallb p (skipn n l) = true.
Proof.
  intros H. apply forallb_forall. intros x Hx. apply wl_In_skipn in Hx. revert x Hx. now apply forallb_forall.
Qed.
Lemma wl_forallb_nth {A} (p : A -> bool) l i d : forallb p l = true -> (i < length l)%nat -> p (nth i l d) = true.
Proof. intros H Hi. revert H. rewrite forallb_forall. intros H. apply H. now apply nth_In. Qed.

(* ---------- splice ---------- *)
Lemma wl_splice_length {A} (l v : list A) i n :
  length v = n -> (i + n <= length l)%nat -> length (splice i (i + n) v l) = length l.
Proof.
  intros Hv Hl. unfold splice. rewrite !app_length, firstn_length, skipn_length. lia.
Qed.
Lemma wl_nth_splice {A} (l v : list A) i n k d :
  length v = n -> (i + n <= length l)%nat ->
  nth k (splice i (i + n) v l) d =
  if ((i <=? k) && (k <? i + n))%nat then nth (k - i) v d else nth k l d.
Proof.
  intros Hv Hl. unfold splice. rewrite Nat.max_r by lia.
  rewrite wl_nth_app, firstn_length, Nat.min_l by lia.
  destruct (k <? i)%nat eqn:E1.
  - apply Nat.ltb_lt in E1. rewrite wl_nth_firstn by lia.
    destruct ((i <=? k) && (k <? i + n))%nat eqn:E2; [lia|reflexivity].
  - apply Nat.ltb_ge in E1. rewrite wl_nth_app, Hv.
    destruct (k - i <? n)%nat eqn:E3.
    + destruct ((i <=? k) && (k <? i + n))%nat eqn:E2; [reflexivity|lia].
    + apply Nat.ltb_ge in E3. rewrite wl_nth_skipn.
      destruct ((i <=? k) && (k <? i + n))%nat eqn:E2; [lia|]. f_equal. lia.
Qed.

Lemma wl_window_same {A} (l v : list A) i n :
  length v = n -> (i + n <= length l)%nat -> firstn n (skipn i (splice i (i + n) v l)) = v.
Proof.
  intros Hv Hl. unfold splice. rewrite wl_skipn_app_exact by (rewrite firstn_length; lia).
  now apply wl_firstn_app_exact.
Qed.
Lemma wl_window_other {A} (l v : list A) i n o m :
  length v = n -> (i + n <= length l)%nat -> (o + m <= i \/ i + n <= o)%nat ->
  firstn m (skipn o (splice i (i + n) v l)) = firstn m (skipn o l).
Proof.
  intros Hv Hl Ho.
  assert (Hd : forall d : A, firstn m (skipn o (splice i (i + n) v l)) = firstn m (skipn o l)).
  { intros d. apply (nth_ext _ _ d d).
    - rewrite !firstn_length, !skipn_length, wl_splice_length by assumption. reflexivity.
    - intros k Hk. rewrite firstn_length in Hk.
      rewrite !wl_nth_firstn by lia. rewrite !wl_nth_skipn, (wl_nth_splice l v i n) by assumption.
      destruct ((i <=? o + k) && (o + k <? i + n))%nat eqn:E; [lia|reflexivity]. }
  destruct l as [|d l]; [|exact (Hd d)].
  cbn [length] in Hl. assert (n = 0%nat) by lia. assert (i = 0%nat) by lia. subst n i.
  destruct v; [|discriminate]. reflexivity.
Qed.
