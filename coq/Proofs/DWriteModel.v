(* Proofs/DWriteModel.v — the three outcomes of write_file on a readable side, sector by sector. *)
From Coq Require Import ZArith List Bool Lia ZifyBool.
Require Import PyBase GenDisk DiskFacts DiskFactsWrite Disk ThomsonDos DiskDefs.
Require Import DWriteList DWriteLens DWriteSpec DWriteAlloc DWriteSlices DWriteData DWriteCat.
Import ListNotations.
Open Scope Z_scope.
Ltac Zify.zify_post_hook ::= Z.to_euclidean_division_equations.

Definition alloc_of (sd : side) (content : list Z) : list Z :=
  firstn (Z.to_nat (needed_blocks (zlen content))) (free_blocks (fat sd) 0).

Lemma wm_st_free_eq s : st_free s = true -> s = 255.
Proof. unfold st_free. lia. Qed.

Lemma wm_alloc_facts sd content : geom sd -> needed_blocks (zlen content) <= free_count sd ->
  NoDup (alloc_of sd content) /\
  (forall x, In x (alloc_of sd content) -> 0 <= x < 160 /\ st_free (fstatus (fat sd) x) = true) /\
  length (alloc_of sd content) = Z.to_nat (needed_blocks (zlen content)).
Proof.
  intros Hg Hn. unfold alloc_of. pose proof (wn_fat_length sd Hg) as Hl. split; [|split].
  - apply wl_NoDup_firstn, wa_free_blocks_nodup.
  - intros x Hx. apply wl_In_firstn, wa_free_in in Hx. unfold zlen in Hx. rewrite Hl in Hx. split; [lia|apply Hx].
  - rewrite firstn_length. pose proof (wa_free_blocks_count (fat sd) 0) as Hc.
    unfold free_count in Hn. unfold zlen in Hc. lia.
Qed.

Lemma wm_alloc_short sd content : free_count sd < needed_blocks (zlen content) ->
  zlen (alloc_of sd content) <? needed_blocks (zlen content) = true.
Proof.
  intros Hn. unfold alloc_of. pose proof (wa_free_blocks_count (fat sd) 0) as Hc. unfold free_count in Hn.
  unfold zlen in *. rewrite firstn_length. lia.
Qed.

Lemma wm_untouched_fs f alloc :
  st_reserved (fstatus f 40) = true -> st_reserved (fstatus f 41) = true ->
  (forall x, In x alloc -> 0 <= x < 160 /\ st_free (fstatus f x) = true) ->
  forall i, (320 <= i <= 335)%nat -> ~ touched alloc i.
Proof.
  intros H40 H41 Hal i Hi (b & j & Hb & Hj & E). destruct (Hal b Hb) as (Hr & Hf).
  assert (Hb' : b = 40 \/ b = 41) by lia.
  unfold st_free, st_reserved in *. destruct Hb' as [-> | ->]; lia.
Qed.

Lemma wm_table_sector_twice p b1 b2 : length p = 256%nat -> length b1 = 160%nat ->
  table_sector (table_sector p b1) b2 = table_sector p b2.
Proof.
  intros Hp Hb. unfold table_sector at 1 3. f_equal; [|f_equal].
  - unfold table_sector. apply wl_firstn_app_exact. rewrite firstn_length. lia.
  - unfold table_sector. rewrite app_assoc. apply wl_skipn_app_exact.
    rewrite app_length, firstn_length. lia.
Qed.

(* undoing the allocation *)
Lemma wm_fold_free d : forall (alloc bt : list Z), (forall x, In x alloc -> 0 <= x) ->
  let r := fold_left (fun bt b => set_status bt (Z.to_nat b) status_FREE) alloc bt in
  length r = length bt /\
  (forall k, ~ In (Z.of_nat k) alloc -> nth k r d = nth k bt d) /\
  (forall x, In x alloc -> 0 <= x < Z.of_nat (length bt) -> nth (Z.to_nat x) r d = 255).
Proof.
  induction alloc as [|a al IH]; intros bt Hpos; cbn [fold_left]; cbv zeta.
  - split; [reflexivity|]. split; [reflexivity|intros x []].
  - pose proof (Hpos a (or_introl eq_refl)) as Ha.
    destruct (IH (set_status bt (Z.to_nat a) status_FREE)) as (L & Hout & Hin); [intros x Hx; apply Hpos; now right|].
    cbv zeta in L, Hout, Hin.
    rewrite wn_set_status_length in L, Hin. split; [exact L|]. split.
    + intros k Hk. rewrite Hout by (intros Hx; apply Hk; now right).
      apply wn_set_status_other. intros E. apply Hk. left. lia.
    + intros x Hx Hr. destruct (in_dec Z.eq_dec x al) as [Hal|Hal]; [now apply Hin|].
      destruct Hx as [->|Hx]; [|contradiction].
      replace x with (Z.of_nat (Z.to_nat x)) in Hal by lia. rewrite Hout by exact Hal.
      apply wn_set_status_same. lia.
Qed.

Lemma wm_splice256 (rec cs : list Z) off : length rec = 32%nat -> length cs = 256%nat -> (off + 32 <= 256)%nat ->
  length (splice off (off + 32) rec cs) = 256%nat.
Proof. intros Hr Hc Ho. rewrite wl_splice_length; [exact Hc|exact Hr|lia]. Qed.

Lemma wm_find_ext_in {A} (p q : A -> bool) l : (forall x, In x l -> p x = q x) -> find p l = find q l.
Proof.
  induction l as [|x l IH]; intros H; [reflexivity|]. cbn [find].
  rewrite (H x (or_introl eq_refl)). destruct (q x); [reflexivity|]. apply IH. intros y Hy. apply H. now right.
Qed.

Lemma wm_has_free_slot_false sd :
  find (fun sl => negb (e_live (entry_at sd sl))) all_slots = None -> has_free_slot sd = false.
Proof.
  intros H. apply wl_find_none in H. unfold has_free_slot. rewrite wn_cat_entries_slots.
  destruct (existsb _ _) eqn:E; [|reflexivity].
  apply existsb_exists in E. destruct E as (e & He & Hl). apply in_map_iff in He. destruct He as (sl & <- & Hsl).
  rewrite forallb_forall in H. specialize (H _ Hsl). rewrite Hl in H. discriminate.
Qed.
Lemma wm_has_free_slot_true sd sl : In sl all_slots -> e_live (entry_at sd sl) = false -> has_free_slot sd = true.
Proof.
  intros Hsl Hl. unfold has_free_slot. rewrite wn_cat_entries_slots. apply existsb_exists.
  exists (entry_at sd sl). split; [now apply in_map|]. now rewrite Hl.
Qed.

(* what the table holds after a successful allocation *)
Definition table_after (f alloc : list Z) (u : Z) (bat1 : list Z) : Prop :=
  length bat1 = 160%nat /\
  (forall b, ~ In (Z.of_nat b) alloc -> nth b bat1 255 = nth b f 255) /\
  (forall i, (i < length alloc)%nat -> nth (Z.to_nat (nth i alloc 0)) bat1 255 = link alloc u i).

Definition outcome_refused_blocks (sd : side) (content : list Z) (res : side * res unit) : Prop :=
  free_count sd < needed_blocks (zlen content) /\ res = (sd, Err EValue).

Definition outcome_refused_slot (sd : side) (content : list Z) (res : side * res unit) : Prop :=
  needed_blocks (zlen content) <= free_count sd /\ has_free_slot sd = false /\
  snd res = Err EValue /\ geom (fst res) /\
  (forall i, ~ touched (alloc_of sd content) i -> nsec (fst res) i = nsec sd i).

Definition outcome_stored (sd : side) (content name ext : list Z) (kind dtype : Z) (res : side * res unit) : Prop :=
  let alloc := alloc_of sd content in
  let u := plan_lastblk (zlen content) in
  let lb := plan_lastsec (zlen content) in
  needed_blocks (zlen content) <= free_count sd /\ snd res = Ok tt /\ geom (fst res) /\
  exists bat1 l1 sl l2,
    table_after (fat sd) alloc u bat1 /\
    all_slots = l1 ++ sl :: l2 /\ forallb (fun x => e_live (entry_at sd x)) l1 = true /\ e_live (entry_at sd sl) = false /\
    nsec (fst res) 321 = table_sector (nsec sd 321) bat1 /\
    (forall x, In x all_slots -> x <> sl -> entry_at (fst res) x = entry_at sd x) /\
    entry_at (fst res) sl =
      record_bytes (pad_to 8 (upper_ascii name)) (pad_to 3 (upper_ascii ext)) kind (data_to_byte dtype) (nth 0 alloc 0) lb /\
    (forall i, ~ touched alloc i -> i <> 321%nat -> ~ (322 <= i <= 335)%nat -> nsec (fst res) i = nsec sd i) /\
    chain_content (fst res) alloc u lb = content.

Lemma wm_args name ext kind dtype content : write_args_ok name ext kind dtype content = true ->
  forallb printable_char name = true /\ forallb printable_char ext = true /\ 0 <= kind < 4 /\
  (dtype = 0 \/ dtype = 1) /\ bytesb content = true.
Proof.
  unfold write_args_ok. intros H.
  apply andb_prop in H. destruct H as (H & H6). apply andb_prop in H. destruct H as (H & H5).
  apply andb_prop in H. destruct H as (H & H4). apply andb_prop in H. destruct H as (H & H3).
  apply andb_prop in H. destruct H as (H1 & H2). repeat split; try assumption; lia.
Qed.

Lemma wm_cases sd content name ext kind dtype :
  tool_readable sd = true -> write_args_ok name ext kind dtype content = true ->
  let res := write_file sd content name ext kind dtype in
  outcome_refused_blocks sd content res \/ outcome_refused_slot sd content res \/
  outcome_stored sd content name ext kind dtype res.
Proof.
  intros Htr Hargs. cbv zeta.
  unfold tool_readable in Htr. apply andb_prop in Htr. destruct Htr as (Hread & Hslots).
  destruct (ws_fsck_read_elim sd Hread) as (Hsg & Hval & H40 & H41 & _).
  apply wn_geom_iff in Hsg. rename Hsg into Hg.
  destruct (wm_args _ _ _ _ _ Hargs) as (Hname & Hext & Hkind & Hdt & Hcb).
  rewrite (wa_write_file sd (fat sd)) by (now apply wn_bat_get_ok).
  pose proof (wl_zlen_nonneg content) as Hlen0.
  destruct (wa_plan_facts (zlen content) Hlen0) as (P1 & P2 & P3 & P4 & P5 & _).
  unfold wf_core. cbv zeta. fold (alloc_of sd content).
  destruct (Z.lt_ge_cases (free_count sd) (needed_blocks (zlen content))) as [Hshort|Henough].
  { left. split; [exact Hshort|]. now rewrite wm_alloc_short. }
  right.
  destruct (wm_alloc_facts sd content Hg Henough) as (Hnd & Hal & Hlen).
  set (alloc := alloc_of sd content) in *.
  assert (Hz : zlen alloc <? needed_blocks (zlen content) = false) by (unfold zlen at 1; lia).
  rewrite Hz.
  assert (Hr : forall x, In x alloc -> 0 <= x < 160) by (intros x Hx; apply Hal; exact Hx).
  destruct (wd_result sd (fat sd) content alloc Hg Hcb (wn_fat_length sd Hg) Hnd Hr Hlen)
    as (sd1 & bat1 & -> & G1 & Hout1 & Hcc1 & L1 & Bout & Bin).
  pose proof (wm_untouched_fs (fat sd) alloc H40 H41 Hal) as Hfs.
  assert (E321 : nsec sd1 321 = nsec sd 321) by (apply Hout1, Hfs; lia).
  pose proof Hg as (Hlsd & Hsecs). destruct (Hsecs 321%nat ltac:(lia)) as (Hp256 & Hpb).
  pose proof G1 as (Hl1 & Hsecs1).
  rewrite (wn_bat_set sd1 bat1) by (rewrite ?E321; assumption). rewrite E321.
  set (p := nsec sd 321) in *.
  assert (Hbat1b : bytesb bat1 = true).
  { unfold bytesb. apply forallb_forall. intros x Hx. destruct (In_nth _ _ 255 Hx) as (k & Hk & <-).
    apply wn_byteb_iff. destruct (in_dec Z.eq_dec (Z.of_nat k) alloc) as [Hin|Hnin].
    - destruct (In_nth _ _ 0 Hin) as (i & Hi & Ei).
      replace k with (Z.to_nat (nth i alloc 0)) by lia. rewrite Bin by exact Hi. unfold link.
      destruct (Z.of_nat (length alloc) - 1 <=? Z.of_nat i) eqn:E; [lia|].
      assert (Hi' : (S i < length alloc)%nat) by lia. pose proof (Hr _ (nth_In alloc 0 Hi')). lia.
    - rewrite Bout by exact Hnin. pose proof (wn_fat_bytes sd Hg) as Hfb. unfold bytesb in Hfb.
      apply wn_byteb_iff. apply wl_forallb_nth; [exact Hfb|]. rewrite (wn_fat_length sd Hg). lia. }
  set (sd2 := set_sec sd1 321 (table_sector p bat1)).
  assert (G2 : geom sd2).
  { apply wn_set_sec_geom; [exact G1|]. apply wn_table_sector_ok; [now split|exact L1|exact Hbat1b]. }
  assert (E2_321 : nsec sd2 321 = table_sector p bat1) by (apply wn_nsec_set_same; lia).
  assert (E2_other : forall i, i <> 321%nat -> nsec sd2 i = nsec sd1 i) by (intros i Hi; apply wn_nsec_set_other; lia).
  assert (Hne : (1 <= length alloc)%nat) by lia.
  rewrite (nth_error_nth' alloc 0) by lia.
  rewrite wc_new_record by assumption.
  set (rec := record_bytes _ _ _ _ _ _).
  assert (Hent : forall sl, In sl all_slots -> entry_at sd2 sl = entry_at sd sl).
  { intros sl Hsl. destruct (wn_slot_ok sl Hsl) as (Hs & _). unfold entry_at.
    rewrite E2_other by lia. rewrite Hout1 by (apply Hfs; lia). reflexivity. }
  rewrite (wc_find_slot sd2 bat1 G2 L1 all_slots) by
    (try (intros sl Hsl; exact Hsl); intros sl Hsl; rewrite Hent by exact Hsl; now apply wc_slots_in_table).
  rewrite (wm_find_ext_in _ (fun sl => negb (e_live (entry_at sd sl)))) by (intros sl Hsl; now rewrite Hent).
  destruct (find (fun sl => negb (e_live (entry_at sd sl))) all_slots) as [(s, off)|] eqn:Efind.
  - (* stored *)
    right. destruct (wl_find_split _ _ _ Efind) as (l1 & l2 & Hsplit & Hlive1 & Hsl).
    apply negb_true_iff in Hsl.
    assert (Hin : In (s, off) all_slots) by (rewrite Hsplit; apply in_or_app; right; now left).
    destruct (wn_slot_ok _ Hin) as (Hs & Hoff & _). cbn [fst snd] in Hs, Hoff.
    rewrite wn_get_sec, wn_entry_size.
    assert (Hrec : length rec = 32%nat).
    { apply (wc_record_views _ _ kind (data_to_byte dtype) (nth 0 alloc 0) (plan_lastsec (zlen content)));
        apply wc_pad_to_length. }
    destruct (proj2 G2 s ltac:(lia)) as (Hcs & Hcsb).
    rewrite wn_set_payload_full by (try exact Hcs; now apply wm_splice256).
    set (sd3 := set_sec sd2 s (splice off (off + 32) rec (nsec sd2 s))).
    assert (Hrecb : bytesb rec = true).
    { unfold rec, record_bytes. rewrite !wn_bytesb_app.
      assert (Hp : forall l, forallb printable_char l = true -> bytesb l = true).
      { intros l. apply wl_forallb_impl. intros x _. unfold printable_char, byteb. lia. }
      rewrite !Hp by (apply wc_pad_to_printable; now apply wc_upper_ascii_printable).
      assert (Hfirst : 0 <= nth 0 alloc 0 < 160) by (apply Hr, nth_In; lia).
      assert (Hdb : 0 <= data_to_byte dtype < 256) by (rewrite gw_data_to_byte; destruct (dtype =? 0); lia).
      assert (Hff : bytesb (repeat 255 16) = true) by (apply wl_forallb_repeat; reflexivity).
      rewrite Hff. unfold bytesb. cbn [forallb]. unfold byteb. lia. }
    assert (G3 : geom sd3).
    { apply wn_set_sec_geom; [exact G2|]. split.
      - now apply wm_splice256.
      - unfold splice, bytesb in *. rewrite !forallb_app, Hrecb.
        now rewrite wl_forallb_firstn, wl_forallb_skipn. }
    unfold outcome_stored. cbv zeta. cbn [fst snd]. fold alloc. fold sd3.
    split; [exact Henough|]. split; [reflexivity|]. split; [exact G3|].
    exists bat1, l1, (s, off), l2.
    assert (E3_other : forall i, i <> s -> nsec sd3 i = nsec sd2 i) by (intros i Hi; apply wn_nsec_set_other; lia).
    split; [repeat split; assumption|]. split; [exact Hsplit|]. split.
    { revert Hlive1. apply wl_forallb_impl. intros x _ Hx. now rewrite negb_involutive in Hx. }
    split; [exact Hsl|]. split; [rewrite E3_other by lia; exact E2_321|]. split.
    { intros x Hx Hne'. unfold sd3. rewrite wn_entry_at_write_other by assumption. now apply Hent. }
    split; [unfold sd3; now apply wn_entry_at_write_same|]. split.
    { intros i Ht H1 H2. rewrite E3_other by lia. rewrite E2_other by exact H1. now apply Hout1. }
    etransitivity; [|exact Hcc1]. apply ws_chain_content_ext; [exact P3|].
    intros b j Hb Hj. pose proof (Hr b Hb) as Hbr.
    assert (Ht : touched alloc (Z.to_nat b * 8 + j)).
    { exists b, (Z.of_nat j). split; [exact Hb|]. split; lia. }
    assert (Hnfs : ~ (320 <= Z.to_nat b * 8 + j <= 335)%nat) by (intros Hx; exact (Hfs _ Hx Ht)).
    rewrite E3_other by lia. apply E2_other. lia.
  - (* no free slot: the allocation is undone *)
    left. unfold outcome_refused_slot. cbn [fst snd].
    split; [exact Henough|]. split; [now apply wm_has_free_slot_false|]. split; [reflexivity|].
    destruct (wm_fold_free 255 alloc bat1) as (L2 & Fout & Fin); [intros x Hx; specialize (Hr x Hx); lia|].
    cbv zeta in L2, Fout, Fin.
    set (bat2 := fold_left (fun bt b => set_status bt (Z.to_nat b) status_FREE) alloc bat1) in *.
    assert (Ebat2 : bat2 = fat sd).
    { apply (nth_ext _ _ 255 255); [rewrite L2, L1; symmetry; now apply wn_fat_length|].
      intros k Hk. rewrite L2, L1 in Hk.
      destruct (in_dec Z.eq_dec (Z.of_nat k) alloc) as [Hin|Hnin].
      - destruct (Hal _ Hin) as (_ & Hf). apply wm_st_free_eq in Hf. unfold fstatus in Hf.
        rewrite Nat2Z.id in Hf. rewrite Hf.
        specialize (Fin _ Hin ltac:(lia)). now rewrite Nat2Z.id in Fin.
      - rewrite Fout by exact Hnin. now apply Bout. }
    rewrite (wn_bat_set sd2 bat2) by (rewrite ?E2_321; first [apply wn_table_sector_length; assumption|lia]).
    rewrite E2_321, wm_table_sector_twice by assumption. rewrite Ebat2.
    assert (Eid : table_sector p (fat sd) = p).
    { unfold fat. rewrite wn_fat_sector. fold p. now apply wn_table_sector_id. }
    rewrite Eid. split.
    + apply wn_set_sec_geom; [exact G2|]. now split.
    + intros i Hi. destruct (Nat.eq_dec i 321) as [->|Hne'].
      * rewrite wn_nsec_set_same; [reflexivity|]. unfold sd2. rewrite wn_set_sec_length. lia.
      * rewrite wn_nsec_set_other by lia. rewrite E2_other by exact Hne'. now apply Hout1.
Qed.
