(* Proofs/DWriteSpec.v — facts about the Spec decoder (ThomsonDos.v) alone: chains, files, checks. *)
From Coq Require Import ZArith List Bool Lia ZifyBool.
Require Import PyBase ThomsonDos DWriteList.
Import ListNotations.
Open Scope Z_scope.
Ltac Zify.zify_post_hook ::= Z.to_euclidean_division_equations.

(* ---------- no_dup ---------- *)
Lemma ws_no_dup_iff l : no_dup l = true <-> NoDup l.
Proof.
  induction l as [|x l IH]; cbn [no_dup].
  - split; [constructor|reflexivity].
  - rewrite andb_true_iff, negb_true_iff, wl_existsb_eqb_false, IH. split.
    + intros (H1 & H2). now constructor.
    + intros H. inversion H; subst. now split.
Qed.

(* ---------- statuses ---------- *)
Definition used_st (s : Z) : bool := st_next s || st_last s.
Lemma ws_used_not_free s : used_st s = true -> st_free s = false /\ st_reserved s = false.
Proof. unfold used_st, st_next, st_last, st_free, st_reserved. lia. Qed.
Lemma ws_valid_cases s : st_valid s = true -> used_st s = true \/ st_reserved s = true \/ st_free s = true.
Proof. unfold st_valid, used_st. destruct (st_next s), (st_last s), (st_reserved s), (st_free s); cbn; auto. Qed.

(* ---------- chain ---------- *)
Definition in_used (f : list Z) (x : Z) : Prop := 0 <= x < 160 /\ used_st (fstatus f x) = true.

Lemma ws_chain_shape fuel f : forall b seen bs u, chain fuel f b seen = Some (bs, u) ->
  exists tl, bs = rev seen ++ tl /\ 1 <= u <= 8 /\ Forall (in_used f) tl.
Proof.
  induction fuel as [|fuel IH]; intros b seen bs u H; [discriminate|].
  cbn [chain] in H. cbv zeta in H.
  destruct (negb ((0 <=? b) && (b <? 160)) || existsb (Z.eqb b) seen) eqn:Ec; [discriminate|].
  apply orb_false_iff in Ec. destruct Ec as (Ec1 & Ec2). apply negb_false_iff in Ec1.
  destruct (st_last (fstatus f b)) eqn:El.
  - inversion H; subst. exists [b]. repeat split.
    + unfold st_last in El. lia.
    + unfold st_last in El. lia.
    + constructor; [|constructor]. split; [lia|]. unfold used_st. rewrite El. apply orb_true_r.
  - destruct (st_next (fstatus f b)) eqn:En; [|discriminate].
    destruct (IH _ _ _ _ H) as (tl & -> & Hu & Htl). exists (b :: tl). repeat split.
    + cbn [rev]. now rewrite <- app_assoc.
    + lia.
    + lia.
    + constructor; [|exact Htl]. split; [lia|]. unfold used_st. now rewrite En.
Qed.

Lemma ws_chain_stable fuel f f' :
  (forall b, 0 <= b < 160 -> used_st (fstatus f b) = true -> fstatus f' b = fstatus f b) ->
  forall b seen r, chain fuel f b seen = Some r -> chain fuel f' b seen = Some r.
Proof.
  intros Hag. induction fuel as [|fuel IH]; intros b seen r H; [discriminate|].
  cbn [chain] in *. cbv zeta in *.
  destruct (negb ((0 <=? b) && (b <? 160)) || existsb (Z.eqb b) seen) eqn:Ec; [discriminate|].
  apply orb_false_iff in Ec. destruct Ec as (Ec1 & Ec2). apply negb_false_iff in Ec1.
  destruct (st_last (fstatus f b)) eqn:El.
  - rewrite Hag by (try lia; unfold used_st; rewrite El; apply orb_true_r). now rewrite El.
  - destruct (st_next (fstatus f b)) eqn:En; [|discriminate].
    rewrite Hag by (try lia; unfold used_st; now rewrite En). rewrite El, En. now apply IH.
Qed.

Lemma ws_chain_alloc f alloc u :
  NoDup alloc -> (forall x, In x alloc -> 0 <= x < 160) -> 1 <= u <= 8 ->
  (forall i, (S i < length alloc)%nat -> fstatus f (nth i alloc 0) = nth (S i) alloc 0) ->
  fstatus f (nth (length alloc - 1) alloc 0) = 192 + u ->
  forall m i fuel, (i + m = length alloc)%nat -> (1 <= m)%nat -> (m <= fuel)%nat ->
  chain fuel f (nth i alloc 0) (rev (firstn i alloc)) = Some (alloc, u).
Proof.
  intros Hnd Hr Hu Hlink Hlast. induction m as [|m IH]; intros i fuel Him Hm Hf; [lia|].
  destruct fuel as [|fuel]; [lia|]. cbn [chain]. cbv zeta.
  assert (Hi : (i < length alloc)%nat) by lia.
  assert (Hin : In (nth i alloc 0) alloc) by now apply nth_In.
  pose proof (Hr _ Hin) as Hb.
  assert (Hseen : existsb (Z.eqb (nth i alloc 0)) (rev (firstn i alloc)) = false).
  { apply wl_existsb_eqb_false. intros Hx. apply in_rev in Hx.
    destruct (In_nth _ _ 0 Hx) as (j & Hj & Ej). rewrite firstn_length in Hj.
    rewrite wl_nth_firstn in Ej by lia.
    assert (j = i) by (apply (wl_NoDup_nth alloc 0); [exact Hnd|lia|lia|exact Ej]). lia. }
  rewrite Hseen.
  destruct (negb ((0 <=? nth i alloc 0) && (nth i alloc 0 <? 160))) eqn:Eb; [lia|]. cbn [orb].
  destruct (Nat.eq_dec m 0) as [->|Hm0].
  - assert (Ei : i = (length alloc - 1)%nat) by lia.
    assert (Hst : fstatus f (nth i alloc 0) = 192 + u) by (rewrite Ei; exact Hlast). rewrite Hst.
    assert (El : st_last (192 + u) = true) by (unfold st_last; lia). rewrite El.
    f_equal. f_equal; [|lia]. cbn [rev]. rewrite rev_involutive.
    rewrite <- (wl_firstn_S alloc i 0) by lia. apply firstn_all2. lia.
  - rewrite Hlink by lia.
    assert (Hin' : In (nth (S i) alloc 0) alloc) by (apply nth_In; lia).
    pose proof (Hr _ Hin') as Hb'.
    assert (El : st_last (nth (S i) alloc 0) = false) by (unfold st_last; lia).
    assert (En : st_next (nth (S i) alloc 0) = true) by (unfold st_next; lia).
    rewrite El, En.
    replace (nth i alloc 0 :: rev (firstn i alloc)) with (rev (firstn (S i) alloc)).
    + apply IH; lia.
    + rewrite (wl_firstn_S alloc i 0) by lia. rewrite rev_app_distr. reflexivity.
Qed.

(* ---------- content ---------- *)
Lemma ws_block_sectors_ext sd sd' b n :
  (forall j, (j < n)%nat -> nsec sd' (Z.to_nat b * 8 + j) = nsec sd (Z.to_nat b * 8 + j)) ->
  block_sectors sd' b n = block_sectors sd b n.
Proof.
  intros H. unfold block_sectors. rewrite !flat_map_concat_map. f_equal. apply map_ext_in.
  intros j Hj. apply in_seq in Hj. now rewrite H by lia.
Qed.

Lemma ws_chain_content_ext sd sd' bs u lb : 1 <= u <= 8 ->
  (forall b j, In b bs -> (j < 8)%nat -> nsec sd' (Z.to_nat b * 8 + j) = nsec sd (Z.to_nat b * 8 + j)) ->
  chain_content sd' bs u lb = chain_content sd bs u lb.
Proof.
  intros Hu. induction bs as [|b r IH]; intros H; [reflexivity|].
  destruct r as [|b' r'].
  - cbn [chain_content]. rewrite (ws_block_sectors_ext sd sd') by (intros j Hj; apply H; [now left|lia]).
    now rewrite H by (try (now left); lia).
  - change (chain_content sd' (b :: b' :: r') u lb) with (block_sectors sd' b 8 ++ chain_content sd' (b' :: r') u lb).
    change (chain_content sd (b :: b' :: r') u lb) with (block_sectors sd b 8 ++ chain_content sd (b' :: r') u lb).
    rewrite (ws_block_sectors_ext sd sd') by (intros j Hj; apply H; [now left|lia]).
    rewrite IH; [reflexivity|]. intros x j Hx Hj. apply H; [now right|exact Hj].
Qed.

(* ---------- files ---------- *)
Definition fat_agree (f f' : list Z) : Prop :=
  forall b, 0 <= b < 160 -> used_st (fstatus f b) = true -> fstatus f' b = fstatus f b.
Definition data_agree (f : list Z) (sd sd' : dside) : Prop :=
  forall b j, 0 <= b < 160 -> used_st (fstatus f b) = true -> (j < 8)%nat ->
    nsec sd' (Z.to_nat b * 8 + j) = nsec sd (Z.to_nat b * 8 + j).

Lemma ws_foe_app sd f a b :
  files_of_entries sd f (a ++ b) =
  match files_of_entries sd f a, files_of_entries sd f b with Some x, Some y => Some (x ++ y) | _, _ => None end.
Proof.
  induction a as [|e a IH]; cbn [app files_of_entries].
  - destruct (files_of_entries sd f b); reflexivity.
  - destruct (e_live e); [|exact IH]. rewrite IH.
    destruct (file_chain f e) as [[bs u]|]; [|reflexivity].
    destruct (files_of_entries sd f a); [|reflexivity].
    destruct (files_of_entries sd f b); reflexivity.
Qed.

Lemma ws_foe_stable sd sd' f f' : fat_agree f f' -> data_agree f sd sd' ->
  forall es fs, files_of_entries sd f es = Some fs -> files_of_entries sd' f' es = Some fs.
Proof.
  intros Hf Hd. induction es as [|e es IH]; intros fs H; [exact H|].
  cbn [files_of_entries] in *. destruct (e_live e); [|now apply IH].
  destruct (file_chain f e) as [[bs u]|] eqn:Ec; [|discriminate].
  destruct (files_of_entries sd f es) as [fs0|] eqn:Ef; [|discriminate].
  unfold file_chain in *. rewrite (ws_chain_stable _ f f' Hf _ _ _ Ec). rewrite (IH _ eq_refl).
  destruct (ws_chain_shape _ _ _ _ _ _ Ec) as (tl & Hbs & Hu & Htl). cbn [rev app] in Hbs. subst bs.
  rewrite (ws_chain_content_ext sd sd'); [exact H|exact Hu|].
  intros b j Hb Hj. rewrite Forall_forall in Htl. destruct (Htl _ Hb) as (Hr & Hus). now apply Hd.
Qed.

Lemma ws_foe_blocks_used sd f : forall es fs, files_of_entries sd f es = Some fs ->
  Forall (in_used f) (flat_map d_blocks fs).
Proof.
  induction es as [|e es IH]; intros fs H; cbn [files_of_entries] in H.
  - inversion H. constructor.
  - destruct (e_live e); [|now apply IH].
    destruct (file_chain f e) as [[bs u]|] eqn:Ec; [|discriminate].
    destruct (files_of_entries sd f es) as [fs0|] eqn:Ef; [|discriminate].
    inversion H; subst. cbn [flat_map d_blocks]. apply Forall_app. split; [|now apply IH].
    destruct (ws_chain_shape _ _ _ _ _ _ Ec) as (tl & Hbs & Hu & Htl). cbn [rev app] in Hbs. now subst.
Qed.

Lemma ws_foe_not_live sd f es : forallb (fun e => negb (e_live e)) es = true -> files_of_entries sd f es = Some [].
Proof.
  induction es as [|e es IH]; cbn [forallb files_of_entries]; [reflexivity|].
  intros H. apply andb_prop in H. destruct H as (H1 & H2). apply negb_true_iff in H1. rewrite H1. now apply IH.
Qed.

Lemma ws_foe_live_all sd f es fs : forallb e_live es = true -> files_of_entries sd f es = Some fs ->
  length fs = length es.
Proof.
  revert fs; induction es as [|e es IH]; intros fs Hl H; cbn [files_of_entries forallb] in *.
  - now inversion H.
  - apply andb_prop in Hl. destruct Hl as (H1 & H2). rewrite H1 in H.
    destruct (file_chain f e) as [[bs u]|]; [|discriminate].
    destruct (files_of_entries sd f es) as [fs0|]; [|discriminate].
    inversion H; subst. cbn [length]. f_equal. now apply IH.
Qed.

(* ---------- the checks, split ---------- *)
Lemma ws_fsck_read_intro sd fs :
  side_geometry sd = true -> forallb st_valid (fat sd) = true ->
  st_reserved (fstatus (fat sd) 40) = true -> st_reserved (fstatus (fat sd) 41) = true ->
  dos_files sd = Some fs -> no_dup (flat_map d_blocks fs) = true ->
  forallb (fun e => negb (e_live e) || (e_lastbytes e <=? 255)) (cat_entries sd) = true ->
  fsck_read sd = true.
Proof. intros H1 H2 H3 H4 H5 H6 H7. unfold fsck_read. now rewrite H1, H2, H3, H4, H5, H6, H7. Qed.

Lemma ws_fsck_read_elim sd : fsck_read sd = true ->
  side_geometry sd = true /\ forallb st_valid (fat sd) = true /\
  st_reserved (fstatus (fat sd) 40) = true /\ st_reserved (fstatus (fat sd) 41) = true /\
  exists fs, dos_files sd = Some fs /\ no_dup (flat_map d_blocks fs) = true /\
  forallb (fun e => negb (e_live e) || (e_lastbytes e <=? 255)) (cat_entries sd) = true.
Proof.
  unfold fsck_read. intros H. destruct (dos_files sd) as [fs|]; [|now rewrite andb_false_r in H].
  apply andb_prop in H. destruct H as (H & H5). apply andb_prop in H. destruct H as (H & H4).
  apply andb_prop in H. destruct H as (H & H3). apply andb_prop in H. destruct H as (H1 & H2).
  apply andb_prop in H5. destruct H5 as (H5 & H6).
  repeat split; try assumption. exists fs. now repeat split.
Qed.

Lemma ws_fsck_strict_intro sd fs :
  fsck_read sd = true -> nth 0 (nsec sd fat_sector) 255 = 0 -> dos_files sd = Some fs ->
  same_set (used_blocks (fat sd)) (flat_map d_blocks fs) = true ->
  forallb (fun e => negb (e_live e) || forallb (fun c => c =? 255) (skipn 16 e)) (cat_entries sd) = true ->
  fsck_strict sd = true.
Proof. intros H1 H2 H3 H4 H5. unfold fsck_strict. rewrite H1, H2, H3, H4, H5. reflexivity. Qed.

Lemma ws_fsck_strict_elim sd : fsck_strict sd = true ->
  fsck_read sd = true /\ nth 0 (nsec sd fat_sector) 255 = 0 /\
  (forall fs, dos_files sd = Some fs -> same_set (used_blocks (fat sd)) (flat_map d_blocks fs) = true) /\
  forallb (fun e => negb (e_live e) || forallb (fun c => c =? 255) (skipn 16 e)) (cat_entries sd) = true.
Proof.
  unfold fsck_strict. intros H.
  apply andb_prop in H. destruct H as (H & H4). apply andb_prop in H. destruct H as (H & H3).
  apply andb_prop in H. destruct H as (H1 & H2). apply Z.eqb_eq in H2.
  repeat split; try assumption. intros fs Hfs. now rewrite Hfs in H3.
Qed.

(* ---------- same_set / used_blocks as membership ---------- *)
Lemma ws_same_set_iff a b : same_set a b = true <-> (forall x, In x a <-> In x b).
Proof.
  unfold same_set. rewrite andb_true_iff, !forallb_forall. split.
  - intros (H1 & H2) x. split; intros Hx; [apply wl_existsb_eqb, H1, Hx|apply wl_existsb_eqb, H2, Hx].
  - intros H. split; intros x Hx; apply wl_existsb_eqb; now apply H.
Qed.
Lemma ws_used_blocks_iff f x :
  In x (used_blocks f) <-> 0 <= x < 160 /\ st_free (fstatus f x) = false /\ st_reserved (fstatus f x) = false.
Proof.
  unfold used_blocks. rewrite filter_In, andb_true_iff, !negb_true_iff. split.
  - intros (H1 & H2). apply wl_in_range in H1. split; [lia|exact H2].
  - intros (H1 & H2). split; [apply wl_range_in; lia|exact H2].
Qed.
