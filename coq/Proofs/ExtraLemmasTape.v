(* Proofs/ExtraLemmasTape.v — helper lemmas for the tape half of Proofs/ExtraProofs.v:
   what the listener counts and prints while create writes (independent of the tape contents). *)
From Coq Require Import ZArith List Bool Lia ZifyBool.
Require Import PyBase GenTape TapeFacts Tape K7 PyFacts TapeLemmas1 TapeLemmas2 TapeLemmasW TapeLemmasC TapeLemmasR TapeProofs.
Import ListNotations.
Open Scope Z_scope.
Ltac Zify.zify_post_hook ::= Z.to_euclidean_division_equations.

(* ---------- data blocks: the listener counts blocks and bytes ---------- *)
Lemma write_data_lst fuel : forall (rem pre : list Z) t s t' s' bc fsz fb,
  (length rem < fuel)%nat -> ls_counts s = Some (bc, fsz, fb) ->
  write_data fuel t s (pre ++ rem) (zlen pre) = Ok (t', s') ->
  s' = mkLst (ls_idx s + zlen (chunks_of fuel 254 rem)) (ls_cur s)
             (Some (bc + zlen (chunks_of fuel 254 rem), fsz + zlen rem, fb)).
Proof.
  induction fuel as [|fuel IH]; intros rem pre t s t' s' bc fsz fb Hf Hcnt; [lia|].
  cbn [write_data chunks_of]. destruct rem as [|x r].
  - rewrite app_nil_r, Z.ltb_irrefl. intros H. inversion H; subst t' s'.
    destruct s as [idx cur cnt]. cbn [ls_idx ls_cur ls_counts] in *. subst cnt.
    rewrite !zlen_nil, !Z.add_0_r. reflexivity.
  - set (rem := x :: r) in *.
    assert (Hlt : zlen pre <? zlen (pre ++ rem) = true).
    { rewrite zlen_app. unfold rem. rewrite zlen_cons. pose proof (zlen_nonneg r). lia. }
    rewrite Hlt. destruct (next_chunk pre rem) as [Hn Hc]. rewrite Hc, Hn.
    set (c := firstn 254 rem) in *.
    change block_type_DATA with 1. rewrite build_block_some.
    destruct (write_block t (k7_body 1 c)) as [t1|e]; cbn [bind]; [|discriminate].
    unfold on_data at 1. rewrite Hcnt. cbn [bind]. rewrite block_body_k7.
    set (s1 := mkLst (ls_idx s + 1) (ls_cur s) (Some (bc + 1, fsz + zlen c, fb))).
    assert (Hdata : pre ++ rem = (pre ++ c) ++ skipn 254 rem).
    { rewrite <- app_assoc. unfold c. now rewrite firstn_skipn. }
    rewrite Hdata.
    assert (Hf' : (length (skipn 254 rem) < fuel)%nat).
    { rewrite skipn_length. unfold rem in *. cbn [length] in *. lia. }
    intros H.
    rewrite (IH (skipn 254 rem) (pre ++ c) t1 s1 t' s' (bc + 1) (fsz + zlen c) fb Hf' eq_refl H).
    unfold s1. cbn [ls_idx ls_cur].
    assert (Hsplit : zlen rem = zlen c + zlen (skipn 254 rem)).
    { rewrite <- zlen_app. unfold c. now rewrite firstn_skipn. }
    rewrite zlen_cons. f_equal; [lia|]. f_equal. rewrite Hsplit. f_equal. f_equal; lia.
Qed.

(* ---------- one source ---------- *)
Lemma inject_one_line v fs t s src content t' s' line :
  fs_read fs (doc_path src) = Some content ->
  inject_one v fs t s src = Ok (t', s', line) ->
  line = render_entry v (fst (source_fields src)) (zlen (k_chunks (doc_entry src content)))
                      (zlen content) (ls_idx s + 1) /\
  ls_idx s' = ls_idx s + 2 + zlen (k_chunks (doc_entry src content)).
Proof.
  intros Hread. destruct (source_fields_spec src content) as (_ & Hpath & Hch).
  unfold inject_one. destruct (source_fields src) as [d path]. cbn [fst snd] in *. subst path.
  destruct (write_block t (leader_block d)) as [t1|e]; cbn [bind]; [|discriminate].
  rewrite Hread.
  destruct (write_data (S (length content)) t1 (on_begin s d) content 0) as [[t2 s2]|e] eqn:Ewd;
    cbn [bind]; [|discriminate].
  pose proof (write_data_lst (S (length content)) content [] t1 (on_begin s d) t2 s2 0 0 (ls_idx s + 1)
                (Nat.lt_succ_diag_r _) eq_refl Ewd) as Hs2.
  rewrite <- Hch in Hs2. cbn [on_begin ls_idx ls_cur] in Hs2.
  destruct (write_block t2 (build_block block_type_EOF None)) as [t3|e]; cbn [bind]; [|discriminate].
  subst s2. unfold on_end. cbn [ls_cur ls_counts ls_idx bind].
  rewrite !Z.add_0_l. intros H. inversion H; subst t' s' line. cbn [ls_idx]. split; [reflexivity|lia].
Qed.

(* ---------- the catalogue fields of an 8.3 source are the stripped fields of its entry ---------- *)
Lemma source_fields_doc src name ext0 ext kind mode :
  doc_split src = (name, ext0) -> doc_kind_mode ext0 = (ext, kind, mode) -> zlen name <= 8 ->
  fst (source_fields src) = mkLeader name ext kind mode.
Proof.
  unfold source_fields, doc_split. destruct (rfind_char 46 (basename src)) as [dot|].
  - set (u := upper_ascii (firstn dot (basename src))).
    set (e := upper_ascii (skipn (S dot) (basename src))).
    intros Hs Hk Hn. assert (Hu : name = u) by congruence. assert (He : ext0 = e) by congruence.
    subst name ext0. clear Hs.
    rewrite inj_name_limit_is. destruct (8 <? zlen u) eqn:E; [lia|].
    rewrite inj_dispatch_is. unfold doc_kind_mode in Hk.
    destruct (zeqb_list e [66;65;83;44;65]);
      [|destruct (zeqb_list e [66;65;83]); [|destruct (zeqb_list e [67;83;86])]];
      cbn [fst]; congruence.
  - intros Hs Hk Hn. assert (Hu : name = upper_ascii (basename src)) by congruence.
    assert (He : ext0 = []) by congruence. subst name ext0. clear Hs.
    unfold doc_kind_mode in Hk. cbn [zeqb_list] in Hk. cbn [fst].
    destruct inj_defaults_are as [-> ->]. congruence.
Qed.

Lemma source_leader fs src : src_readable fs src = true -> src_83 src = true ->
  fst (source_fields src) = k7_leader (src_entry fs src).
Proof.
  intros Hr H83. destruct (src_readable_read _ _ Hr) as (c & _ & _ & He & _ & Hb).
  destruct (doc_fields src Hb) as (name & ext0 & ext & kind & mode & Hs & Hk & Hn & Hx & _ & _).
  unfold src_83 in H83. rewrite Hs, Hk in H83.
  rewrite (source_fields_doc src name ext0 ext kind mode Hs Hk) by lia.
  rewrite He. unfold doc_entry. rewrite Hs, Hk. unfold k7_leader. cbn [k_name k_ext k_kind k_mode].
  assert (Hln : (length name <= 8)%nat) by (unfold zlen in H83; lia).
  assert (Hlx : (length ext <= 3)%nat) by (unfold zlen in H83; lia).
  rewrite !strip_pad_field by assumption. reflexivity.
Qed.

(* ---------- all sources ---------- *)
Lemma inject_loop_lines v fs : forall srcs t s acc ls t',
  forallb (src_readable fs) srcs = true -> forallb src_83 srcs = true ->
  inject_loop v fs t s srcs acc = (ls, Ok t') ->
  ls = rev acc ++ map (k7_line v) (k7_positions (ls_idx s) (entries fs srcs)).
Proof.
  induction srcs as [|src rest IH]; intros t s acc ls t' Hr H83; cbn [inject_loop].
  - intros H. inversion H; subst. cbn [entries map k7_positions]. now rewrite app_nil_r.
  - cbn [forallb] in Hr, H83. apply andb_prop in Hr. apply andb_prop in H83.
    destruct Hr as [Hr1 Hr2], H83 as [H1 H2].
    destruct (inject_one v fs t s src) as [[[t1 s1] line]|e] eqn:E1; [|discriminate].
    intros H. rewrite (IH _ _ _ _ _ Hr2 H2 H).
    destruct (src_readable_read _ _ Hr1) as (c & Hread & _ & He & Hc & _).
    destruct (inject_one_line _ _ _ _ _ _ _ _ _ Hread E1) as (Hline & Hidx).
    destruct (entry_roundtrip fs src Hr1 H1) as (_ & _ & Hcont & _).
    unfold entries. cbn [map k7_positions rev]. rewrite <- app_assoc. cbn [app]. f_equal. f_equal.
    + unfold k7_line. cbn [fst snd]. rewrite Hcont, Hc, <- (source_leader fs src Hr1 H1), He. exact Hline.
    + rewrite Hidx, He. reflexivity.
Qed.

Lemma entries_no_nul fs srcs arch : forallb (src_readable fs) srcs = true -> forallb src_83 srcs = true ->
  forallb (no_nul_path (target_of (Some []) arch)) (entries fs srcs) = true.
Proof.
  intros Hr H83. unfold entries. induction srcs as [|s srcs IH]; [reflexivity|].
  cbn [forallb map] in *. apply andb_prop in Hr. apply andb_prop in H83.
  destruct Hr as [Hr1 Hr2], H83 as [H1 H2]. rewrite IH by assumption.
  destruct (entry_roundtrip fs s Hr1 H1) as (_ & Hsafe & _ & Hn0).
  unfold no_nul_path, target_of. change (k7_leader (src_entry fs s)) with (kleader (src_entry fs s)).
  rewrite Hsafe, path_join_no_nul by (try assumption; reflexivity). reflexivity.
Qed.

Lemma entries_all_ok fs srcs : forallb (src_readable fs) srcs = true ->
  forallb k7_file_ok (entries fs srcs) = true.
Proof. exact (entries_ok fs srcs). Qed.
