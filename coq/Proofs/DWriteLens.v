(* Proofs/DWriteLens.v — sectors of a side, payload setter, table and catalogue views. *)
From Coq Require Import ZArith List Bool Lia ZifyBool.
Require Import PyBase GenDisk DiskFacts DiskFactsWrite Disk ThomsonDos DiskDefs DWriteList.
Import ListNotations.
Open Scope Z_scope.
Ltac Zify.zify_post_hook ::= Z.to_euclidean_division_equations.

(* ---------- small closed constants ---------- *)
Lemma wn_get_sec sd i : get_sec sd i = nsec sd i.
Proof. reflexivity. Qed.
Lemma wn_bat_index : bat_index = 321%nat.
Proof. reflexivity. Qed.
Lemma wn_fat_sector : fat_sector = 321%nat.
Proof. reflexivity. Qed.
Lemma wn_entry_size : entry_size = 32%nat.
Proof. reflexivity. Qed.
Lemma wn_cat_sectors : cat_sectors = map (fun k => (322 + k)%nat) (seq 0 14).
Proof. reflexivity. Qed.
Lemma wn_entry_offsets : entry_offsets = map (fun j => (32 * j)%nat) (seq 0 8).
Proof. reflexivity. Qed.

Lemma wn_sec_of_block b j : 0 <= b -> sec_of_block b j = Z.to_nat (8 * b + j).
Proof. intros Hb. unfold sec_of_block, sec_at. now rewrite gw_sector_of_block. Qed.

(* ---------- geometry as a proposition ---------- *)
Definition sec_ok (s : list Z) : Prop := length s = 256%nat /\ bytesb s = true.
Definition geom (sd : side) : Prop := length sd = 1280%nat /\ forall i, (i < 1280)%nat -> sec_ok (nsec sd i).

Lemma wn_geom_iff sd : side_geometry sd = true <-> geom sd.
Proof.
  unfold side_geometry, geom, sec_ok. rewrite andb_true_iff, Nat.eqb_eq, forallb_forall.
  unfold dside, dsector, side, sector in *. split.
  - intros (Hl & Hs). split; [exact Hl|]. intros i Hi.
    assert (Hin : In (nth i sd []) sd) by (apply nth_In; lia).
    specialize (Hs _ Hin). apply andb_prop in Hs. destruct Hs as (H1 & H2). apply Nat.eqb_eq in H1. now split.
  - intros (Hl & Hs). split; [exact Hl|]. intros s Hin.
    destruct (In_nth _ _ [] Hin) as (i & Hi & <-). destruct (Hs i ltac:(lia)) as (H1 & H2).
    apply andb_true_intro. split; [apply Nat.eqb_eq; exact H1|exact H2].
Qed.

(* ---------- set_sec ---------- *)
Lemma wn_set_sec_length sd i v : length (set_sec sd i v) = length sd.
Proof.
  unfold set_sec. destruct (i <? length sd)%nat eqn:E; [|reflexivity]. apply Nat.ltb_lt in E.
  rewrite !app_length, firstn_length, skipn_length. cbn [length]. lia.
Qed.
Lemma wn_nsec_set_same sd i v : (i < length sd)%nat -> nsec (set_sec sd i v) i = v.
Proof.
  intros Hi. unfold set_sec, nsec. destruct (i <? length sd)%nat eqn:E; [|apply Nat.ltb_ge in E; lia].
  rewrite app_nth2 by (rewrite firstn_length; lia). rewrite firstn_length, Nat.min_l by lia.
  now rewrite Nat.sub_diag.
Qed.
Lemma wn_nsec_set_other sd i j v : i <> j -> nsec (set_sec sd i v) j = nsec sd j.
Proof.
  intros Hij. unfold set_sec, nsec. destruct (i <? length sd)%nat eqn:E; [|reflexivity]. apply Nat.ltb_lt in E.
  destruct (Nat.lt_ge_cases j i) as [Hlt|Hge].
  - rewrite app_nth1 by (rewrite firstn_length; lia). now apply wl_nth_firstn.
  - rewrite app_nth2 by (rewrite firstn_length; lia). rewrite firstn_length, Nat.min_l by lia.
    destruct (j - i)%nat as [|m] eqn:Em; [lia|]. cbn [app nth]. rewrite wl_nth_skipn. f_equal. lia.
Qed.
Lemma wn_set_sec_geom sd i v : geom sd -> sec_ok v -> geom (set_sec sd i v).
Proof.
  intros (Hl & Hs) Hv. split; [now rewrite wn_set_sec_length|]. intros j Hj.
  destruct (Nat.eq_dec i j) as [->|Hne].
  - now rewrite wn_nsec_set_same by lia.
  - rewrite wn_nsec_set_other by exact Hne. now apply Hs.
Qed.

(* ---------- set_payload ---------- *)
Lemma wn_set_payload old v :
  set_payload old v = firstn 256 v ++ skipn (Nat.min (length v) 256) old.
Proof.
  unfold set_payload, splice. rewrite gw_setter_copy_len. unfold zlen.
  replace (Z.to_nat (Z.min (Z.of_nat (length v)) 256)) with (Nat.min (length v) 256) by lia.
  rewrite firstn_O, Nat.max_0_l, app_nil_l. f_equal.
  destruct (Nat.le_ge_cases (length v) 256) as [H|H].
  - rewrite Nat.min_l by exact H. now rewrite !firstn_all2 by lia.
  - now rewrite Nat.min_r by exact H.
Qed.
Lemma wn_set_payload_short old v : (length v <= 256)%nat -> set_payload old v = v ++ skipn (length v) old.
Proof. intros H. rewrite wn_set_payload, firstn_all2 by exact H. now rewrite Nat.min_l by exact H. Qed.
Lemma wn_set_payload_full old v : length v = 256%nat -> length old = 256%nat -> set_payload old v = v.
Proof.
  intros Hv Ho. rewrite wn_set_payload_short by lia. rewrite skipn_all2 by lia. apply app_nil_r.
Qed.
Lemma wn_bytesb_app a b : bytesb (a ++ b) = bytesb a && bytesb b.
Proof. apply forallb_app. Qed.
Lemma wn_set_payload_ok old v : sec_ok old -> bytesb v = true -> sec_ok (set_payload old v).
Proof.
  intros (Hl & Hb) Hv. rewrite wn_set_payload. split.
  - rewrite app_length, firstn_length, skipn_length. lia.
  - rewrite wn_bytesb_app. unfold bytesb in *. now rewrite wl_forallb_firstn, wl_forallb_skipn.
Qed.

(* ---------- the table view ---------- *)
Lemma wn_bat_get sd : bat_get sd = if forallb is_valid_status (fat sd) then Ok (fat sd) else Err EValue.
Proof. reflexivity. Qed.

Lemma wn_valid_byte v : 0 <= v < 256 -> is_valid_status v = st_valid v.
Proof.
  intros Hv. rewrite gw_valid_status. unfold st_valid, st_next, st_last, st_reserved, st_free.
  destruct (((160 <=? v) && (v <? 193)) || ((201 <=? v) && (v <? 254))) eqn:E; lia.
Qed.

Lemma wn_fat_length sd : geom sd -> length (fat sd) = 160%nat.
Proof.
  intros (_ & Hs). destruct (Hs 321%nat ltac:(lia)) as (Hl & _).
  unfold fat. rewrite firstn_length, skipn_length. rewrite wn_fat_sector, Hl. reflexivity.
Qed.
Lemma wn_byteb_iff v : byteb v = true <-> 0 <= v < 256.
Proof. unfold byteb. lia. Qed.
Lemma wn_fat_bytes sd : geom sd -> bytesb (fat sd) = true.
Proof.
  intros (_ & Hs). destruct (Hs 321%nat ltac:(lia)) as (_ & Hb).
  unfold fat, bytesb in *. rewrite wn_fat_sector. now apply wl_forallb_firstn, wl_forallb_skipn.
Qed.
Lemma wn_bat_get_ok sd : geom sd -> forallb st_valid (fat sd) = true -> bat_get sd = Ok (fat sd).
Proof.
  intros Hg Hv. rewrite wn_bat_get.
  assert (H : forallb is_valid_status (fat sd) = true).
  { apply forallb_forall. intros x Hx. rewrite wn_valid_byte.
    - revert x Hx. now apply forallb_forall.
    - apply wn_byteb_iff. pose proof (wn_fat_bytes sd Hg) as Hb. unfold bytesb in Hb.
      revert x Hx. now apply forallb_forall. }
  now rewrite H.
Qed.

Lemma wn_fat_ext sd sd' : nsec sd' 321 = nsec sd 321 -> fat sd' = fat sd.
Proof. intros H. unfold fat. now rewrite wn_fat_sector, H. Qed.

Definition table_sector (p bat : list Z) : list Z := firstn 1 p ++ bat ++ skipn 161 p.

Lemma wn_table_sector_length p bat : length p = 256%nat -> length bat = 160%nat -> length (table_sector p bat) = 256%nat.
Proof.
  intros Hp Hb. unfold table_sector. rewrite !app_length, firstn_length, skipn_length. lia.
Qed.
Lemma wn_table_sector_fat p bat : length p = 256%nat -> length bat = 160%nat ->
  firstn 160 (skipn 1 (table_sector p bat)) = bat.
Proof.
  intros Hp Hb. unfold table_sector. rewrite wl_skipn_app_exact by (rewrite firstn_length; lia).
  now apply wl_firstn_app_exact.
Qed.
Lemma wn_table_sector_id p : length p = 256%nat -> table_sector p (firstn 160 (skipn 1 p)) = p.
Proof.
  intros Hp. unfold table_sector.
  rewrite <- (firstn_skipn 1 p) at 4. f_equal.
  rewrite <- (firstn_skipn 160 (skipn 1 p)) at 2. f_equal. now rewrite wl_skipn_skipn.
Qed.
Lemma wn_table_sector_nth p bat k d : length p = 256%nat -> length bat = 160%nat ->
  nth k (table_sector p bat) d =
  if ((1 <=? k) && (k <=? 160))%nat then nth (k - 1) bat d else nth k p d.
Proof.
  intros Hp Hb. unfold table_sector. rewrite wl_nth_app, firstn_length, Nat.min_l by lia.
  destruct (k <? 1)%nat eqn:E1.
  - apply Nat.ltb_lt in E1. rewrite wl_nth_firstn by lia.
    destruct ((1 <=? k) && (k <=? 160))%nat eqn:E2; [lia|reflexivity].
  - apply Nat.ltb_ge in E1. rewrite wl_nth_app, Hb. destruct (k - 1 <? 160)%nat eqn:E3.
    + destruct ((1 <=? k) && (k <=? 160))%nat eqn:E2; [reflexivity|lia].
    + apply Nat.ltb_ge in E3. rewrite wl_nth_skipn.
      destruct ((1 <=? k) && (k <=? 160))%nat eqn:E2; [lia|]. f_equal. lia.
Qed.
Lemma wn_table_sector_ok p bat : sec_ok p -> length bat = 160%nat -> bytesb bat = true -> sec_ok (table_sector p bat).
Proof.
  intros (Hp & Hpb) Hb Hbb. split; [now apply wn_table_sector_length|].
  unfold table_sector. rewrite !wn_bytesb_app, Hbb. unfold bytesb in *.
  now rewrite wl_forallb_firstn, wl_forallb_skipn.
Qed.

Lemma wn_bat_set sd bat : length (nsec sd 321) = 256%nat -> length bat = 160%nat ->
  bat_set sd bat = set_sec sd 321 (table_sector (nsec sd 321) bat).
Proof.
  intros Hp Hb. unfold bat_set. rewrite wn_bat_index, wn_get_sec. f_equal.
  assert (E : splice 1 (S (length bat)) bat (nsec sd 321) = table_sector (nsec sd 321) bat).
  { unfold splice, table_sector. rewrite Hb. reflexivity. }
  rewrite E. apply wn_set_payload_full; [now apply wn_table_sector_length|exact Hp].
Qed.

(* ---------- the catalogue view ---------- *)
Definition entry_at (sd : side) (sl : nat * nat) : list Z := firstn 32 (skipn (snd sl) (nsec sd (fst sl))).

Lemma wn_all_slots : all_slots = flat_map (fun k => map (fun j => ((322 + k)%nat, (32 * j)%nat)) (seq 0 8)) (seq 0 14).
Proof. reflexivity. Qed.

Lemma wn_cat_entries_slots sd : cat_entries sd = map (entry_at sd) all_slots.
Proof.
  rewrite wn_all_slots. unfold cat_entries. rewrite !flat_map_concat_map, concat_map, map_map.
  f_equal; apply map_ext; intros k; rewrite map_map; apply map_ext; intros j; reflexivity.
Qed.

Lemma wn_slot_data sd s off : slice off (off + entry_size) (get_sec sd s) = entry_at sd (s, off).
Proof.
  unfold slice, entry_at. rewrite wn_entry_size, wn_get_sec. cbn [fst snd].
  now replace (off + 32 - off)%nat with 32%nat by lia.
Qed.

Definition slot_okb (sl : nat * nat) : bool :=
  ((322 <=? fst sl) && (fst sl <=? 335) && (snd sl mod 32 =? 0) && (snd sl + 32 <=? 256))%nat.
Fixpoint slots_nodupb (l : list (nat * nat)) : bool :=
  match l with
  | [] => true
  | x :: r => negb (existsb (fun y => (fst x =? fst y)%nat && (snd x =? snd y)%nat) r) && slots_nodupb r
  end.
Lemma wn_slots_nodupb_ok l : slots_nodupb l = true -> NoDup l.
Proof.
  induction l as [|x l IH]; cbn [slots_nodupb]; intros H; [constructor|].
  apply andb_prop in H. destruct H as (H1 & H2). constructor; [|now apply IH].
  intros Hin. apply negb_true_iff in H1.
  assert (E : existsb (fun y => (fst x =? fst y)%nat && (snd x =? snd y)%nat) l = true).
  { apply existsb_exists. exists x. split; [exact Hin|]. now rewrite !Nat.eqb_refl. }
  congruence.
Qed.
Lemma wn_all_slots_nodup : NoDup all_slots.
Proof. apply wn_slots_nodupb_ok. vm_compute. reflexivity. Qed.
Lemma wn_all_slots_ok : forallb slot_okb all_slots = true.
Proof. vm_compute. reflexivity. Qed.
Lemma wn_all_slots_length : length all_slots = 112%nat.
Proof. vm_compute. reflexivity. Qed.

Lemma wn_slot_ok sl : In sl all_slots ->
  (322 <= fst sl <= 335 /\ snd sl + 32 <= 256 /\ exists j, snd sl = 32 * j)%nat.
Proof.
  intros Hin. pose proof wn_all_slots_ok as H. rewrite forallb_forall in H. specialize (H _ Hin).
  unfold slot_okb in H. apply andb_prop in H. destruct H as (H & H4). apply andb_prop in H. destruct H as (H & H3).
  apply andb_prop in H. destruct H as (H1 & H2).
  apply Nat.leb_le in H1, H2, H4. apply Nat.eqb_eq in H3.
  repeat split; try assumption. exists (snd sl / 32)%nat.
  pose proof (Nat.div_mod (snd sl) 32 ltac:(lia)). lia.
Qed.

Lemma wn_cat_entries_ext sd sd' :
  (forall i, (322 <= i <= 335)%nat -> nsec sd' i = nsec sd i) -> cat_entries sd' = cat_entries sd.
Proof.
  intros H. rewrite !wn_cat_entries_slots. apply map_ext_in. intros sl Hin.
  destruct (wn_slot_ok sl Hin) as (Hs & _). unfold entry_at. now rewrite H by lia.
Qed.

Lemma wn_entry_at_length sd sl : geom sd -> In sl all_slots -> length (entry_at sd sl) = 32%nat.
Proof.
  intros (_ & Hs) Hin. destruct (wn_slot_ok sl Hin) as (H1 & H2 & _).
  destruct (Hs (fst sl) ltac:(lia)) as (Hl & _).
  unfold entry_at. rewrite firstn_length, skipn_length, Hl. lia.
Qed.

(* writing 32 bytes over one slot *)
Lemma wn_entry_at_write_same sd s off rec :
  geom sd -> In (s, off) all_slots -> length rec = 32%nat ->
  entry_at (set_sec sd s (splice off (off + 32) rec (nsec sd s))) (s, off) = rec.
Proof.
  intros (Hl & Hs) Hin Hr. destruct (wn_slot_ok _ Hin) as (H1 & H2 & _). cbn [fst snd] in H1, H2.
  destruct (Hs s ltac:(lia)) as (Hsl & _).
  unfold entry_at. cbn [fst snd]. rewrite wn_nsec_set_same by lia.
  apply wl_window_same; [exact Hr|lia].
Qed.
Lemma wn_entry_at_write_other sd s off rec sl :
  geom sd -> In (s, off) all_slots -> In sl all_slots -> sl <> (s, off) -> length rec = 32%nat ->
  entry_at (set_sec sd s (splice off (off + 32) rec (nsec sd s))) sl = entry_at sd sl.
Proof.
  intros (Hl & Hs) Hin Hin' Hne Hr. destruct (wn_slot_ok _ Hin) as (H1 & H2 & (j & Hj)). cbn [fst snd] in H1, H2, Hj.
  destruct (wn_slot_ok _ Hin') as (H1' & H2' & (j' & Hj')). destruct sl as (s', off'). cbn [fst snd] in *.
  destruct (Hs s ltac:(lia)) as (Hsl & _).
  unfold entry_at. cbn [fst snd]. destruct (Nat.eq_dec s s') as [<-|Hss].
  - rewrite wn_nsec_set_same by lia. apply wl_window_other; [exact Hr|lia|].
    assert (off' <> off) by (intros ->; now apply Hne). lia.
  - now rewrite wn_nsec_set_other by exact Hss.
Qed.

(* ---------- set_status ---------- *)
Lemma wn_set_status_length l b v : length (set_status l b v) = length l.
Proof.
  revert b; induction l as [|x l IH]; intros b; [reflexivity|]. destruct b; cbn [set_status length]; [reflexivity|].
  now rewrite IH.
Qed.
Lemma wn_set_status_same l b v d : (b < length l)%nat -> nth b (set_status l b v) d = v.
Proof.
  revert b; induction l as [|x l IH]; intros b Hb; [cbn in Hb; lia|].
  destruct b; cbn [set_status nth]; [reflexivity|]. apply IH. cbn in Hb. lia.
Qed.
Lemma wn_set_status_other l b b' v d : b <> b' -> nth b' (set_status l b v) d = nth b' l d.
Proof.
  revert b b'; induction l as [|x l IH]; intros b b' Hne; [reflexivity|].
  destruct b, b'; cbn [set_status nth]; try reflexivity; [lia|]. apply IH. lia.
Qed.
