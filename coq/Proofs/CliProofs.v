(* Proofs/CliProofs.v — argument checking, placement, purity (C19, C20).  TOP statements are fixed. *)
From Coq Require Import ZArith List Bool Lia ZifyBool String.
Require Import PyBase CliTypes GenCli GenTape TapeFacts Tape GenDisk DiskFacts Disk Cli PyFacts TapeProofs DiskDefs DiskReadProofs.
Import ListNotations.
Open Scope Z_scope.

(* the option tokens of a command line: what precedes the separator "--" *)
Fixpoint before_sep (ts : list (list Z)) : list (list Z) :=
  match ts with [] => [] | t :: r => if is_sep t then [] else t :: before_sep r end.
Definition spec_wf (spec : clispec) : Prop :=
  Forall (fun o => Forall (fun f => is_option_like f = true /\ is_help f = false /\ is_sep f = false) (o_flags o)) (c_opts spec).
Definition group_member (spec : clispec) (t : list Z) : option (list (list Z)) :=
  match find_opt t (c_opts spec) with Some o => if o_in_group o then Some (o_flags o) else None | None => None end.

(* TOP (C19): a command line is accepted only if it names an action (when the parser requires
   one), never two different ones, and holds no unknown option *)
Theorem parse_accepts_only_wellformed : forall (spec : clispec) (argv : list (list Z)) (vs : list (list Z * list Z)) (pos : list (list Z)),
  spec_wf spec -> parse spec argv = POk vs pos ->
  (c_group_required spec = true -> exists t fl, In t (before_sep argv) /\ group_member spec t = Some fl) /\
  (forall t1 t2 f1 f2, In t1 (before_sep argv) -> In t2 (before_sep argv) ->
     group_member spec t1 = Some f1 -> group_member spec t2 = Some f2 -> concat f1 = concat f2) /\
  (forall t, In t (before_sep argv) -> is_option_like t = true -> find_opt t (c_opts spec) <> None).
Admitted.

Theorem generated_parsers_wf : spec_wf tar_cli /\ spec_wf disk_cli /\ spec_wf nl_cli /\ spec_wf prettier_cli /\ spec_wf lst2bas_cli /\ spec_wf bas2lst_cli /\
  c_group_required tar_cli = true /\ c_group_required disk_cli = true.
Admitted.

(* TOP (C19): a rejected command line ends with status 2 and touches nothing; help ends with 0 and touches nothing *)
Theorem rejected_command_writes_nothing : forall (argv : list (list Z)) (fs : fsmap) (is_fd : bool),
  (parse tar_cli argv = PError -> cli_status (tar_main argv fs) = 2 /\ cli_effects (tar_main argv fs) = []) /\
  (parse tar_cli argv = PHelp -> cli_status (tar_main argv fs) = 0 /\ cli_effects (tar_main argv fs) = []) /\
  (parse disk_cli argv = PError -> cli_status (disk_main is_fd argv fs) = 2 /\ cli_effects (disk_main is_fd argv fs) = []) /\
  (parse disk_cli argv = PHelp -> cli_status (disk_main is_fd argv fs) = 0 /\ cli_effects (disk_main is_fd argv fs) = []).
Admitted.

(* TOP (C19): a wrong archive extension is refused by the disk tools before anything is read or written *)
Theorem wrong_extension_writes_nothing : forall (argv : list (list Z)) (fs : fsmap) (is_fd : bool) vs archive sources,
  parse disk_cli argv = POk vs (archive :: sources) ->
  (match extension_of archive with
   | Some e => zeqb_list (map lower_char e) (if is_fd then str "fd"%string else str "sd"%string) = false
   | None => True end) ->
  cli_status (disk_main is_fd argv fs) <> 0 /\ cli_effects (disk_main is_fd argv fs) = [].
Admitted.

(* TOP (C19): extraction writes under --into when given, else beside the archive; list writes nothing *)
Theorem extract_placement : forall (argv : list (list Z)) (fs : fsmap) (is_fd : bool) (e : effect),
  (In e (cli_effects (tar_main argv fs)) ->
     forall vs archive sources, parse tar_cli argv = POk vs (archive :: sources) ->
     value_of (str "action"%string) vs = Some (str "extract"%string) ->
     let target := match value_of (str "into"%string) vs with Some d => d | None => dirname archive end in
     e = MkDir target \/ exists l c, e = WriteFile (path_join target l) c /\ existsb (Z.eqb 47) l = false) /\
  (In e (cli_effects (disk_main is_fd argv fs)) ->
     forall vs archive sources, parse disk_cli argv = POk vs (archive :: sources) ->
     value_of (str "action"%string) vs = Some (str "extract"%string) ->
     let target := match value_of (str "into"%string) vs with Some d => d | None => dirname archive end in
     exists i : nat, (i < 4)%nat /\
       (e = MkDir (side_dir target i) \/ exists l c, e = WriteFile (path_join (side_dir target i) l) c /\ existsb (Z.eqb 47) l = false)).
Admitted.

(* TOP (C19): every documented `python3 -m <tool>` and every declared console script resolves to an
   existing module defining its entry function, through package __init__ files whose relative
   imports exist (a finite check on the generated tables, decided by computation) *)
Theorem entry_points_resolve : forallb snd documented_modules = true /\ forallb snd declared_scripts = true /\
  length documented_modules = 7%nat.
Admitted.

(* ---------------- C20 ---------------- *)
(* what a tape source contributes: its catalogue fields and the bytes read *)
Definition tape_key (fs : fsmap) (src : list Z) : leader * option (list Z) :=
  (fst (source_fields src), fs_read fs (snd (source_fields src))).
Definition written_bytes (fx : list effect) : list (list Z) :=
  flat_map (fun e => match e with WriteFile _ c => [c] | MkDir _ => [] end) fx.

(* TOP (C20): the bytes of a created tape depend only on the ordered (catalogue name, kind, content)
   of the sources: not on verbosity, on the archive path, on how the sources are reached *)
Theorem tape_create_pure : forall (fs1 fs2 : fsmap) (s1 s2 : list (list Z)) (v1 v2 : bool) (a1 a2 : list Z),
  map (tape_key fs1) s1 = map (tape_key fs2) s2 ->
  written_bytes (o_effects (tar_create v1 fs1 a1 s1)) = written_bytes (o_effects (tar_create v2 fs2 a2 s2)) /\
  o_status (tar_create v1 fs1 a1 s1) = o_status (tar_create v2 fs2 a2 s2).
Admitted.

(* the catalogue fields of a source depend on its base name only *)
Theorem tape_fields_from_basename : forall (dir base : list Z),
  existsb (Z.eqb 47) base = false ->
  fst (source_fields (dir ++ [47] ++ base)) = fst (source_fields base).
Admitted.

Definition disk_key (fs : fsmap) (src : list Z) : bool * option (list Z * list Z * Z * bool * list Z) * bool :=
  (zeqb_list (upper_ascii (basename src)) eos_marker, source_item fs src,
   (* a source that is found but skipped still prints a message; it stores nothing *)
   match fs_read fs (snd (split_source src)) with Some _ => true | None => false end).

(* TOP (C20): same for a created disk image, in either flavour *)
Theorem disk_create_pure : forall (is_fd : bool) (fs1 fs2 : fsmap) (s1 s2 : list (list Z)) (v1 v2 : bool) (a1 a2 : list Z),
  map (disk_key fs1) s1 = map (disk_key fs2) s2 ->
  written_bytes (d_effects (disk_create is_fd v1 fs1 a1 s1)) = written_bytes (d_effects (disk_create is_fd v2 fs2 a2 s2)) /\
  d_status (disk_create is_fd v1 fs1 a1 s1) = d_status (disk_create is_fd v2 fs2 a2 s2) /\
  d_log (disk_create is_fd v1 fs1 a1 s1) = d_log (disk_create is_fd v2 fs2 a2 s2).
Admitted.

Theorem disk_fields_from_basename : forall (fs : fsmap) (dir base : list Z),
  existsb (Z.eqb 47) base = false ->
  let '(n1, e1, o1, _) := split_source (dir ++ [47] ++ base) in
  let '(n2, e2, o2, _) := split_source base in
  n1 = n2 /\ e1 = e2 /\ o1 = o2.
Admitted.

(* TOP (C20): list never writes; what extract writes lies one level below the archive's directory
   (disk: in a sideN sub-directory, so never the archive itself) or directly in it (tape) *)
Theorem reads_write_nothing_else : forall (v is_fd : bool) (raw arch : list Z) (p c : list Z),
  o_effects (tar_list v raw) = [] /\ d_effects (disk_list is_fd v raw) = [] /\
  (In (WriteFile p c) (d_effects (disk_extract is_fd v None arch raw)) ->
     exists (i : nat) l, (i < 4)%nat /\ p = path_join (side_dir (dirname arch) i) l /\ existsb (Z.eqb 47) l = false) /\
  (In (WriteFile p c) (o_effects (tar_extract v None arch raw)) ->
     exists l, p = path_join (dirname arch) l /\ existsb (Z.eqb 47) l = false).
Admitted.
