(* Proofs/CliProofs.v — argument checking, placement, purity (C19, C20).  TOP statements are fixed. *)
From Coq Require Import ZArith List Bool Lia ZifyBool String.
Require Import PyBase CliTypes GenCli GenTape TapeFacts Tape GenDisk DiskFacts Disk Cli PyFacts TapeProofs DiskDefs DiskReadProofs.
Require Import TapeLemmas1 CliLemmas.
Import ListNotations.
Open Scope Z_scope.

(* the option tokens of a command line: what precedes the separator "--" *)
Fixpoint before_sep (ts : list (list Z)) : list (list Z) :=
  match ts with [] => [] | t :: r => if is_sep t then [] else t :: before_sep r end.
Definition spec_wf (spec : clispec) : Prop :=
  Forall (fun o => Forall (fun f => is_option_like f = true /\ is_help f = false /\ is_sep f = false) (o_flags o)) (c_opts spec).
Definition group_member (spec : clispec) (t : list Z) : option (list (list Z)) :=
  match find_opt t (c_opts spec) with Some o => if o_in_group o then Some (o_flags o) else None | None => None end.


(* ---- helper lemmas for parse_accepts_only_wellformed ---- *)
Lemma wf_find_option_like spec t o : spec_wf spec -> find_opt t (c_opts spec) = Some o -> is_option_like t = true.
Proof.
  intros Hwf H. apply find_opt_some in H. destruct H as (Hin & f & Hf & ->).
  unfold spec_wf in Hwf. rewrite Forall_forall in Hwf. specialize (Hwf _ Hin).
  rewrite Forall_forall in Hwf. apply (Hwf _ Hf).
Qed.
Lemma wf_not_option_member spec t : spec_wf spec -> is_option_like t = false -> group_member spec t = None.
Proof.
  intros Hwf H. unfold group_member. destruct (find_opt t (c_opts spec)) as [o|] eqn:E; [|reflexivity].
  apply (wf_find_option_like spec t o Hwf) in E. congruence.
Qed.

(* what an accepted run guarantees about the tokens still to be read, given the state reached *)
Definition pinv (spec : clispec) (ts : list (list Z)) (s : pstate) : Prop :=
  p_unknown s = false /\
  (forall t, In t (before_sep ts) -> is_option_like t = true -> find_opt t (c_opts spec) <> None) /\
  (c_group_required spec = true ->
     p_group s <> None \/ exists t fl, In t (before_sep ts) /\ group_member spec t = Some fl) /\
  (forall t fl fl0, In t (before_sep ts) -> group_member spec t = Some fl -> p_group s = Some fl0 ->
     concat fl0 = concat fl) /\
  (forall t1 t2 f1 f2, In t1 (before_sep ts) -> In t2 (before_sep ts) ->
     group_member spec t1 = Some f1 -> group_member spec t2 = Some f2 -> concat f1 = concat f2).

Lemma pinv_base spec ts s : before_sep ts = [] -> p_unknown s = false ->
  (c_group_required spec = true -> p_group s <> None) -> pinv spec ts s.
Proof.
  intros Hb Hu Hg. unfold pinv. rewrite Hb. split; [exact Hu|]. split; [intros t []|].
  split; [intros Hr; left; exact (Hg Hr)|]. split; [intros t fl fl0 []|intros t1 t2 f1 f2 []].
Qed.

Lemma pinv_cons_plain spec t r s s' : is_sep t = false -> group_member spec t = None ->
  (is_option_like t = true -> find_opt t (c_opts spec) <> None) ->
  p_unknown s = p_unknown s' -> p_group s = p_group s' -> pinv spec r s' -> pinv spec (t :: r) s.
Proof.
  intros Hs Hm Ho Hu Hg (A & B & C & D & E). unfold pinv. cbn [before_sep]. rewrite Hs.
  split; [congruence|]. split; [|split; [|split]].
  - intros t' [<-|Hin]; [exact Ho|exact (B t' Hin)].
  - intros Hr. destruct (C Hr) as [Hn|(t' & fl & Hin & Ht')]; [left; congruence|].
    right. exists t', fl. split; [now right|exact Ht'].
  - intros t' fl fl0 [<-|Hin] Ht' Hp; [congruence|]. apply (D t' fl fl0 Hin Ht'). congruence.
  - intros t1 t2 f1 f2 [<-|H1] [<-|H2] G1 G2; try congruence. exact (E t1 t2 f1 f2 H1 H2 G1 G2).
Qed.

Lemma pinv_cons_opt spec t r s s' o : is_sep t = false -> find_opt t (c_opts spec) = Some o ->
  o_in_group o && match p_group s with Some fl => negb (zeqb_list (concat fl) (concat (o_flags o))) | None => false end = false ->
  p_unknown s' = p_unknown s ->
  p_group s' = (if o_in_group o then Some (o_flags o) else p_group s) ->
  pinv spec r s' -> pinv spec (t :: r) s.
Proof.
  intros Hs Hf Hc Hu Hg (A & B & C & D & E).
  assert (Hm : group_member spec t = if o_in_group o then Some (o_flags o) else None).
  { unfold group_member. now rewrite Hf. }
  assert (Hnc : forall fl0, o_in_group o = true -> p_group s = Some fl0 -> concat fl0 = concat (o_flags o)).
  { intros fl0 Hi Hp. rewrite Hi, Hp in Hc. cbn [andb] in Hc. apply negb_false_iff in Hc.
    apply zeqb_list_eq. exact Hc. }
  unfold pinv. cbn [before_sep]. rewrite Hs.
  split; [congruence|]. split; [|split; [|split]].
  - intros t' [<-|Hin]; [intros _; congruence|exact (B t' Hin)].
  - intros Hr. destruct (o_in_group o) eqn:Hi.
    + right. exists t, (o_flags o). split; [now left|exact Hm].
    + destruct (C Hr) as [Hn|(t' & fl & Hin & Ht')]; [left; congruence|].
      right. exists t', fl. split; [now right|exact Ht'].
  - intros t' fl fl0 [<-|Hin] Ht' Hp.
    + rewrite Hm in Ht'. destruct (o_in_group o) eqn:Hi; [|discriminate]. inversion Ht'; subst fl.
      exact (Hnc fl0 eq_refl Hp).
    + destruct (o_in_group o) eqn:Hi.
      * rewrite (Hnc fl0 eq_refl Hp). exact (D t' fl (o_flags o) Hin Ht' Hg).
      * apply (D t' fl fl0 Hin Ht'). congruence.
  - intros t1 t2 f1 f2 [<-|H1] [<-|H2] G1 G2.
    + congruence.
    + rewrite Hm in G1. destruct (o_in_group o) eqn:Hi; [|discriminate]. inversion G1; subst f1.
      exact (D t2 f2 (o_flags o) H2 G2 Hg).
    + rewrite Hm in G2. destruct (o_in_group o) eqn:Hi; [|discriminate]. inversion G2; subst f2.
      symmetry. exact (D t1 f1 (o_flags o) H1 G1 Hg).
    + exact (E t1 t2 f1 f2 H1 H2 G1 G2).
Qed.

Lemma parse_loop_pinv spec : spec_wf spec -> forall n ts s vs pos, (length ts <= n)%nat ->
  parse_loop spec ts s = POk vs pos -> pinv spec ts s.
Proof.
  intros Hwf. induction n as [|n IH]; intros ts s vs pos Hn H.
  - destruct ts; [|cbn [length] in Hn; lia]. cbn [parse_loop] in H.
    destruct (finish_ok _ _ _ _ H) as [Hu Hg]. now apply pinv_base.
  - destruct ts as [|t r].
    { cbn [parse_loop] in H. destruct (finish_ok _ _ _ _ H) as [Hu Hg]. now apply pinv_base. }
    cbn [length] in Hn. cbn [parse_loop] in H.
    assert (Hlen : (length r <= n)%nat) by lia.
    destruct (is_sep t) eqn:Es.
    { destruct (add_pos s r) as [s'|] eqn:Ea; [|discriminate].
      destruct (add_pos_keeps _ _ _ Ea) as [Ku Kg]. destruct (finish_ok _ _ _ _ H) as [Hu Hg].
      apply pinv_base; [cbn [before_sep]; now rewrite Es|congruence|]. intros Hr. rewrite <- Kg. exact (Hg Hr). }
    destruct (is_help t) eqn:Eh; [discriminate|].
    destruct (is_option_like t) eqn:Eo.
    + destruct (find_opt t (c_opts spec)) as [o|] eqn:Ef.
      * cbv zeta in H. rewrite p_group_close in H.
        destruct (o_in_group o && match p_group s with
                                  | Some fl => negb (zeqb_list (concat fl) (concat (o_flags o)))
                                  | None => false end) eqn:Ec; [discriminate|].
        destruct (o_kind o) as [d v|d|d is_int].
        -- refine (pinv_cons_opt spec t r s _ o Es Ef Ec _ _ (IH _ _ _ _ Hlen H));
             [apply p_unknown_close|reflexivity].
        -- refine (pinv_cons_opt spec t r s _ o Es Ef Ec _ _ (IH _ _ _ _ Hlen H));
             [apply p_unknown_close|reflexivity].
        -- destruct r as [|v r']; [discriminate|].
           destruct (is_option_like v || is_sep v) eqn:Ev; [discriminate|].
           apply orb_false_iff in Ev. destruct Ev as [Ev1 Ev2].
           destruct (is_int && negb (forallb is_digit v && match v with [] => false | _ :: _ => true end));
             [destruct (forallb is_digit (skipn 1 v)); discriminate|].
           cbn [length] in Hlen. assert (Hlen' : (length r' <= n)%nat) by lia.
           pose proof (IH _ _ _ _ Hlen' H) as Hr'.
           refine (pinv_cons_opt spec t (v :: r') s _ o Es Ef Ec _ _
                     (pinv_cons_plain spec v r' _ _ Ev2 (wf_not_option_member spec v Hwf Ev1) _ eq_refl eq_refl Hr'));
             [apply p_unknown_close|reflexivity|intros Hx; congruence].
      * destruct (existsb (Z.eqb 61) t); [discriminate|].
        assert (Hbad : forall s0, p_unknown s0 = true -> parse_loop spec r s0 = POk vs pos -> False).
        { intros s0 Hu H0. destruct (IH _ _ _ _ Hlen H0) as (A & _). congruence. }
        exfalso. destruct t as [|a [|c [|d t']]]; try (eapply Hbad; [|exact H]; reflexivity).
        destruct (c =? dash); [|discriminate]. eapply Hbad; [|exact H]; reflexivity.
    + destruct (add_pos s [t]) as [s'|] eqn:Ea; [|discriminate].
      destruct (add_pos_keeps _ _ _ Ea) as [Ku Kg].
      apply (pinv_cons_plain spec t r s s' Es (wf_not_option_member spec t Hwf Eo)); [congruence|congruence|congruence|].
      exact (IH _ _ _ _ Hlen H).
Qed.

(* TOP (C19): a command line is accepted only if it names an action (when the parser requires
   one), never two different ones, and holds no unknown option *)
Theorem parse_accepts_only_wellformed : forall (spec : clispec) (argv : list (list Z)) (vs : list (list Z * list Z)) (pos : list (list Z)),
  spec_wf spec -> parse spec argv = POk vs pos ->
  (c_group_required spec = true -> exists t fl, In t (before_sep argv) /\ group_member spec t = Some fl) /\
  (forall t1 t2 f1 f2, In t1 (before_sep argv) -> In t2 (before_sep argv) ->
     group_member spec t1 = Some f1 -> group_member spec t2 = Some f2 -> concat f1 = concat f2) /\
  (forall t, In t (before_sep argv) -> is_option_like t = true -> find_opt t (c_opts spec) <> None).
Proof.
  intros spec argv vs pos Hwf H. unfold parse in H.
  destruct (parse_loop_pinv spec Hwf (length argv) argv p0 vs pos (le_n _) H) as (A & B & C & D & E).
  split; [|split].
  - intros Hr. destruct (C Hr) as [Hg|Hex]; [cbn [p0 p_group] in Hg; congruence|exact Hex].
  - exact E.
  - exact B.
Qed.

(* a decidable form of spec_wf, for the generated tables *)
Definition spec_wfb (spec : clispec) : bool :=
  forallb (fun o => forallb (fun f => is_option_like f && negb (is_help f) && negb (is_sep f)) (o_flags o)) (c_opts spec).
Lemma spec_wfb_ok spec : spec_wfb spec = true -> spec_wf spec.
Proof.
  unfold spec_wfb, spec_wf. rewrite forallb_forall, Forall_forall. intros H o Ho.
  specialize (H o Ho). rewrite forallb_forall in H. rewrite Forall_forall. intros f Hf.
  specialize (H f Hf). apply andb_prop in H. destruct H as [H12 H3]. apply andb_prop in H12. destruct H12 as [H1 H2].
  apply negb_true_iff in H2, H3. auto.
Qed.

Theorem generated_parsers_wf : spec_wf tar_cli /\ spec_wf disk_cli /\ spec_wf nl_cli /\ spec_wf prettier_cli /\ spec_wf lst2bas_cli /\ spec_wf bas2lst_cli /\
  c_group_required tar_cli = true /\ c_group_required disk_cli = true.
Proof.
  (* finite facts about the generated tables: decided by computation *)
  repeat split; try (apply spec_wfb_ok; vm_compute; reflexivity); vm_compute; reflexivity.
Qed.

(* TOP (C19): a rejected command line ends with status 2 and touches nothing; help ends with 0 and touches nothing *)
Theorem rejected_command_writes_nothing : forall (argv : list (list Z)) (fs : fsmap) (is_fd : bool),
  (parse tar_cli argv = PError -> cli_status (tar_main argv fs) = 2 /\ cli_effects (tar_main argv fs) = []) /\
  (parse tar_cli argv = PHelp -> cli_status (tar_main argv fs) = 0 /\ cli_effects (tar_main argv fs) = []) /\
  (parse disk_cli argv = PError -> cli_status (disk_main is_fd argv fs) = 2 /\ cli_effects (disk_main is_fd argv fs) = []) /\
  (parse disk_cli argv = PHelp -> cli_status (disk_main is_fd argv fs) = 0 /\ cli_effects (disk_main is_fd argv fs) = []).
Proof.
  intros argv fs is_fd. unfold tar_main, disk_main.
  split; [|split; [|split]]; intros H; rewrite H; split; reflexivity.
Qed.

(* TOP (C19): a wrong archive extension is refused by the disk tools before anything is read or written *)
Theorem wrong_extension_writes_nothing : forall (argv : list (list Z)) (fs : fsmap) (is_fd : bool) vs archive sources,
  parse disk_cli argv = POk vs (archive :: sources) ->
  (match extension_of archive with
   | Some e => zeqb_list (map lower_char e) (if is_fd then str "fd"%string else str "sd"%string) = false
   | None => True end) ->
  cli_status (disk_main is_fd argv fs) <> 0 /\ cli_effects (disk_main is_fd argv fs) = [].
Proof.
  intros argv fs is_fd vs archive sources Hp Hx. unfold disk_main. rewrite Hp.
  destruct (value_of (str "action"%string) vs) as [a|]; [|split; [discriminate|reflexivity]].
  destruct (extension_of archive) as [e|]; [|split; [discriminate|reflexivity]].
  rewrite Hx. cbn [negb]. split; [discriminate|reflexivity].
Qed.

(* TOP (C19): extraction writes under --into when given, else beside the archive; list writes nothing *)
Theorem extract_placement : forall (argv : list (list Z)) (fs : fsmap) (is_fd : bool) (e : effect),
  (In e (cli_effects (tar_main argv fs)) ->
     forall vs archive sources, parse tar_cli argv = POk vs (archive :: sources) ->
     value_of (str "action"%string) vs = Some (str "extract"%string) ->
     let target := match value_of (str "into"%string) vs with Some d => d | None => dirname archive end in
     e = MkDir target \/ exists l c, e = WriteFile (path_join target l) c /\ existsb (Z.eqb 47) l = false) /\
  (In e (cli_effects (disk_main is_fd argv fs)) ->
     forall vs archive sources, parse disk_cli argv = POk vs (archive :: sources) ->
     value_of (str "action"%string) vs = Some (str "extract"%string) ->
     let target := match value_of (str "into"%string) vs with Some d => d | None => dirname archive end in
     exists i : nat, (i < 4)%nat /\
       (e = MkDir (side_dir target i) \/ exists l c, e = WriteFile (path_join (side_dir target i) l) c /\ existsb (Z.eqb 47) l = false)).
Proof.
  intros argv fs is_fd e. split.
  - intros Hin vs archive sources Hp Ha target. unfold tar_main in Hin. rewrite Hp, Ha in Hin.
    rewrite act_extract_create in Hin.
    destruct (fs_read fs archive) as [raw|]; [|destruct Hin].
    rewrite act_extract_list, act_extract_extract in Hin. cbn [cli_effects] in Hin.
    apply tape_extract_confined in Hin.
    destruct Hin as [[He _]|(l & c & He & Hl & _)]; [left; exact He|].
    right. exists l, c. split; [exact He|exact Hl].
  - intros Hin vs archive sources Hp Ha target. unfold disk_main in Hin. rewrite Hp, Ha in Hin.
    destruct (extension_of archive) as [x|]; [|destruct Hin].
    destruct (negb (zeqb_list (map lower_char x) (if is_fd then str "fd"%string else str "sd"%string))); [destruct Hin|].
    rewrite act_extract_create in Hin.
    destruct (fs_read fs archive) as [raw|]; [|destruct Hin].
    rewrite act_extract_add, act_extract_list, act_extract_extract in Hin. cbn [cli_effects] in Hin.
    apply disk_extract_confined in Hin.
    destruct Hin as (i & Hi & [He|(l & c & He & Hl & _)]); exists i; (split; [exact Hi|]); [left; exact He|].
    right. exists l, c. split; [exact He|exact Hl].
Qed.

(* TOP (C19): every documented `python3 -m <tool>` and every declared console script resolves to an
   existing module defining its entry function, through package __init__ files whose relative
   imports exist (a finite check on the generated tables, decided by computation) *)
Theorem entry_points_resolve : forallb snd documented_modules = true /\ forallb snd declared_scripts = true /\
  length documented_modules = 7%nat.
Proof.
  (* finite facts about the generated tables: decided by computation *)
  repeat split; vm_compute; reflexivity.
Qed.

(* ---------------- C20 ---------------- *)
(* what a tape source contributes: its catalogue fields and the bytes read *)
Definition tape_key (fs : fsmap) (src : list Z) : leader * option (list Z) :=
  (fst (source_fields src), fs_read fs (snd (source_fields src))).
Definition written_bytes (fx : list effect) : list (list Z) :=
  flat_map (fun e => match e with WriteFile _ c => [c] | MkDir _ => [] end) fx.

(* TOP (C20): the bytes of a created tape depend only on the ordered (catalogue name, kind, content)
   of the sources: not on verbosity, on the archive path, on how the sources are reached *)
Theorem tape_create_pure : forall (fs1 fs2 : fsmap) (s1 s2 : list (list Z)) (v1 v2 : bool) (a1 a2 : list Z),
  map (tape_key fs1) s1 = map (tape_key fs2) s2 ->
  written_bytes (o_effects (tar_create v1 fs1 a1 s1)) = written_bytes (o_effects (tar_create v2 fs2 a2 s2)) /\
  o_status (tar_create v1 fs1 a1 s1) = o_status (tar_create v2 fs2 a2 s2).
Proof.
  intros fs1 fs2 s1 s2 v1 v2 a1 a2 H.
  destruct (tar_create_sim v1 v2 fs1 fs2 a1 a2 s1 s2 H) as (Hs & [[E1 E2]|(c & E1 & E2)]);
    rewrite E1, E2; split; [reflexivity|exact Hs|reflexivity|exact Hs].
Qed.

(* the catalogue fields of a source depend on its base name only *)
Theorem tape_fields_from_basename : forall (dir base : list Z),
  existsb (Z.eqb 47) base = false ->
  fst (source_fields (dir ++ [47] ++ base)) = fst (source_fields base).
Proof.
  intros dir base H. apply source_fields_basename.
  now rewrite (basename_join dir base H), (basename_no_dir base H).
Qed.

Definition disk_key (fs : fsmap) (src : list Z) : bool * option (list Z * list Z * Z * bool * list Z) * bool :=
  (zeqb_list (upper_ascii (basename src)) eos_marker, source_item fs src,
   (* a source that is found but skipped still prints a message; it stores nothing *)
   match fs_read fs (snd (split_source src)) with Some _ => true | None => false end).

(* TOP (C20): same for a created disk image, in either flavour *)
Theorem disk_create_pure : forall (is_fd : bool) (fs1 fs2 : fsmap) (s1 s2 : list (list Z)) (v1 v2 : bool) (a1 a2 : list Z),
  map (disk_key fs1) s1 = map (disk_key fs2) s2 ->
  written_bytes (d_effects (disk_create is_fd v1 fs1 a1 s1)) = written_bytes (d_effects (disk_create is_fd v2 fs2 a2 s2)) /\
  d_status (disk_create is_fd v1 fs1 a1 s1) = d_status (disk_create is_fd v2 fs2 a2 s2) /\
  d_log (disk_create is_fd v1 fs1 a1 s1) = d_log (disk_create is_fd v2 fs2 a2 s2).
Proof.
  intros is_fd fs1 fs2 s1 s2 v1 v2 a1 a2 H. unfold disk_create.
  destruct (load_image is_fd []) as [img|e]; [|repeat split].
  destruct (inject_perform_sim is_fd v1 v2 true fs1 fs2 a1 a2 img s1 s2 H) as (Hs & Hl & [[E1 E2]|(c & E1 & E2)]);
    rewrite E1, E2; (split; [reflexivity|]); split; assumption.
Qed.

Theorem disk_fields_from_basename : forall (fs : fsmap) (dir base : list Z),
  existsb (Z.eqb 47) base = false ->
  let '(n1, e1, o1, _) := split_source (dir ++ [47] ++ base) in
  let '(n2, e2, o2, _) := split_source base in
  n1 = n2 /\ e1 = e2 /\ o1 = o2.
Proof.
  intros fs dir base H.
  destruct (split_source_join dir base H) as (n & e & o & c1 & c2 & E1 & E2).
  rewrite E1, E2. repeat split.
Qed.

(* TOP (C20): list never writes; what extract writes lies one level below the archive's directory
   (disk: in a sideN sub-directory, so never the archive itself) or directly in it (tape) *)
Theorem reads_write_nothing_else : forall (v is_fd : bool) (raw arch : list Z) (p c : list Z),
  o_effects (tar_list v raw) = [] /\ d_effects (disk_list is_fd v raw) = [] /\
  (In (WriteFile p c) (d_effects (disk_extract is_fd v None arch raw)) ->
     exists (i : nat) l, (i < 4)%nat /\ p = path_join (side_dir (dirname arch) i) l /\ existsb (Z.eqb 47) l = false) /\
  (In (WriteFile p c) (o_effects (tar_extract v None arch raw)) ->
     exists l, p = path_join (dirname arch) l /\ existsb (Z.eqb 47) l = false).
Proof.
  intros v is_fd raw arch p c.
  split; [apply tar_list_no_effects|]. split; [apply disk_list_effects|]. split.
  - intros Hin. apply disk_extract_confined in Hin.
    destruct Hin as (i & Hi & [He|(l & c' & He & Hl & _)]); [discriminate|].
    inversion He; subst. exists i, l. repeat split; assumption.
  - intros Hin. apply tape_extract_confined in Hin.
    destruct Hin as [[He _]|(l & c' & He & Hl & _)]; [discriminate|].
    inversion He; subst. exists l. split; [reflexivity|exact Hl].
Qed.

Print Assumptions parse_accepts_only_wellformed.
Print Assumptions generated_parsers_wf.
Print Assumptions rejected_command_writes_nothing.
Print Assumptions wrong_extension_writes_nothing.
Print Assumptions extract_placement.
Print Assumptions entry_points_resolve.
Print Assumptions tape_create_pure.
Print Assumptions tape_fields_from_basename.
Print Assumptions disk_create_pure.
Print Assumptions disk_fields_from_basename.
Print Assumptions reads_write_nothing_else.
