(* Proofs/TapeLemmas2.v — facts about the tape model that hold for every input:
   cursor progress, termination, confinement, list/extract simulation, size preservation. *)
From Coq Require Import ZArith List Bool Lia ZifyBool.
Require Import PyBase GenTape TapeFacts Tape K7 PyFacts TapeLemmas1.
Import ListNotations.
Open Scope Z_scope.
Ltac Zify.zify_post_hook ::= Z.to_euclidean_division_equations.

(* ---------- find ---------- *)
Lemma find_from_ge pat l : forall off p, find_from pat l off = Some p -> (off <= p)%nat.
Proof.
  induction l as [|x l IH]; intros off p; cbn [find_from].
  - destruct pat; [intros H; inversion H; lia|discriminate].
  - destruct (starts_with pat (x :: l)); [intros H; inversion H; lia|].
    intros H. apply IH in H. lia.
Qed.
Lemma find_sub_ge pat l start p : find_sub pat l start = Some p -> (start <= p)%nat.
Proof. unfold find_sub. destruct (Nat.leb start (length l)); [apply find_from_ge|discriminate]. Qed.

(* ---------- next_block ---------- *)
Lemma next_block_some t b t' : 0 <= t_pos t -> next_block t = (Some b, t') ->
  t_raw t' = t_raw t /\ t_max t' = t_max t /\ t_pos t + 7 <= t_pos t' /\ t_pos t + 7 <= t_max t.
Proof.
  intros Hp. unfold next_block.
  destruct (find_sub sync_read (t_raw t) (Z.to_nat (t_pos t))) as [p|] eqn:E; [|discriminate].
  apply find_sub_ge in E.
  unfold nb_bound_test, nb_after_sync, nb_len_index, nb_block_end. change (zlen sync_read) with 5.
  destruct (Z.of_nat p + 5 + 2 <=? t_max t) eqn:Eb; [|discriminate].
  destruct (znth (Z.of_nat p + 5 + 1) (t_raw t)) as [len|]; [|discriminate].
  intros H. inversion H; subst. cbn [t_raw t_max t_pos].
  destruct (0 <? len) eqn:El; repeat split; try reflexivity; lia.
Qed.

(* ---------- termination ---------- *)
Definition fuel_ok (fuel : nat) (t : tape) : Prop :=
  0 <= t_pos t /\ Z.of_nat fuel > Z.max 0 (t_max t - t_pos t).

Lemma fuel_ok_step fuel t b t' : fuel_ok (S fuel) t -> next_block t = (Some b, t') -> fuel_ok fuel t'.
Proof.
  intros [Hp Hf] H. destruct (next_block_some _ _ _ Hp H) as (_ & Hm & H7 & Hb).
  unfold fuel_ok. rewrite Hm. lia.
Qed.
Lemma fuel_ok_0 t : ~ fuel_ok 0 t.
Proof. intros [Hp Hf]. lia. Qed.
Lemma fuel_ok_start raw : fuel_ok (fuel_of raw) (tape_of_bytes raw).
Proof. unfold fuel_ok, fuel_of, tape_of_bytes, zlen. cbn [t_pos t_max]. lia. Qed.

Lemma enumerate_terminates fuel : forall v t s acc, fuel_ok fuel t -> enumerate_loop fuel v t s acc <> None.
Proof.
  induction fuel as [|fuel IH]; intros v t s acc Hf; [now apply fuel_ok_0 in Hf|].
  cbn [enumerate_loop].
  destruct (next_block t) as [[b|] t'] eqn:E; [|discriminate].
  pose proof (fuel_ok_step _ _ _ _ Hf E) as Hf'.
  destruct (block_type b) as [[| |]|e]; [| | |discriminate].
  - destruct (leader_of_block b) as [d|e]; [|discriminate]. now apply IH.
  - destruct (on_data s b) as [s'|e]; [|discriminate]. now apply IH.
  - destruct (on_end v s) as [[line s']|e]; [|discriminate]. now apply IH.
Qed.

Lemma extract_terminates fuel : forall v target t s desc content acc fx, fuel_ok fuel t ->
  extract_loop fuel v target t s desc content acc fx <> None.
Proof.
  induction fuel as [|fuel IH]; intros v target t s desc content acc fx Hf; [now apply fuel_ok_0 in Hf|].
  cbn [extract_loop].
  destruct (next_block t) as [[b|] t'] eqn:E; [|discriminate].
  pose proof (fuel_ok_step _ _ _ _ Hf E) as Hf'.
  destruct (block_type b) as [[| |]|e]; [| | |discriminate].
  - destruct (leader_of_block b) as [d|e]; [|discriminate]. now apply IH.
  - destruct (on_data s b) as [s'|e]; [|discriminate].
    destruct content as [c|]; [|discriminate]. now apply IH.
  - destruct desc as [d|]; [|discriminate]. destruct content as [c|]; [|discriminate].
    destruct (existsb (Z.eqb 0) (path_join target (safe_label d))); [discriminate|].
    destruct (on_end v s) as [[line s']|e]; [|discriminate]. now apply IH.
Qed.

Lemma finish_not_m1 r : r <> None -> o_status (finish r) <> -1.
Proof.
  destruct r as [[[ls fx] [e|]]|]; cbn [finish o_status]; intros H; try lia. now elim H.
Qed.

Lemma tar_list_terminates v raw : o_status (tar_list v raw) <> -1.
Proof.
  unfold tar_list. apply finish_not_m1.
  pose proof (enumerate_terminates (fuel_of raw) v (tape_of_bytes raw) lst0 [] (fuel_ok_start raw)) as H.
  destruct (enumerate_loop (fuel_of raw) v (tape_of_bytes raw) lst0 []) as [[ls e]|]; [discriminate|now elim H].
Qed.
Lemma tar_extract_terminates v into arch raw : o_status (tar_extract v into arch raw) <> -1.
Proof.
  unfold tar_extract. apply finish_not_m1. apply extract_terminates. apply fuel_ok_start.
Qed.

(* ---------- confinement ---------- *)
Lemma path_join_suffix a b : exists pre, path_join a b = pre ++ b.
Proof.
  unfold path_join.
  assert (H0 : exists pre, b = pre ++ b) by (exists []; reflexivity).
  assert (H1 : exists pre, match a with
     | [] => b | _ :: _ => if ends_with_slash a then a ++ b else a ++ [47] ++ b end = pre ++ b).
  { destruct a as [|x a]; [exact H0|]. destruct (ends_with_slash (x :: a)).
    - eexists; reflexivity.
    - exists ((x :: a) ++ [47]). now rewrite <- app_assoc. }
  destruct b as [|c b]; [exact H1|].
  destruct (c =? 47) eqn:Ec.
  - assert (c = 47) by lia. subst c. exact H0.
  - assert (Hm : forall (X Y : list Z), match c with 47 => X | _ => Y end = Y).
    { intros X Y. destruct c as [|p|p]; try reflexivity.
      do 6 (destruct p as [p|p|]; try reflexivity). lia. }
    rewrite Hm. exact H1.
Qed.

Lemma existsb_app_false {A} (f : A -> bool) a b : existsb f (a ++ b) = false -> existsb f b = false.
Proof. rewrite existsb_app. intros H. apply orb_false_elim in H. tauto. Qed.

Lemma safe_label_no_slash d : existsb (Z.eqb 47) (safe_label d) = false.
Proof.
  unfold safe_label. induction (file_label d) as [|c l IH]; cbn [map existsb]; [reflexivity|].
  rewrite IH, orb_false_r. unfold ext_sep_from, ext_sep_to. cbn [zeqb_list].
  destruct (c =? 47) eqn:E; cbn [andb]; lia.
Qed.

Definition confined_fx (target : list Z) (e : effect) : Prop :=
  exists l c, e = WriteFile (path_join target l) c /\ existsb (Z.eqb 47) l = false /\ existsb (Z.eqb 0) l = false.

Lemma extract_effects fuel : forall v target t s desc content acc fx ls fxs e,
  extract_loop fuel v target t s desc content acc fx = Some (ls, fxs, e) ->
  forall eff, In eff fxs -> In eff fx \/ confined_fx target eff.
Proof.
  induction fuel as [|fuel IH]; intros v target t s desc content acc fx ls fxs e; [discriminate|].
  cbn [extract_loop].
  assert (Hbase : forall e0, Some (rev acc, rev fx, e0) = Some (ls, fxs, e) ->
                  forall eff, In eff fxs -> In eff fx \/ confined_fx target eff).
  { intros e0 H eff Hin. inversion H; subst. left. now rewrite in_rev. }
  destruct (next_block t) as [[b|] t'] eqn:E; [|apply Hbase].
  destruct (block_type b) as [[| |]|e1]; [| | |apply Hbase].
  - destruct (leader_of_block b) as [d|e1]; [|apply Hbase]. apply IH.
  - destruct (on_data s b) as [s'|e1]; [|apply Hbase].
    destruct content as [c|]; [|apply Hbase]. apply IH.
  - destruct desc as [d|]; [|apply Hbase]. destruct content as [c|]; [|apply Hbase].
    destruct (existsb (Z.eqb 0) (path_join target (safe_label d))) eqn:En; [apply Hbase|].
    assert (Hc : confined_fx target (WriteFile (path_join target (safe_label d)) c)).
    { exists (safe_label d), c. split; [reflexivity|]. split; [apply safe_label_no_slash|].
      destruct (path_join_suffix target (safe_label d)) as (pre & Hpre).
      rewrite Hpre in En. now apply existsb_app_false in En. }
    destruct (on_end v s) as [[line s']|e1].
    + intros H eff Hin. pose proof (IH _ _ _ _ _ _ _ _ _ _ _ H eff Hin) as Hr. cbn [In] in Hr. destruct Hr as [[Hi|Hi]|Hi].
      * right. now subst eff.
      * now left.
      * now right.
    + intros H eff Hin. inversion H; subst. apply in_app_or in Hin. destruct Hin as [Hi|Hi].
      * left. now rewrite in_rev.
      * cbn [In] in Hi. destruct Hi as [Hi|[]]. right. now subst eff.
Qed.

(* ---------- list / extract simulation ---------- *)
Lemma enumerate_prefix fuel : forall v t s acc ls e,
  enumerate_loop fuel v t s acc = Some (ls, e) -> exists more, ls = rev acc ++ more.
Proof.
  induction fuel as [|fuel IH]; intros v t s acc ls e; [discriminate|].
  cbn [enumerate_loop].
  assert (Hbase : forall e0, Some (rev acc, e0) = Some (ls, e) -> exists more, ls = rev acc ++ more).
  { intros e0 H. inversion H; subst. exists []. now rewrite app_nil_r. }
  destruct (next_block t) as [[b|] t'] eqn:E; [|apply Hbase].
  destruct (block_type b) as [[| |]|e1]; [| | |apply Hbase].
  - destruct (leader_of_block b) as [d|e1]; [|apply Hbase]. apply IH.
  - destruct (on_data s b) as [s'|e1]; [|apply Hbase]. apply IH.
  - destruct (on_end v s) as [[line s']|e1]; [|apply Hbase].
    intros H. apply IH in H. destruct H as (more & H). exists (line :: more).
    rewrite H. cbn [rev]. now rewrite <- app_assoc.
Qed.

Definition sim_inv (s : lst) (desc : option leader) (content : option (list Z)) : Prop :=
  (desc = None /\ content = None /\ ls_cur s = None /\ ls_counts s = None) \/
  (desc <> None /\ content <> None /\ ls_cur s <> None /\ ls_counts s <> None).

Definition sim_res (r1 : option (list (list Z) * option err))
                   (r2 : option (list (list Z) * list effect * option err)) : Prop :=
  match r2 with
  | None => r1 = None
  | Some (ls', fx', e') =>
      r1 = Some (ls', e') \/
      (e' = Some EValue /\ forall ls e, r1 = Some (ls, e) -> exists more, ls = ls' ++ more)
  end.

Lemma sim_loops fuel : forall v target t s desc content acc fx, sim_inv s desc content ->
  sim_res (enumerate_loop fuel v t s acc) (extract_loop fuel v target t s desc content acc fx).
Proof.
  induction fuel as [|fuel IH]; intros v target t s desc content acc fx Hinv; [reflexivity|].
  cbn [enumerate_loop extract_loop].
  destruct (next_block t) as [[b|] t'] eqn:E; [|left; reflexivity].
  destruct (block_type b) as [[| |]|e1]; [| | |left; reflexivity].
  - destruct (leader_of_block b) as [d|e1]; [|left; reflexivity].
    apply IH. right. unfold on_begin. cbn [ls_cur ls_counts]. repeat split; discriminate.
  - unfold on_data. destruct Hinv as [(Hd & Hc & Hcur & Hcnt)|(Hd & Hc & Hcur & Hcnt)].
    + rewrite Hcnt. left; reflexivity.
    + destruct (ls_counts s) as [[[bc fs] fb]|] eqn:Ecnt; [|now elim Hcnt].
      destruct content as [c|]; [|now elim Hc].
      apply IH. right. cbn [ls_cur ls_counts]. repeat split; try assumption; discriminate.
  - unfold on_end. destruct Hinv as [(Hd & Hc & Hcur & Hcnt)|(Hd & Hc & Hcur & Hcnt)].
    + subst desc. rewrite Hcur. left; reflexivity.
    + destruct desc as [d|]; [|now elim Hd]. destruct content as [c|]; [|now elim Hc].
      destruct (existsb (Z.eqb 0) (path_join target (safe_label d))) eqn:En.
      * right. split; [reflexivity|]. intros ls e H.
        destruct (ls_cur s) as [[d'|]|]; [| |].
        -- destruct (ls_counts s) as [[[bc fs] fb]|].
           ++ apply enumerate_prefix in H. destruct H as (more & H). exists (render_entry v d' bc fs fb :: more).
              rewrite H. cbn [rev]. now rewrite <- app_assoc.
           ++ inversion H; subst. exists []. now rewrite app_nil_r.
        -- inversion H; subst. exists []. now rewrite app_nil_r.
        -- inversion H; subst. exists []. now rewrite app_nil_r.
      * destruct (ls_cur s) as [[d'|]|] eqn:Ecur; [| |now elim Hcur].
        -- destruct (ls_counts s) as [[[bc fs] fb]|] eqn:Ecnt; [|now elim Hcnt].
           apply IH. right. cbn [ls_cur ls_counts]. repeat split; discriminate.
        -- left; reflexivity.
Qed.

Lemma tar_list_effects v raw : o_effects (tar_list v raw) = [].
Proof.
  unfold tar_list. destruct (enumerate_loop _ _ _ _ _) as [[ls [e|]]|]; reflexivity.
Qed.

(* ---------- write_block keeps the tape size ---------- *)
Definition twf (t : tape) : Prop := 0 <= t_pos t /\ t_max t <= zlen (t_raw t).

Lemma splice_length {A} (i j : nat) (v l : list A) : (i <= j)%nat -> (j <= length l)%nat -> j = (i + length v)%nat ->
  length (splice i j v l) = length l.
Proof.
  intros Hij Hj Hv. unfold splice. rewrite !app_length, firstn_length, skipn_length. lia.
Qed.

Lemma write_block_twf t b t' : twf t -> write_block t b = Ok t' ->
  twf t' /\ zlen (t_raw t') = zlen (t_raw t) /\ t_max t' = t_max t.
Proof.
  intros [Hp Hm]. unfold write_block, wb_guard1, wb_guard2, wb_next1, wb_next2.
  pose proof (zlen_nonneg sync_write) as Hs. pose proof (zlen_nonneg b) as Hb.
  destruct (t_max t <=? t_pos t + zlen sync_write) eqn:E1; [discriminate|].
  destruct (t_max t <=? t_pos t + zlen sync_write + zlen b) eqn:E2; [discriminate|].
  intros H. inversion H; subst; clear H. unfold twf. cbn [t_pos t_max t_raw].
  assert (H1 : zlen (zsplice (t_pos t) (t_pos t + zlen sync_write) sync_write (t_raw t)) = zlen (t_raw t)).
  { unfold zlen at 1, zsplice. rewrite splice_length; [reflexivity| | |]; unfold zlen in *; lia. }
  assert (H2 : zlen (zsplice (t_pos t + zlen sync_write) (t_pos t + zlen sync_write + zlen b) b
                 (zsplice (t_pos t) (t_pos t + zlen sync_write) sync_write (t_raw t))) = zlen (t_raw t)).
  { rewrite <- H1. unfold zlen at 1, zsplice at 1. rewrite splice_length; [reflexivity| | |]; unfold zlen in *; lia. }
  rewrite H2. lia.
Qed.

Lemma write_data_twf fuel : forall t s data pos t' s', twf t -> write_data fuel t s data pos = Ok (t', s') ->
  twf t' /\ zlen (t_raw t') = zlen (t_raw t) /\ t_max t' = t_max t.
Proof.
  induction fuel as [|fuel IH]; intros t s data pos t' s' Hwf; [discriminate|].
  cbn [write_data]. destruct (pos <? zlen data).
  - unfold bind.
    destruct (write_block t _) as [t1|e] eqn:E1; [|discriminate].
    destruct (on_data s _) as [s1|e]; [|discriminate].
    destruct (write_block_twf _ _ _ Hwf E1) as (Hwf1 & Hl1 & Hm1).
    intros H. destruct (IH _ _ _ _ _ _ Hwf1 H) as (Hwf2 & Hl2 & Hm2).
    split; [exact Hwf2|]. split; congruence.
  - intros H. inversion H; subst. auto.
Qed.

Lemma inject_one_twf v fs t s src t' s' line : twf t -> inject_one v fs t s src = Ok (t', s', line) ->
  twf t' /\ zlen (t_raw t') = zlen (t_raw t) /\ t_max t' = t_max t.
Proof.
  intros Hwf. unfold inject_one. destruct (source_fields src) as [d path]. unfold bind.
  destruct (write_block t (leader_block d)) as [t1|e] eqn:E1; [|discriminate].
  destruct (fs_read fs path) as [data|]; [|discriminate].
  destruct (write_data _ t1 _ data 0) as [[t2 s2]|e] eqn:E2; [|discriminate].
  destruct (write_block t2 _) as [t3|e] eqn:E3; [|discriminate].
  destruct (on_end v s2) as [[line3 s3]|e]; [|discriminate].
  intros H. inversion H; subst.
  destruct (write_block_twf _ _ _ Hwf E1) as (Hwf1 & Hl1 & Hm1).
  destruct (write_data_twf _ _ _ _ _ _ _ Hwf1 E2) as (Hwf2 & Hl2 & Hm2).
  destruct (write_block_twf _ _ _ Hwf2 E3) as (Hwf3 & Hl3 & Hm3).
  split; [exact Hwf3|]. split; congruence.
Qed.

Lemma inject_loop_twf v fs srcs : forall t s acc ls t', twf t -> inject_loop v fs t s srcs acc = (ls, Ok t') ->
  zlen (t_raw t') = zlen (t_raw t).
Proof.
  induction srcs as [|src rest IH]; intros t s acc ls t' Hwf; cbn [inject_loop].
  - intros H. inversion H; subst. reflexivity.
  - destruct (inject_one v fs t s src) as [[[t1 s1] line]|e] eqn:E1; [|discriminate].
    destruct (inject_one_twf _ _ _ _ _ _ _ _ Hwf E1) as (Hwf1 & Hl1 & _).
    intros H. apply IH in H; [congruence|exact Hwf1].
Qed.

Lemma blank_tape_twf : twf blank_tape.
Proof. unfold twf, blank_tape, tape_of_bytes. cbn [t_pos t_max t_raw]. lia. Qed.
Lemma blank_tape_len : zlen (t_raw blank_tape) = 21504.
Proof.
  unfold blank_tape, tape_of_bytes. cbn [t_raw]. rewrite zlen_repeat, tape_default_size_is. lia.
Qed.

Theorem tar_list_extract_agree : forall (raw : list Z) (v : bool) (into : option (list Z)) (arch : list Z),
  (o_lines (tar_list v raw) = o_lines (tar_extract v into arch raw) /\
   o_status (tar_list v raw) = o_status (tar_extract v into arch raw) /\
   o_crash (tar_list v raw) = o_crash (tar_extract v into arch raw)) \/
  (o_crash (tar_extract v into arch raw) = Some EValue /\
   exists more, o_lines (tar_list v raw) = o_lines (tar_extract v into arch raw) ++ more).
Proof.
  intros raw v into arch.
  pose proof (tar_list_terminates v raw) as Hterm. revert Hterm.
  unfold tar_list, tar_extract.
  set (target := match into with Some d => d | None => dirname arch end).
  set (pre := match into with Some d => [MkDir d] | None => [] end).
  pose proof (sim_loops (fuel_of raw) v target (tape_of_bytes raw) lst0 None None [] (rev pre)) as Hsim.
  assert (Hinv : sim_inv lst0 None None) by (left; repeat split; reflexivity).
  specialize (Hsim Hinv). unfold sim_res in Hsim.
  destruct (extract_loop (fuel_of raw) v target (tape_of_bytes raw) lst0 None None [] (rev pre))
    as [[[ls' fx'] e']|].
  - destruct Hsim as [Hs|[He Hs]].
    + rewrite Hs. intros _. left. destruct e' as [e'|]; cbn [finish o_lines o_status o_crash]; auto.
    + subst e'. intros Hterm. right. split; [reflexivity|].
      destruct (enumerate_loop (fuel_of raw) v (tape_of_bytes raw) lst0 []) as [[ls e]|].
      * destruct (Hs ls e eq_refl) as (more & Hm). exists more.
        destruct e as [e|]; cbn [finish o_lines]; exact Hm.
      * cbn [finish o_status] in Hterm. now elim Hterm.
  - rewrite Hsim. intros _. left. cbn [finish o_lines o_status o_crash]. auto.
Qed.
