(* Proofs/DReadBase.v — list / Z plumbing for the disk reading proofs. *)
From Coq Require Import ZArith List Bool Lia ZifyBool.
Require Import PyBase PyFacts.
Import ListNotations.
Open Scope Z_scope.
Ltac Zify.zify_post_hook ::= Z.to_euclidean_division_equations.

(* ---------- zlen ---------- *)
Lemma zlen_app {A} (a b : list A) : zlen (a ++ b) = zlen a + zlen b.
Proof. unfold zlen. rewrite app_length. lia. Qed.
Lemma zlen_nil {A} : zlen (@nil A) = 0.
Proof. reflexivity. Qed.
Lemma zlen_cons {A} (x : A) l : zlen (x :: l) = 1 + zlen l.
Proof. unfold zlen. cbn [length]. lia. Qed.
Lemma zlen_nonneg {A} (l : list A) : 0 <= zlen l.
Proof. unfold zlen. lia. Qed.
Lemma zlen_repeat {A} (x : A) k : zlen (repeat x k) = Z.of_nat k.
Proof. unfold zlen. now rewrite repeat_length. Qed.

(* ---------- existsb (Z.eqb x) ---------- *)
Lemma existsb_eqb_in x l : existsb (Z.eqb x) l = true <-> In x l.
Proof.
  rewrite existsb_exists. split.
  - intros (y & Hy & E). apply Z.eqb_eq in E. now subst.
  - intros H. exists x. split; [exact H|apply Z.eqb_refl].
Qed.
Lemma existsb_eqb_notin x l : existsb (Z.eqb x) l = false <-> ~ In x l.
Proof. rewrite <- existsb_eqb_in. destruct (existsb (Z.eqb x) l); split; congruence. Qed.
Lemma existsb_app_false {A} (p : A -> bool) a b :
  existsb p (a ++ b) = false <-> existsb p a = false /\ existsb p b = false.
Proof. rewrite existsb_app. apply orb_false_iff. Qed.
Lemma existsb_false_forall {A} (p : A -> bool) l : existsb p l = false <-> forall x, In x l -> p x = false.
Proof.
  induction l as [|a l IH]; cbn [existsb In]; [split; [intros _ x []|reflexivity]|].
  rewrite orb_false_iff, IH. split.
  - intros [Ha Hl] x [<-|Hx]; auto.
  - intros H. split; [apply H; now left|intros x Hx; apply H; now right].
Qed.

(* ---------- firstn / skipn ---------- *)
Lemma firstn_exact {A} (a b : list A) n : n = length a -> firstn n (a ++ b) = a.
Proof. intros ->. rewrite firstn_app, Nat.sub_diag, firstn_all. cbn [firstn]. apply app_nil_r. Qed.
Lemma skipn_exact {A} (a b : list A) n : n = length a -> skipn n (a ++ b) = b.
Proof. intros ->. rewrite skipn_app, Nat.sub_diag, skipn_all. reflexivity. Qed.
Lemma skipn_repeat {A} (x : A) m k : skipn m (repeat x k) = repeat x (k - m).
Proof.
  revert k; induction m as [|m IH]; intros k; [now rewrite Nat.sub_0_r|].
  destruct k as [|k]; [reflexivity|]. cbn [repeat skipn]. rewrite IH. reflexivity.
Qed.
Lemma firstn_length_exact {A} n (l : list A) : (n <= length l)%nat -> length (firstn n l) = n.
Proof. intros H. rewrite firstn_length. lia. Qed.
Lemma nth_firstn_lt {A} (l : list A) n i d : (i < n)%nat -> nth i (firstn n l) d = nth i l d.
Proof.
  revert l i; induction n as [|n IH]; intros l i Hi; [lia|].
  destruct l as [|x l]; [now destruct i|]. destruct i as [|i]; [reflexivity|].
  cbn [firstn nth]. apply IH. lia.
Qed.
Lemma nth_skipn_plus {A} (l : list A) k i d : nth i (skipn k l) d = nth (k + i) l d.
Proof.
  revert l; induction k as [|k IH]; intros l; [reflexivity|].
  destruct l as [|x l]; [now destruct i|]. cbn [skipn Nat.add nth]. apply IH.
Qed.
Lemma firstn_skipn_comm' {A} (l : list A) a b : firstn a (skipn b l) = skipn b (firstn (b + a) l).
Proof. now rewrite firstn_skipn_comm. Qed.

(* ---------- path_join ---------- *)
Lemma path_join_cases a b :
  (path_join a b = b /\ (a = [] \/ exists r, b = 47 :: r)) \/
  ((forall r, b <> 47 :: r) /\ (path_join a b = a ++ b \/ path_join a b = a ++ [47] ++ b)).
Proof.
  destruct b as [|c b].
  - right. split; [discriminate|]. unfold path_join. destruct a as [|a0 a]; [left; reflexivity|].
    destruct (ends_with_slash (a0 :: a)); auto.
  - destruct (Z.eq_dec c 47) as [->|Hc]; [left; split; [reflexivity|right; now exists b]|].
    assert (E : path_join a (c :: b) = match a with [] => c :: b | _ => if ends_with_slash a then a ++ c :: b else a ++ [47] ++ c :: b end).
    { unfold path_join. destruct c as [|p|p]; try reflexivity.
      repeat (destruct p as [p|p|]; try reflexivity). congruence. }
    rewrite E. destruct a as [|a0 a]; [left; split; [reflexivity|now left]|].
    right. split; [intros r Hr; congruence|]. destruct (ends_with_slash (a0 :: a)); auto.
Qed.
Lemma path_join_in a b x : In x (path_join a b) -> In x a \/ x = 47 \/ In x b.
Proof.
  intros H. destruct (path_join_cases a b) as [[E _]|[_ [E|E]]]; rewrite E in H.
  - auto.
  - apply in_app_or in H. tauto.
  - apply in_app_or in H. destruct H as [H|H]; [auto|].
    apply in_app_or in H. destruct H as [[H|[]]|H]; auto.
Qed.
Lemma path_join_suffix a b : (forall r, b <> 47 :: r) -> exists p, path_join a b = p ++ b.
Proof.
  intros Hb. destruct (path_join_cases a b) as [[E _]|[_ [E|E]]]; rewrite E.
  - now exists [].
  - now exists a.
  - exists (a ++ [47]). now rewrite <- app_assoc.
Qed.

(* ---------- NoDup ---------- *)
Lemma NoDup_snoc {A} (l : list A) x : NoDup l -> ~ In x l -> NoDup (l ++ [x]).
Proof.
  induction 1 as [|y l Hy Hl IH]; intros Hx; cbn [app].
  - constructor; [intros []|constructor].
  - constructor.
    + intros Hin. apply in_app_or in Hin. destruct Hin as [Hin|[Hin|[]]]; [contradiction|].
      subst. apply Hx. now left.
    + apply IH. intros Hin. apply Hx. now right.
Qed.
