(* Proofs/EffectState.v — from a list of effects to the state of the file system (last write wins),
   and its use on the disk extractor: every listed file ends up in its side directory with its bytes. *)
From Coq Require Import ZArith List Bool Lia.
Require Import PyBase GenDisk Disk ThomsonDos DiskDefs BasicLemmasB TapeStateProofs.
Import ListNotations.
Open Scope Z_scope.

Definition write_paths (es : list effect) : list (list Z) :=
  flat_map (fun e => match e with WriteFile p _ => [p] | MkDir _ => [] end) es.

Lemma write_paths_app a b : write_paths (a ++ b) = write_paths a ++ write_paths b.
Proof. unfold write_paths. apply flat_map_app. Qed.

Lemma apply_effects_app fs a b : apply_effects fs (a ++ b) = apply_effects (apply_effects fs a) b.
Proof. unfold apply_effects. apply fold_left_app. Qed.

Lemma read_not_written : forall (es : list effect) (fs : fsmap) (p : list Z),
  ~ In p (write_paths es) -> fs_read (apply_effects fs es) p = fs_read fs p.
Proof.
  induction es as [|e es IH]; intros fs p Hn; [reflexivity|].
  change (apply_effects fs (e :: es)) with (apply_effects (apply_effect fs e) es).
  destruct e as [q c|q].
  - change (write_paths (WriteFile q c :: es)) with (q :: write_paths es) in Hn. cbn [In] in Hn.
    rewrite IH by (intros H; apply Hn; now right).
    cbn [apply_effect fs_read]. rewrite zeqb_list_false; [reflexivity|]. intros E. apply Hn. left. now symmetry.
  - change (write_paths (MkDir q :: es)) with (write_paths es) in Hn.
    rewrite IH by exact Hn. reflexivity.
Qed.

(* TOP (generic): a path written exactly once holds what was written there *)
Theorem read_unique_write : forall (es : list effect) (fs : fsmap) (p c : list Z),
  NoDup (write_paths es) -> In (WriteFile p c) es -> fs_read (apply_effects fs es) p = Some c.
Proof.
  intros es fs p c Hnd Hin. destruct (in_split _ _ Hin) as (es1 & es2 & ->).
  rewrite write_paths_app in Hnd.
  change (write_paths (WriteFile p c :: es2)) with (p :: write_paths es2) in Hnd.
  apply NoDup_remove_2 in Hnd.
  rewrite apply_effects_app.
  change (apply_effects (apply_effects fs es1) (WriteFile p c :: es2))
    with (apply_effects ((p, c) :: apply_effects fs es1) es2).
  rewrite read_not_written by (intros H; apply Hnd; apply in_or_app; now right).
  cbn [fs_read]. now rewrite zeqb_list_refl.
Qed.

Lemma in_indexed {A} (l : list A) (i : nat) (x : A) : nth_error l i = Some x -> In (i, x) (indexed l).
Proof.
  unfold indexed. intros H.
  assert (Hi : (i < length l)%nat) by (apply nth_error_Some; congruence).
  pose proof (nth_error_nth l i x H) as Hn.
  replace (i, x) with (nth i (combine (seq 0 (length l)) l) (0%nat, x)).
  - apply nth_In. rewrite combine_length, seq_length. lia.
  - rewrite combine_nth by (now rewrite seq_length). rewrite seq_nth by exact Hi. now rewrite Hn.
Qed.

(* TOP (disk): the effects of an extraction, applied to any directory state: each listed file of
   side i is then read back, with its bytes, at side<i>/LABEL - provided no two listed files claim
   the same path *)
Theorem disk_extract_directory : forall (target : list Z) (files : list (list dos_file)) (fs0 : fsmap)
  (i : nat) (fl : list dos_file) (f : dos_file),
  NoDup (write_paths (flat_map (side_effects target) (indexed files))) ->
  nth_error files i = Some fl -> In f fl ->
  fs_read (apply_effects fs0 (flat_map (side_effects target) (indexed files)))
          (path_join (side_dir target i) (dos_label f)) = Some (d_content f).
Proof.
  intros target files fs0 i fl f Hnd Hi Hf.
  apply read_unique_write; [exact Hnd|].
  apply in_flat_map. exists (i, fl). split; [now apply in_indexed|].
  unfold side_effects. cbn [fst snd]. right.
  apply in_map_iff. exists f. split; [reflexivity|exact Hf].
Qed.
